(* driver for the extracted C16 model (module Libpmmodel); same case and result format as harness/libpm_h.c:
     <id> <ops> <chunks>            ->  <id> <op>=<rc>:<consumed>:<senthex>:<payload>;...   [ CRASH <site>]
     <id> cli <npre> <streamhex>    ->  <id> cli <status> <stdouthex> <stderr events> <terminal codes>
   (dlib.ml is prepended by vlib.ocaml_driver) *)
let split_on c s = String.split_on_char c s
let zstr z = dec_of_z z
let total chunks = List.fold_left (fun a c -> a + List.length c) 0 chunks
let hexlist l = if l = [] then "_" else String.concat "," (List.map hex_of_text l)

let parse_op s =
  let arg () = text_of_hex (String.sub s 2 (String.length s - 2)) in
  match s.[0] with
  | 'c' -> OpConnect | 's' -> OpStatus (arg ()) | '1' -> OpOn (arg ()) | '0' -> OpOff (arg ()) | 'y' -> OpCycle (arg ())
  | 'n' -> OpNodes | 'r' -> OpRecv | 'd' -> OpDisconnect
  | _ -> failwith ("bad op " ^ s)
let op_name = function
  | OpConnect -> "c" | OpStatus _ -> "s" | OpOn _ -> "1" | OpOff _ -> "0" | OpCycle _ -> "y" | OpNodes -> "n" | OpRecv -> "r" | OpDisconnect -> "d"

let lib_case id opss chunkss =
  let ops = List.map parse_op (split_on ',' opss) in
  let chunks = if chunkss = "_" then [] else List.map (fun h -> if h = "-" then [] else text_of_hex h) (split_on ',' chunkss) in
  let (results, err) = run_session ops chunks in
  let b = Buffer.create 256 in
  Buffer.add_string b id; Buffer.add_char b ' ';
  let before = ref (total chunks) in
  let rec go ops results first =
    match ops, results with
    | o :: ops', r :: results' ->
        if not first then Buffer.add_char b ';';
        let left = total r.r_left in
        Buffer.add_string b (Printf.sprintf "%s=%s:%d:%s:" (op_name o) (zstr r.r_rc) (!before - left) (hex_of_text r.r_sent));
        before := left;
        (match r.r_pay with
         | PNone -> ()
         | PState st -> Buffer.add_string b (zstr st)
         | PNodes l -> Buffer.add_string b (hexlist l ^ "/" ^ hexlist l)
         | PLines l -> Buffer.add_string b (hexlist l));
        go ops' results' false
    | _ -> ()
  in
  go ops results true;
  (match err with Some site -> Buffer.add_string b (Printf.sprintf " CRASH %d" (int_of_nat site)) | None -> ());
  print_endline (Buffer.contents b)

let cli_case id npre streamh =
  let stream = text_of_hex streamh in
  match cli (nat_of_int (int_of_string npre)) stream with
  | Ok r ->
      let evs = List.map (function EDiag t -> "D:" ^ hex_of_text t | EWarn v -> "W:" ^ hex_of_text v) r.c_stderr
                @ (match r.c_fatal with Some s -> ["F:" ^ string_of_int (int_of_nat s)] | None -> []) in
      Printf.printf "%s cli %s %s %s %s\n" id (zstr r.c_status) (hex_of_text r.c_stdout)
        (if evs = [] then "_" else String.concat "," evs)
        (if r.c_terms = [] then "_" else String.concat "," (List.map zstr r.c_terms))
  | MemErr s -> Printf.printf "%s cli CRASH %d\n" id (int_of_nat s)
  | _ -> Printf.printf "%s cli CRASH 0\n" id

let () =
  try
    while true do
      let l = input_line stdin in
      (match words l with
       | [id; "cli"; npre; stream] -> cli_case id npre stream
       | [id; ops; chunks] -> lib_case id ops chunks
       | [] -> ()
       | _ -> failwith ("bad case line: " ^ (if String.length l > 80 then String.sub l 0 80 else l)));
      flush stdout
    done
  with End_of_file -> ()
