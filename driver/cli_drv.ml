(* R-CLIENT model side: the extracted multi-client world (Model/CliWorld.wstep over Model/Client).  stdin:
     VERSION <hex>
     NODES <nodehex,...>                           conf_nodes in order (as the C dumped them)
     ALIAS <namehex> <memberhex,...>               in conf_aliases list order
     DEVTAB <namehex> <spechex> <i,i,..|-> <plughex:nodehex|-,...|->
     ENDDEFS
     then the ops of harness/cli_h.c.  Output format identical to cli_h.c.
   Client k of the case is the k-th connection, whose id is CLI_ID_FIRST + k (the world hands ids out itself).
   A completion / telemetry / diagnostic "of client k" is the callback of the first queued action tagged with k's id.
   PROTO <tag> <hex> : the extracted recogniser Spec/Proto on a byte stream (the monitor of C15/C06):
                       prints  PROTO <tag> ok=<b> rest=<b> prefix=<b> terminals=<n>  *)
external pm_expand : string -> string = "pm_expand"
external pm_compress : string -> string = "pm_compress"
external pm_ranged_plain : string -> string = "pm_ranged_plain"
external pm_sorted : string -> string = "pm_sorted"
let joinn l = String.concat "\n" (List.map string_of_text l)
let splitn s = if s = "" then [] else List.map text_of_string (String.split_on_char '\n' s)
(* devstub's pm_expand signals NULL by the one-byte string "\001", which is also the expansion of the host name "\001":
   tell the two apart by expanding the argument with one more host appended *)
let expand_str t =
  let s = string_of_text t in
  let r = pm_expand s in
  if r = "\001" && pm_expand (s ^ ",q") = "\001" then None else Some (splitn r)
let ranged_sorted l = text_of_string (pm_compress (joinn l))
let ranged_plain l = text_of_string (pm_ranged_plain (joinn l))
let sorted l = splitn (pm_sorted (joinn l))
let split c s = if s = "-" || s = "" then [] else String.split_on_char c s
let step w e = wstep expand_str ranged_sorted ranged_plain sorted w e

let () =
  let version = ref [] and nodes = ref [] and aliases = ref [] and devs = ref [] in
  let w = ref (world0 { cf_nodes = []; cf_aliases = []; cf_devs = [] }) in
  let first_id = ref 1 in
  let seen = Array.make 16 0 in
  let nc = ref 0 in
  let dead = ref false in
  let id_of k = z_of_int (!first_id + k) in
  let client k = find_client !w.w_clients (id_of k) in
  let outputs () =
    for k = 0 to !nc - 1 do
      match client k with
      | None -> ()
      | Some c ->
        let o = string_of_text c.cl_out in
        if String.length o > seen.(k) then begin
          Printf.printf "OUT %d %s\n" k (hex_of_string (String.sub o seen.(k) (String.length o - seen.(k)))); seen.(k) <- String.length o end
    done in
  let apply e = match step !w e with Ok w' -> w := w' | _ -> print_endline "OUTCOME Abort"; dead := true in
  (* index of the first queued action tagged with client k's id *)
  let action_of k =
    let rec go i = function [] -> None | e :: r -> if int_of_z e.qe_client = !first_id + k then Some i else go (i + 1) r in
    go 0 !w.w_queue in
  let dev_index name = let rec go i = function [] -> -1 | d :: r -> if d.cd_edev.ed_name = name then i else go (i + 1) r in go 0 !w.w_cf.cf_devs in
  List.iter (fun l -> if not !dead then
    match words l with
    | ["VERSION"; v] -> version := text_of_hex v
    | ["NODES"; ns] -> nodes := List.map text_of_hex (split ',' ns)
    | ["ALIAS"; n; ms] -> aliases := !aliases @ [ (text_of_hex n, List.map text_of_hex (split ',' ms)) ]
    | ["DEVTAB"; name; spec; scripts; plugs] ->
        let pl = List.map (fun pn -> match String.split_on_char ':' pn with
                   | [p; n] -> { pl_name = text_of_hex p; pl_node = (if n = "-" then None else Some (text_of_hex n)) }
                   | _ -> failwith "plug") (split ',' plugs) in
        devs := !devs @ [ { cd_edev = { ed_name = text_of_hex name; ed_plugs = pl; ed_scripts = List.map (fun s -> z_of_int (int_of_string s)) (split ',' scripts) };
                            cd_spec = text_of_hex spec; cd_state = Z0; cd_conn = Z0; cd_acts = Z0 } ]
    | ["ENDDEFS"] -> w := world0 { cf_nodes = !nodes; cf_aliases = !aliases; cf_devs = !devs }; first_id := int_of_z !w.w_next
    | ["CONN"] -> apply (WConnect !version); incr nc; outputs (); print_endline "END"
    | ["DROP"; k] -> apply (WDrop (id_of (int_of_string k))); outputs (); print_endline "END"
    | ["BYTES"; k; hx] ->
        let k = int_of_string k in
        (match client k with
         | None -> print_endline "GONE"; print_endline "END"
         | Some _ ->
          (* cbuf_read_line: complete lines only, each including its newline; the rest stays buffered (cases send whole lines) *)
          let data = string_of_hex hx in
          let lines = let rec go s acc = match String.index_opt s '\n' with
                        | Some i -> go (String.sub s (i + 1) (String.length s - i - 1)) (String.sub s 0 (i + 1) :: acc)
                        | None -> List.rev acc in go data [] in
          let before = List.length !w.w_queue in
          List.iter (fun ln -> if not !dead then apply (WLine (id_of k, text_of_string ln))) lines;
          let fresh = let rec drop n l = if n = 0 then l else match l with [] -> [] | _ :: r -> drop (n - 1) r in drop before !w.w_queue in
          (* the C dumps device by device *)
          let fresh = List.stable_sort (fun a b -> compare (dev_index a.qe_dev) (dev_index b.qe_dev)) fresh in
          if fresh <> [] then begin
            print_string "QUEUED ";
            List.iter (fun e -> Printf.printf "%d:%d:%s;" (dev_index e.qe_dev) (int_of_z e.qe_act.qa_com)
              (match e.qe_act.qa_plugs with None -> "NULL" | Some [] -> "EMPTY" | Some ps -> String.concat "," (List.map (fun p -> hex_of_text p.pl_name) ps))) fresh;
            print_newline () end;
          outputs (); print_endline "END")
    | ["DONE1"; k; err; msg] ->
        let k = int_of_string k in
        (match client k, action_of k with
         | None, Some i -> apply (WComplete (nat_of_int i, z_of_int (int_of_string err), text_of_hex msg)); print_endline "ORPHAN"
         | None, None -> print_endline "ORPHAN"
         | Some c, _ when c.cl_cmd = None -> print_endline "SKIP"
         | Some _, Some i -> apply (WComplete (nat_of_int i, z_of_int (int_of_string err), text_of_hex msg))
         | Some _, None -> print_endline "OUTCOME NoAction"; dead := true);
        outputs (); print_endline "END"
    | ["DONEALL"; k; errs; msg] ->
        let k = int_of_string k in
        (match client k with
         | None -> print_endline "GONE"
         | Some c when c.cl_cmd = None -> print_endline "SKIP"
         | Some _ ->
           let i = ref 0 in
           let busy () = match client k with Some c -> c.cl_cmd <> None | None -> false in
           while busy () && not !dead do
             (match action_of k with
              | Some j -> apply (WComplete (nat_of_int j, z_of_int (Char.code errs.[!i mod String.length errs] - 48), text_of_hex msg))
              | None -> print_endline "OUTCOME NoAction"; dead := true);
             incr i done);
        outputs (); print_endline "END"
    | ["ARG"; k; node; st; res; v] ->
        let k = int_of_string k in
        (match client k with
         | None -> print_endline "GONE"
         | Some c ->
          (match c.cl_cmd with
           | None -> print_endline "SKIP"
           | Some cmd ->
             let i = int_of_nat cmd.k_args in
             let al = List.nth !w.w_store i in
             (match arg_find al (text_of_hex node) with
              | None -> print_endline "NOARG"
              | Some _ ->
                (* the harness pokes all three fields at once (incl. val = NULL), which no single script statement does *)
                let al' = arg_update al (text_of_hex node) (fun x -> { ar_node = x.ar_node; ar_state = z_of_int (int_of_string st); ar_result = z_of_int (int_of_string res);
                                                                       ar_val = (if v = "~" then None else Some (text_of_hex v)) }) in
                w := { !w with w_store = List.mapi (fun j x -> if j = i then al' else x) !w.w_store })));
        outputs (); print_endline "END"
    | ["TELE"; k; hx] | ["DIAG"; k; hx] ->
        let tele = (List.hd (words l) = "TELE") in
        let k = int_of_string k in
        (match client k, action_of k with
         | None, Some i -> apply (if tele then WTele (nat_of_int i, text_of_hex hx) else WDiag (nat_of_int i, text_of_hex hx)); print_endline "ORPHAN"
         | None, None -> print_endline "ORPHAN"
         | Some c, _ when c.cl_cmd = None -> print_endline "SKIP"
         | Some _, Some i -> apply (if tele then WTele (nat_of_int i, text_of_hex hx) else WDiag (nat_of_int i, text_of_hex hx))
         | Some _, None -> print_endline "OUTCOME NoAction"; dead := true);
        outputs (); print_endline "END"
    | ["PROTO"; tag; hx] ->
        let s = text_of_hex hx in
        let nt = match tokens s with Some ts -> int_of_nat (terminals ts) | None -> -1 in
        Printf.printf "PROTO %s ok=%b rest=%b prefix=%b terminals=%d\n" tag (ok s) (ok_rest s) (ok_prefix s) nt
    | _ -> ()) (read_lines ())
