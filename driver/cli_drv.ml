(* R-CLIENT model side.  stdin:
     VERSION <hex>
     NODES <nodehex,...>                           conf_nodes in order (as the C dumped them)
     ALIAS <namehex> <memberhex,...>               in conf_aliases list order
     DEVTAB <namehex> <spechex> <i,i,..|-> <plughex:nodehex|-,...|->
     ENDDEFS
     then the ops of harness/cli_h.c.  Output format identical to cli_h.c. *)
external pm_expand : string -> string = "pm_expand"
external pm_compress : string -> string = "pm_compress"
external pm_ranged_plain : string -> string = "pm_ranged_plain"
external pm_sorted : string -> string = "pm_sorted"
let joinn l = String.concat "\n" (List.map string_of_text l)
let splitn s = if s = "" then [] else List.map text_of_string (String.split_on_char '\n' s)
let expand_str t = let r = pm_expand (string_of_text t) in if r = "\001" then None else Some (splitn r)
let ranged_sorted l = text_of_string (pm_compress (joinn l))
let ranged_plain l = text_of_string (pm_ranged_plain (joinn l))
let sorted l = splitn (pm_sorted (joinn l))
let split c s = if s = "-" || s = "" then [] else String.split_on_char c s

let () =
  let version = ref [] and nodes = ref [] and aliases = ref [] and devs = ref [] in
  let cf = ref { cf_nodes = []; cf_aliases = []; cf_devs = [] } in
  let store = ref [] in
  let clients : client array = Array.make 16 (new_client Z0 []) in
  let seen = Array.make 16 0 in
  let nc = ref 0 and nextid = ref 1 in
  let outputs () =
    for k = 0 to !nc - 1 do
      let o = string_of_text clients.(k).cl_out in
      if String.length o > seen.(k) then begin
        Printf.printf "OUT %d %s\n" k (hex_of_string (String.sub o seen.(k) (String.length o - seen.(k)))); seen.(k) <- String.length o end
    done in
  let dead = ref false in
  let finish k err msg =
    match act_finish ranged_sorted clients.(k) !store (z_of_int err) msg with
    | Ok c -> clients.(k) <- c
    | _ -> print_endline "OUTCOME Abort"; dead := true in
  List.iter (fun l -> if not !dead then
    match words l with
    | ["VERSION"; v] -> version := text_of_hex v
    | ["NODES"; ns] -> nodes := List.map text_of_hex (split ',' ns)
    | ["ALIAS"; n; ms] -> aliases := !aliases @ [ (text_of_hex n, List.map text_of_hex (split ',' ms)) ]
    | ["DEVTAB"; name; spec; scripts; plugs] ->
        let pl = List.map (fun pn -> match String.split_on_char ':' pn with
                   | [p; n] -> { pl_name = text_of_hex p; pl_node = (if n = "-" then None else Some (text_of_hex n)) }
                   | _ -> failwith "plug") (split ',' plugs) in
        devs := !devs @ [ { cd_edev = { ed_name = text_of_hex name; ed_plugs = pl; ed_scripts = List.map (fun s -> z_of_int (int_of_string s)) (split ',' scripts) };
                            cd_spec = text_of_hex spec; cd_state = Z0; cd_conn = Z0; cd_acts = Z0 } ]
    | ["ENDDEFS"] -> cf := { cf_nodes = !nodes; cf_aliases = !aliases; cf_devs = !devs }
    | ["CONN"] -> clients.(!nc) <- new_client (z_of_int !nextid) !version; incr nextid; incr nc; outputs (); print_endline "END"
    | ["BYTES"; k; hx] ->
        let k = int_of_string k in
        (* cbuf_read_line: complete lines only, each including its newline; the rest stays buffered (cases send whole lines) *)
        let data = string_of_hex hx in
        let lines = let rec go s acc = match String.index_opt s '\n' with
                      | Some i -> go (String.sub s (i + 1) (String.length s - i - 1)) (String.sub s 0 (i + 1) :: acc)
                      | None -> List.rev acc in go data [] in
        let queued = Buffer.create 64 in
        List.iter (fun ln ->
          let (((cf', store'), c'), q) = parse_input expand_str ranged_sorted ranged_plain sorted !cf !store clients.(k) (text_of_string ln) in
          cf := cf'; store := store'; clients.(k) <- c';
          List.iteri (fun i (_, acts) -> List.iter (fun a ->
            Buffer.add_string queued (Printf.sprintf "%d:%d:%s;" i (int_of_z a.qa_com)
              (match a.qa_plugs with None -> "NULL" | Some [] -> "EMPTY" | Some ps -> String.concat "," (List.map (fun p -> hex_of_text p.pl_name) ps)))) acts) q) lines;
        if Buffer.length queued > 0 then Printf.printf "QUEUED %s\n" (Buffer.contents queued);
        outputs (); print_endline "END"
    | ["DONE1"; k; err; msg] ->
        let k = int_of_string k in
        if clients.(k).cl_cmd = None then print_endline "SKIP" else finish k (int_of_string err) (text_of_hex msg);
        outputs (); print_endline "END"
    | ["DONEALL"; k; errs; msg] ->
        let k = int_of_string k in
        if clients.(k).cl_cmd = None then print_endline "SKIP"
        else begin let i = ref 0 in
          while clients.(k).cl_cmd <> None && not !dead do
            finish k (Char.code errs.[!i mod String.length errs] - 48) (text_of_hex msg); incr i done end;
        outputs (); print_endline "END"
    | ["ARG"; k; node; st; res; v] ->
        let k = int_of_string k in
        (match clients.(k).cl_cmd with
         | None -> print_endline "SKIP"
         | Some cmd ->
           let i = int_of_nat cmd.k_args in
           let al = List.nth !store i in
           (match arg_find al (text_of_hex node) with
            | None -> print_endline "NOARG"
            | Some _ ->
              let al' = arg_update al (text_of_hex node) (fun x -> { ar_node = x.ar_node; ar_state = z_of_int (int_of_string st); ar_result = z_of_int (int_of_string res);
                                                                     ar_val = (if v = "~" then None else Some (text_of_hex v)) }) in
              store := List.mapi (fun j x -> if j = i then al' else x) !store));
        outputs (); print_endline "END"
    | ["TELE"; k; hx] -> let k = int_of_string k in (if clients.(k).cl_cmd = None then print_endline "SKIP" else clients.(k) <- telemetry clients.(k) (text_of_hex hx)); outputs (); print_endline "END"
    | ["DIAG"; k; hx] -> let k = int_of_string k in (if clients.(k).cl_cmd = None then print_endline "SKIP" else clients.(k) <- diag clients.(k) (text_of_hex hx)); outputs (); print_endline "END"
    | _ -> ()) (read_lines ())
