(* R-XPOLL model side: same case lines as harness/xpoll_h.c: <tv_usec|-> <start> <reading at EINTR 1> ... *)
let () =
  List.iter (fun l ->
    match words l with
    | tv :: rest when rest <> [] || tv = "-" ->
        let tvo = if tv = "-" then None else Some (z_of_dec tv) in
        let clk = List.map z_of_dec rest in
        let (start, intr) = match tvo, clk with
          | None, _ -> (Z0, clk)                      (* without a time-out xpoll never reads the clock: every reading = one EINTR *)
          | Some _, s :: r -> (s, r)
          | Some _, [] -> (Z0, []) in
        print_string "T";
        List.iter (fun ms -> print_string (" " ^ dec_of_z ms)) (xpoll_timeouts tvo start intr);
        print_newline ()
    | _ -> ()) (read_lines ())
