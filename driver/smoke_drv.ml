let () = List.iter (fun l -> print_endline (hex_of_text (smoke (text_of_hex l)))) (read_lines ());
  print_endline (dec_of_n (n_of_dec "18446744073709551615")); print_endline (dec_of_z (z_of_dec "-123456789012345678901"))
