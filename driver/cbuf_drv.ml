(* driver for the extracted C09 models and specs (module Cbufmodel; dlib.ml is prepended).
   modes (argv.(1)):
     model              cbuf cases on stdin (format of harness/cbuf_h.c)    -> same output format as cbuf_h
     monitor FILE       FILE = for each case the case line followed by the IMPLEMENTATION's output lines for it;
                        evaluates the FIFO laws (extracted Spec/Fifo.v) on them  -> "M id ok" | "M id FAIL op# clause detail"
     tmodel             telnet cases on stdin (format of harness/telnet_h.c)  -> same output format as telnet_h
     tmonitor FILE      as monitor, with the stream decoder TelnetSpec.parse
     tsweep Lf Lu part nparts   small-scope enumeration, same lines as `telnet_h sweep`, plus "E stream data/replies" *)
let zi = z_of_int and iz = int_of_z
let pr = print_string
let split_ops line = List.map String.trim (String.split_on_char '|' line)
let hex = hex_of_text
let pat seed k = if (k + seed) mod 23 = 0 then 10 else (seed + k * 7 + (k / 256) * 13) land 255
let pat_bytes n seed = List.init (max n 0) (fun k -> n_of_int (pat seed k))
let items s = if s = "-" || s = "" then [] else String.split_on_char ',' s
let rd_script s = List.map (fun it ->
    if it = "e" then FdAgain else if it = "z" then FdEof
    else FdData (text_of_hex (String.sub it 1 (String.length it - 1)))) (items s)
let wr_script s = List.map (fun it -> zi (int_of_string it)) (items s)
let rec fd_pending = function [] -> 0 | FdData b :: r -> List.length b + fd_pending r | _ :: r -> fd_pending r
let idx cb = Printf.sprintf " ; %d %d %d %d %d %d" (iz cb.cb_size) (iz cb.cb_used) (iz cb.cb_i_in) (iz cb.cb_i_out) (iz cb.cb_i_rep) (if cb.cb_got_wrap then 1 else 0)
let bytes_of_op w = match w with
  | "w" :: h :: _ -> text_of_hex h
  | "w" :: [] -> []
  | "W" :: n :: seed :: _ -> pat_bytes (int_of_string n) (int_of_string seed)
  | _ -> []

(* ------------------------------------------------------------------ cbuf model *)
let cbuf_case line =
  match split_ops line with
  | [] -> ()
  | hdr :: ops ->
    (match words hdr with
     | [id; mn; mx] ->
       (match create (zi (int_of_string mn)) (zi (int_of_string mx)) with
        | None -> Printf.printf "C %s 0\n" id
        | Some cb0 ->
          Printf.printf "C %s 1\n" id;
          let cb = ref cb0 in
          List.iter (fun op ->
              let w = words op in
              (* every operation goes through Cbuf.step, the function the refinement theorem C09_cbuf_refines is about *)
              let arg n = zi (int_of_string n) in
              let script rest = (match rest with s :: _ -> s | [] -> "-") in
              let o = (match w with
                  | ("w" | "W") :: _ -> Some (OWrite (bytes_of_op w))
                  | ["p"; n] -> Some (OPeek (arg n))
                  | ["r"; n] -> Some (ORead (arg n))
                  | ["d"; n] -> Some (ODrop (arg n))
                  | ["l"; len; lines] -> Some (OReadLine (arg len, arg lines))
                  | ["k"; len; lines] -> Some (OPeekLine (arg len, arg lines))
                  | "f" :: len :: rest -> Some (OWriteFd (rd_script (script rest), arg len))
                  | "t" :: len :: rest -> Some (OReadFd (wr_script (script rest), arg len))
                  | ["x"] -> Some OFlush
                  | ["u"] -> Some OUsed
                  | _ -> None) in
              (match w, o with
               | [], _ -> ()
               | ["o"; v], _ -> let (cb', r) = opt_set_overwrite !cb (zi (int_of_string v)) in cb := cb'; Printf.printf "o %d" (iz r)
               | c :: _, None -> Printf.printf "? unknown op %s" c
               | c :: _, Some o ->
                 let (cb', r) = step !cb o in
                 let before = !cb in
                 cb := cb';
                 (match o with
                  | OWrite _ -> Printf.printf "%s %d %d" c (iz r.o_ret) (iz r.o_dropped)
                  | OPeek _ | ORead _ | OReadFd _ -> Printf.printf "%s %d %s" c (iz r.o_ret) (hex r.o_bytes)
                  | ODrop _ -> Printf.printf "d %d" (iz r.o_ret)
                  | OReadLine _ | OPeekLine _ -> Printf.printf "%s %d %s 1" c (iz r.o_ret) (hex r.o_bytes)
                  | OWriteFd (scr, _) -> Printf.printf "f %d %d %d" (iz r.o_ret) (iz r.o_dropped) (fd_pending scr - fd_pending r.o_fd)
                  | OFlush -> pr "x"
                  | OUsed -> Printf.printf "u %d %d %d" (iz r.o_ret) (iz (free before)) (if is_empty before then 1 else 0)));
              if w <> [] then (pr (idx !cb); pr "\n")) ops)
     | _ -> pr "? bad header\n")

(* ------------------------------------------------------------------ cbuf monitor (FIFO laws on the implementation's output) *)
exception Fail of string * string
let check c clause detail = if not c then raise (Fail (clause, detail))
let ints l = List.map int_of_string l

let read_file f = let ic = open_in f in
  let rec go acc = match input_line ic with l -> go (l :: acc) | exception End_of_file -> close_in ic; List.rev acc in go []

(* groups: case line (does not start with an output letter followed by space... we mark case lines with "@ ") *)
let rec groups = function
  | [] -> []
  | l :: r when String.length l > 2 && String.sub l 0 2 = "@ " ->
    let rec take acc = function
      | x :: r' when not (String.length x > 2 && String.sub x 0 2 = "@ ") -> take (x :: acc) r'
      | r' -> (List.rev acc, r') in
    let (outs, rest) = take [] r in
    (String.sub l 2 (String.length l - 2), outs) :: groups rest
  | _ :: r -> groups r

let split_state l = List.map String.trim (String.split_on_char ';' l)

let cbuf_monitor (case, outs) =
  match split_ops case with
  | [] -> ()
  | hdr :: ops ->
    let ops = List.filter (fun o -> words o <> []) ops in
    (match words hdr with
     | [id; mn; mx] ->
       let mn = int_of_string mn and mx = int_of_string mx in
       let opno = ref 0 in
       (try
          (match outs with
           | [] -> raise (Fail ("output", "no output for the case"))
           | c :: outs ->
             let created = (match words c with ["C"; _; "1"] -> true | _ -> false) in
             check (created = (mn > 0)) "create" "cbuf_create result";
             if created then begin
               let cap = zi (max mn mx) in
               let q = ref [] and mode = ref (iz cBUF_DEFAULT_OVERWRITE) in
               check (List.length outs = List.length ops) "output" (Printf.sprintf "%d output lines for %d ops" (List.length outs) (List.length ops));
               List.iter2 (fun op out ->
                   incr opno;
                   let w = words op in
                   let (res, st) = (match split_state out with [r; s] -> (words r, ints (words s)) | _ -> raise (Fail ("output", out))) in
                   let qlen0 = iz (qlen !q) in
                   (match w, res with
                    | ("w" | "W") :: _, [_; ret; dr] ->
                      let bs = bytes_of_op w in
                      let len = List.length bs and ret = int_of_string ret and dr = int_of_string dr in
                      if len = 0 then (check (ret = 0 && dr = 0) "write" "empty write")
                      else begin
                        let capi = iz cap in
                        let k = if !mode = iz cBUF_WRAP_MANY then len
                          else if !mode = iz cBUF_WRAP_ONCE then min len capi
                          else min len (capi - qlen0) in
                        if k = 0 then check (ret = -1 && dr = 0) "write" "NO_DROP on a full buffer must return -1"
                        else begin
                          let bs' = fifo_peek bs (zi k) in
                          check (ret = k) "write" (Printf.sprintf "returned %d, expected %d" ret k);
                          check (dr = iz (fifo_dropped cap !q bs')) "write_dropped" (Printf.sprintf "dropped %d, expected %d" dr (iz (fifo_dropped cap !q bs')));
                          q := fifo_write cap !q bs'
                        end
                      end
                    | ["p"; n], [_; ret; h] | ["r"; n], [_; ret; h] ->
                      let n = int_of_string n and ret = int_of_string ret in
                      if n < 0 then check (ret = -1) "peek" "negative length must return -1"
                      else begin
                        let e = fifo_peek !q (zi n) in
                        check (ret = List.length e) "peek" (Printf.sprintf "returned %d, expected %d" ret (List.length e));
                        check (h = hex e) "peek_bytes" (Printf.sprintf "delivered %s, expected %s" h (hex e));
                        if List.hd w = "r" then q := fifo_drop !q (zi n)
                      end
                    | ["d"; n], [_; ret] ->
                      let n = int_of_string n and ret = int_of_string ret in
                      if n < -1 then check (ret = -1) "drop" "length < -1 must return -1"
                      else begin
                        let e = if n = -1 then qlen0 else min n qlen0 in
                        check (ret = e) "drop" (Printf.sprintf "returned %d, expected %d" ret e);
                        q := fifo_drop !q (zi e)
                      end
                    | [("l" | "k"); len; lines], [_; ret; h; nul] ->
                      let len = int_of_string len and lines = int_of_string lines and ret = int_of_string ret in
                      if len < 0 || lines < -1 then check (ret = -1) "line" "bad argument must return -1"
                      else if lines = 0 then check (ret = 0) "line" "lines = 0 must return 0"
                      else begin
                        let e = iz (fifo_line_count !q (zi len) (zi lines)) in
                        check (ret = e) "line" (Printf.sprintf "returned %d, expected %d" ret e);
                        let t = if len > 0 then fifo_line_text !q (zi len) (zi lines) else [] in
                        check (h = hex t) "line_bytes" (Printf.sprintf "delivered %s, expected %s" h (hex t));
                        check (nul = "1") "line_nul" "terminator / bytes beyond it";
                        if List.hd w = "l" then q := fifo_drop !q (zi e)
                      end
                    | "f" :: _ :: rest, [_; ret; dr; ncons] ->
                      let scr = rd_script (match rest with s :: _ -> s | [] -> "-") in
                      let all = List.concat (List.map (function FdData b -> b | _ -> []) scr) in
                      let ret = int_of_string ret and dr = int_of_string dr and ncons = int_of_string ncons in
                      if ret > 0 then begin
                        check (ncons = ret) "from_fd" (Printf.sprintf "returned %d but took %d bytes from the descriptor" ret ncons);
                        let c = fifo_peek all (zi ncons) in
                        check (dr = iz (fifo_dropped cap !q c)) "from_fd_dropped" (Printf.sprintf "dropped %d, expected %d" dr (iz (fifo_dropped cap !q c)));
                        q := fifo_write cap !q c
                      end else check (ncons = 0 && dr = 0) "from_fd" "bytes taken from the descriptor but none reported"
                    | "t" :: _, [_; ret; h] ->
                      let ret = int_of_string ret in
                      if ret > 0 then begin
                        let e = fifo_peek !q (zi ret) in
                        check (List.length e = ret) "to_fd" "reported more than was queued";
                        check (h = hex e) "to_fd_bytes" (Printf.sprintf "descriptor received %s, expected %s" h (hex e));
                        q := fifo_drop !q (zi ret)
                      end else check (h = "-") "to_fd" "bytes written to the descriptor but none reported"
                    | ["x"], _ -> q := []
                    | ["u"], [_; u; f; e] ->
                      check (int_of_string u = qlen0) "used" "cbuf_used";
                      check (int_of_string f = iz cap - qlen0) "free" "cbuf_free";
                      check ((e = "1") = (qlen0 = 0)) "is_empty" "cbuf_is_empty"
                    | ["o"; v], [_; ret] ->
                      let v = int_of_string v and ret = int_of_string ret in
                      let valid = (v = iz cBUF_NO_DROP || v = iz cBUF_WRAP_ONCE || v = iz cBUF_WRAP_MANY) in
                      check (ret = (if valid then 0 else -1)) "opt_set" "return value";
                      if valid then mode := v
                    | _ -> raise (Fail ("output", "unexpected result line: " ^ out)));
                   (match st with
                    | [size; used; _; _; _; _] ->
                      check (used = iz (qlen !q)) "used" (Printf.sprintf "used = %d, the queue holds %d" used (iz (qlen !q)));
                      check (size <= iz cap && size >= mn) "size" "size outside minsize..maxsize"
                    | _ -> raise (Fail ("output", out)))) ops outs
             end);
          Printf.printf "M %s ok\n" id
        with
        | Fail (clause, detail) -> Printf.printf "M %s FAIL %d %s %s\n" id !opno clause detail
        | Invalid_argument _ | Failure _ | Not_found -> Printf.printf "M %s FAIL %d output malformed output\n" id !opno)
     | _ -> pr "M ? FAIL 0 output bad header\n")

(* ------------------------------------------------------------------ telnet model *)
let ts_int = function TELNET_NONE -> 0 | TELNET_CMD -> 1 | TELNET_OPT -> 2
let content cb = snd (peek cb (used cb))
let tstate_line d =
  Printf.sprintf " ; %s %s %d %d %d%s%s" (hex (content d.d_from)) (hex (content d.d_to)) (ts_int d.d_tcp.t_state)
    (int_of_n d.d_tcp.t_cmd) (iz d.d_errs) (idx d.d_from) (idx d.d_to)

(* the device sends bytes: reads + preprocess until the descriptor is empty *)
let arrive d bytes =
  let rec go d fd reads dropped =
    if fd_pending fd = 0 then (d, reads, dropped, false)
    else
      let (((d', e), dr), fd') = handle_read d fd in
      if e then (d', reads + 1, dropped + iz dr, true) else go d' fd' (reads + 1) (dropped + iz dr) in
  go d [FdData bytes] 0 0

let consume d n =
  let (p, b) = if n > 0 then peek d.d_from (zi n) else (Z0, []) in
  let (from', r) = drop d.d_from (zi n) in
  ({ d with d_from = from' }, iz r, b)

let telnet_case line =
  match split_ops line with
  | [] -> ()
  | hdr :: ops ->
    (match words hdr with
     | [id; mn; mx] ->
       (match dev_create (zi (int_of_string mn)) (zi (int_of_string mx)) with
        | None -> Printf.printf "C %s 0\n" id
        | Some d0 ->
          Printf.printf "C %s 1\n" id;
          let d = ref (connected d0) in
          List.iter (fun op ->
              let w = words op in
              (match w with
               | [] -> ()
               | "c" :: rest ->
                 let b = (match rest with h :: _ -> text_of_hex h | [] -> []) in
                 if b = [] then pr "c 0 0 0" else begin
                   let (d', reads, dr, e) = arrive !d b in
                   d := d'; Printf.printf "c %d %d %d" reads dr (if e then 1 else 0)
                 end
               | ["d"; n] -> let (d', r, b) = consume !d (int_of_string n) in d := d'; Printf.printf "d %d %s" r (hex b)
               | "s" :: rest ->
                 let scr = wr_script (match rest with s :: _ -> s | [] -> "-") in
                 let (((d', e), b), _) = handle_write !d scr in
                 d := d'; Printf.printf "s %d %s" (if e then 1 else 0) (hex b)
               | ["e"; n] ->
                 let n = int_of_string n in
                 (match regex_subject !d.d_from with
                  | Some subj when n >= 0 && n <= List.length subj ->
                    let (from', _) = regex_consume !d.d_from (zi n) in
                    d := { !d with d_from = from' }; Printf.printf "e 1 %s" (hex subj)
                  | _ -> pr "e 0 -")
               | ["R"] -> d := connected (disconnect !d); pr "R"
               | c :: _ -> Printf.printf "? unknown op %s" c);
              if w <> [] then (pr (tstate_line !d); pr "\n")) ops)
     | _ -> pr "? bad header\n")

(* ------------------------------------------------------------------ telnet monitor (TelnetSpec.parse on the implementation's output) *)
let rec is_prefix p l = match p, l with [], _ -> true | x :: p', y :: l' -> x = y && is_prefix p' l' | _ -> false

let telnet_monitor (case, outs) =
  match split_ops case with
  | [] -> ()
  | hdr :: ops ->
    let ops = List.filter (fun o -> words o <> []) ops in
    (match words hdr with
     | [id; mn; mx] ->
       let cap = max (int_of_string mn) (int_of_string mx) in
       let opno = ref 0 in
       (try
          (match outs with
           | [] -> raise (Fail ("output", "no output for the case"))
           | _ :: outs ->
             check (List.length outs = List.length ops) "output" (Printf.sprintf "%d output lines for %d ops" (List.length outs) (List.length ops));
             let stream = ref [] and cons = ref [] and rdel = ref [] and within = ref true in
             let from_prev = ref [] and to_prev = ref [] in
             List.iter2 (fun op out ->
                 incr opno;
                 let w = words op in
                 let (res, st) = (match split_state out with r :: s :: _ -> (words r, words s) | _ -> raise (Fail ("output", out))) in
                 let (from_c, to_c, ts, errs) = (match st with [f; t; ts; _; e] -> (text_of_hex f, text_of_hex t, int_of_string ts, int_of_string e) | _ -> raise (Fail ("output", out))) in
                 (match w, res with
                  | "c" :: rest, [_; _; dr; _] ->
                    let b = (match rest with h :: _ -> text_of_hex h | [] -> []) in
                    if List.length !from_prev + List.length b > cap then within := false;
                    stream := !stream @ b;
                    if List.length (replies !stream) - List.length !rdel > cap then within := false;
                    if !within then check (int_of_string dr = 0) "telnet_lost" "bytes reported lost although the unconsumed data fits the buffer"
                  | ["d"; _], [_; ret; h] ->
                    let b = text_of_hex h in
                    check (int_of_string ret = List.length b && is_prefix b !from_prev) "consume" "cbuf_drop / cbuf_peek disagree with the buffer content";
                    cons := !cons @ b
                  | ["e"; n], [_; m; h] ->
                    let n = int_of_string n in
                    let should = !from_prev <> [] && n >= 0 && n <= List.length !from_prev in
                    check ((m = "1") = should) "expect_match" "_getregex_buf matched / failed to match ^.{n} against the unread bytes";
                    if should then begin
                      check (text_of_hex h = nul_to_ff !from_prev) "nul_view"
                        (Printf.sprintf "the pattern was matched against %s, the unread bytes with NUL as 0xFF are %s" h (hex (nul_to_ff !from_prev)));
                      cons := !cons @ fifo_peek !from_prev (zi n)
                    end
                  | "s" :: _, [_; _; h] ->
                    let b = text_of_hex h in
                    check (is_prefix b !to_prev) "write_side" "bytes delivered to the device are not the head of the queue";
                    rdel := !rdel @ b
                  | ["R"], _ ->
                    check (from_c = [] && to_c = []) "reconnect" "a buffer is not empty after the disconnect flush";
                    check (ts = 0) "reconnect" "telnet state not reset at connect";
                    stream := []; cons := []; rdel := []; within := true
                  | _ -> raise (Fail ("output", "unexpected result line: " ^ out)));
                 if !within then begin
                   let d = data !stream and r = replies !stream in
                   check (!cons @ from_c = d) "telnet_data"
                     (Printf.sprintf "consumed ++ unread = %s but the stream decodes to %s" (hex (!cons @ from_c)) (hex d));
                   check (!rdel @ to_c = r) "telnet_replies"
                     (Printf.sprintf "replies = %s but the stream calls for %s" (hex (!rdel @ to_c)) (hex r));
                   check (errs = 0) "telnet_err" "short cbuf_write / cbuf_drop inside the filter"
                 end;
                 from_prev := from_c; to_prev := to_c) ops outs);
          Printf.printf "M %s ok\n" id
        with
        | Fail (clause, detail) -> Printf.printf "M %s FAIL %d %s %s\n" id !opno clause detail
        | Invalid_argument _ | Failure _ | Not_found -> Printf.printf "M %s FAIL %d output malformed output\n" id !opno)
     | _ -> pr "M ? FAIL 0 output bad header\n")

(* ------------------------------------------------------------------ small-scope sweep (mirrors telnet_h.c sweep) *)
let alpha = [| 255; 253; 251; 250; 97; 0 |]
let sw_min = 8 and sw_max = 32
let popcount m = let rec go m c = if m = 0 then c else go (m lsr 1) (c + (m land 1)) in go m 0

let sweep_stream s lfull =
  let l = Array.length s in
  let res = ref [] and ncases = ref 0 in
  let fresh () = match dev_create (zi sw_min) (zi sw_max) with Some d -> connected d | None -> failwith "create" in
  let record d cons wit =
    let dat = cons @ content d.d_from in
    let key = Printf.sprintf "%s/%s/%d/%d/%d" (hex dat) (hex (content d.d_to)) (ts_int d.d_tcp.t_state) (int_of_n d.d_tcp.t_cmd) (iz d.d_errs) in
    incr ncases;
    if not (List.mem_assoc key !res) then res := !res @ [(key, wit)] in
  let one mask sched =
    let d = ref (fresh ()) and cons = ref [] and wit = Buffer.create 16 in
    Buffer.add_string wit (Printf.sprintf "%d:" mask);
    let start = ref 0 and ci = ref 0 in
    for i = 0 to l - 1 do
      if i = l - 1 || (mask lsr i) land 1 = 1 then begin
        let chunk = Array.to_list (Array.map n_of_int (Array.sub s !start (i + 1 - !start))) in
        let (d', _, _, _) = arrive !d chunk in
        d := d';
        let want = sched.(!ci) in
        Buffer.add_char wit (Char.chr (48 + want));
        if want > 0 then begin
          let (d', _, b) = consume !d want in d := d'; cons := !cons @ b
        end;
        start := i + 1; incr ci
      end
    done;
    record !d !cons (Buffer.contents wit) in
  let nmask = if l > 0 then 1 lsl (l - 1) else 1 in
  for mask = 0 to nmask - 1 do
    if l = 0 then record (fresh ()) [] "0:"
    else begin
      let chunks = 1 + popcount mask in
      let sched = Array.make 8 0 in
      if l <= lfull then begin
        let total = int_of_float (3. ** float_of_int chunks) in
        for v = 0 to total - 1 do
          let x = ref v in
          for i = chunks - 1 downto 0 do sched.(i) <- !x mod 3; x := !x / 3 done;
          one mask sched
        done
      end else
        for dd = 0 to 2 do for i = 0 to chunks - 1 do sched.(i) <- dd done; one mask sched done
    end
  done;
  let st = Array.to_list (Array.map n_of_int s) in
  Printf.printf "S %s %d %d" (hex st) !ncases (List.length !res);
  List.iter (fun (k, w) -> Printf.printf " %s@%s" k w) !res;
  pr "\n";
  Printf.printf "E %s %s/%s\n" (hex st) (hex (data st)) (hex (replies st))

let sweep lfull luni part nparts =
  let idx = ref 0 in
  for l = 0 to luni do
    let total = int_of_float (6. ** float_of_int l) in
    for v = 0 to total - 1 do
      if !idx mod nparts = part then begin
        let s = Array.make l 0 and x = ref v in
        for i = l - 1 downto 0 do s.(i) <- alpha.(!x mod 6); x := !x / 6 done;
        sweep_stream s lfull
      end;
      incr idx
    done
  done

let () =
  let mode = if Array.length Sys.argv > 1 then Sys.argv.(1) else "model" in
  (match mode with
   | "model" -> List.iter (fun l -> if l <> "" && l.[0] <> '#' then cbuf_case l) (read_lines ())
   | "tmodel" -> List.iter (fun l -> if l <> "" && l.[0] <> '#' then telnet_case l) (read_lines ())
   | "monitor" -> List.iter cbuf_monitor (groups (read_file Sys.argv.(2)))
   | "tmonitor" -> List.iter telnet_monitor (groups (read_file Sys.argv.(2)))
   | "tsweep" -> sweep (int_of_string Sys.argv.(2)) (int_of_string Sys.argv.(3)) (int_of_string Sys.argv.(4)) (int_of_string Sys.argv.(5))
   | _ -> prerr_endline "unknown mode"; exit 2);
  Stdlib.flush stdout
