(* R-HLO: the host-list oracles of the client layer, twice on every argument:
     M  the functions Proofs/HLOracles.v defines from the model of hostlist.c (extracted)
     I  the implementations driver/devstub.c gives the extracted client / device models (the scratch copy's real hostlist.c)
   stdin   E  <id> <hex>               hostlist_create + iterate
           RS <id> <hex,hex,..|.>      push_host each, sort, ranged string       (devstub pm_compress: the cases hold names free of list syntax only)
           RX <id> <hex,hex,..|.>      hostlist_push each, sort, ranged string   (devstub pm_compress, what client.c does)
           RP <id> <hex,hex,..|.>      push_host each, ranged string             (devstub pm_ranged_plain)
           SO <id> <hex,hex,..|.>      push_host each, sort, iterate             (devstub pm_sorted)
   stdout  <id> M <result> I <result>  result = null | hex,hex,..|. (name lists) | hex|- (texts); one line per case, flushed *)
external pm_expand : string -> string = "pm_expand"
external pm_compress : string -> string = "pm_compress"
external pm_ranged_plain : string -> string = "pm_ranged_plain"
external pm_sorted : string -> string = "pm_sorted"
let joinn l = String.concat "\n" (List.map string_of_text l)
let splitn s = if s = "" then [] else List.map text_of_string (String.split_on_char '\n' s)
(* devstub's pm_expand signals NULL by the one-byte string "\001", which is also the expansion of the host name "\001":
   told apart as driver/cli_drv.ml does *)
let impl_expand t =
  let s = string_of_text t in
  let r = pm_expand s in
  if r = "\001" && pm_expand (s ^ ",q") = "\001" then None else Some (splitn r)
let names a = if a = "." then [] else List.map text_of_hex (String.split_on_char ',' a)
let show_list l = if l = [] then "." else String.concat "," (List.map hex_of_text l)
let show_opt = function None -> "null" | Some l -> show_list l
let () =
  List.iter (fun l ->
    (match words l with
     | ["E"; id; a] -> let t = text_of_hex a in
         Printf.printf "%s M %s I %s\n" id (show_opt (hlo_expand_str t)) (show_opt (impl_expand t))
     | ["RS"; id; a] -> let l = names a in
         Printf.printf "%s M %s I %s\n" id (hex_of_text (hlo_ranged_sorted l)) (hex_of_text (text_of_string (pm_compress (joinn l))))
     | ["RX"; id; a] -> let l = names a in
         Printf.printf "%s M %s I %s\n" id (hex_of_text (hlo_ranged_sorted_expr l)) (hex_of_text (text_of_string (pm_compress (joinn l))))
     | ["RP"; id; a] -> let l = names a in
         Printf.printf "%s M %s I %s\n" id (hex_of_text (hlo_ranged_plain l)) (hex_of_text (text_of_string (pm_ranged_plain (joinn l))))
     | ["SO"; id; a] -> let l = names a in
         Printf.printf "%s M %s I %s\n" id (show_list (hlo_sorted l)) (show_list (splitn (pm_sorted (joinn l))))
     | _ -> ());
    flush stdout) (read_lines ())
