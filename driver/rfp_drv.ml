(* C19 / R-RFP: driver of the extracted redfishpower model (Extract/rfpmodel.ml).
   stdin:   HL <hexarg> BAD | HL <hexarg> OK <hexname>...        hostlist_create oracle entries
            INIT <id> <verbose 0|1> H <hexhost>... F <hexhost>...  new helper instance (expanded -h / failing hosts)
            CMD <id> <hexline> <sched: n,n,.. | ->               one line typed at the prompt
   stdout:  one line per CMD:
            R <OK|QUIT|HANG:n|ABORT:n|EXIT:n|MEM:n|DEAD> <hex stdout> <hex spec stdout | none> <status list> <spec status list | none> <ops>
            status list = hexname:word,... for the plugs of the table (model / specification after the command) *)
let hl = Hashtbl.create 1024
let hlc (t : text) : text list option =
  match Hashtbl.find_opt hl (hex_of_text t) with Some r -> r | None -> failwith ("no hostlist oracle entry for " ^ string_of_text t)
let inst = Hashtbl.create 64
let split_on s c = if s = "" || s = "-" then [] else String.split_on_char c s
let join l = if l = [] then "-" else String.concat "," l
let () =
  List.iter (fun l ->
    match words l with
    | "HL" :: a :: "BAD" :: _ -> Hashtbl.replace hl a None
    | "HL" :: a :: "OK" :: names -> Hashtbl.replace hl a (Some (List.map text_of_hex names))
    | "INIT" :: id :: v :: "H" :: rest ->
      let rec sp acc = function "F" :: r -> (List.rev acc, r) | x :: r -> sp (x :: acc) r | [] -> (List.rev acc, []) in
      let (hs, fs) = sp [] rest in
      Hashtbl.replace inst id (Some (init (List.map text_of_hex hs) (List.map text_of_hex fs) (v = "1")))
    | "CMD" :: id :: line :: sched :: _ ->
      (match Hashtbl.find_opt inst id with
       | None | Some None -> print_endline "R DEAD - none - none -"
       | Some (Some st) ->
         let ln = text_of_hex line in
         let sc = List.map (fun x -> nat_of_int (int_of_string x)) (split_on sched ',') in
         let spec = spec_line hlc st ln in
         let dead tag = Hashtbl.replace inst id None; Printf.printf "R %s - none - none -\n" tag in
         (match run_line hlc st ln sc with
          | Ok (st', quit) ->
            if quit then Hashtbl.replace inst id None else Hashtbl.replace inst id (Some st');
            let out = hex_of_text (List.concat (out_text st')) in
            let stl = join (List.map (fun (n, s) -> hex_of_text n ^ ":" ^ string_of_text (status_text s)) (table_status st')) in
            let ops = join (List.map (fun (EvOp (c, p)) -> string_of_text (cmd_text c) ^ ":" ^ hex_of_text p) st'.s_log) in
            let (sout, sst) = match spec with
              | None -> ("none", "none")
              | Some (ls, m) -> (hex_of_text (List.concat ls),
                                 join (List.map (fun (n, s) -> hex_of_text n ^ ":" ^ string_of_text (word s)) (spec_table_status st' m))) in
            Printf.printf "R %s %s %s %s %s %s\n" (if quit then "QUIT" else "OK") out sout stl sst ops
          | Hang s -> dead (Printf.sprintf "HANG:%d" (int_of_nat s))
          | Abort s -> dead (Printf.sprintf "ABORT:%d" (int_of_nat s))
          | Exit (_, s) -> dead (Printf.sprintf "EXIT:%d" (int_of_nat s))
          | MemErr s -> dead (Printf.sprintf "MEM:%d" (int_of_nat s))))
    | [] -> ()
    | _ -> failwith ("bad driver line: " ^ l))
    (read_lines ())
