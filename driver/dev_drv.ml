(* R-DEV model side: see harness/dev_h.c for the case format *)
external pm_rmatch : string -> string -> int array = "pm_rmatch"
external pm_compress : string -> string = "pm_compress"
let rmatch re subj =
  let a = pm_rmatch (string_of_text re) (string_of_text subj) in
  if Array.length a = 0 then None
  else Some (List.init (Array.length a / 2) (fun i -> if a.(2*i) < 0 then None else Some (nat_of_int a.(2*i), nat_of_int a.(2*i+1))))
let compress names = text_of_string (pm_compress (String.concat "\n" (List.map string_of_text names)))
let split c s = if s = "-" || s = "" then [] else String.split_on_char c s
let oh = function None -> "-" | Some t -> hex_of_text t

(* script tokens -> stmt list *)
let rec parse_stmts n toks = if n = 0 then ([], toks) else
  let (s, r) = parse_stmt toks in let (l, r') = parse_stmts (n - 1) r in (s :: l, r')
and parse_interps n toks = if n = 0 then ([], toks) else
  match toks with c :: re :: r -> let (l, r') = parse_interps (n - 1) r in ((z_of_int (int_of_string c), text_of_hex re) :: l, r')
  | _ -> failwith "interp"
and parse_stmt = function
  | "S" :: f :: r -> (Send (text_of_hex f), r)
  | "E" :: re :: r -> (Expect (text_of_hex re), r)
  | "D" :: us :: r -> (Delay (z_of_dec us), r)
  | "P" :: lit :: pmp :: smp :: n :: r ->
      let (ints, r') = parse_interps (int_of_string n) r in
      (SetPlugState ((if lit = "~" then None else Some (text_of_hex lit)), z_of_int (int_of_string pmp), z_of_int (int_of_string smp), ints), r')
  | "R" :: pmp :: smp :: n :: r ->
      let (ints, r') = parse_interps (int_of_string n) r in
      (SetResult (z_of_int (int_of_string pmp), z_of_int (int_of_string smp), ints), r')
  | "FP" :: n :: r -> let (b, r') = parse_stmts (int_of_string n) r in (ForeachPlug b, r')
  | "FN" :: n :: r -> let (b, r') = parse_stmts (int_of_string n) r in (ForeachNode b, r')
  | "ION" :: n :: r -> let (b, r') = parse_stmts (int_of_string n) r in (IfOn b, r')
  | "IOFF" :: n :: r -> let (b, r') = parse_stmts (int_of_string n) r in (IfOff b, r')
  | t :: _ -> failwith ("stmt " ^ t) | [] -> failwith "stmt eof"
let rec parse_all toks = match toks with [] -> [] | _ -> let (s, r) = parse_stmt toks in s :: parse_all r

let plan_of = function "now" -> ConnNow | "pending" -> ConnPending | _ -> ConnFail
let b01 b = if b then "1" else "0"
let print_ev (i, e) = match e with
  | EvTele (c, m) -> Printf.printf "EV TELE %d %s\n" (int_of_z c) (hex_of_text m)
  | EvDiag (c, m) -> Printf.printf "EV DIAG %d %s\n" (int_of_z c) (hex_of_text m)
  | EvComplete (c, err, m) -> Printf.printf "EV DONE %d %d %s\n" (int_of_z c) (int_of_z err) (hex_of_text m)
  | EvDisconnect -> Printf.printf "EV DISC %d\n" (int_of_nat i)
  | EvConnect -> Printf.printf "EV CONN %d\n" (int_of_nat i)
  | _ -> ()
let dump_ctx e =
  Printf.sprintf "%d/%s/%s/%s/%s" (match nth_error e.c_block e.c_pos with Some _ -> int_of_nat e.c_pos | None -> -1) (b01 e.c_processing)
    (match e.c_plugitr with None -> "n" | Some _ -> "y") (match e.c_pluglist with None -> "n" | Some _ -> "y")
    (match e.c_plugs with None -> "NULL" | Some [] -> "EMPTY" | Some ps -> String.concat "," (List.map (fun p -> hex_of_text p.pl_name) ps))
let dump_dev i (d, _) =
  Printf.printf "DEV %d cs=%d li=%s fd=%s retry=%d lastretry=%s lastping=%s sconn=%d sacts=%d from=%s to=%s acts=%s\n" i
    (int_of_z d.dv_cstate) (b01 d.dv_logged_in) (b01 d.dv_has_fd) (int_of_z d.dv_retry_count) (dec_of_z d.dv_last_retry) (dec_of_z d.dv_last_ping)
    (int_of_z d.dv_succ_conn) (int_of_z d.dv_succ_acts) (hex_of_text d.dv.sd_from) (hex_of_text d.dv.sd_to)
    (let l = List.map (fun a -> Printf.sprintf "%d:%d:%d:%s:%s" (int_of_z a.a_com) (int_of_z a.a_client) (int_of_z a.a_err)
        (match a.a_stamp with None -> "-" | Some t -> dec_of_z t) (String.concat ";" (List.map dump_ctx a.a_exec))) d.dv_acts in
     if l = [] then "-" else String.concat "|" l)
let dump_args store =
  List.iteri (fun i al -> Printf.printf "ARGS %d %s\n" i (let l = List.map (fun a0 -> let a = (match arg_find al a0.ar_node with Some x -> x | None -> a0) in Printf.sprintf "%s:%d:%d:%s" (hex_of_text a.ar_node) (int_of_z a.ar_state) (int_of_z a.ar_result) (oh a.ar_val)) al in if l = [] then "-" else String.concat "," l)) store

let () =
  let devs = ref [] and cur = ref None and sc = ref false in
  let flush_cur () = match !cur with None -> () | Some (n, t, p, pl, scr) -> devs := !devs @ [ (mk_device n pl (List.rev scr) t p, peer0) ]; cur := None in
  let h = ref { h_now = Z0; h_devs = []; h_store = [] } in
  let dead = ref false in
  let step op k = if not !dead then
    match hstep rmatch compress !sc !h op with
    | Ok (h', o) -> h := h'; k o
    | Abort s -> Printf.printf "OUTCOME Abort %d\n" (int_of_nat s); dead := true
    | Hang s -> Printf.printf "OUTCOME Hang %d\n" (int_of_nat s); dead := true
    | MemErr s -> Printf.printf "OUTCOME MemErr %d\n" (int_of_nat s); dead := true
    | Exit (c, s) -> Printf.printf "OUTCOME Exit %d\n" (int_of_nat s); dead := true in
  List.iter (fun l ->
    match words l with
    | ["DEVDEF"; name; tmo; ping; plugs] ->
        flush_cur ();
        let pl = List.map (fun pn -> match String.split_on_char ':' pn with
                   | [p; n] -> { pl_name = text_of_hex p; pl_node = (if n = "-" then None else Some (text_of_hex n)) }
                   | _ -> failwith "plug") (split ',' plugs) in
        cur := Some (text_of_hex name, z_of_dec tmo, z_of_dec ping, pl, [])
    | "SCRIPT" :: com :: toks ->
        (match !cur with Some (n, t, p, pl, scr) -> cur := Some (n, t, p, pl, (z_of_int (int_of_string com), parse_all toks) :: scr) | None -> ())
    | ["SHORTCIRCUIT"; b] -> sc := (b = "1")
    | ["ENDDEFS"] -> flush_cur (); h := { h_now = Z0; h_devs = !devs; h_store = [] }
    | ["NOW"; t] -> step (HNow (z_of_dec t)) (fun _ -> ())
    | "PLAN" :: i :: pl -> step (HPlan (nat_of_int (int_of_string i), List.map plan_of pl)) (fun _ -> ())
    | ["FINISH"; i; b] -> step (HFinish (nat_of_int (int_of_string i), b = "1")) (fun _ -> ())
    | ["FEED"; i; hx] -> step (HFeed (nat_of_int (int_of_string i), text_of_hex hx)) (fun _ -> ())
    | ["PEERCLOSE"; i] -> step (HPeerClose (nat_of_int (int_of_string i))) (fun _ -> ())
    | ["INIT"] -> step HInit (fun o -> List.iter print_ev o.o_evs; print_endline "ENDINIT")
    | ["NEWARGS"; nodes] -> step (HNewArgs (List.map text_of_hex (split ',' nodes))) (fun _ -> ())
    | ["ENQ"; com; client; tele; args; tg] ->
        step (HEnq (z_of_int (int_of_string com), z_of_int (int_of_string client), tele = "1", nat_of_int (int_of_string args), List.map text_of_hex (split ',' tg)))
          (fun o -> Printf.printf "COUNT %d\n" (int_of_z o.o_count))
    | ["PASS"] ->
        step HPass (fun o ->
          let acc = Hashtbl.create 8 in
          let flush i = (match Hashtbl.find_opt acc i with Some g when g <> "" -> Printf.printf "WROTE %d %s\n" i (hex_of_string g) | _ -> ()); Hashtbl.replace acc i "" in
          List.iter (fun (i, e) -> let k = int_of_nat i in
            match e with
            | EvWrote b -> Hashtbl.replace acc k ((match Hashtbl.find_opt acc k with Some g -> g | None -> "") ^ string_of_text b)
            | EvDisconnect -> flush k; print_ev (i, e)
            | _ -> print_ev (i, e)) o.o_evs;
          List.iteri (fun i _ -> flush i) !h.h_devs;
          Printf.printf "TMO %s\n" (match o.o_tmo with None -> "none" | Some t -> dec_of_z t);
          List.iteri dump_dev !h.h_devs; dump_args !h.h_store; print_endline "ENDPASS")
    | _ -> ()) (read_lines ())
