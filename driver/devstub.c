/* oracles for the extracted device model: glibc regex exactly as xregex.c uses it, and the host-range
 * compression of _process_send (hostlist_push each name, hostlist_sort, ranged string) by the scratch
 * copy's own hostlist.c (hostlist is verified separately: C14) */
#define _GNU_SOURCE
#include <string.h>
#include <stdlib.h>
#include <regex.h>
#include <caml/mlvalues.h>
#include <caml/memory.h>
#include <caml/alloc.h>
#include "hostlist.h"

/* hostlist.c is built with WITH_LSD_*_ERROR_FUNC in this tree: the daemon supplies these in error.c */
void *lsd_nomem_error(char *file, int line, char *mesg) { abort(); return NULL; }
void lsd_fatal_error(char *file, int line, char *mesg) { abort(); }

#define NM 21
struct ent { char *src; regex_t re; int ok; struct ent *next; };
static struct ent *cache[1024];
static unsigned hs(const char *s) { unsigned h = 5381; while (*s) h = h * 33 + (unsigned char)*s++; return h & 1023; }
static void subst(char *s, const char *a, const char *b)
{   /* _str_subst of xregex.c for a 2-char -> 1-char replacement */
    char *p; while ((p = strstr(s, a)) != NULL) { memmove(p + 1, p + 2, strlen(p + 2) + 1); *p = b[0]; }
}
static struct ent *get(const char *src)
{
    unsigned h = hs(src); struct ent *e;
    for (e = cache[h]; e; e = e->next) if (!strcmp(e->src, src)) return e;
    e = calloc(1, sizeof *e); e->src = strdup(src);
    char *cpy = strdup(src); subst(cpy, "\\r", "\r"); subst(cpy, "\\n", "\n");
    e->ok = (strlen(src) <= 256) && regcomp(&e->re, cpy, REG_EXTENDED) == 0;
    free(cpy); e->next = cache[h]; cache[h] = e; return e;
}
/* returns [||] for no match (or uncompilable), else [| so0; eo0; so1; eo1; ... |] (2*NM ints, -1 = unset) */
CAMLprim value pm_rmatch(value re, value subj)
{
    CAMLparam2(re, subj); CAMLlocal1(r);
    regmatch_t pm[NM]; struct ent *e = get(String_val(re));
    if (!e->ok || regexec(&e->re, String_val(subj), NM, pm, REG_NOTEOL) != 0) { r = caml_alloc_tuple(0); CAMLreturn(Atom(0)); }
    r = caml_alloc_tuple(2 * NM);
    for (int i = 0; i < NM; i++) { Store_field(r, 2 * i, Val_int(pm[i].rm_so)); Store_field(r, 2 * i + 1, Val_int(pm[i].rm_eo)); }
    CAMLreturn(r);
}
/* names joined by '\n' -> sorted, range-compressed string */
CAMLprim value pm_compress(value names)
{
    CAMLparam1(names); CAMLlocal1(r);
    char *s = strdup(String_val(names)), *p = s, *q;
    hostlist_t hl = hostlist_create(NULL);
    while (*p) { q = strchr(p, '\n'); if (q) *q = 0; hostlist_push(hl, p); if (!q) break; p = q + 1; }
    hostlist_sort(hl);
    int size = 0; char *str = NULL;
    do { size += 80; str = realloc(str, size); } while (hostlist_ranged_string(hl, size, str) == -1);
    r = caml_copy_string(str);
    free(str); free(s); hostlist_destroy(hl);
    CAMLreturn(r);
}

/* host-list services for the client model (contract: C14): all on the scratch copy's hostlist.c */
static char *join_iter(hostlist_t hl)
{
    size_t cap = 256, len = 0; char *out = malloc(cap); out[0] = 0;
    hostlist_iterator_t it = hostlist_iterator_create(hl); char *n;
    while ((n = hostlist_next(it))) {
        size_t l = strlen(n); if (len + l + 2 > cap) { cap = (len + l + 2) * 2; out = realloc(out, cap); }
        if (len) out[len++] = '\n'; memcpy(out + len, n, l + 1); len += l; free(n);
    }
    hostlist_iterator_destroy(it); return out;
}
/* hostlist_create(str) then iterate: "\001" for NULL, else names joined by '\n' */
CAMLprim value pm_expand(value s)
{
    CAMLparam1(s); CAMLlocal1(r);
    hostlist_t hl = hostlist_create(String_val(s));
    if (!hl) CAMLreturn(caml_copy_string("\001"));
    char *o = join_iter(hl); r = caml_copy_string(o); free(o); hostlist_destroy(hl); CAMLreturn(r);
}
static hostlist_t push_hosts(const char *names)
{
    char *s = strdup(names), *p = s, *q; hostlist_t hl = hostlist_create(NULL);
    while (*p) { q = strchr(p, '\n'); if (q) *q = 0; hostlist_push_host(hl, p); if (!q) break; p = q + 1; }
    free(s); return hl;
}
static value ranged(hostlist_t hl)
{
    int size = 0; char *str = NULL;
    do { size += 80; str = realloc(str, size); } while (hostlist_ranged_string(hl, size, str) == -1);
    value r = caml_copy_string(str); free(str); return r;
}
CAMLprim value pm_ranged_plain(value names) { CAMLparam1(names); CAMLlocal1(r); hostlist_t hl = push_hosts(String_val(names)); r = ranged(hl); hostlist_destroy(hl); CAMLreturn(r); }
CAMLprim value pm_sorted(value names)
{
    CAMLparam1(names); CAMLlocal1(r); hostlist_t hl = push_hosts(String_val(names)); hostlist_sort(hl);
    char *o = join_iter(hl); r = caml_copy_string(o); free(o); hostlist_destroy(hl); CAMLreturn(r);
}
