/* oracles for the extracted device model: glibc regex exactly as xregex.c uses it, and the host-range
 * compression of _process_send (hostlist_push each name, hostlist_sort, ranged string) by the scratch
 * copy's own hostlist.c (hostlist is verified separately: C14) */
#define _GNU_SOURCE
#include <string.h>
#include <stdlib.h>
#include <regex.h>
#include <caml/mlvalues.h>
#include <caml/memory.h>
#include <caml/alloc.h>
#include "hostlist.h"

/* hostlist.c is built with WITH_LSD_*_ERROR_FUNC in this tree: the daemon supplies these in error.c */
void *lsd_nomem_error(char *file, int line, char *mesg) { abort(); return NULL; }
void lsd_fatal_error(char *file, int line, char *mesg) { abort(); }

#define NM 21
struct ent { char *src; regex_t re; int ok; struct ent *next; };
static struct ent *cache[1024];
static unsigned hs(const char *s) { unsigned h = 5381; while (*s) h = h * 33 + (unsigned char)*s++; return h & 1023; }
static void subst(char *s, const char *a, const char *b)
{   /* _str_subst of xregex.c for a 2-char -> 1-char replacement */
    char *p; while ((p = strstr(s, a)) != NULL) { memmove(p + 1, p + 2, strlen(p + 2) + 1); *p = b[0]; }
}
static struct ent *get(const char *src)
{
    unsigned h = hs(src); struct ent *e;
    for (e = cache[h]; e; e = e->next) if (!strcmp(e->src, src)) return e;
    e = calloc(1, sizeof *e); e->src = strdup(src);
    char *cpy = strdup(src); subst(cpy, "\\r", "\r"); subst(cpy, "\\n", "\n");
    e->ok = (strlen(src) <= 256) && regcomp(&e->re, cpy, REG_EXTENDED) == 0;
    free(cpy); e->next = cache[h]; cache[h] = e; return e;
}
/* returns [||] for no match (or uncompilable), else [| so0; eo0; so1; eo1; ... |] (2*NM ints, -1 = unset) */
CAMLprim value pm_rmatch(value re, value subj)
{
    CAMLparam2(re, subj); CAMLlocal1(r);
    regmatch_t pm[NM]; struct ent *e = get(String_val(re));
    if (!e->ok || regexec(&e->re, String_val(subj), NM, pm, REG_NOTEOL) != 0) { r = caml_alloc_tuple(0); CAMLreturn(Atom(0)); }
    r = caml_alloc_tuple(2 * NM);
    for (int i = 0; i < NM; i++) { Store_field(r, 2 * i, Val_int(pm[i].rm_so)); Store_field(r, 2 * i + 1, Val_int(pm[i].rm_eo)); }
    CAMLreturn(r);
}
/* names joined by '\n' -> sorted, range-compressed string */
CAMLprim value pm_compress(value names)
{
    CAMLparam1(names); CAMLlocal1(r);
    char *s = strdup(String_val(names)), *p = s, *q;
    hostlist_t hl = hostlist_create(NULL);
    while (*p) { q = strchr(p, '\n'); if (q) *q = 0; hostlist_push(hl, p); if (!q) break; p = q + 1; }
    hostlist_sort(hl);
    int size = 0; char *str = NULL;
    do { size += 80; str = realloc(str, size); } while (hostlist_ranged_string(hl, size, str) == -1);
    r = caml_copy_string(str);
    free(str); free(s); hostlist_destroy(hl);
    CAMLreturn(r);
}
