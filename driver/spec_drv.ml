(* driver for the extracted C17 model (coq/Extract/specmodel.ml).
   stdin: a batch of dumps in the format of gen/devparse.py (no nsub fields):
       FILE <id> / SPEC .. / PLUGS .. / SCRIPT <idx> <n> / <depth> <STMT> .. / ENDSPEC / ENDFILE
   stdout, per file: FILE <id>; the same dump with the group count RegexSyn.ngroups appended to every EXPECT and
   INTERP line (`none` if the pattern exceeds the compile limit); then per specification k (0-based)
       FAIL <k> <rule> <script> <path>          one line per violated rule (SpecCheck.spec_failures)
       TOP <k> <script> <0|1>                   does the top-level context of this script kind carry plugs (top_arg)
       SEND <k> <script> <path> <0|1>           plug argument of every send (SpecCheck.script_sends)
       OK <k> <0|1> <nstmts>                    SpecCheck.spec_ok
   ENDFILE *)
let lines = Array.of_list (read_lines ())
let pos = ref 0
let peek () = if !pos < Array.length lines then Some lines.(!pos) else None
let next () = let l = lines.(!pos) in incr pos; l

let rule_name = function
  | R_LOGIN -> "login" | R_TIMEOUT -> "timeout" | R_SCRIPT_INDEX -> "script_index" | R_PATTERN -> "pattern"
  | R_SEND -> "send" | R_NOEXPECT -> "noexpect" | R_GROUP -> "group" | R_FOREACH_SCOPE -> "foreach_scope"
  | R_IF_SCOPE -> "if_scope" | R_SETRESULT_SCOPE -> "setresult_scope" | R_LOOP -> "loop" | R_EMPTY -> "empty_block"

let path_str p = if p = [] then "-" else String.concat "." (List.map (fun n -> string_of_int (int_of_nat n)) p)
let nsub t = match ngroups t with Some n -> string_of_int (int_of_nat n) | None -> "none"
let out = Buffer.create 65536
let emit s = Buffer.add_string out s; Buffer.add_char out '\n'

let rec parse_interps n = if n = 0 then [] else begin
    match words (next ()) with
    | [d; "INTERP"; code; h] ->
      let t = text_of_hex h in
      emit (Printf.sprintf "%s INTERP %s %s %s" d code h (nsub t));
      let rest = parse_interps (n - 1) in (z_of_int (int_of_string code), t) :: rest
    | _ -> failwith "INTERP expected" end

let rec parse_block n = if n = 0 then [] else begin
    let l = next () in
    let st = match words l with
      | [d; "SEND"; h] -> emit l; Send (text_of_hex h)
      | [d; "EXPECT"; h] -> let t = text_of_hex h in emit (Printf.sprintf "%s EXPECT %s %s" d h (nsub t)); Expect t
      | [d; "DELAY"; u] -> emit l; Delay (z_of_dec u)
      | [d; "SETPLUGSTATE"; lit; p; q; k] ->
        emit l;
        let lit' = if lit = "none" then None else Some (text_of_hex (String.sub lit 1 (String.length lit - 1))) in
        let il = parse_interps (int_of_string k) in
        SetPlugState (lit', z_of_dec p, z_of_dec q, il)
      | [d; "SETRESULT"; p; q; k] ->
        emit l;
        let il = parse_interps (int_of_string k) in
        SetResult (z_of_dec p, z_of_dec q, il)
      | [d; "FOREACHPLUG"; k] -> emit l; ForeachPlug (parse_block (int_of_string k))
      | [d; "FOREACHNODE"; k] -> emit l; ForeachNode (parse_block (int_of_string k))
      | [d; "IFON"; k] -> emit l; IfOn (parse_block (int_of_string k))
      | [d; "IFOFF"; k] -> emit l; IfOff (parse_block (int_of_string k))
      | _ -> failwith ("bad statement line: " ^ l) in
    let rest = parse_block (n - 1) in st :: rest end

let rec parse_scripts () =
  match peek () with
  | Some l when (match words l with "SCRIPT" :: _ -> true | _ -> false) ->
    ignore (next ()); emit l;
    (match words l with
     | [_; idx; n] -> let b = parse_block (int_of_string n) in
       let rest = parse_scripts () in (z_of_dec idx, b) :: rest
     | _ -> failwith "bad SCRIPT line")
  | _ -> []

let parse_spec l =
  emit l;
  match words l with
  | [_; name; tmo; ping] ->
    let pl = next () in emit pl;
    let plugs = (match words pl with
        | ["PLUGS"; "none"] -> None
        | "PLUGS" :: _ :: hs -> Some (List.map text_of_hex hs)
        | _ -> failwith "bad PLUGS line") in
    let scripts = parse_scripts () in
    let e = next () in if e <> "ENDSPEC" then failwith ("ENDSPEC expected, got " ^ e); emit e;
    { sp_name = text_of_hex name; sp_timeout = z_of_dec tmo; sp_ping = z_of_dec ping; sp_plugs = plugs; sp_scripts = scripts }
  | _ -> failwith "bad SPEC line"

let () =
  while !pos < Array.length lines do
    let l = next () in
    match words l with
    | "FILE" :: _ ->
      emit l;
      let specs = ref [] in
      let fin = ref false in
      while not !fin do
        let l2 = next () in
        (match words l2 with
         | "SPEC" :: _ -> specs := parse_spec l2 :: !specs
         | ["ENDFILE"] -> fin := true
         | _ -> failwith ("unexpected line: " ^ l2))
      done;
      List.iteri (fun k s ->
          List.iter (fun f -> emit (Printf.sprintf "FAIL %d %s %s %s" k (rule_name f.f_rule) (dec_of_z f.f_script) (path_str f.f_path)))
            (spec_failures s);
          List.iter (fun sc ->
              emit (Printf.sprintf "TOP %d %s %d" k (dec_of_z (fst sc)) (if top_arg (kind_of (fst sc)) then 1 else 0));
              List.iter (fun ((p, _), a) -> emit (Printf.sprintf "SEND %d %s %s %d" k (dec_of_z (fst sc)) (path_str p) (if a then 1 else 0)))
                (script_sends sc)) s.sp_scripts;
          emit (Printf.sprintf "OK %d %d %d" k (if spec_ok s then 1 else 0) (int_of_nat (spec_nstmts s))))
        (List.rev !specs);
      emit "ENDFILE";
      print_string (Buffer.contents out); Buffer.clear out
    | [] -> ()
    | _ -> failwith ("FILE expected: " ^ l)
  done
