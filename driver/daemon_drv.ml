(* R-SIM model side: the whole-daemon transducer Model/Daemon.v replaying the rounds recorded from harness/pmsim.
   stdin (written by lib/pmreplay.py):
     VERSION <hex> / NODES <hex,..> / ALIAS <hex> <hex,..> / SHORTCIRCUIT <0|1>
     DEVDEF <namehex> <timeout_us> <ping_us> <plughex:nodehex|-,..> <spechex> <pipe 0|1>     then  SCRIPT <com> <tokens..>  lines
     ENDDEFS
     INIT <now> <plans of dev0>;<plans of dev1>;...          plans = comma list of now|pending|fail, or -
     ROUND <now> <accept 0|1>
       C <index in client list> <flags: subset of b i o x (x = a blocking write to this client fails)> <read: ~ none | ! error | - eof | hex> <wrote: ~ | ! | n>
       D <device index> <flags: subset of h e n o i> <read> <wrote> <finish 0|1> <plans>
     GO
   stdout per INIT / round: event lines, `TMO`, `LEDGER <fds> <kids>`, `END` *)
external pm_rmatch : string -> string -> int array = "pm_rmatch"
external pm_compress : string -> string = "pm_compress"
external pm_expand : string -> string = "pm_expand"
external pm_ranged_plain : string -> string = "pm_ranged_plain"
external pm_sorted : string -> string = "pm_sorted"
let rmatch re subj =
  let a = pm_rmatch (string_of_text re) (string_of_text subj) in
  if Array.length a = 0 then None
  else Some (List.init (Array.length a / 2) (fun i -> if a.(2*i) < 0 then None else Some (nat_of_int a.(2*i), nat_of_int a.(2*i+1))))
let compress names = text_of_string (pm_compress (String.concat "\n" (List.map string_of_text names)))
let joinn l = String.concat "\n" (List.map string_of_text l)
let splitn s = if s = "" then [] else List.map text_of_string (String.split_on_char '\n' s)
let expand_str t = let r = pm_expand (string_of_text t) in if r = "\001" then None else Some (splitn r)
let ranged_sorted l = text_of_string (pm_compress (joinn l))
let ranged_plain l = text_of_string (pm_ranged_plain (joinn l))
let sorted l = splitn (pm_sorted (joinn l))
let split c s = if s = "-" || s = "" then [] else String.split_on_char c s

let rec parse_stmts n toks = if n = 0 then ([], toks) else
  let (s, r) = parse_stmt toks in let (l, r') = parse_stmts (n - 1) r in (s :: l, r')
and parse_interps n toks = if n = 0 then ([], toks) else
  match toks with c :: re :: r -> let (l, r') = parse_interps (n - 1) r in ((z_of_int (int_of_string c), text_of_hex re) :: l, r')
  | _ -> failwith "interp"
and parse_stmt = function
  | "S" :: f :: r -> (Send (text_of_hex f), r)
  | "E" :: re :: r -> (Expect (text_of_hex re), r)
  | "D" :: us :: r -> (Delay (z_of_dec us), r)
  | "P" :: lit :: pmp :: smp :: n :: r ->
      let (ints, r') = parse_interps (int_of_string n) r in
      (SetPlugState ((if lit = "~" then None else Some (text_of_hex lit)), z_of_int (int_of_string pmp), z_of_int (int_of_string smp), ints), r')
  | "R" :: pmp :: smp :: n :: r ->
      let (ints, r') = parse_interps (int_of_string n) r in
      (SetResult (z_of_int (int_of_string pmp), z_of_int (int_of_string smp), ints), r')
  | "FP" :: n :: r -> let (b, r') = parse_stmts (int_of_string n) r in (ForeachPlug b, r')
  | "FN" :: n :: r -> let (b, r') = parse_stmts (int_of_string n) r in (ForeachNode b, r')
  | "ION" :: n :: r -> let (b, r') = parse_stmts (int_of_string n) r in (IfOn b, r')
  | "IOFF" :: n :: r -> let (b, r') = parse_stmts (int_of_string n) r in (IfOff b, r')
  | t :: _ -> failwith ("stmt " ^ t) | [] -> failwith "stmt eof"
let rec parse_all toks = match toks with [] -> [] | _ -> let (s, r) = parse_stmt toks in s :: parse_all r

let plan_of = function "now" -> ConnNow | "pending" -> ConnPending | _ -> ConnFail
let plans s = List.map plan_of (split ',' s)
let has c s = String.contains s c
let rd = function "~" -> None | "!" -> None | "-" -> Some [] | h -> Some (text_of_hex h)
let wr = function "~" -> None | "!" -> None | n -> Some (nat_of_int (int_of_string n))

let print_ev = function
  | SysAccept id -> Printf.printf "A %d\n" (int_of_z id)
  | SysCloseCli id -> Printf.printf "X %d\n" (int_of_z id)
  | SysCliWrote (id, b) -> Printf.printf "W %d %s\n" (int_of_z id) (hex_of_text b)
  | SysDev (i, e) -> let i = int_of_nat i in
    (match e with
     | EvConnect -> Printf.printf "D %d CONN\n" i
     | EvDisconnect -> Printf.printf "D %d DISC\n" i
     | EvWrote b -> Printf.printf "D %d WROTE %s\n" i (hex_of_text b)
     | EvRead n -> Printf.printf "D %d READ %d\n" i (int_of_nat n)
     | EvComplete (c, err, m) -> Printf.printf "D %d DONE %d %d %s\n" i (int_of_z c) (int_of_z err) (hex_of_text m)
     | EvTele (c, m) -> Printf.printf "D %d TELE %d %s\n" i (int_of_z c) (hex_of_text m)
     | EvDiag (c, m) -> Printf.printf "D %d DIAG %d %s\n" i (int_of_z c) (hex_of_text m)
     | _ -> ())

let () =
  let version = ref [] and nodes = ref [] and aliases = ref [] and sc = ref false in
  let devs = ref [] and specs = ref [] and pipes = ref [] and cur = ref None in
  let flush_cur () = match !cur with None -> ()
    | Some (n, t, p, pl, scr, spec, pipe) -> devs := !devs @ [ mk_device n pl (List.rev scr) t p ]; specs := !specs @ [spec]; pipes := !pipes @ [pipe]; cur := None in
  let st = ref None in
  let dead = ref false in
  let finish_round o st' =
    List.iter print_ev o.do_evs;
    Printf.printf "TMO %s\n" (match o.do_tmo with None -> "none" | Some t -> dec_of_z t);
    Printf.printf "LEDGER %d %d\n" (int_of_nat (open_fds st')) (int_of_nat (children st'));
    List.iteri (fun i d -> Printf.printf "DEV %d cs=%d li=%d fd=%d retry=%d conns=%d acts=%d queue=%d\n" i (int_of_z d.dv_cstate) (if d.dv_logged_in then 1 else 0)
      (if d.dv_has_fd then 1 else 0) (int_of_z d.dv_retry_count) (int_of_z d.dv_succ_conn) (int_of_z d.dv_succ_acts) (List.length d.dv_acts)) st'.dm_devs;
    print_endline "END" in
  let outcome = function
    | Abort s -> Printf.printf "OUTCOME Abort %d\nEND\n" (int_of_nat s); dead := true
    | Hang s -> Printf.printf "OUTCOME Hang %d\nEND\n" (int_of_nat s); dead := true
    | MemErr s -> Printf.printf "OUTCOME MemErr %d\nEND\n" (int_of_nat s); dead := true
    | Exit (c, s) -> Printf.printf "OUTCOME Exit %d\nEND\n" (int_of_nat s); dead := true
    | Ok _ -> () in
  let rnow = ref Z0 and racc = ref false and rcli = ref [] and rdev = ref [] in
  let cin0 = { ci_bad = false; ci_in = false; ci_out = false; ci_read = None; ci_wrote = None } in
  let pin0 = { pi_hup = false; pi_err = false; pi_nval = false; pi_out = false; pi_in = false; pi_read = None; pi_wrote = None; pi_finish_ok = true; pi_plans = []; pi_pre = None } in
  let rec set_nth l i x d = match l, i with
    | [], 0 -> [x] | [], _ -> d :: set_nth [] (i - 1) x d
    | _ :: r, 0 -> x :: r | y :: r, _ -> y :: set_nth r (i - 1) x d in
  List.iter (fun l -> if not !dead then
    match words l with
    | ["VERSION"; v] -> version := text_of_hex v
    | ["NODES"; ns] -> nodes := List.map text_of_hex (split ',' ns)
    | ["ALIAS"; n; ms] -> aliases := !aliases @ [ (text_of_hex n, List.map text_of_hex (split ',' ms)) ]
    | ["SHORTCIRCUIT"; b] -> sc := (b = "1")
    | ["DEVDEF"; name; tmo; ping; plugs; spec; pipe] ->
        flush_cur ();
        let pl = List.map (fun pn -> match String.split_on_char ':' pn with
                   | [p; n] -> { pl_name = text_of_hex p; pl_node = (if n = "-" then None else Some (text_of_hex n)) }
                   | _ -> failwith "plug") (split ',' plugs) in
        cur := Some (text_of_hex name, z_of_dec tmo, z_of_dec ping, pl, [], text_of_hex spec, pipe = "1")
    | "SCRIPT" :: com :: toks ->
        (match !cur with Some (n, t, p, pl, scr, spec, pipe) -> cur := Some (n, t, p, pl, (z_of_int (int_of_string com), parse_all toks) :: scr, spec, pipe) | None -> ())
    | ["ENDDEFS"] -> flush_cur ();
        st := Some { dm_nodes = !nodes; dm_aliases = !aliases; dm_specs = !specs; dm_pipe = !pipes; dm_devs = !devs; dm_clients = [];
                     dm_seq = z_of_int 1; dm_store = []; dm_version = !version; dm_tel = List.map (fun _ -> telnet_init) !devs }
    | ["INIT"; now; pl] ->
        (match !st with Some s ->
          (match dinit s (z_of_dec now) (List.map plans (String.split_on_char ';' pl)) with
           | Ok (s', o) -> st := Some s'; finish_round o s'
           | e -> outcome e)
         | None -> ())
    | ["ROUND"; now; acc] -> rnow := z_of_dec now; racc := (acc = "1"); rcli := []; rdev := []
    | ["C"; i; fl; r; w] ->
        rcli := set_nth !rcli (int_of_string i) { ci_bad = has 'b' fl; ci_in = has 'i' fl; ci_out = has 'o' fl; ci_read = rd r; ci_wrote = wr w } cin0
    | ["D"; i; fl; r; w; fin; pl] ->
        rdev := set_nth !rdev (int_of_string i) { pi_hup = has 'h' fl; pi_err = has 'e' fl; pi_nval = has 'n' fl; pi_out = has 'o' fl; pi_in = has 'i' fl;
                                                  pi_read = rd r; pi_wrote = wr w; pi_finish_ok = (fin = "1"); pi_plans = plans pl; pi_pre = None } pin0
    | ["GO"] ->
        (match !st with Some s ->
          (match dstep expand_str ranged_sorted ranged_plain sorted rmatch compress !sc s { r_now = !rnow; r_accept = !racc; r_cli = !rcli; r_dev = !rdev } with
           | Ok (s', o) -> st := Some s'; finish_round o s'
           | e -> outcome e)
         | None -> ())
    | _ -> ()) (read_lines ())
