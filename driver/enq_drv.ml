(* R-ENQ model side.  stdin:
     DEV <namehex> <i,i,..|-> <plughex:nodehex|-,...|->     (device table, in order)
     REQ <com> <nodehex,nodehex,...|->                      (expanded targets)
     END                                                    (forget the device table)
   stdout per REQ:  RES check=<0|1> total=<n> q=<devidx>:<com>:<plughex,..|NULL|EMPTY>;...   *)
let split c s = if s = "-" || s = "" then [] else String.split_on_char c s
let devs = ref []
let () =
  List.iter (fun l ->
    match words l with
    | ["DEV"; name; scripts; plugs] ->
        let pl = List.map (fun pn -> match String.split_on_char ':' pn with
                   | [p; n] -> { pl_name = text_of_hex p; pl_node = (if n = "-" then None else Some (text_of_hex n)) }
                   | _ -> failwith "plug") (split ',' plugs) in
        devs := !devs @ [ { ed_name = text_of_hex name; ed_plugs = pl; ed_scripts = List.map (fun s -> z_of_int (int_of_string s)) (split ',' scripts) } ]
    | ["REQ"; com; tg] ->
        let com = z_of_int (int_of_string com) in
        let tgts = List.map text_of_hex (split ',' tg) in
        let q = enqueue !devs com tgts in
        let b = Buffer.create 256 in
        List.iteri (fun i (_, acts) ->
          List.iter (fun a ->
            Buffer.add_string b (Printf.sprintf "%d:%d:" i (int_of_z a.qa_com));
            (match a.qa_plugs with
             | None -> Buffer.add_string b "NULL"
             | Some [] -> Buffer.add_string b "EMPTY"
             | Some ps -> Buffer.add_string b (String.concat "," (List.map (fun p -> hex_of_text p.pl_name) ps)));
            Buffer.add_string b ";") acts) q;
        Printf.printf "RES check=%d total=%d q=%s\n" (if check_actions !devs com tgts then 1 else 0) (int_of_nat (total q)) (Buffer.contents b)
    | ["END"] -> devs := []
    | _ -> ()) (read_lines ())
