(* R-HL model side: same case format and output format as harness/hl_h.c, executed by the extracted HL.step.
   Extra lines "x <slot> <names>" give HLSpec.expand of every dumped state (the python monitor re-computes them). *)
let slot s = nat_of_int (int_of_string s)
let pr = print_string
let dump w d =
  match get w (nat_of_int d) with
  | None -> Printf.printf "= %d null\n" d
  | Some st ->
    Printf.printf "= %d %s %d" d (dec_of_z st.hs_nhosts) (List.length st.hs_hr);
    List.iter (fun r -> Printf.printf " | %s %s %s %d %d" (hex_of_text r.hr_prefix) (dec_of_n r.hr_lo) (dec_of_n r.hr_hi)
                          (int_of_nat r.hr_width) (if r.hr_single then 1 else 0)) st.hs_hr;
    List.iter (fun i -> Printf.printf " ; %s %s %d" (dec_of_z i.it_idx) (dec_of_z i.it_depth) (if i.it_stale then 1 else 0)) st.hs_iters;
    pr "\n";
    Printf.printf "x %d" d;
    (* only expand states of a sane size: a range of 2^40 names is legal model state *)
    let total = List.fold_left (fun a r -> if r.hr_single then a +. 1. else a +. (float_of_string (dec_of_n r.hr_hi)) -. (float_of_string (dec_of_n r.hr_lo)) +. 1.) 0. st.hs_hr in
    if total > 200000. || total < 0. then pr " toobig" else List.iter (fun t -> pr " "; pr (hex_of_text t)) (expand st.hs_hr);
    pr "\n"

let outcome_line = function
  | Ok _ -> ""
  | Exit (c, s) -> Printf.sprintf "! Exit %d" (int_of_nat s)
  | Abort s -> Printf.sprintf "! Abort %d" (int_of_nat s)
  | MemErr s -> Printf.sprintf "! MemErr %d" (int_of_nat s)
  | Hang s -> Printf.sprintf "! Hang %d" (int_of_nat s)

let print_res = function
  | RNoList -> pr "r nolist\n"
  | RInt z -> Printf.printf "r %s\n" (dec_of_z z)
  | RNull -> pr "r null\n"
  | ROk -> pr "r ok\n"
  | RText (z, t) -> Printf.printf "r %s %s\n" (dec_of_z z) (hex_of_text t)
  | ROptText None -> pr "r nil\n"
  | ROptText (Some t) -> Printf.printf "r %s\n" (hex_of_text t)
  | RTexts (l, ended) -> pr "r"; List.iter (fun t -> pr " "; pr (hex_of_text t)) l; pr (if ended then " $\n" else " .\n")

exception Stop of string

let sweep nlo nhi mlo mhi =
  let h = ref 1469598103934665603L and cnt = ref 0 in
  let nats = Array.init 7 nat_of_int in
  for x = nlo to nhi - 1 do
    let nx = n_of_int x in
    for y = mlo to mhi - 1 do
      let ny = n_of_int y in
      for wn = 0 to 6 do for wm = 0 to 6 do
        let v = match width_equiv nx nats.(wn) ny nats.(wm) with
          | None -> wn * 8 + wm
          | Some (a, b) -> 64 + int_of_nat a * 8 + int_of_nat b in
        h := Int64.mul (Int64.logxor !h (Int64.of_int v)) 1099511628211L; incr cnt
      done done
    done
  done;
  Printf.printf "r %d %Lu\n" !cnt !h

let run_op w line =
  let ws = words line in
  if List.hd ws = "WS" then (let i k = int_of_string (List.nth ws k) in sweep (i 1) (i 2) (i 3) (i 4); w) else
  let a i = List.nth ws i in
  let d = if List.length ws > 1 then int_of_string (a 1) else 0 in
  let two = ref (-1) in
  let o = match a 0 with
    | "C" -> Some (OpCreate (slot (a 1), Some (text_of_hex (a 2))))
    | "CN" -> Some (OpCreate (slot (a 1), None))
    | "P" -> Some (OpPush (slot (a 1), text_of_hex (a 2)))
    | "H" -> Some (OpPushHost (slot (a 1), text_of_hex (a 2)))
    | "L" -> two := int_of_string (a 2); Some (OpPushList (slot (a 1), slot (a 2)))
    | "Y" -> two := int_of_string (a 2); Some (OpCopy (slot (a 1), slot (a 2)))
    | "D" -> Some (OpDeleteHost (slot (a 1), text_of_hex (a 2)))
    | "N" -> Some (OpDeleteNth (slot (a 1), z_of_dec (a 2)))
    | "F" -> Some (OpFind (slot (a 1), text_of_hex (a 2)))
    | "T" -> Some (OpNth (slot (a 1), z_of_dec (a 2)))
    | "K" -> Some (OpCount (slot (a 1)))
    | "S" -> Some (OpSort (slot (a 1)))
    | "R" -> Some (OpRanged (slot (a 1), n_of_dec (a 2)))
    | "RT" -> two := int_of_string (a 2); Some (OpRoundtrip (slot (a 1), slot (a 2)))
    | "IC" -> Some (OpIterCreate (slot (a 1)))
    | "IN" -> Some (OpIterNext (slot (a 1), slot (a 2), slot (a 3)))
    | "IR" -> Some (OpIterReset (slot (a 1), slot (a 2)))
    | "ID" -> Some (OpIterDestroy (slot (a 1), slot (a 2)))
    | "Q" -> None
    | _ -> raise (Stop "! badop")
  in
  match o with
  | None ->
    (* libc-qsort check: the model sorts a copy with its own insertion sort; compared as a multiset by the caller *)
    (match get w (nat_of_int d) with
     | None -> pr "r nolist\n"; dump w d; w
     | Some st ->
       (match sort st.hs_hr with
        | Ok h -> pr "r"; List.iter (fun t -> pr " "; pr (hex_of_text t)) (match iterate h with Ok l -> l | _ -> []); pr "\n"; dump w d; w
        | bad -> raise (Stop (outcome_line (match bad with Ok _ -> Abort O | Exit (c, s) -> Exit (c, s) | Abort s -> Abort s | MemErr s -> MemErr s | Hang s -> Hang s)))))
  | Some o ->
    (match step w o with
     | Ok (w', r) ->
       print_res r; dump w' d;
       if !two >= 0 && !two <> d && !two < 4 then dump w' !two;
       w'
     | Exit (c, s) -> raise (Stop (outcome_line (Exit (c, s))))
     | Abort s -> raise (Stop (outcome_line (Abort s)))
     | MemErr s -> raise (Stop (outcome_line (MemErr s)))
     | Hang s -> raise (Stop (outcome_line (Hang s))))

let () =
  let rec cases () =
    match input_line stdin with
    | exception End_of_file -> ()
    | l ->
      (match words l with
       | "case" :: id :: _ ->
         Printf.printf "case %s\n" id;
         let rec ops w dead =
           match input_line stdin with
           | exception End_of_file -> ()
           | "end" -> ()
           | line ->
             if dead then ops w true
             else (match run_op w line with
                   | w' -> ops w' false
                   | exception Stop msg -> print_endline msg; ops w true
                   | exception Stack_overflow -> print_endline "! ModelStackOverflow"; ops w true)
         in
         ops world0 false;
         print_endline "end"
       | _ -> ());
      cases ()
  in
  cases ()
