(* driver for the extracted C18 model (Extract/lexmodel.ml); same case lines as harness/lex_h.c plus the
   environment-oracle table the model's Section variables need:

     C <id> <mode> <nfiles> (<namehex> <contenthex>)* O <n> <entry>*
       entry = hl:<strhex>:<none|=|hex,hex,...>  re:<0|1>:<strhex>:<0|1>  gai:<hosthex>:<porthex>:<0|1>  chr:<strhex>:<0|1>

   mode lex  -> R <id> end=<eof|exit:S|mem:S|hang:S> maxidx=<n> toks=<name[:hex],...|->
   mode conf -> R <id> class=<ok|exit|abort|mem|hang> site=<S> line=<0|1> mand=<0|1|-> devs=<n> nodes=<n>
                      eclass=.. esite=.. eline=.. emand=..     (the same run with errno stale at every strtol)
   mode dump -> R <id> class=.. site=.. line=.. dump=<hex of DEV/NODES/ALIAS lines as lex_h.c's dump mode + MAPOK b> *)

exception Missing of string

let tok_name = function
  | TKw k -> string_of_text (kw_name k)
  | TPlugName -> "TOK_PLUG_NAME"
  | TStr s -> "TOK_STRING_VAL:" ^ hex_of_text s
  | TNum s -> "TOK_NUMERIC_VAL:" ^ hex_of_text s
  | TMatchpos -> "TOK_MATCHPOS"
  | TBegin -> "TOK_BEGIN"
  | TEnd -> "TOK_END"
  | TEquals -> "TOK_EQUALS"
  | TUnrec -> "TOK_UNRECOGNIZED"

let end_name = function
  | EndEOF -> "eof"
  | EndExit s -> Printf.sprintf "exit:%d" (int_of_nat s)
  | EndMem s -> Printf.sprintf "mem:%d" (int_of_nat s)
  | EndHang s -> Printf.sprintf "hang:%d" (int_of_nat s)

let split_colon s = String.split_on_char ':' s

let () =
  let rec loop () =
    match input_line stdin with
    | exception End_of_file -> ()
    | line ->
      (match words line with
       | "C" :: id :: mode :: nf :: rest ->
         let nf = int_of_string nf in
         let files = Hashtbl.create 16 in
         let rec take k l main =
           if k = 0 then (l, main)
           else match l with
             | nh :: ch :: r ->
               let nm = string_of_hex nh in
               (* the C side writes the files in order into one directory: a later file of the same name wins *)
               Hashtbl.replace files nm (text_of_hex ch);
               take (k - 1) r (if main = None then Some nm else main)
             | _ -> failwith "bad case line" in
         let (rest, main) = take nf rest None in
         let hl = Hashtbl.create 64 and re = Hashtbl.create 64 and gai = Hashtbl.create 16 and chr = Hashtbl.create 16 in
         (match rest with
          | "O" :: _ :: entries ->
            List.iter (fun e ->
                match split_colon e with
                | [ "hl"; s; v ] ->
                  Hashtbl.replace hl s (if v = "none" then None
                                        else if v = "=" then Some []
                                        else Some (List.map text_of_hex (String.split_on_char ',' v)))
                | [ "re"; w; s; v ] -> Hashtbl.replace re (w ^ ":" ^ s) (v = "1")
                | [ "gai"; h; p; v ] -> Hashtbl.replace gai (h ^ ":" ^ p) (v = "1")
                | [ "chr"; s; v ] -> Hashtbl.replace chr s (v = "1")
                | _ -> failwith ("bad oracle entry " ^ e)) entries
          | _ -> ());
         let lookup kind tbl key = match Hashtbl.find_opt tbl key with Some v -> v | None -> raise (Missing (kind ^ ":" ^ key)) in
         let o_hl s = lookup "hl" hl (hex_of_text s) in
         let o_re w s = lookup "re" re ((if w then "1" else "0") ^ ":" ^ hex_of_text s) in
         let o_gai h p = lookup "gai" gai (hex_of_text h ^ ":" ^ hex_of_text p) in
         let o_chr s = lookup "chr" chr (hex_of_text s) in
         let fmap name = Hashtbl.find_opt files (string_of_text name) in
         let maintext = match main with Some m -> Hashtbl.find files m | None -> [] in
         (try
            if mode = "lex" then begin
              let (st, e) = lex_run fmap maintext in
              let toks = List.rev st.l_out in
              Printf.printf "R %s end=%s maxidx=%d toks=%s\n" id (end_name e) (int_of_n st.l_maxidx)
                (if toks = [] then "-" else String.concat "," (List.map tok_name toks))
            end else if mode = "dump" then begin
              (* R-CONF (C13): the configuration record in the format of harness/lex_h.c's dump mode *)
              let r = conf_init o_hl o_re o_gai o_chr (fun _ -> false) fmap maintext in
              let (cls, site) = outcome_class r in
              let cname = match int_of_n cls with 0 -> "ok" | 1 -> "exit" | 2 -> "abort" | 3 -> "mem" | _ -> "hang" in
              let b = Buffer.create 256 in
              (match r with
               | Ok c ->
                 List.iter (fun d ->
                     Buffer.add_string b (Printf.sprintf "DEV %s %s %d %d" (hex_of_text d.d_name) (hex_of_text d.d_spec)
                                            (if d.d_hardwired then 1 else 0) (List.length d.d_plugs));
                     List.iter (fun (p, n) ->
                         Buffer.add_string b (" " ^ hex_of_text p ^ " " ^ (match n with Some x -> hex_of_text x | None -> "."))) d.d_plugs;
                     Buffer.add_char b '\n') c.c_devs;
                 let hl l = if l = [] then "=" else String.concat "," (List.map hex_of_text l) in
                 Buffer.add_string b ("NODES " ^ hl c.c_nodes ^ "\n");
                 List.iter (fun (n, l) -> Buffer.add_string b ("ALIAS " ^ hex_of_text n ^ " " ^ hl l ^ "\n")) c.c_aliases;
                 Buffer.add_string b (Printf.sprintf "MAPOK %d\n" (if map_ok c then 1 else 0))
               | _ -> ());
              Printf.printf "R %s class=%s site=%d line=%d dump=%s\n" id cname (int_of_nat site)
                (if site_hasline site then 1 else 0) (hex_of_text (text_of_string (Buffer.contents b)))
            end else begin
              (* the stale-errno oracle (F30 not applied) is environment non-determinism: the model is evaluated under
                 both constant answers; `class/site/...` = errno never stale, `eclass/esite/eline` = always stale *)
              let show r =
                let (cls, site) = outcome_class r in
                let cname = match int_of_n cls with 0 -> "ok" | 1 -> "exit" | 2 -> "abort" | 3 -> "mem" | _ -> "hang" in
                let (mand, nd, nn) = match r with
                  | Ok c -> ((if mandatory_ok c then "1" else "0"), List.length c.c_devs, List.length c.c_nodes)
                  | _ -> ("-", 0, 0) in
                (cname, int_of_nat site, (if site_hasline site then 1 else 0), mand, nd, nn) in
              let (c0, s0, l0, m0, nd, nn) = show (conf_init o_hl o_re o_gai o_chr (fun _ -> false) fmap maintext) in
              let (c1, s1, l1, m1, _, _) = show (conf_init o_hl o_re o_gai o_chr (fun _ -> true) fmap maintext) in
              Printf.printf "R %s class=%s site=%d line=%d mand=%s devs=%d nodes=%d eclass=%s esite=%d eline=%d emand=%s\n" id c0 s0 l0 m0 nd nn
                c1 s1 l1 m1
            end
          with Missing k -> Printf.printf "R %s error=missing-oracle:%s\n" id k);
         flush stdout
       | _ -> ());
      loop ()
  in
  loop ()
