(* glue between OCaml's native values and the Coq datatypes kept by extraction (ExtrOcamlBasic only:
   nat, positive, N, Z stay Coq inductives).  Concatenated after `open <Extracted>` by vlib.ocaml_driver. *)
let rec pos_of_int n = if n <= 1 then XH else if n land 1 = 0 then XO (pos_of_int (n lsr 1)) else XI (pos_of_int (n lsr 1))
let n_of_int n = if n <= 0 then N0 else Npos (pos_of_int n)
let rec int_of_pos = function XH -> 1 | XO p -> 2 * int_of_pos p | XI p -> 2 * int_of_pos p + 1
let int_of_n = function N0 -> 0 | Npos p -> int_of_pos p
let z_of_int n = if n = 0 then Z0 else if n > 0 then Zpos (pos_of_int n) else Zneg (pos_of_int (- n))
let int_of_z = function Z0 -> 0 | Zpos p -> int_of_pos p | Zneg p -> - (int_of_pos p)
let nat_of_int n = let rec go acc k = if k <= 0 then acc else go (S acc) (k - 1) in go O n
let int_of_nat n = let rec go acc = function O -> acc | S m -> go (acc + 1) m in go 0 n
let text_of_string s = List.init (String.length s) (fun i -> n_of_int (Char.code s.[i]))
let string_of_text t = let b = Buffer.create 64 in List.iter (fun c -> Buffer.add_char b (Char.chr ((int_of_n c) land 255))) t; Buffer.contents b
let hex_of_string s = let b = Buffer.create (2 * String.length s) in String.iter (fun c -> Buffer.add_string b (Printf.sprintf "%02x" (Char.code c))) s; Buffer.contents b
let string_of_hex h = if h = "-" then "" else String.init (String.length h / 2) (fun i -> Char.chr (int_of_string ("0x" ^ String.sub h (2 * i) 2)))
let text_of_hex h = text_of_string (string_of_hex h)
let hex_of_text t = let s = hex_of_string (string_of_text t) in if s = "" then "-" else s
(* decimal strings <-> N, for values beyond OCaml's 63-bit int (unsigned long in hostlist.c) *)
let n_of_dec s = let ten = n_of_int 10 in
  let r = ref N0 in String.iter (fun c -> r := N.add (N.mul !r ten) (n_of_int (Char.code c - 48))) s; !r
let dec_of_n n = let ten = n_of_int 10 in
  let rec go n acc = match n with N0 -> acc | _ -> let (q, r) = N.div_eucl n ten in go q (string_of_int (int_of_n r) ^ acc) in
  match n with N0 -> "0" | _ -> go n ""
let z_of_dec s = if String.length s > 0 && s.[0] = '-' then Z.opp (Z.of_N (n_of_dec (String.sub s 1 (String.length s - 1)))) else Z.of_N (n_of_dec s)
let dec_of_z z = match z with Zneg _ -> "-" ^ dec_of_n (Z.to_N (Z.opp z)) | _ -> dec_of_n (Z.to_N z)
let words l = List.filter (fun w -> w <> "") (String.split_on_char ' ' l)
let read_lines () = let rec go acc = match input_line stdin with l -> go (l :: acc) | exception End_of_file -> List.rev acc in go []
