#!/bin/bash
# integrator helper: apply one proposed fix to /repo as a single "fix:" commit after the unedited suite passes
set -e
name=$1
cd /repo
git apply --check /verif/fixes/$name.diff
git apply /verif/fixes/$name.diff
make -j8 >/tmp/fix_mk.log 2>&1 || { echo BUILD FAILED; tail -20 /tmp/fix_mk.log; git checkout -- .; exit 1; }
unshare -n sh -c "ip link set lo up; make check -j8" >/tmp/fix_mc.log 2>&1 || true
f=$(grep -E "^# (FAIL|ERROR):" /tmp/fix_mc.log | awk '{s+=$3} END {print s}')
p=$(grep -E "^# PASS:" /tmp/fix_mc.log | awk '{s+=$3} END {print s}')
echo "suite: pass=$p fail+error=$f"
if [ "$f" != "0" ] || [ "$p" -lt 870 ]; then echo SUITE FAILED; git checkout -- .; exit 1; fi
# only tracked files: build outputs in the tree are untracked and must stay so
git commit -q -a -F /verif/fixes/$name.msg
git log --oneline | head -1
