"""build and drive harness/pmsim (the unmodified daemon under the virtual OS, DESIGN §3.3)"""
import os, subprocess, re, time
import vlib

WRAPS = "poll gettimeofday time socket setsockopt getsockopt bind listen accept connect fcntl socketpair fork kill waitpid read write close getaddrinfo freeaddrinfo getnameinfo".split()
DAEMON_SRCS = ["src/liblsd/cbuf.c", "src/liblsd/hash.c", "src/liblsd/hostlist.c", "src/liblsd/list.c",
               "src/libcommon/argv.c", "src/libcommon/error.c", "src/libcommon/fdutil.c", "src/libcommon/hprintf.c",
               "src/libcommon/xmalloc.c", "src/libcommon/xpoll.c", "src/libcommon/xread.c", "src/libcommon/xregex.c", "src/libcommon/xsignal.c",
               "src/powerman/arglist.c", "src/powerman/client.c", "src/powerman/debug.c", "src/powerman/device.c",
               "src/powerman/device_pipe.c", "src/powerman/device_serial.c", "src/powerman/device_tcp.c", "src/powerman/parse_util.c",
               "src/powerman/pluglist.c", "src/powerman/powermand.c", "src/powerman/parse_tab.c", "src/powerman/parse_lex.c"]


def build(ctx, name="pmsim", sanitize=True, extra=()):
    """compile the scratch copy's daemon + harness/pmsim.c; parser regenerated from .y/.l"""
    if not os.path.exists(os.path.join(ctx.repo, "src/powerman/parse_tab.c.regen")):
        ctx.regen_parser()
        open(os.path.join(ctx.repo, "src/powerman/parse_tab.c.regen"), "w").close()
    srcs = [os.path.join(ctx.repo, s) for s in DAEMON_SRCS] + [os.path.join(vlib.VERIF, "harness", "pmsim.c")]
    return ctx.cc_parallel(srcs, name, extra=["-Dmain=pm_main", '-DX_SYSCONFDIR="/nonexistent"'] + list(extra),
                           link_extra=["-Wl,--wrap=" + w for w in WRAPS], sanitize=sanitize)


class Round:
    __slots__ = ("lines", "poll", "now", "timeout", "ready", "interest", "devs", "mem", "vfds", "kids")


SPUN = [0]          # histories killed by the wall-clock budget so far in this process


class Sim:
    """one pmsim process.  Usage:
         s = Sim(exe, conf_path); r = s.next_round()  -> Round (what the daemon did, then its POLL line)
         s.send(["CONN", "IN c0 6f6e..."]) ... ; r = s.next_round(); ... ; s.finish()"""

    def __init__(self, exe, conf, args=(), env=None, stderr_path=None):
        e = dict(os.environ)
        e["ASAN_OPTIONS"] = "detect_leaks=1:abort_on_error=0:exitcode=99:allocator_may_return_null=1"
        e["UBSAN_OPTIONS"] = "print_stacktrace=1:halt_on_error=1:exitcode=99"
        if env:
            e.update(env)
        self.errf = open(stderr_path, "wb") if stderr_path else subprocess.DEVNULL
        # (a change that makes the daemon spin without a system call costs the whole budget per history: after a few such kills the
        #  property is violated anyway, and the remaining histories of the run get a short budget)
        self.p = subprocess.Popen(["timeout", "-s", "KILL", "120" if SPUN[0] < 6 else "20", exe, conf] + list(args), stdin=subprocess.PIPE,
                                  stdout=subprocess.PIPE, stderr=self.errf, env=e, bufsize=0)
        self.events = []         # recorded rounds (list of list of event lines) = the replayable history
        self.trace = []          # every trace line of the run
        self.out = self.p.stdout
        self.buf = b""
        self.done = None         # final status: dict(exit=..)
        self.final = []

    def _readline(self):
        if self.done is not None and b"\n" not in self.buf:
            return None
        while b"\n" not in self.buf:
            chunk = os.read(self.out.fileno(), 1 << 16)
            if not chunk:
                if self.buf:
                    l, self.buf = self.buf, b""
                    return l.decode("latin-1")
                return None
            self.buf += chunk
        l, self.buf = self.buf.split(b"\n", 1)
        return l.decode("latin-1")

    def next_round(self):
        """read trace lines up to and including the next POLL line; None when the process ended"""
        r = Round(); r.lines = []; r.devs = []; r.mem = None
        while True:
            l = self._readline()
            if l is None:
                self.final = r.lines
                self._finish_status()
                return None
            self.trace.append(l)
            if l.startswith("POLL "):
                m = re.match(r"POLL round=(\d+) now=(-?\d+) timeout=(-?\d+) ready=(\d+) vfds=(\d+) kids=(-?\d+) interest=(.*)", l)
                r.poll = int(m.group(1)); r.now = int(m.group(2)); r.timeout = int(m.group(3)); r.ready = int(m.group(4))
                r.vfds = int(m.group(5)); r.kids = int(m.group(6))
                r.interest = dict(x.split(":") for x in m.group(7).split(",") if x)
                return r
            if l.startswith("DEV "):
                d = dict(x.split("=", 1) for x in l.split()[2:])
                d["idx"] = int(l.split()[1])
                r.devs.append(d)
            elif l.startswith("MEM "):
                r.mem = int(l.split("=")[1])
            else:
                r.lines.append(l)

    def send(self, evs):
        self.events.append(list(evs))
        data = "".join(e + "\n" for e in evs) + "GO\n"
        try:
            self.p.stdin.write(data.encode("latin-1"))
        except (BrokenPipeError, ValueError, OSError):
            pass

    def _finish_status(self):
        try:
            rc = self.p.wait(timeout=130)
        except subprocess.TimeoutExpired:
            self.p.kill(); rc = -9
        st = dict(rc=rc, kind="?")
        fl = self.final
        if any(l.startswith("RETURN ") for l in fl):
            st["kind"] = "return"; st["status"] = int([l for l in fl if l.startswith("RETURN ")][0].split()[1])
            st["leaks"] = [l for l in fl if l.startswith("LEAK ")]
            st["kids"] = int([l for l in fl if l.startswith("RETURN ")][0].split("kids=")[1])
            st["heapleak"] = any(l.startswith("HEAPLEAK 1") for l in fl)
        elif any(l.startswith("HANG") for l in fl):
            st["kind"] = "hang"; st["detail"] = [l for l in fl if l.startswith("HANG")][0]
        elif any(l.startswith("EXIT ABORT") for l in fl) or rc == 134:
            st["kind"] = "abort"
        elif rc == 99:
            st["kind"] = "sanitizer"
        elif rc in (137, -9, 124):
            st["kind"] = "killed-timeout"; SPUN[0] += 1
        elif any(l.startswith("EXIT-CALLED") for l in fl):
            st["kind"] = "exit"; st["status"] = rc
        else:
            st["kind"] = "died"; st["status"] = rc
        self.done = st
        if self.errf is not subprocess.DEVNULL:
            self.errf.close()
        # release the pipes now: histories are kept for the monitors, and thousands of them per run would otherwise
        # hold two descriptors each until garbage collection (EMFILE in the thorough tier)
        for f in (self.p.stdin, self.p.stdout):
            try:
                if f is not None:
                    f.close()
            except Exception:
                pass

    def kill(self):
        try:
            self.p.kill()
        except Exception:
            pass
        self._finish_status()


def hx(b):
    if isinstance(b, str):
        b = b.encode("latin-1")
    return b.hex() if b else "-"
