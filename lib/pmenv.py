"""Environment for whole-daemon runs on harness/pmsim: simulated devices that answer the generated
specifications (lib/pmgen.py script_text), scripted clients, fault injection, virtual clock.

One `Session` = one pmsim process + the environment loop.  Everything the environment sends is recorded in
sim.events (the replayable history); the ground truth of what each simulated device was asked to do is kept in
`Session.truth` for the property monitors."""
import re, os
import pmsim, pmgen

hx = pmsim.hx


class SimDevice:
    """answers the generated scripts: verbs LOGIN / LOGOUT / PING / <KIND> [arg]"""
    def __init__(self, dev, cfg, rng):
        self.dev, self.cfg, self.rng = dev, cfg, rng
        self.plugs = list(dev.hardwired) if dev.hardwired is not None else [p for p, n in cfg.truth[dev.name].items()]
        self.state = {p: rng.choice(["ON", "OFF"]) for p in self.plugs}      # what the hardware would report
        self.verdict = {}          # plug -> forced verdict text for the next answers ("ERR", "GARBLE", None=missing)
        self.mode = "healthy"      # healthy | silent | garbage | partial | slow
        self.linebuf = b""
        self.log = []              # (conn, verb, [plugs commanded])  ground truth
        self.answered = []         # (conn, verb, {plug: text sent})
        self.want_close = set()    # connections this device wants to hang up on (mode "hangup")
        self.hold = []             # [rounds_left, conn, bytes]: answers held back (mode "slowpong": the PING answer comes late)
        self.owing = {}            # conn -> verb whose answer has not been emitted yet
        self.interleaves = []      # (conn, verb owed, line received meanwhile): a second conversation started (C10)

    def feed(self, conn, data):
        """bytes the daemon wrote; returns bytes to emit back"""
        out = b""
        self.last_conn = conn
        if self.mode == "iacsplit":
            import re as _re
            data = _re.sub(rb"\xff[\xfb-\xfe].", b"", data)          # the daemon's WONT / DONT answers to our option requests
        self.linebuf += data
        while b"\n" in self.linebuf:
            line, self.linebuf = self.linebuf.split(b"\n", 1)
            text = line.decode("latin-1")
            if conn in self.owing:
                self.interleaves.append((conn, self.owing[conn], text))
            ans = self.handle(conn, text)
            if self.mode == "iacsplit" and len(ans) >= 2:
                # a telnet-chatty device: a telnet sequence is put somewhere into the answer and the answer is CUT inside that sequence; the
                # rest follows two rounds later (the other devices' answers are read in between)
                seq = self.rng.choice([b"\xff\xf1", b"\xff\xfd\x01", b"\xff\xfb\x03", b"\xff\xfe\x18"])     # IAC NOP / DO echo / WILL sga / DONT ttype
                pos = self.rng.randint(0, len(ans) - 1)
                cut = self.rng.randint(1, len(seq) - 1)
                first, rest = ans[:pos] + seq[:cut], seq[cut:] + ans[pos:]
                self.hold.append([2, conn, rest]); self.owing[conn] = text.split(" ", 1)[0]
                ans = first
            if self.mode == "slowlogin" and text.split(" ", 1)[0] == "LOGIN" and ans:
                # the prompt of this connection comes a few rounds late, once: nothing else may be said to the device before it came
                self.hold.append([4, conn, ans]); self.owing[conn] = "LOGIN"; self.mode = "healthy"
            elif self.mode == "slowpong" and text.split(" ", 1)[0] == "PING" and ans:
                self.hold.append([3, conn, ans]); self.owing[conn] = "PING"
            else:
                out += ans
        return out

    def tick(self):
        """called once per round: answers held back whose time has come -> [(conn, bytes)]"""
        due = []
        for h in self.hold:
            h[0] -= 1
        for h in [h for h in self.hold if h[0] <= 0]:
            self.hold.remove(h); self.owing.pop(h[1], None); due.append((h[1], h[2]))
        return due

    def handle(self, conn, line):
        """mode "late": the answer to the first query is held back and sent, on the same connection, in front of the answer to the NEXT line
        (a device that answers later than the daemon's time-out); it is recorded as <VERB>-LATE: a report that belongs to the earlier query"""
        pre = b""
        late = getattr(self, "late", None)
        if late and late[0] == conn and not line.startswith("LOGIN"):
            pre, self.late = late[1], None
        if self.mode == "late" and line.split(" ", 1)[0].startswith("STATUS"):
            self.mode = "healthy"
            data = self._handle(conn, line)
            c, v, sent = self.answered.pop()
            self.answered.append((c, v + "-LATE", sent))
            self.late = (conn, data)
            return pre
        if self.mode == "surplus" and line.split(" ", 1)[0].startswith("STATUS"):
            # says everything twice, once: the second copy is more than the script consumes and stays in the daemon's buffer (recorded as
            # <VERB>-LATE: whoever reads it later reads an answer that was given to the EARLIER query)
            self.mode = "healthy"
            data = self._handle(conn, line)
            c, v, sent = self.answered[-1]
            self.answered.append((c, v + "-LATE", dict(sent)))
            return pre + data + data
        return pre + self._handle(conn, line)

    def _handle(self, conn, line):
        w = line.split(" ", 1)
        verb, arg = w[0], (w[1] if len(w) > 1 else None)
        if self.mode == "silent":
            self.log.append((conn, verb, self._targets(verb, arg), "ignored"))
            return b""
        if self.mode == "garbage":
            self.log.append((conn, verb, self._targets(verb, arg), "garbage"))
            return bytes(self.rng.randrange(256) for _ in range(self.rng.randint(1, 40)))
        if self.mode == "fftail":          # line noise whose last byte in every read is 0xFF (a telnet IAC with nothing behind it)
            self.log.append((conn, verb, self._targets(verb, arg), "fftail"))
            return bytes(self.rng.randrange(1, 250) for _ in range(self.rng.randint(0, 12))) + b"\xff"
        if verb == "LOGIN" and self.mode == "badlogin":
            # the first login of the device's life is answered with something else (of the same length as the prompt, one less, one more ...)
            self.log.append((conn, verb, [], "badlogin")); self.mode = "healthy"
            return self.rng.choice([b"locke\n", b"locked\n", b"busy\n", b"nope!\n", b"x\n", b"try later..\n"])
        if verb == "LOGIN":
            return b"ready\n"
        if self.mode == "junkclose":       # says something no script expects and hangs up, once (bytes left unconsumed in the daemon's buffer)
            self.log.append((conn, verb, self._targets(verb, arg), "iacclose"))
            self.want_close.add(conn); self.mode = "healthy"
            return self.rng.choice([b"goodbye\n", b"> ", b"connection closed by foreign host\r\n", b"x"])
        if self.mode == "readyclose" and verb not in ("LOGOUT", "PING"):      # answers, adds what looks like a login prompt, and hangs up; the NEXT connection prompts late
            data = self._handle_healthy(conn, verb, arg)
            self.log[-1] = self.log[-1][:3] + ("readyclose",)
            self.want_close.add(conn); self.mode = "slowlogin"
            return data + b"ready\n"
        if self.mode == "iacclose":        # drops the connection in the middle of a telnet sequence, once; behaves from the next connection on
            self.log.append((conn, verb, self._targets(verb, arg), "iacclose"))
            self.want_close.add(conn); self.mode = "healthy"
            return self.rng.choice([b"\xff", b"\xff\xfd", b"\xff\xfb", b"\xff\xfe", b"\xff\xfc"])
        if self.mode == "hangup":          # logs in, then drops the connection whenever it receives a command
            self.log.append((conn, verb, self._targets(verb, arg), "hangup"))
            self.want_close.add(conn)
            return b""
        return self._handle_healthy(conn, verb, arg)

    def _handle_healthy(self, conn, verb, arg):
        if verb == "LOGOUT":
            return b"bye\n"
        if verb == "PING":
            return b"pong\n"
        tg = self._targets(verb, arg)
        self.log.append((conn, verb, tg, "answered"))
        base = verb.lower().replace("_ranged", "").replace("_all", "")
        lines, sent = [], {}
        for p in tg:
            v = self.verdict.get(p, "default")
            if v is None:
                continue                                   # missing line
            if base in ("status", "status_beacon"):
                txt = self.state.get(p, "OFF") if v == "default" else v
            elif base == "status_temp":
                txt = "42" if v == "default" else v
            else:
                txt = "OK" if v == "default" else v
                if txt == "OK":
                    if base == "on": self.state[p] = "ON"
                    if base == "off": self.state[p] = "OFF"
            sent[p] = txt
            lines.append("%s %s\n" % (p, txt))
        self.answered.append((conn, verb, sent))
        data = "".join(getattr(self, "prefix_lines", [])) + "".join(lines) + "done\n"      # (prefix_lines: reports about outlets nobody asked about)
        if self.mode == "partial":
            data = data[:max(1, len(data) // 2)]
        return data.encode("latin-1")

    def _targets(self, verb, arg):
        if verb.endswith("_ALL"):
            return list(self.plugs)
        if arg is None:
            return []
        try:
            return pmgen.expand(arg)
        except Exception:
            return [arg]


class Session:
    def __init__(self, exe, cfg, scratch, tag, rng, args=(), env=None):
        self.cfg, self.rng = cfg, rng
        self.conf_path = os.path.join(scratch, "pm_%s.conf" % tag)
        open(self.conf_path, "w").write(cfg.text())
        self.err_path = os.path.join(scratch, "pm_%s.err" % tag)
        self.sim = pmsim.Sim(exe, self.conf_path, args=args, env=env, stderr_path=self.err_path)
        self.devs = {d.name: SimDevice(d, cfg, rng) for d in cfg.devs}
        self.devorder = [d.name for d in cfg.devs]
        self.conn_dev = {}         # connN -> device name
        self.conn_open = {}        # connN -> bool
        self.dev_conns = {d.name: [] for d in cfg.devs}     # device -> list of (conn, t_open)
        self.dev_rx = {}           # connN -> bytes the device received on that connection
        self.client_out = {}       # k -> bytes
        self.client_times = {}     # k -> list of (t, bytes)
        self.nclients = 0
        self.pending_dev_out = []  # (conn, bytes) to deliver next round
        self.rounds = []           # Round objects
        self.connect_log = []      # (t, conn, plan, dev)
        self.closed_clients = set()
        self.timeouts = []         # (round, now, timeout, interest)
        self.kills, self.forks, self.waits = [], [], []
        self.t = 0

    # ---- one round: read what the daemon did, update bookkeeping
    def step(self):
        r = self.sim.next_round()
        if r is None:
            return None
        self.t = r.now
        for d in r.devs:
            fd = d.get("fd", "none")
            if fd.startswith("conn"):
                c = fd
                name = d["name"]
                if self.conn_dev.get(c) != name:
                    self.conn_dev[c] = name
                    self.dev_conns[name].append((c, r.now))
        for l in r.lines:
            w = l.split()
            if w[0] == "WR":
                data = bytes.fromhex("" if w[2] == "-" else w[2])
                if w[1].startswith("conn"):
                    self.dev_rx[w[1]] = self.dev_rx.get(w[1], b"") + data
                    self._pending_rx = getattr(self, "_pending_rx", [])
                    self._pending_rx.append((w[1], data))
                else:
                    k = int(w[1][1:])
                    self.client_out[k] = self.client_out.get(k, b"") + data
                    self.client_times.setdefault(k, []).append((r.now, data))
            elif w[0] == "OPEN":
                self.conn_open[w[1]] = True
            elif w[0] == "CLOSE":
                if w[1].startswith("conn"):
                    self.conn_open[w[1]] = False
                elif w[1].startswith("c"):
                    self.closed_clients.add(int(w[1][1:]))
            elif w[0] == "CONNECT":
                self.connect_log.append((r.now, w[1], w[3].split("=")[1]))
            elif w[0] == "FORK":
                self.forks.append((r.now, l))
            elif w[0] == "KILL":
                self.kills.append((r.now, l))
            elif w[0] == "WAIT":
                self.waits.append((r.now, l))
            elif w[0] == "ACCEPT":
                self.nclients = max(self.nclients, int(w[1][1:]) + 1)
        self.timeouts.append((r.poll, r.now, r.timeout, dict(r.interest), [dict(d) for d in r.devs], r.vfds, r.kids, r.mem))
        self.rounds.append(r)
        # device reactions to what was written during this pass (delivered with the next round's events)
        # connection -> device mapping is known from the DEV lines of THIS poll (reported before POLL)
        evs = []
        for conn, data in getattr(self, "_pending_rx", []):
            name = self.conn_dev.get(conn)
            if name is None:
                continue
            out = self.devs[name].feed(conn, data)
            if out and self.conn_open.get(conn, True):
                evs.append("IN %s %s" % (conn, hx(out)))
            if conn in self.devs[name].want_close:
                self.devs[name].want_close.discard(conn)
                if self.conn_open.get(conn, True):
                    evs.append("EOF %s" % conn)
        # line noise (mode "fftail"): whenever the daemon talks to ANOTHER device, this one emits a few bytes ending in 0xFF
        talk = {self.conn_dev.get(c) for c, _ in getattr(self, "_pending_rx", [])}
        for name, dv in self.devs.items():
            lc = getattr(dv, "last_conn", None)
            if dv.mode == "fftail" and lc and self.conn_open.get(lc, True) and (talk - {name, None}):
                evs.append("IN %s %s" % (lc, hx(bytes(dv.rng.randrange(1, 250) for _ in range(dv.rng.randint(0, 3))) + b"\xff")))
        for name, dv in self.devs.items():
            for conn, out in dv.tick():
                if self.conn_open.get(conn, True):
                    evs.append("IN %s %s" % (conn, hx(out)))
        self._pending_rx = []
        return r, evs

    def client_send(self, k, data):
        return "IN c%d %s" % (k, hx(data))

    def finish(self):
        """let the daemon shut down: SIGTERM, then read to the end"""
        for _ in range(50):
            if self.sim.done:
                break
            self.sim.send(["SIG TERM"])
            r = self.sim.next_round()
            if r is None:
                break
        if not self.sim.done:
            self.sim.kill()
        return self.sim.done

    def stderr(self):
        try:
            return open(self.err_path, "rb").read().decode("latin-1")
        except OSError:
            return ""


def adv_for(r, want_usec=None):
    """time to let pass before the next events: the daemon's own time-out if it has one (a real sleep),
    else `want_usec`; a zero time-out costs the fixed 50 us"""
    if r.timeout == 0:
        return 50
    if r.timeout > 0:
        t = r.timeout * 1000
        return min(t, want_usec) if want_usec is not None else t
    return want_usec if want_usec is not None else 0


def reply_complete(out):
    """a client's output since a request: complete when it ends with a prompt, or with a 208 / 101 line"""
    return out.endswith(b"powerman> ") or re.search(rb"(^|\r\n)(208|101) [^\r\n]*\r\n$", out) is not None


def drive(sess, script, max_rounds=600):
    """run a script against the session; returns False if the daemon died before the script ended.
    steps:
       ("connect",)                      a new client connects
       ("send", k, bytes)                client k sends bytes
       ("wait", k)                       run rounds until client k's output since its last send is a complete reply
                                         (prompt, or 208/101 line); gives up when the daemon has nothing scheduled (wedge)
       ("sleep", usec)                   let virtual time pass
       ("raw", [event lines])            inject raw pmsim events
       ("devmode", devname, mode) / ("verdict", devname, plug, text) / ("close_dev", devname) / ("flip", devname, plug)"""
    i = 0
    waiting = None           # (client, mark)
    sleep_until = None
    marks = {}
    sess.wedged = None
    sess.overrun = False
    for _ in range(max_rounds):
        st = sess.step()
        if st is None:
            return False
        r, evs = st
        # blocking conditions
        if waiting is not None:
            k, mark = waiting
            if reply_complete(sess.client_out.get(k, b"")[mark:]) and len(sess.client_out.get(k, b"")) > mark:
                waiting = None
            elif k in sess.closed_clients:
                waiting = None                   # the daemon has closed this client: nothing more will come
        if sleep_until is not None and r.now >= sleep_until:
            sleep_until = None
        # non-blocking script steps
        while waiting is None and sleep_until is None and i < len(script):
            step = script[i]; i += 1
            if step[0] == "connect":
                evs.append("CONN")
            elif step[0] == "send":
                marks[step[1]] = len(sess.client_out.get(step[1], b""))
                evs.append(sess.client_send(step[1], step[2]))
            elif step[0] == "wait":
                waiting = (step[1], marks.get(step[1], 0))
                if reply_complete(sess.client_out.get(step[1], b"")[waiting[1]:]) and len(sess.client_out.get(step[1], b"")) > waiting[1]:
                    waiting = None
            elif step[0] == "sleep":
                sleep_until = r.now + step[1]
            elif step[0] == "raw":
                evs += step[1]
            elif step[0] == "devmode":
                sess.devs[step[1]].mode = step[2]
            elif step[0] == "devstate":           # ("devstate", devname, "ON"|"OFF"): what every outlet of the device reports from now on
                for pl in sess.devs[step[1]].state: sess.devs[step[1]].state[pl] = step[2]
            elif step[0] == "devprefix":          # ("devprefix", devname, ["zz9 ON\n", ...]): every answer starts with these lines
                sess.devs[step[1]].prefix_lines = list(step[2])
            elif step[0] == "verdict":
                sess.devs[step[1]].verdict[step[2]] = step[3]
            elif step[0] == "flip":
                d = sess.devs[step[1]]; d.state[step[2]] = "OFF" if d.state.get(step[2]) == "ON" else "ON"
            elif step[0] == "close_dev":
                conns = sess.dev_conns.get(step[1], [])
                if conns:
                    evs.append("EOF %s" % conns[-1][0])
            elif step[0] == "flood_dev":          # ("flood_dev", devname, 0|1): the peer sends without end (every read() finds more bytes)
                conns = sess.dev_conns.get(step[1], [])
                if conns:
                    evs.append("FLOOD %s %d" % (conns[-1][0], step[2]))
                    sess._flooding = bool(step[2])
        if waiting is None and sleep_until is None and i >= len(script) and not evs and r.ready == 0:
            settle = getattr(sess, "_settle", 0) + 1
            sess._settle = settle
            if settle >= 3 or r.timeout != 0:
                return True                      # script done and nothing in flight (timers may remain: pings, back-off)
        # the clock: events happen now; without events the daemon sleeps its full time-out
        if r.ready > 0:
            # something is ready already: poll returns at once.  With a flooding peer that is true in EVERY round, and real time passes
            # while the daemon works its way through the flood: 5 ms per pass (1000 bytes each, i.e. a 200 KB/s flood)
            adv = 5000 if getattr(sess, "_flooding", False) else 0
        elif evs:
            adv = 50 if r.timeout == 0 else 0
        elif r.timeout == 0:
            adv = 50
        elif r.timeout > 0:
            adv = r.timeout * 1000
            if sleep_until is not None:
                adv = min(adv, max(1, sleep_until - r.now))
        else:
            if sleep_until is not None:
                adv = max(1, sleep_until - r.now)
            elif waiting is None and i >= len(script):
                return True                      # script done, daemon idle
            else:
                sess.wedged = dict(round=r.poll, now=r.now, waiting=waiting, step=i)     # nothing can ever wake the daemon
                return True
        sess.sim.send((["ADV %d" % adv] if adv else []) + evs)
    sess.overrun = True
    return True
