"""Whole-daemon scenarios on pmsim + the property monitors evaluated on the IMPLEMENTATION's behaviour
(the `search` of DESIGN §2.3: a property-breaking change yields a concrete failing history)."""
import re, os, json, random
from concurrent.futures import ThreadPoolExecutor
import pmsim, pmgen, pmenv

TERMINAL = re.compile(rb"(?:^|\r\n)([12]\d\d) [^\r\n]*\r\n")


# ------------------------------------------------------------------------------------------- scenarios
class Scenario:
    def __init__(self, cfg, script, tags, env=None, args=()):
        self.cfg, self.script, self.tags, self.env, self.args = cfg, script, tags, env or {}, args
        self.requests = []        # (client, line, kind, targets) in script order, filled by the generator

    def describe(self):
        return dict(config=self.cfg.text(), script=[list(map(lambda x: x.decode("latin-1") if isinstance(x, bytes) else x, s)) for s in self.script],
                    env=self.env, tags=self.tags)


def target_expr(rng, cfg, mode=None):
    nodes = cfg.all_nodes()
    bydev = {d.name: [v for v in cfg.truth[d.name].values() if v] for d in cfg.devs}
    mode = mode or rng.choice(["all", "onedev", "single", "subset", "subset", "dup", "alias", "two-devs", "dupfill"])
    if mode == "all": t = list(nodes)
    elif mode == "onedev": t = list(bydev[rng.choice(cfg.devs).name])
    elif mode == "single": t = [rng.choice(nodes)]
    elif mode == "dup": t = [rng.choice(nodes)] * 2
    elif mode == "dupfill" and len(nodes) >= 2:
        # a strict subset, names repeated until the list has as many ENTRIES as there are configured nodes (a count is not a cover)
        sub = rng.sample(nodes, rng.randint(1, len(nodes) - 1))
        t = [sub[i % len(sub)] for i in range(len(nodes))]
        rng.shuffle(t)
    elif mode == "alias" and cfg.aliases:
        a = rng.choice(cfg.aliases); return a[0], pmgen.expand(a[1]), mode
    elif mode == "two-devs":
        t = []
        for d in rng.sample(cfg.devs, min(2, len(cfg.devs))):
            x = bydev[d.name]; t += rng.sample(x, rng.randint(1, len(x)))
    else: t = [x for x in nodes if rng.random() < 0.5] or [rng.choice(nodes)]
    try:
        e = pmgen.compress_some(rng, t)
    except AssertionError:
        e = ",".join(t)
    return e, t, mode


def gen_scenario(rng, style="mixed", ndev=None, transports=("pipe", "pipe", "tcp")):
    cfg = pmgen.gen_variant_config(rng, ndev=ndev)
    for d in cfg.devs:
        d.transport = rng.choice(transports)
        d.timeout = rng.choice([2.0, 3.0, 5.0])
        if rng.random() < 0.2:
            d.ping = rng.choice([1.5, 4.0]); d.kinds.append("ping")
    nodes = cfg.all_nodes()
    slow = [d.name for d in cfg.devs if "ping" in d.kinds and rng.random() < 0.6]      # devices whose pong comes a few passes late
    for i in range(rng.choice([0, 0, 1])):
        cfg.aliases.append(("a%d" % i, ",".join(rng.sample(nodes, rng.randint(1, min(3, len(nodes)))))))
    ncli = rng.choice([1, 1, 2, 3])
    sc = Scenario(cfg, [], dict(style=style, ncli=ncli))
    S = sc.script
    for name in slow:
        S.append(("devmode", name, "slowpong"))
    for k in range(ncli):
        S.append(("connect",)); S.append(("wait", k))
    faulty = style in ("faults", "mixed") and rng.random() < (0.8 if style == "faults" else 0.4)
    nreq = rng.randint(2, 7)
    outstanding = set()
    for j in range(nreq):
        k = rng.randrange(ncli)
        if k in outstanding:
            S.append(("wait", k)); outstanding.discard(k)
        if faulty and rng.random() < 0.45:
            d = rng.choice(cfg.devs)
            f = rng.choice(["silent", "garbage", "partial", "verdict-err", "verdict-missing", "close", "healthy", "verdict-garble", "hangup", "slowpong"])
            if f in ("silent", "garbage", "partial", "healthy", "hangup", "slowpong"):
                S.append(("devmode", d.name, f))
            elif f == "close":
                S.append(("close_dev", d.name))
            else:
                plugs = [p for p, n in cfg.truth[d.name].items() if n]
                if plugs:
                    S.append(("verdict", d.name, rng.choice(plugs), {"verdict-err": "ERR", "verdict-missing": None, "verdict-garble": "x_y"}[f]))
        w = rng.choice(pmgen.POWER_WORDS + pmgen.QUERY_WORDS * 2)
        if w in pmgen.QUERY_WORDS and rng.random() < 0.3:
            line, t, mode = w, list(nodes), "noarg"
        else:
            e, t, mode = target_expr(rng, cfg)
            line = "%s %s" % (w, e)
        if rng.random() < 0.15:
            S.append(("send", k, b"telemetry\r\n")); S.append(("wait", k))
        if rng.random() < 0.1:
            S.append(("send", k, b"exprange\r\n")); S.append(("wait", k))
        S.append(("send", k, (line + "\r\n").encode()))
        sc.requests.append(dict(client=k, line=line, word=w, targets=t, mode=mode, step=len(S) - 1))
        if rng.random() < 0.6 or ncli == 1:
            S.append(("wait", k))
        else:
            outstanding.add(k)
        if rng.random() < 0.15:
            S.append(("sleep", rng.choice([100000, 1000000, 3000000])))
    for k in sorted(outstanding):
        S.append(("wait", k))
    for k in range(ncli):
        if rng.random() < 0.5:
            S.append(("send", k, b"quit\r\n")); S.append(("wait", k))
    if style in ("faults", "mixed") and any(d.transport == "tcp" for d in cfg.devs) and rng.random() < 0.3:
        # the first connect attempts of the tcp devices fail in every way connect() can fail: at once with an errno (syncfail), later
        # through poll (POLLHUP, SO_ERROR), or they stay pending for a while
        S.insert(0, ("raw", ["PLAN " + rng.choice(["syncfail", "syncfail", "refuse-hup", "refuse-soerr", "pending", "ok-now"]) for _ in range(rng.randint(1, 6))]))
        sc.tags["plans"] = True
    return sc


def renumber(sc):
    """client labels used by script steps -> pmsim client numbers (= order of the connect steps).  Steps inserted by
    generators carry their label in the connect step: ("connect", label); plain ("connect",) steps are labelled 0, 1, ... in
    order of appearance among the plain ones."""
    mapping, plain, n = {}, 0, 0
    for st in sc.script:
        if st[0] == "connect":
            if len(st) > 1:
                mapping[st[1]] = n
            else:
                mapping[plain] = n; plain += 1
            n += 1
    def fix_raw(e):
        return re.sub(r"\bc(\d+)\b", lambda m: "c%d" % mapping.get(int(m.group(1)), int(m.group(1))), e)
    out = []
    for st in sc.script:
        if st[0] == "connect": out.append(("connect",))
        elif st[0] in ("send",): out.append((st[0], mapping.get(st[1], st[1])) + tuple(st[2:]))
        elif st[0] == "wait": out.append(("wait", mapping.get(st[1], st[1])))
        elif st[0] == "raw": out.append(("raw", [fix_raw(e) for e in st[1]]))
        else: out.append(st)
    sc.script[:] = out
    for r in sc.requests:
        r["client"] = mapping.get(r["client"], r["client"])
    return sc


def run_scenario(exe, sc, scratch, tag, seed, max_rounds=800):
    rng = random.Random(seed)
    sess = pmenv.Session(exe, sc.cfg, scratch, tag, rng, args=sc.args, env=sc.env)
    alive = pmenv.drive(sess, sc.script, max_rounds=sc.tags.get("max_rounds", max_rounds))
    sess.alive_after_script = alive
    sess.final = sess.finish()
    return sess


# ------------------------------------------------------------------------------------------- monitors
def split_replies(stream):
    """banner, then one chunk per terminal line: [(code, lines3xx, has_prompt)]"""
    out = []
    i = stream.find(b"\r\n")
    if i < 0 or not stream.startswith(b"001 "):
        return None
    rest = stream[i + 2:]
    if not rest.startswith(b"powerman> "):
        return None
    rest = rest[len(b"powerman> "):]
    cur = []
    while rest:
        j = rest.find(b"\r\n")
        if j < 0:
            out.append(("partial", cur + [rest], False)); break
        line, rest = rest[:j], rest[j + 2:]
        if line[:3].isdigit() and (line[:1] in (b"1", b"2")):
            p = rest.startswith(b"powerman> ")
            if p:
                rest = rest[len(b"powerman> "):]
            out.append((int(line[:3]), cur + [line], p)); cur = []
        else:
            cur.append(line)
    if cur:
        out.append(("dangling", cur, False))
    return out


def mon_alive(sess, sc):
    bad = []
    if not sess.alive_after_script:
        bad.append(("daemon-dies", "during-script:%s" % (sess.sim.done or {}).get("kind"), "the daemon terminated while serving: %s | stderr: %s" % (sess.sim.done, sess.stderr()[-400:])))
    elif sess.final is None or sess.final.get("kind") != "return" or sess.final.get("status") != 0:
        bad.append(("shutdown", "teardown:%s" % (sess.final or {}).get("kind"), "SIGTERM did not lead to a clean `return 0`: %s | stderr: %s" % (sess.final, sess.stderr()[-400:])))
    blk = [l for l in sess.sim.trace if l.startswith("BLOCKING ")]
    if blk:
        bad.append(("wedge", "blocking-call", "the select loop made a call that can block on a descriptor still in blocking mode (%s): a silent peer parks every session" % blk[0]))
    return bad


def mon_protocol(sess, sc):
    """C15 + C04 one-reply: per client stream"""
    bad = []
    sent = {}
    for st in sc.script:
        if st[0] == "send":
            sent[st[1]] = sent.get(st[1], 0) + st[2].count(b"\n")
    dropped = set(sess.closed_clients)
    for st in sc.script:
        if st[0] == "raw":
            for e in st[1]:
                m = re.match(r"(EOF|RST|FULLCLOSE) c(\d+)", e)
                if m: dropped.add(int(m.group(2)))
    for k, stream in sess.client_out.items():
        reps = split_replies(stream)
        if reps is None:
            bad.append(("protocol", "banner", "client %d: stream does not start with banner + prompt: %r" % (k, stream[:80]))); continue
        quit_seen = False
        for code, lines, prompt in reps:
            if code in ("partial", "dangling"):
                if sess.alive_after_script and not quit_seen and k not in dropped:
                    bad.append(("protocol", "dangling-3xx", "client %d: informational lines without terminal line: %r" % (k, lines[-1][:80])))
                continue
            for ln in lines:
                if len(ln) < 4 or not ln[:3].isdigit() or ln[3:4] != b" " or b"\r" in ln or b"\n" in ln:
                    bad.append(("protocol", "line-shape", "client %d: malformed line %r" % (k, ln[:80])))
            for ln in lines[:-1]:
                if not ln.startswith(b"3"):
                    bad.append(("protocol", "non-3xx-inside-reply", "client %d: %r inside a reply" % (k, ln[:80])))
            if code == 101:
                quit_seen = True
            elif code == 208:
                if prompt: bad.append(("protocol", "prompt-after-208", "client %d" % k))
            elif not prompt and not quit_seen:
                bad.append(("protocol", "no-prompt", "client %d: terminal %d not followed by a prompt" % (k, code)))
        nterm = sum(1 for c, _, _ in reps if isinstance(c, int))
        if sess.alive_after_script and not sess.wedged and not sess.overrun and k not in dropped and nterm != sent.get(k, 0):
            bad.append(("one-reply", "count", "client %d sent %d lines and got %d terminal replies" % (k, sent.get(k, 0), nterm)))
    return bad


def mon_no_wedge(sess, sc):
    bad = []
    if sess.wedged:
        bad.append(("wedge", "no-timer", "a request is outstanding but the daemon asked poll to sleep forever with nothing scheduled: %s" % (sess.wedged,)))
    if sess.overrun:
        bad.append(("wedge", "overrun", "script did not finish within the round budget"))
    return bad


def request_replies(sess, sc):
    """pair each request of the scenario with its reply chunk (per client in order); 208 replies pair with the line that got them"""
    per = {}
    for k, stream in sess.client_out.items():
        per[k] = [r for r in (split_replies(stream) or []) if isinstance(r[0], int)]
    idx = {}
    out = []
    # all lines sent by a client in order
    for st in sc.script:
        if st[0] != "send":
            continue
        k = st[1]
        for ln in st[2].split(b"\n")[:-1]:
            i = idx.get(k, 0); idx[k] = i + 1
            rep = per.get(k, [])[i] if i < len(per.get(k, [])) else None
            out.append((k, ln.strip().decode("latin-1"), rep))
    return out


def commanded_plugs(sess):
    """ground truth from the simulated devices: (device, verb, plugs)"""
    out = []
    for name, d in sess.devs.items():
        for conn, verb, tg, how in d.log:
            out.append((name, verb, tg, how))
    return out


def mon_c01(sess, sc):
    """every plug a simulated device was told to switch belongs to a node named by some request of this history
    (union over requests: conservative when requests overlap), and _ALL power verbs only when every plug was named"""
    bad = []
    named = {}
    for r in sc.requests:
        if r["word"] in pmgen.POWER_WORDS:
            base = pmgen.CLIENT_COMS[r["word"]].upper()
            named.setdefault(base, set()).update(r["targets"])
    for name, verb, tg, how in commanded_plugs(sess):
        base = verb.replace("_RANGED", "").replace("_ALL", "")
        if base.lower() not in ("on", "off", "cycle", "reset", "beacon_on", "beacon_off"):
            continue
        truth = sess.cfg.truth[name]
        allowed = named.get(base, set())
        for p in tg:
            if truth.get(p) is None or truth[p] not in allowed:
                bad.append(("untargeted-plug", "device-bytes", "device %s received %s for plug %s (node %s); nodes named for %s: %s" % (name, verb, p, truth.get(p), base, sorted(allowed))))
    return bad


def mon_c02(sess, sc):
    """success (102) only if every target's plug was commanded and answered OK; per-plug ERR / missing => 210 and a 309/308 line"""
    bad = []
    if sc.tags.get("ncli", 1) != 1:
        return bad
    for (k, line, rep), r in zip([x for x in request_replies(sess, sc) if x[1].split(" ")[0] in pmgen.POWER_WORDS], [r for r in sc.requests if r["word"] in pmgen.POWER_WORDS]):
        if rep is None:
            continue
        code = rep[0]
        base = pmgen.CLIENT_COMS[r["word"]].upper()
        if code == 102:
            for n in set(r["targets"]):
                okd = False
                for name, d in sess.devs.items():
                    plug = next((p for p, nn in sess.cfg.truth[name].items() if nn == n), None)
                    if plug is None:
                        continue
                    for conn, verb, sent in d.answered:
                        if verb.replace("_RANGED", "").replace("_ALL", "") == base and sent.get(plug) == "OK":
                            okd = True
                if not okd:
                    bad.append(("false-success", "reply-102", "request `%s` answered 102 but node %s was never switched successfully" % (line, n)))
    return bad


def mon_c03(sess, sc):
    """status replies: on/off/unknown partition the target set; a node shown on/off was reported so by its device"""
    bad = []
    for (k, line, rep), r in zip([x for x in request_replies(sess, sc) if x[1].split(" ")[0] in ("status", "beacon")], [r for r in sc.requests if r["word"] in ("status", "beacon")]):
        if rep is None or rep[0] not in (103, 211):
            continue
        sets = {}
        x = {}
        for ln in rep[1][:-1]:
            m = re.match(rb"302 (on|off|unknown): +(.*)$", ln)
            if m:
                sets[m.group(1).decode()] = pmgen.expand(m.group(2).decode()) if m.group(2) else []
            m = re.match(rb"303 ([^:]+): (on|off|unknown)$", ln)
            if m:
                x.setdefault(m.group(2).decode(), []).append(m.group(1).decode())
        if not sets and x:
            sets = {a: x.get(a, []) for a in ("on", "off", "unknown")}
        if set(sets) != {"on", "off", "unknown"}:
            continue
        tg = set(r["targets"])
        got = sets["on"] + sets["off"] + sets["unknown"]
        if set(got) != tg:
            bad.append(("status-sets", "union", "`%s`: listed %s, targets %s" % (line, sorted(set(got)), sorted(tg))))
        if set(sets["on"]) & set(sets["off"]) or set(sets["on"]) & set(sets["unknown"]) or set(sets["off"]) & set(sets["unknown"]):
            bad.append(("status-sets", "disjoint", "`%s`: %s" % (line, sets)))
        verbbase = "STATUS" if r["word"] == "status" else "STATUS_BEACON"
        for st, word in (("ON", "on"), ("OFF", "off")):
            for n in sets[word]:
                rep_ok = False
                for name, d in sess.devs.items():
                    plug = next((p for p, nn in sess.cfg.truth[name].items() if nn == n), None)
                    if plug is None: continue
                    for conn, verb, sent in d.answered:
                        if verb.replace("_ALL", "") == verbbase and sent.get(plug) == st:
                            rep_ok = True
                if not rep_ok:
                    bad.append(("status-invented", "state", "`%s`: node %s shown %s but its device never reported that" % (line, n, word)))
    return bad


def mon_c10(sess, sc):
    """per connection: LOGIN is the first line; a new command line only after the previous command of that connection was answered
    (devices in healthy mode answer at once, so two command lines never sit unanswered)"""
    bad = []
    for conn, data in sess.dev_rx.items():
        if not data:
            continue
        lines = data.split(b"\n")
        if not lines[0].startswith(b"LOGIN") and b"\n" in data:
            bad.append(("login-first", "connection-start", "%s (%s): first line is %r" % (conn, sess.conn_dev.get(conn), lines[0][:40])))
        if data.count(b"LOGIN\n") > 1:
            bad.append(("login-twice", "connection", "%s: LOGIN sent %d times on one connection" % (conn, data.count(b"LOGIN\n"))))
    for name, d in sess.devs.items():
        for conn, owed, got in d.interleaves:
            bad.append(("one-conversation", "interleave", "device %s, %s: %r arrived while the answer to %s was still owed" % (name, conn, got[:40], owed)))
    return bad


def mon_c12(sess, sc, consts_backoff=None):
    """reconnect attempts of a device are spaced by the back-off schedule unless a client request expedites them"""
    bad = []
    # pipe devices reconnect inside one pass (fork); tcp devices go through connect(): use connect_log per device via conn mapping
    bydev = {}
    for t, conn, plan in sess.connect_log:
        name = sess.conn_dev.get(conn)
        if name:
            bydev.setdefault(name, []).append(t)
    # a client request on a not-connected device resets the schedule ("the user is beating on us"): requests are
    # visible as rounds in which some client descriptor delivered input
    req_times = sorted(r.now for r in sess.rounds if any(l.startswith("RD c") for l in r.lines))
    for name, ts in bydev.items():
        for a, b in zip(ts, ts[1:]):
            if b - a < 1000000 and not any(a <= t <= b for t in req_times):
                # expedited by a client request in between?  (retry_count reset) -- any client input between a and b
                bad.append(("backoff", "spacing", "device %s: connect attempts at %d and %d us (< 1 s apart)" % (name, a, b)))
    return bad


def mon_c20(sess, sc):
    """at the end of the script (quiescent): descriptors = listeners + live clients + one per connected/connecting device;
    children = connected coprocess devices; after SIGTERM: return 0, nothing left open, no child left"""
    bad = []
    if not sess.alive_after_script or not sess.timeouts:
        return bad
    rnd, now, tmo, interest, devs, vfds, kids, mem = sess.timeouts[-1]
    live_clients = sess.nclients - len(sess.closed_clients)
    # ground truth: a client that hung up / reset / quit and whose script ended (every request answered or abandoned) must have
    # been destroyed by now, whatever the daemon's own bookkeeping says
    gone = set()
    # events the virtual OS could not deliver (e.g. `EOF c2` in the very round of the connect, before accept() created c2) did not happen
    ignored = set()
    for l in sess.sim.trace:
        m = re.match(r"IGNORED (EOF|RST|FULLCLOSE) c(\d+)", l)
        if m: ignored.add(int(m.group(2)))
    for rnd_evs in sess.sim.events:                     # what the environment really sent (a script cut short by SIGTERM sends less)
        for e in rnd_evs:
            m = re.match(r"(EOF|RST|FULLCLOSE) c(\d+)", e)
            if m and int(m.group(2)) not in ignored: gone.add(int(m.group(2)))
            m = re.match(r"IN c(\d+) ([0-9a-f]+)", e)
            if m:
                if bytes.fromhex(m.group(2)).strip().lower().startswith(b"quit"): gone.add(int(m.group(1)))
                else: gone.discard(int(m.group(1)))      # a generated script that keeps talking after its own hang-up is not a hang-up
    if not sess.overrun and not sc.tags.get("sigterm") and all(d.get("queue", "0") == "0" for d in devs):      # nothing queued on any device any more
        for k in sorted(gone):
            if k < sess.nclients and k not in sess.closed_clients:
                bad.append(("fd-ledger", "client-not-reaped", "client %d hung up / quit and the activity has settled, but its descriptor was never closed" % k))
    devfds = sum(1 for d in devs if d.get("fd", "none").startswith("conn"))
    stale = [d for d in devs if d.get("fd") == "STALE"]
    if stale:
        bad.append(("fd-ledger", "stale-device-fd", "device(s) %s hold a descriptor number that is not open" % [d["name"] for d in stale]))
    if vfds != 1 + live_clients + devfds:
        bad.append(("fd-ledger", "count", "open virtual descriptors %d != 1 listener + %d clients + %d device fds" % (vfds, live_clients, devfds)))
    pipes = sum(1 for d, dd in zip(sc.cfg.devs, devs) if d.transport == "pipe" and dd.get("cs") == "2")
    if kids != pipes:
        bad.append(("children", "count", "%d live children for %d connected coprocess devices" % (kids, pipes)))
    f = sess.final or {}
    if f.get("kind") == "return":
        if f.get("leaks"):
            bad.append(("shutdown", "open-descriptors", "left open at exit: %s" % f["leaks"]))
        if f.get("kids"):
            bad.append(("shutdown", "children", "%d children neither killed nor reaped at exit" % f["kids"]))
        if f.get("heapleak"):
            m = re.findall(r"#\d+ 0x[0-9a-f]+ in (\w+)", sess.stderr())
            where = next((x for x in m if x not in ("malloc", "calloc", "realloc", "strdup", "xmalloc", "xstrdup", "xrealloc", "__interceptor_malloc", "__interceptor_strdup")), "?")
            bad.append(("heap", "leak:%s" % where, "heap objects unreachable at exit (LeakSanitizer): allocated in %s | %s" % (where, sess.stderr()[-700:])))
    return bad


def mon_nonreader(sess, sc):
    out = sess.client_out.get(1, b"")
    reps = split_replies(out) or []
    if not any(isinstance(c[0], int) and 100 <= c[0] < 200 for c in reps):
        return [("non-reader", "other-session-starved", "client 1 asked `nodes` while client 0 (not reading, owed more than 1 MiB) was being served: no successful reply arrived: %r" % out[-300:])]
    # the non-reader itself: when it starts reading again it gets the NEWEST megabyte of what it was owed (the oldest bytes were overwritten),
    # so the reply to its last request before the stall ended is whole, and its next request (`nodes`) is answered right behind it
    o0 = sess.client_out.get(0, b"")
    j = o0.rfind(b"306 ")
    if sess.alive_after_script and not sess.overrun and len(o0) > 1000000:
        if j < 0:
            return [("non-reader", "late-reply-lost", "client 0 read again after the stall and sent `nodes`: no 306 line arrived: %r" % o0[-200:])]
        if not o0[:j].endswith(b"\r\npowerman> ") or not re.search(rb"\r\n1\d\d [^\r\n]*\r\npowerman> $", o0[:j]):
            return [("non-reader", "newest-output-dropped", "client 0: the bytes in front of the reply to its last request are not the end of a whole reply + prompt (the newest output was dropped, not the oldest): ...%r" % o0[max(0, j - 120):j + 20])]
    return []


MONITORS = {"nonreader": mon_nonreader, "alive": mon_alive, "protocol": mon_protocol, "wedge": mon_no_wedge, "c01": mon_c01, "c02": mon_c02, "c03": mon_c03,
            "c10": mon_c10, "c12": mon_c12, "c20": mon_c20}


def run_batch(ctx, V, exe, scenarios, monitors, prefix, workers=16):
    """run scenarios in parallel, apply monitors, record violations; returns sessions"""
    def one(isc):
        i, sc = isc
        try:
            return run_scenario(exe, sc, ctx.scratch, "%s%d" % (prefix, i), ctx.seed * 100003 + i)
        except Exception as ex:                       # harness trouble is a broken tie, not a verdict
            return ex
    with ThreadPoolExecutor(workers) as ex:
        sessions = list(ex.map(one, enumerate(scenarios)))
    for sc, sess in zip(scenarios, sessions):
        if isinstance(sess, Exception):
            V.tie_broken("tie", "pmsim-run", repr(sess), case=sc.describe()); continue
        nreq = len(sc.requests)
        V.case((sc.cfg.text(), repr(sc.script)), nontrivial=any(d.log for d in sess.devs.values()))
        V.count("scenarios"); V.count("rounds", len(sess.rounds)); V.count("requests", nreq)
        for k, stream in sess.client_out.items():
            for code, _, _ in (split_replies(stream) or []):
                V.count("reply:%s" % code)
        for st in sc.script:
            if st[0] in ("devmode", "verdict", "close_dev"): V.count("fault:" + st[0] + (":" + str(st[2]) if st[0] == "devmode" else ""))
        for d in sc.cfg.devs: V.count("transport:" + d.transport)
        for m in monitors:
            for clause, site, detail in MONITORS[m](sess, sc):
                w = sc.describe(); w["events"] = sess.sim.events; w["client_out"] = {k: v.decode("latin-1")[-800:] for k, v in sess.client_out.items()}
                V.violation(clause, site, w, detail)
        V.sample(dict(config=sc.cfg.text()[:300], script=[str(s)[:80] for s in sc.script[:10]], client0=sess.client_out.get(0, b"").decode("latin-1")[:300]), limit=2)
    return sessions


def standard_run(ctx, V, monitors, styles=("healthy", "mixed", "faults"), n_quick=500, n_thorough=20000, extract=(), sanitize=True,
                 gen=None, rule_extra=""):
    """proof gate + pmsim scenarios with the given monitors (the shape shared by the whole-daemon checks)"""
    import vlib
    proofs_ok = vlib.proof_gate(ctx, V, extract=list(extract))
    exe = pmsim.build(ctx, sanitize=sanitize)
    n = n_quick if ctx.tier == "quick" else n_thorough
    gen = gen or gen_scenario
    scs = [gen(ctx.rng, style=styles[i % len(styles)]) for i in range(n)]
    V.rule = ("whole-daemon histories on pmsim (unmodified powermand sources under the virtual OS): generated configurations (1-4 devices, pipe and tcp "
              "transports, hard-wired/free plugs, every script-variant subset, aliases, ping), 1-3 clients with interleaved requests, device faults "
              "(silent, garbage, partial answers, per-plug ERR / missing / garbled verdicts, connection close) placed between requests; monitors: "
              + ", ".join(monitors) + ". " + rule_extra + " non-trivial = a simulated device received at least one command; distinct by (config, script)")
    run_batch(ctx, V, exe, scs, list(monitors), ctx.pid.lower())
    return proofs_ok
