"""R-SIM: replay a recorded pmsim run (the real powermand under the virtual OS) through the extracted whole-daemon
model Model/Daemon.v (driver/daemon_drv.ml) and compare pass by pass.

Input of pass k (what the OS answered): the REV line (revents + clock), the byte counts of the read()/write() calls,
the connect plans.  Output of pass k: bytes written per client and per device connection, clients accepted and
destroyed, device connects, the time-out handed to the next poll, descriptor / child ledger and the per-device
state line at the next poll."""
MODEL_TIMEOUT = int(__import__('os').environ.get('PMREPLAY_TIMEOUT', '300'))
import re, os
import pmgen, vlib


def build_model(ctx):
    return ctx.ocaml_driver("daemon_model", "daemonmodel", "daemon_drv.ml", cstubs=["devstub.c"], csources=[ctx.repo + "/src/liblsd/hostlist.c"],
                            ccopt="-w -DHAVE_CONFIG_H -I%s/config -I%s/src/liblsd" % (ctx.repo, ctx.repo))


def hexs(b):
    return b.hex() if b else "-"


def conf_tables(enq_exe, conf_path):
    """plug tables and node list as the REAL parser built them (harness/enq_h.c), so the replay does not depend on a model of conf"""
    rc, o, e = vlib.sh(["timeout", "-s", "KILL", "30", enq_exe, conf_path], shell=False, inp=b"", timeout=40, env={"ASAN_OPTIONS": "detect_leaks=0"})
    tabs, nodes = [], ""
    for l in o.splitlines():
        if l.startswith("DEVTAB "):
            tabs.append(l.split()[4].split("=")[1] or "-")
        elif l.startswith("NODES "):
            nodes = l[6:].strip()
    if rc != 0 or not tabs:
        raise vlib.TieBroken("enq_h could not load %s: rc=%s %s" % (conf_path, rc, e[-500:]))
    return tabs, nodes


def defs(cfg, tabs, nodes, consts, version, short_circuit=False):
    """the configuration for the model: devices with their scripts (parsed from the generated text by pmgen, the same
    reader R-DEV uses), plug tables and node list from the real parser, aliases in list order"""
    L = ["VERSION " + version.encode().hex()]
    L.append("NODES " + (nodes or "-"))
    for a, m in reversed(cfg.aliases):                      # conf_add_alias prepends
        L.append("ALIAS %s %s" % (a.encode().hex(), ",".join(x.encode().hex() for x in pmgen.expand(m))))
    L.append("SHORTCIRCUIT %d" % (1 if short_circuit else 0))
    for d, plugs in zip(cfg.devs, tabs):
        L.append("DEVDEF %s %d %d %s %s %d" % (d.name.encode().hex(), int(round(d.timeout * 1000000)), int(round(d.ping * 1000000)), plugs or "-",
                                              d.specname.encode().hex(), 1 if d.transport == "pipe" else 0))
        for k in d.kinds:
            ast = pmgen.parse_script_text(d.bodies[k]) if k in d.bodies else pmgen.parse_script_text(pmgen.script_text(k))
            toks = []
            for s in ast:
                toks += s.tok(consts)
            L.append("SCRIPT %d %s" % (consts[pmgen.KINDS[k]], " ".join(toks)))
    L.append("ENDDEFS")
    return L


T0 = 1000000000          # harness/pmsim.c: the virtual clock starts at T0 microseconds; trace lines print now - T0
PLANMAP = {"ok-now": "now", "syncfail": "fail", "inprogress-ok": "pending", "inprogress-refuse-hup": "pending", "inprogress-refuse-soerr": "pending",
           "inprogress-pending": "pending"}


class Replay:
    """splits a trace into passes and produces (model input lines, expected output per pass)"""

    def __init__(self, cfg, trace, events):
        self.cfg, self.trace, self.events = cfg, trace, events
        self.devidx = {d.name: i for i, d in enumerate(cfg.devs)}
        self.hostidx = {d.transport_host(): i for i, d in enumerate(cfg.devs) if d.transport == "tcp"}
        self.ispipe = [d.transport == "pipe" for d in cfg.devs]

    def convert(self):
        tr = self.trace
        # streams of input bytes per descriptor name, in the order the environment sent them
        instream, conndone = {}, {}
        for rnd in self.events:
            for e in rnd:
                w = e.split()
                if w[0] == "IN" and len(w) >= 3:
                    instream[w[1]] = instream.get(w[1], b"") + (bytes.fromhex(w[2]) if w[2] != "-" else b"")
                elif w[0] == "CONNDONE":
                    conndone[w[1]] = w[2] if len(w) > 2 else "ok"
        inpos = {}
        broken = set()          # clients whose peer is fully gone (FULLCLOSE / RST): a write to them fails
        # split: prologue (before first POLL), then per round: [DEV*, POLL_k] REV_k pass-lines ...
        polls = [i for i, l in enumerate(tr) if l.startswith("POLL ")]
        if not polls:
            return None
        L, expect = [], []
        # ---- prologue: dev_initial_connect
        pro = tr[:polls[0]]
        plans = [[] for _ in self.cfg.devs]
        conn_plan = {}
        for l in pro:
            w = l.split()
            if w[0] == "CONNECT":
                kv = dict(x.split("=", 1) for x in w[2:])
                conn_plan[w[1]] = kv["plan"]
                i = self.hostidx.get(kv.get("host", "-"))
                if i is not None:
                    plans[i].append(PLANMAP[kv["plan"]])
        for i, p in enumerate(self.ispipe):
            if p: plans[i] = ["now"]
        m = re.match(r"POLL round=\d+ now=(-?\d+)", tr[polls[0]])
        L.append("INIT %d %s" % (int(m.group(1)) + T0, ";".join(",".join(p) or "-" for p in plans)))
        expect.append(self._expect(pro, tr, polls[0], {}, first=True))
        # ---- passes
        clients = []            # vfd client numbers in cli_clients order
        for k, pi in enumerate(polls):
            nxt = polls[k + 1] if k + 1 < len(polls) else len(tr)
            seg = tr[pi + 1:nxt]
            rev = next((l for l in seg if l.startswith("REV ")), None)
            if rev is None:
                break                               # the run ended inside poll (signal) or the process died
            devs_at_poll = self._devlines(tr, pi)
            conn2dev = {d["fd"]: d["idx"] for d in devs_at_poll if d.get("fd", "none").startswith("conn")}
            body = [l for l in seg if not l.startswith(("REV ", "DEV ", "MEM "))]
            w = rev.split()
            now = int(w[1].split("=")[1])
            flags = dict(x.split(":") for x in w[2:])
            reads, eofs, wrote = {}, set(), {}
            accept = False
            plans = [[] for _ in self.cfg.devs]
            for l in body:
                t = l.split()
                if t[0] == "RD":
                    if t[2] == "eof": eofs.add(t[1])
                    else: reads[t[1]] = reads.get(t[1], 0) + int(t[2].split("=")[1])
                elif t[0] == "WR":
                    wrote[t[1]] = wrote.get(t[1], 0) + (0 if t[2] == "-" else len(t[2]) // 2)
                elif t[0] == "ACCEPT":
                    accept = True
                elif t[0] == "CONNECT":
                    kv = dict(x.split("=", 1) for x in t[2:])
                    conn_plan[t[1]] = kv["plan"]
                    i = self.hostidx.get(kv.get("host", "-"))
                    if i is not None:
                        plans[i].append(PLANMAP[kv["plan"]])
            for i, p in enumerate(self.ispipe):
                if p: plans[i] = ["now", "now", "now", "now"]
            for e in (self.events[k] if k < len(self.events) else []):
                t = e.split()
                if t and t[0] in ("FULLCLOSE", "RST") and len(t) > 1 and t[1].startswith("c") and not t[1].startswith("conn"):
                    broken.add(t[1])
            L.append("ROUND %d %d" % (now + T0, 1 if accept else 0))

            def rd(name):
                n = reads.get(name, 0)
                if n > 0:
                    pos = inpos.get(name, 0)
                    data = instream.get(name, b"")[pos:pos + n]
                    inpos[name] = pos + n
                    return data.hex() if data else "-"
                return "-" if name in eofs else "!"
            for ci, cn in enumerate(clients):
                name = "c%d" % cn
                f = flags.get(name, "")
                if not f:
                    continue
                fl = ("b" if ("e" in f or "n" in f) else "") + ("i" if ("i" in f or "h" in f) else "") + ("o" if "o" in f else "")
                r = rd(name) if ("i" in fl and "b" not in fl) else "~"
                wv = "~"
                if "o" in fl and "b" not in fl:
                    wv = str(wrote[name]) if name in wrote else "!"
                L.append("C %d %s %s %s" % (ci, fl, r, wv))
            for conn, di in conn2dev.items():
                f = flags.get(conn, "")
                pl = ",".join(plans[di]) or "-"
                if not f:
                    continue
                r = rd(conn) if "i" in f and not ("h" in f or "e" in f or "n" in f) else "~"
                wv = "~"
                if "o" in f:
                    wv = str(wrote[conn]) if conn in wrote else "!"
                plan = conn_plan.get(conn, "ok-now")
                if plan == "inprogress-pending":
                    plan = {"ok": "inprogress-ok"}.get(conndone.get(conn, "ok"), "inprogress-refuse-soerr")
                fin = 1 if plan in ("ok-now", "inprogress-ok") else 0
                L.append("D %d %s %s %s %d %s" % (di, f, r, wv, fin, pl))
                plans[di] = None
            for di, pl in enumerate(plans):
                if pl is not None and pl:
                    L.append("D %d - ~ ~ 1 %s" % (di, ",".join(pl)))
            L.append("GO")
            # bookkeeping of the client list: accept appends, CLOSE removes
            for l in body:
                t = l.split()
                if t[0] == "ACCEPT": clients.append(int(t[1][1:]))
                elif t[0] == "CLOSE" and t[1].startswith("c") and not t[1].startswith("conn"):
                    cn = int(t[1][1:])
                    if cn in clients: clients.remove(cn)
            if nxt >= len(tr):
                break                               # no following POLL: the daemon left the loop (shutdown) - nothing to compare
            expect.append(self._expect(body, tr, nxt, conn2dev))
        return L, expect

    def _devlines(self, tr, pi):
        out, j = [], pi - 1
        while j >= 0 and (tr[j].startswith("DEV ") or tr[j].startswith("MEM ")):
            if tr[j].startswith("DEV "):
                d = dict(x.split("=", 1) for x in tr[j].split()[2:]); d["idx"] = int(tr[j].split()[1]); out.append(d)
            j -= 1
        return sorted(out, key=lambda d: d["idx"])

    def _expect(self, body, tr, poll_i, conn2dev, first=False):
        """what the implementation did in this pass, in the model driver's vocabulary"""
        m = re.match(r"POLL round=(\d+) now=(-?\d+) timeout=(-?\d+) ready=(\d+) vfds=(\d+) kids=(-?\d+)", tr[poll_i])
        e = dict(accept=[], close=[], cw={}, dw={}, nconn=0, tmo=int(m.group(3)), fds=int(m.group(5)), kids=int(m.group(6)), round=int(m.group(1)))
        for l in body:
            t = l.split()
            if t[0] == "ACCEPT": e["accept"].append(int(t[1][1:]) + 1)
            elif t[0] == "CLOSE" and t[1].startswith("c") and not t[1].startswith("conn"): e["close"].append(int(t[1][1:]) + 1)
            elif t[0] == "WR" and not t[1].startswith("conn"):
                k = int(t[1][1:]) + 1
                e["cw"][k] = e["cw"].get(k, "") + ("" if t[2] == "-" else t[2])
            elif t[0] == "WR":
                di = conn2dev.get(t[1])
                e["dw"][di] = e["dw"].get(di, "") + ("" if t[2] == "-" else t[2])
            elif t[0] == "OPEN": e["nconn"] += 1
            elif t[0] == "LISTEN": e["nconn"] -= 1          # the listening socket was reported as OPEN by socket()
        e["devs"] = [(d["idx"], d["cs"], d["li"], "1" if d.get("fd", "none") != "none" else "0", d["retry"], d["conns"], d["acts"], d["queue"]) for d in self._devlines(tr, poll_i)]
        return e


def parse_model(out):
    """-> list of dict in the same shape as Replay._expect, one per INIT / round"""
    res, cur = [], None
    for l in out.splitlines():
        if cur is None:
            cur = dict(accept=[], close=[], cw={}, dw={}, nconn=0, tmo=None, fds=None, kids=None, devs=[], outcome=None)
        t = l.split()
        if not t: continue
        if t[0] == "A": cur["accept"].append(int(t[1]))
        elif t[0] == "X": cur["close"].append(int(t[1]))
        elif t[0] == "W": cur["cw"][int(t[1])] = cur["cw"].get(int(t[1]), "") + ("" if t[2] == "-" else t[2])
        elif t[0] == "D" and t[2] == "WROTE": cur["dw"][int(t[1])] = cur["dw"].get(int(t[1]), "") + ("" if t[3] == "-" else t[3])
        elif t[0] == "D" and t[2] == "CONN": cur["nconn"] += 1
        elif t[0] == "TMO": cur["tmo"] = -1 if t[1] == "none" or int(t[1]) == 0 else int(t[1]) // 1000
        elif t[0] == "LEDGER": cur["fds"] = int(t[1]) + 1; cur["kids"] = int(t[2])
        elif t[0] == "DEV":
            kv = dict(x.split("=") for x in t[2:])
            cur["devs"].append((int(t[1]), kv["cs"], kv["li"], kv["fd"], kv["retry"], kv["conns"], kv["acts"], kv["queue"]))
        elif t[0] == "OUTCOME": cur["outcome"] = " ".join(t[1:])
        elif t[0] == "END":
            res.append(cur); cur = None
    return res


def compare(expect, got):
    """first difference between the implementation's passes and the model's; None if they agree"""
    for k, (e, g) in enumerate(zip(expect, got)):
        if g.get("outcome"):
            return k, "model outcome %s where the implementation carried on" % g["outcome"], e, g
        for key in ("accept", "close", "cw", "dw", "nconn", "tmo", "fds", "kids", "devs"):
            a, b = e[key], g[key]
            if key in ("cw", "dw"):
                a = {x: v for x, v in a.items() if v}; b = {x: v for x, v in b.items() if v}
            if a != b:
                return k, "pass %d (poll round %s): %s differs\n  impl : %s\n  model: %s" % (k, e.get("round"), key, str(a)[:700], str(b)[:700]), e, g
    if len(got) < len(expect):
        return len(got), "the model stopped after %d passes, the implementation ran %d" % (len(got), len(expect)), None, None
    return None


def replay_session(model_exe, enq_exe, sess, consts, version, short_circuit=False):
    """-> (n_passes, difference or None)"""
    rp = Replay(sess.cfg, sess.sim.trace, sess.sim.events)
    conv = rp.convert()
    if conv is None:
        return 0, None
    L, expect = conv
    # the plug tables do not depend on the transport; tcp_create would resolve the host name at parse time
    import copy
    c2 = copy.deepcopy(sess.cfg)
    for d in c2.devs: d.transport = "pipe"
    p2 = sess.conf_path + ".pipe"
    open(p2, "w").write(c2.text())
    tabs, nodes = conf_tables(enq_exe, p2)
    inp = "\n".join(defs(sess.cfg, tabs, nodes, consts, version, short_circuit) + L) + "\n"
    # the extracted list functions are not tail recursive: histories with ~1 MiB client buffers need a deep stack
    rc, o, e = vlib.sh(["bash", "-c", "ulimit -s unlimited 2>/dev/null || ulimit -s 4000000; exec timeout -s KILL %d \"$0\"" % MODEL_TIMEOUT, model_exe],
                       shell=False, inp=inp.encode(), timeout=MODEL_TIMEOUT + 20)
    if rc != 0:
        return len(expect), (0, "model driver failed rc=%d: %s" % (rc, e[-800:]), None, None)
    got = parse_model(o)
    return len(expect), compare(expect, got)
