"""generators shared by the daemon-cluster checks (C01-C08, C10-C13, C15, C20):
   configurations with generated device specifications, an independent host-range expander, requests."""
import random

# script kinds: .dev keyword -> (script index name in GenConsts, verb the generated script sends)
KINDS = {
    "on": "PM_POWER_ON", "on_ranged": "PM_POWER_ON_RANGED", "on_all": "PM_POWER_ON_ALL",
    "off": "PM_POWER_OFF", "off_ranged": "PM_POWER_OFF_RANGED", "off_all": "PM_POWER_OFF_ALL",
    "cycle": "PM_POWER_CYCLE", "cycle_ranged": "PM_POWER_CYCLE_RANGED", "cycle_all": "PM_POWER_CYCLE_ALL",
    "reset": "PM_RESET", "reset_ranged": "PM_RESET_RANGED", "reset_all": "PM_RESET_ALL",
    "beacon_on": "PM_BEACON_ON", "beacon_on_ranged": "PM_BEACON_ON_RANGED",
    "beacon_off": "PM_BEACON_OFF", "beacon_off_ranged": "PM_BEACON_OFF_RANGED",
    "status": "PM_STATUS_PLUGS", "status_all": "PM_STATUS_PLUGS_ALL",
    "status_temp": "PM_STATUS_TEMP", "status_temp_all": "PM_STATUS_TEMP_ALL",
    "status_beacon": "PM_STATUS_BEACON", "status_beacon_all": "PM_STATUS_BEACON_ALL",
    "login": "PM_LOG_IN", "logout": "PM_LOG_OUT", "ping": "PM_PING",
}
# the indices of device_private.h as of the pinned tree; checks cross-check them against Gen/GenConsts.v
INDEX = {"PM_LOG_IN": 0, "PM_LOG_OUT": 1, "PM_STATUS_PLUGS": 2, "PM_STATUS_PLUGS_ALL": 3, "PM_PING": 6,
         "PM_POWER_ON": 7, "PM_POWER_ON_RANGED": 8, "PM_POWER_ON_ALL": 9, "PM_POWER_OFF": 10, "PM_POWER_OFF_RANGED": 11,
         "PM_POWER_OFF_ALL": 12, "PM_POWER_CYCLE": 13, "PM_POWER_CYCLE_RANGED": 14, "PM_POWER_CYCLE_ALL": 15,
         "PM_RESET": 16, "PM_RESET_RANGED": 17, "PM_RESET_ALL": 18, "PM_STATUS_TEMP": 19, "PM_STATUS_TEMP_ALL": 20,
         "PM_STATUS_BEACON": 21, "PM_STATUS_BEACON_ALL": 22, "PM_BEACON_ON": 23, "PM_BEACON_ON_RANGED": 24,
         "PM_BEACON_OFF": 25, "PM_BEACON_OFF_RANGED": 26}
# client command word -> base script kind
CLIENT_COMS = {"on": "on", "off": "off", "cycle": "cycle", "reset": "reset", "flash": "beacon_on", "unflash": "beacon_off",
               "status": "status", "temp": "status_temp", "beacon": "status_beacon"}
POWER_WORDS = ["on", "off", "cycle", "reset", "flash", "unflash"]
QUERY_WORDS = ["status", "temp", "beacon"]


def load_genconsts(coqdir):
    """read the script indices back from the regenerated Gen/GenConsts.v (so python and Coq agree)"""
    import re, os
    txt = open(os.path.join(coqdir, "Gen", "GenConsts.v")).read()
    return {m.group(1): int(m.group(2)) for m in re.finditer(r"Definition (\w+) : Z := (-?\d+)%Z\.", txt)}


# ---------------------------------------------------------------- independent host-range expander
def expand(expr):
    """independent reading of the host range notation (the subset the generators emit):
       comma separated items; an item is  prefix  or  prefix[ranges]suffix ; ranges = a or a-b, comma separated;
       zero padding = width of the low bound as written."""
    out, i, n = [], 0, len(expr)
    item, depth = "", 0
    items = []
    for ch in expr:
        if ch == "[":
            depth += 1
        if ch == "]":
            depth -= 1
        if ch == "," and depth == 0:
            items.append(item); item = ""
        else:
            item += ch
    if item != "" or not items:
        items.append(item)
    for it in items:
        if it == "":
            continue
        if "[" not in it:
            out.append(it); continue
        pre, rest = it.split("[", 1)
        body, suf = rest.split("]", 1)
        for r in body.split(","):
            if "-" in r:
                lo, hi = r.split("-", 1)
            else:
                lo = hi = r
            w = len(lo)
            for k in range(int(lo), int(hi) + 1):
                out.append(pre + str(k).zfill(w) + suf)
    return out


def compress_some(rng, names):
    """write a list of names as a host list expression, compressing some consecutive numeric runs
    (generator side only; meaning is fixed by expand())"""
    import re
    out, i = [], 0
    while i < len(names):
        m = re.match(r"^(.*?)(\d+)$", names[i])
        j = i
        if m and rng.random() < 0.6 and not (m.group(1) and m.group(1)[-1].isdigit()):
            pre, num = m.group(1), m.group(2)
            w = len(num)
            k = int(num)
            while j + 1 < len(names):
                m2 = re.match(r"^(.*?)(\d+)$", names[j + 1])
                if m2 and m2.group(1) == pre and len(m2.group(2)) == w and int(m2.group(2)) == k + 1 and len(str(k + 1)) <= w:
                    j += 1; k += 1
                else:
                    break
            if j > i:
                out.append("%s[%s-%s]" % (pre, num, str(k).zfill(w)))
                i = j + 1
                continue
        out.append(names[i]); i += 1
    e = ",".join(out)
    assert expand(e) == names, (e, names)
    return e


# ---------------------------------------------------------------- generated specifications
def script_text(kind, style="gen"):
    """body of a generated script.  Every script kind sends a distinct verb so that the bytes a
    simulated device receives decode injectively to (script kind, argument)."""
    verb = kind.upper()
    per = 'expect "([^ \\n]+) (OK|ERR[A-Z]*)\\n"\n\t\t\tsetresult $1 $2 success="OK"'
    st = 'expect "([^ \\n]+) ([A-Za-z0-9]+)\\n"\n\t\t\tsetplugstate $1 $2 on="ON" off="OFF"'
    tm = 'expect "([^ \\n]+) ([A-Za-z0-9]+)\\n"\n\t\t\tsetplugstate $1 $2'
    if kind == "login":
        return 'send "LOGIN\\n"\n\t\texpect "ready\\n"'
    if kind == "logout":
        return 'send "LOGOUT\\n"\n\t\texpect "bye\\n"'
    if kind == "ping":
        return 'send "PING\\n"\n\t\texpect "pong\\n"'
    base = kind.replace("_ranged", "").replace("_all", "")
    inner = st if base in ("status", "status_beacon") else tm if base == "status_temp" else per
    if kind.endswith("_all"):
        return 'send "%s\\n"\n\t\tforeachplug {\n\t\t\t%s\n\t\t}\n\t\texpect "done\\n"' % (verb, inner)
    if kind.endswith("_ranged"):
        return 'send "%s %%s\\n"\n\t\tforeachplug {\n\t\t\t%s\n\t\t}\n\t\texpect "done\\n"' % (verb, inner)
    return 'send "%s %%s\\n"\n\t\t%s\n\t\texpect "done\\n"' % (verb, inner)


class Dev:
    def __init__(self, name, kinds, hardwired=None, transport="pipe", timeout=5.0, ping=0.0, specname=None):
        self.name, self.kinds, self.hardwired, self.transport = name, list(kinds), hardwired, transport
        self.timeout, self.ping = timeout, ping
        self.specname = specname or ("s_" + name)
        self.bodies = {}            # kind -> script text override

    def spec_text(self):
        L = ['specification "%s" {' % self.specname, "\ttimeout %s" % self.timeout]
        if self.ping:
            L.append("\tpingperiod %s" % self.ping)
        if self.hardwired is not None:
            L.append("\tplug name { %s }" % " ".join('"%s"' % p for p in self.hardwired))
        for k in self.kinds:
            L.append("\tscript %s {\n\t\t%s\n\t}" % (k, self.bodies.get(k, script_text(k))))
        L.append("}")
        return "\n".join(L)

    def device_line(self):
        if self.transport == "pipe":
            return 'device "%s" "%s" "/sim/%s |&"' % (self.name, self.specname, self.name)
        return 'device "%s" "%s" "%s:%d"' % (self.name, self.specname, self.transport_host(), 7000)

    def transport_host(self):
        return self.transport if self.transport != "tcp" else "h" + self.name


class Config:
    def __init__(self):
        self.devs = []
        self.node_lines = []     # (nodes_expr, devname, plugs_expr or None)
        self.aliases = []        # (name, expr)
        self.truth = {}          # generator's intent: devname -> {plugname: node or None (unused)}

    def text(self):
        L = [d.spec_text() for d in self.devs]
        L += [d.device_line() for d in self.devs]
        for n, d, p in self.node_lines:
            L.append('node "%s" "%s"%s' % (n, d, (' "%s"' % p) if p is not None else ""))
        for a, e in self.aliases:
            L.append('alias "%s" "%s"' % (a, e))
        return "\n".join(L) + "\n"

    def all_nodes(self):
        out = []
        for n, d, p in self.node_lines:
            out += expand(n)
        return out


LONG_WORDS = ["alpha", "bravo", "charlie", "delta", "echo", "foxtrot", "golf", "hotel", "india", "juliett", "kilo", "lima", "mike", "november",
              "oscar", "papa", "quebec", "romeo", "sierra", "tango"]


def gen_variant_config(rng, ndev=None, max_plugs=5):
    """configurations for the selection properties (C01/C02): 1-4 devices, each with 1-max_plugs plugs,
    hard-wired or free names, 0-2 unused plugs, any subset of {singlet, ranged, all} per command."""
    cfg = Config()
    ndev = ndev or rng.choice([1, 1, 2, 2, 3, 4])
    nodeno = 0
    pad = rng.choice([0, 0, 2, 3])
    # one configuration in eight names its nodes with long words that do not compress (ranged text of a reply list >= 80 bytes: the
    # growth path of the _xhostlist_ranged_string helpers in client.c / device.c)
    long_names = rng.random() < 0.125
    for di in range(ndev):
        name = "d%d" % di
        kinds = ["login"]
        for base in ["on", "off", "cycle", "reset"]:
            sub = rng.choice([(1, 0, 0), (0, 1, 0), (0, 0, 1), (1, 1, 0), (1, 0, 1), (0, 1, 1), (1, 1, 1), (0, 0, 0), (1, 1, 1), (1, 0, 1)])
            if rng.random() < 0.25:
                sub = (0, 0, 1) if rng.random() < 0.5 else (1, 0, 1)       # aim at the _all corner
            kinds += [k for k, on in zip([base, base + "_ranged", base + "_all"], sub) if on]
        for base in ["beacon_on", "beacon_off"]:
            sub = rng.choice([(1, 0), (0, 1), (1, 1), (0, 0)])
            kinds += [k for k, on in zip([base, base + "_ranged"], sub) if on]
        for base in ["status", "status_temp", "status_beacon"]:
            sub = rng.choice([(1, 0), (0, 1), (1, 1), (0, 0), (0, 1)])
            kinds += [k for k, on in zip([base, base + "_all"], sub) if on]
        nplugs = rng.randint(1, max_plugs)
        hard = rng.random() < 0.5
        nunused = rng.choice([0, 0, 1, 2]) if hard else 0
        if hard:
            pnames = ["%s%d" % (rng.choice(["", "p", "o"]), k + 1) for k in range(nplugs + nunused)]
            if len(set(pnames)) < len(pnames):
                pnames = ["%d" % (k + 1) for k in range(nplugs + nunused)]
            d = Dev(name, kinds, hardwired=pnames)
        else:
            d = Dev(name, kinds)
        cfg.devs.append(d)
        cfg.truth[name] = {p: None for p in pnames} if hard else {}
        nodes = []
        for k in range(nplugs):
            nodes.append((LONG_WORDS[nodeno % len(LONG_WORDS)] + "-compute-blade" + ("x" * (nodeno // len(LONG_WORDS)))) if long_names
                         else "n" + (str(nodeno).zfill(pad) if pad else str(nodeno))); nodeno += 1
        if hard:
            used = rng.sample(pnames, nplugs) if rng.random() < 0.5 else pnames[:nplugs]
            style = rng.choice(["pairs", "list", "nextfree"]) if used == pnames[:nplugs] else rng.choice(["pairs", "list"])
            if style == "pairs":
                for n, p in zip(nodes, used):
                    cfg.node_lines.append((n, name, p))
            elif style == "list":
                cfg.node_lines.append((compress_some(rng, nodes), name, ",".join(used)))
            elif len(nodes) >= 2 and rng.random() < 0.5:
                # next free hard-wired plug, in order - over SEVERAL node lines of the same device (the second line goes on where the first stopped)
                cut = rng.randint(1, len(nodes) - 1)
                cfg.node_lines.append((compress_some(rng, nodes[:cut]), name, None))
                cfg.node_lines.append((compress_some(rng, nodes[cut:]), name, None))
            else:
                cfg.node_lines.append((compress_some(rng, nodes), name, None))      # next free hard-wired plug, in order
            for n, p in zip(nodes, used):
                cfg.truth[name][p] = n
        else:
            style = rng.choice(["same", "named"])
            if style == "same":
                cfg.node_lines.append((compress_some(rng, nodes), name, None))      # plug named like the node
                pn = nodes
            else:
                pn = ["q%d" % (k + 1) for k in range(nplugs)]
                cfg.node_lines.append((compress_some(rng, nodes), name, compress_some(rng, pn)))
            for n, p in zip(nodes, pn):
                cfg.truth[name][p] = n
    return cfg


# ---------------------------------------------------------------- random scripts: text + AST tokens (for R-DEV / C08)
def q(s):
    """quote a python string as a powerman.conf string literal (parse_lex.l escapes)"""
    out = ""
    for ch in s:
        if ch == "\n": out += "\\n"
        elif ch == "\r": out += "\\r"
        elif ch == '"': out += '\\"'
        elif ch == "\\": out += "\\\\"
        else: out += ch
    return '"' + out + '"'


class Stmt:
    """tiny AST mirrored by Model/ScriptAst.v; tok() is the encoding driver/dev_drv.ml reads, text() the .dev source"""
    def __init__(self, kind, **kw):
        self.kind = kind; self.__dict__.update(kw)

    def text(self, ind="\t\t"):
        k = self.kind
        if k == "send": return ind + "send " + q(self.fmt)
        if k == "expect": return ind + "expect " + q(self.re_src)
        if k == "delay": return ind + "delay %s" % self.secs
        if k == "setplugstate":
            s = ind + "setplugstate "
            if self.lit is not None: s += q(self.lit) + " "
            elif self.pmp >= 0: s += "$%d " % self.pmp
            s += "$%d" % self.smp
            for code, re_ in self.interps:
                s += " %s=%s" % ("on" if code == "on" else "off", q(re_))
            return s
        if k == "setresult":
            return ind + "setresult $%d $%d" % (self.pmp, self.smp) + "".join(" success=%s" % q(r) for _, r in self.interps)
        kw = {"foreachplug": "foreachplug", "foreachnode": "foreachnode", "ifon": "ifon", "ifoff": "ifoff"}[k]
        return ind + kw + " {\n" + "\n".join(x.text(ind + "\t") for x in self.body) + "\n" + ind + "}"

    def tok(self, consts):
        hx = lambda s: (s.encode("latin-1").hex() or "-")
        k = self.kind
        if k == "send": return ["S", hx(self.fmt)]
        if k == "expect": return ["E", hx(self.re_src)]
        if k == "delay": return ["D", str(int(round(float(self.secs) * 1000000)))]
        if k == "setplugstate":
            t = ["P", "~" if self.lit is None else hx(self.lit), str(0 if self.lit is not None else self.pmp), str(self.smp), str(len(self.interps))]
            for code, re_ in self.interps:
                t += [str(consts["ST_ON"] if code == "on" else consts["ST_OFF"]), hx(re_)]
            return t
        if k == "setresult":
            t = ["R", str(self.pmp), str(self.smp), str(len(self.interps))]
            for _, re_ in self.interps:
                t += [str(consts["RT_SUCCESS"]), hx(re_)]
            return t
        tag = {"foreachplug": "FP", "foreachnode": "FN", "ifon": "ION", "ifoff": "IOFF"}[k]
        t = [tag, str(len(self.body))]
        for x in self.body:
            t += x.tok(consts)
        return t


def parse_script_text(txt):
    """the generated script bodies of script_text() as Stmt trees (so that generated specs have an AST too)"""
    import re
    toks = re.findall(r'"(?:[^"\\]|\\.)*"|\{|\}|[^\s{}]+', txt)
    pos = [0]

    def unq(t):
        s = t[1:-1]; out = ""; i = 0
        while i < len(s):
            if s[i] == "\\" and i + 1 < len(s):
                c = s[i + 1]
                out += {"n": "\n", "r": "\r", "t": "\t", '"': '"', "\\": "\\"}.get(c, "\\" + c); i += 2
            else:
                out += s[i]; i += 1
        return out

    def block():
        out = []
        while pos[0] < len(toks) and toks[pos[0]] != "}":
            t = toks[pos[0]]; pos[0] += 1
            if t == "send":
                out.append(Stmt("send", fmt=unq(toks[pos[0]]))); pos[0] += 1
            elif t == "expect":
                out.append(Stmt("expect", re_src=unq(toks[pos[0]]))); pos[0] += 1
            elif t == "delay":
                out.append(Stmt("delay", secs=toks[pos[0]])); pos[0] += 1
            elif t in ("setplugstate", "setresult"):
                lit, mps, ints = None, [], []
                while pos[0] < len(toks) and (toks[pos[0]].startswith('"') or toks[pos[0]].startswith("$") or "=" in toks[pos[0]]):
                    x = toks[pos[0]]; pos[0] += 1
                    if x.startswith("$"): mps.append(int(x[1:]))
                    elif x.startswith('"'): lit = unq(x)
                    else:
                        k, v = x.split("=", 1)
                        if v == "":
                            v = toks[pos[0]]; pos[0] += 1
                        ints.append((k, unq(v)))
                if t == "setresult":
                    out.append(Stmt("setresult", pmp=mps[0], smp=mps[1], interps=ints))
                else:
                    if lit is not None: pmp, smp = 0, mps[0]
                    elif len(mps) == 2: pmp, smp = mps
                    else: pmp, smp = -1, mps[0]
                    out.append(Stmt("setplugstate", lit=lit, pmp=pmp, smp=smp, interps=ints))
            elif t in ("foreachplug", "foreachnode", "ifon", "ifoff"):
                assert toks[pos[0]] == "{"; pos[0] += 1
                b = block(); assert toks[pos[0]] == "}"; pos[0] += 1
                out.append(Stmt(t, body=b))
            else:
                raise ValueError("token " + t)
        return out
    return block()


def random_script(rng, kind, depth=0):
    """random statement list over the whole grammar, plausible enough to make progress against a device that
    echoes lines: sends, expects on short literal patterns with 0-2 groups, setplugstate/setresult with valid
    and invalid $N, delays, foreach / ifon / ifoff nesting <= 2"""
    n = rng.randint(1, 4 if depth else 5)
    out = []
    for _ in range(n):
        r = rng.random()
        if r < 0.28:
            out.append(Stmt("send", fmt=rng.choice(["A %s\n", "B\n", "C %s %%\n", "D\n", "", "E %s"])))
        elif r < 0.56:
            out.append(Stmt("expect", re_src=rng.choice(["ok\n", "([a-z0-9]+) (ON|OFF|X)\n", "([0-9]*):(ON|OFF)", "done", "p([0-9]+)=([A-Z]+)\n", "x*", "[^\n]*\n", "(a)|(b)"])))
        elif r < 0.70:
            lit = rng.choice([None, None, "p1", "zz"])
            pmp = rng.choice([1, 1, 2, 0, 5]) if lit is None and rng.random() < 0.7 else -1
            ints = rng.choice([[("on", "^ON$"), ("off", "^OFF$")], [("on", "ON")], [], [("off", "O"), ("on", "ON")]])
            out.append(Stmt("setplugstate", lit=lit, pmp=pmp if lit is None else 0, smp=rng.choice([2, 2, 1, 0, 3]), interps=ints))
        elif r < 0.78:
            out.append(Stmt("setresult", pmp=rng.choice([1, 1, 2]), smp=rng.choice([2, 2, 1]), interps=rng.choice([[("success", "^ON$")], [("success", "O")], [("success", "ON"), ("success", "OFF")]])))
        elif r < 0.84:
            out.append(Stmt("delay", secs=rng.choice(["0.5", "1", "0", "2.25"])))
        elif depth < 2:
            k = rng.choice(["foreachplug", "foreachnode", "foreachplug", "ifon", "ifoff"])
            out.append(Stmt(k, body=random_script(rng, kind, depth + 1)))
        else:
            out.append(Stmt("send", fmt="F %s\n"))
    return out
