"""Common machinery for the /verif checks (see DESIGN.md §2.3).

Every check run:
  1. copies /repo's working tree sources to a scratch dir,
  2. regenerates coq/Gen/*.v from that copy (translators, gen/*.py),
  3. re-checks the Coq cone of Properties/<id>.v (full .vo build, incremental),
  4. builds the C harness(es) from the scratch copy and the extracted OCaml model,
  5. runs implementation and model on the same cases (correspondence) and the
     property monitor on the implementation's own behaviour (search),
  6. prints the verdict and writes evidence/<id>.json.
"""
import os, sys, json, time, shutil, subprocess, hashlib, re, random, glob, tempfile, atexit

VERIF = os.path.dirname(os.path.dirname(os.path.abspath(__file__)))
REPO = os.environ.get("VERIF_REPO", "/repo")
GUARD = "POWERMAN_VERIF"
# runs against a modified copy (VERIF_REPO=...: mutation tests, seeded changes) must not overwrite the committed
# evidence / replay files of the unchanged tree
_ALT = "VERIF_REPO" in os.environ
EVIDENCE_DIR = os.environ.get("VERIF_EVIDENCE_DIR", os.path.join(os.environ.get("TMPDIR", "/tmp"), "pmv-alt-evidence") if _ALT else os.path.join(VERIF, "evidence"))
REPLAY_DIR = os.environ.get("VERIF_REPLAY_DIR", os.path.join(os.environ.get("TMPDIR", "/tmp"), "pmv-alt-replay") if _ALT else os.path.join(VERIF, "replay"))
FORBIDDEN = re.compile(
    r"\b(Admitted|admit|Axiom|Axioms|Parameter|Parameters|Conjecture|Conjectures|Admit Obligations|"
    r"Unset Guard Checking|Unset Positivity Checking|Unset Universe Checking|bypass_check|"
    r"type-in-type|impredicative-set|native_compute)\b")
OBLIG = re.compile(r"^\s*(?:Local\s+|Global\s+|#\[[^\]]*\]\s*)*(Theorem|Lemma|Corollary|Example|Fact|Proposition|Remark)\s+([A-Za-z0-9_']+)", re.M)

SAN = ["-g", "-O1", "-fsanitize=address,undefined", "-fno-sanitize-recover=all", "-fno-omit-frame-pointer"]


def sh(cmd, timeout=600, cwd=None, env=None, inp=None, shell=False):
    """run a command under a hard (KILL) timeout; returns (rc, stdout, stderr)"""
    if isinstance(cmd, str) and not shell:
        shell = True
    e = dict(os.environ)
    if env:
        e.update(env)
    try:
        p = subprocess.run(cmd, shell=shell, cwd=cwd, env=e, input=inp, stdout=subprocess.PIPE,
                           stderr=subprocess.PIPE, timeout=timeout)
        return p.returncode, p.stdout.decode("latin-1"), p.stderr.decode("latin-1")
    except subprocess.TimeoutExpired as ex:
        return 124, (ex.stdout or b"").decode("latin-1"), (ex.stderr or b"").decode("latin-1") + "\nTIMEOUT"


class Ctx:
    def __init__(self, pid, tier="quick", seed=None):
        self.pid = pid
        self.tier = tier
        self.seed = int(seed if seed is not None else os.environ.get("VERIF_SEED", "1"))
        self.t0 = time.time()
        base = os.environ.get("TMPDIR", "/tmp")
        self.scratch = tempfile.mkdtemp(prefix="pmv.%s." % pid, dir=base)
        atexit.register(self.cleanup)
        self.repo = os.path.join(self.scratch, "repo")
        self.coq = os.path.join(self.scratch, "coq")
        self.bin = os.path.join(self.scratch, "bin")
        os.makedirs(self.bin)
        self.rng = random.Random(self.seed)
        self.notes = []
        self.proof = None
        self.keep = bool(os.environ.get("VERIF_KEEP"))

    def cleanup(self):
        if not self.keep:
            shutil.rmtree(self.scratch, ignore_errors=True)

    def log(self, *a):
        print("[%s %.1fs]" % (self.pid, time.time() - self.t0), *a, file=sys.stderr, flush=True)

    # ------------------------------------------------------------------ repo copy
    def copy_repo(self):
        """copy the *current working tree* sources of /repo (never build outputs)"""
        os.makedirs(self.repo, exist_ok=True)
        ex = ["--exclude=*.o", "--exclude=*.lo", "--exclude=*.la", "--exclude=.libs", "--exclude=.deps",
              "--exclude=*.trs", "--exclude=*.log", "--exclude=trash-directory*", "--exclude=test-results",
              "--exclude=.dirstamp"]
        for sub in ["src", "etc", "config/config.h", "man", "t/etc", "t/simulators", "t/Makefile.am", "heartbeat"]:
            s = os.path.join(REPO, sub)
            if not os.path.exists(s):
                continue
            d = os.path.join(self.repo, sub)
            os.makedirs(os.path.dirname(d), exist_ok=True)
            if os.path.isdir(s):
                rc, o, e = sh(["rsync", "-a"] + ex + [s + "/", d + "/"], shell=False)
            else:
                shutil.copy2(s, d)
        # executables left by the in-tree build are not sources
        for root, dirs, files in os.walk(os.path.join(self.repo, "src")):
            for f in files:
                p = os.path.join(root, f)
                if os.access(p, os.X_OK) and "." not in f:
                    try:
                        with open(p, "rb") as fh:
                            if fh.read(4) == b"\x7fELF":
                                os.unlink(p)
                    except OSError:
                        pass
        cfg = os.path.join(self.repo, "config", "config.h")
        if not os.path.exists(cfg):
            os.makedirs(os.path.dirname(cfg), exist_ok=True)
            with open(cfg, "w") as fh:
                fh.write('#define HAVE_POLL 1\n#define HAVE_POLL_H 1\n#define HAVE_SOCKLEN_T 1\n'
                         '#define PACKAGE_VERSION "verif"\n#define PACKAGE "powerman"\n'
                         '#define RUN_AS_USER "daemon"\n#define RUN_AS_GROUP "daemon"\n'
                         '#define HAVE_CURL_CURL_H 1\n#define HAVE_JANSSON_H 1\n')
        return self.repo

    def regen_parser(self):
        """bison/flex from the scratch copy's .y/.l, as the repo's Makefile does"""
        d = os.path.join(self.repo, "src", "powerman")
        rc, o, e = sh("bison -y -d parse_tab.y -o parse_tab.c 2>&1 && flex -oparse_lex.c parse_lex.l 2>&1", cwd=d, timeout=60)
        if rc != 0:
            raise TieBroken("parser generation failed: " + o + e)

    # ------------------------------------------------------------------ Coq
    def copy_coq(self):
        src = os.path.join(VERIF, "coq")
        with setup_lock(shared=True):
            sh(["rsync", "-a", src + "/", self.coq + "/"], shell=False)
        return self.coq

    def regen(self):
        """run the translators against the scratch copy; only touch files whose content changed"""
        gdir = os.path.join(self.coq, "Gen")
        os.makedirs(gdir, exist_ok=True)
        tmp = os.path.join(self.scratch, "gen.tmp")
        os.makedirs(tmp, exist_ok=True)
        changed = []
        for g in sorted(glob.glob(os.path.join(VERIF, "gen", "gen_*.py"))):
            rc, o, e = sh([sys.executable, g, self.repo, tmp], shell=False, timeout=300)
            if rc != 0:
                raise TieBroken("translator %s failed on the current tree: %s" % (os.path.basename(g), (o + e)[-2000:]))
        for f in sorted(os.listdir(tmp)):
            new = open(os.path.join(tmp, f)).read()
            dst = os.path.join(gdir, f)
            old = open(dst).read() if os.path.exists(dst) else None
            if old != new:
                with open(dst, "w") as fh:
                    fh.write(new)
                changed.append(f)
        self.gen_changed = changed
        return changed

    def coq_make(self, targets, timeout=1500):
        """full .vo build of the given targets (paths relative to coq/, e.g. Properties/C14.vo)"""
        if not getattr(self, "_mk_done", False):
            # the set of .v files may differ from what ./check --setup saw: always regenerate (0.2 s)
            write_coqproject(self.coq)
            sh("coq_makefile -f _CoqProject -o Makefile", cwd=self.coq)
            self._mk_done = True
        t = time.time()
        rc, o, e = sh(["timeout", "-s", "KILL", str(timeout), "make", "-k", "-j16"] + targets, cwd=self.coq,
                      shell=False, timeout=timeout + 30)
        log = o + e
        failing = sorted(set(re.findall(r'File "\./([^"]+\.v)", line \d+, characters [\d-]+:\s*\nError', log)))
        if rc != 0 and not failing:
            failing = sorted(set(re.findall(r"\*\*\* \[[^\]]*?([A-Za-z0-9_/]+\.vo)\]", log)))
        self.log("coq make %s rc=%d %.1fs" % (" ".join(targets), rc, time.time() - t))
        return rc == 0, log, failing

    def cone(self, vfile):
        """transitive PM.* dependencies of a .v file (relative paths), the file itself included"""
        seen, todo = [], [vfile]
        while todo:
            f = todo.pop()
            if f in seen or not os.path.exists(os.path.join(self.coq, f)):
                continue
            seen.append(f)
            txt = strip_comments(open(os.path.join(self.coq, f)).read())
            for sent in re.split(r"\.(?:\s+|$)", txt):
                m = re.match(r"\s*(?:From\s+([A-Za-z0-9_.]+)\s+)?Require\s+(?:Import\s+|Export\s+)?(.*)$", sent, re.S)
                if not m:
                    continue
                root = m.group(1) or ""
                for name in m.group(2).split():
                    full = (root + "." + name) if root else name
                    if full.startswith("PM."):
                        todo.append(full[3:].replace(".", "/") + ".v")
        return sorted(seen)

    def prove(self, pid=None, extra_targets=()):
        """re-check the cone of Properties/<id>.v; returns dict with obligations etc."""
        pid = pid or self.pid
        tgt = "Properties/%s.vo" % pid
        cone = self.cone("Properties/%s.v" % pid)
        bad = []
        for f in [os.path.join(self.coq, c) for c in cone]:
            txt = strip_comments(open(f).read())
            for m in FORBIDDEN.finditer(txt):
                bad.append("%s: %s" % (os.path.relpath(f, self.coq), m.group(0)))
            if re.search(r"^\s*(Variable|Variables|Hypothesis|Hypotheses|Context)\b", txt, re.M) and not re.search(r"^\s*Section\b", txt, re.M):
                bad.append("%s: Variable/Hypothesis outside a Section" % os.path.relpath(f, self.coq))
        ok, log, failing = self.coq_make([tgt] + list(extra_targets))
        oblig, disch, names = 0, 0, []
        failed_files = set(failing)
        # a file depending on a failed file is not discharged either
        for f in cone:
            deps = self.cone(f)
            n = OBLIG.findall(strip_comments(open(os.path.join(self.coq, f)).read()))
            oblig += len(n)
            built = os.path.exists(os.path.join(self.coq, f[:-2] + ".vo")) and not (set(deps) & failed_files)
            if built and ok or (built and f not in failed_files and not (set(deps) & failed_files)):
                disch += len(n)
            if f.startswith("Properties/"):
                names += [x[1] for x in n]
        # Print Assumptions output: recompile the property file alone and capture stdout
        assumptions = ""
        if ok:
            rc, o, e = sh(["timeout", "-s", "KILL", "600", "coqc", "-q", "-Q", ".", "PM", "Properties/%s.v" % pid],
                          cwd=self.coq, shell=False, timeout=630)
            assumptions = o.strip()
            if rc != 0:
                ok = False
                log += o + e
        self.proof = dict(ok=ok and not bad, log=log[-6000:], failing=failing, obligations=oblig,
                          discharged=disch if not bad else 0, theorems=names, assumptions=assumptions,
                          forbidden=bad, cone=cone, gen_changed=getattr(self, "gen_changed", []))
        return self.proof

    def first_error(self):
        if not self.proof:
            return ""
        m = re.search(r'File "\./([^"]+)", line (\d+)[^\n]*\n(Error:?[^\n]*(?:\n[^\n]+){0,6})', self.proof["log"])
        return ("%s:%s %s" % (m.group(1), m.group(2), m.group(3))) if m else self.proof["log"][-800:]

    # ------------------------------------------------------------------ C
    def inc(self):
        r = self.repo
        return ["-DHAVE_CONFIG_H", "-D" + GUARD, "-I" + r + "/config", "-I" + r + "/src/liblsd", "-I" + r + "/src/libcommon",
                "-I" + r + "/src/powerman", "-I" + r + "/src", "-I" + os.path.join(VERIF, "harness")]

    def cc(self, srcs, out, extra=(), sanitize=True, timeout=300, compiler="gcc"):
        cmd = [compiler, "-w"] + (SAN if sanitize else ["-g", "-O1"]) + self.inc() + list(extra) + list(srcs) + ["-o", os.path.join(self.bin, out)]
        rc, o, e = sh(["timeout", "-s", "KILL", str(timeout)] + cmd, shell=False, timeout=timeout + 10)
        if rc != 0:
            raise TieBroken("harness %s does not build against the current tree:\n%s" % (out, (o + e)[-3000:]))
        return os.path.join(self.bin, out)

    def cc_parallel(self, srcs, out, extra=(), link_extra=(), sanitize=True, timeout=300):
        """compile many translation units in parallel, then link"""
        objdir = os.path.join(self.scratch, "obj." + out)
        os.makedirs(objdir, exist_ok=True)
        procs = []
        flags = (SAN if sanitize else ["-g", "-O1"]) + self.inc() + list(extra)
        objs = []
        for s in srcs:
            o = os.path.join(objdir, os.path.basename(s).rsplit(".", 1)[0] + ".o")
            objs.append(o)
            procs.append((s, subprocess.Popen(["timeout", "-s", "KILL", str(timeout), "gcc", "-w", "-c"] + flags + [s, "-o", o],
                                              stdout=subprocess.PIPE, stderr=subprocess.STDOUT)))
        for s, p in procs:
            o, _ = p.communicate()
            if p.returncode != 0:
                raise TieBroken("harness %s: %s does not compile against the current tree:\n%s" % (out, s, o.decode("latin-1")[-3000:]))
        cmd = ["gcc"] + (["-fsanitize=address,undefined"] if sanitize else []) + objs + list(link_extra) + ["-o", os.path.join(self.bin, out)]
        rc, o, e = sh(cmd, shell=False, timeout=timeout)
        if rc != 0:
            raise TieBroken("harness %s does not link:\n%s" % (out, (o + e)[-3000:]))
        return os.path.join(self.bin, out)

    # ------------------------------------------------------------------ OCaml (extracted model + driver)
    def ocaml_driver(self, name, module, driver_ml, cstubs=(), csources=(), ccopt=""):
        """module: basename extracted to coq/Extract/<module>.ml by coq/Extract/Ex*.v (monolithic
        `Extraction "<module>.ml" ...`, which must list Base.ExtractBase.dlib_anchor);
        driver_ml: file under /verif/driver.  main.ml = `open <Module>` + dlib.ml + driver.  Built in
        scratch from the *scratch* coq dir, so the extracted code reflects the regenerated Gen files."""
        bdir = os.path.join(self.scratch, "ml." + name)
        os.makedirs(bdir, exist_ok=True)
        for ext in (".mli", ".ml"):
            s = os.path.join(self.coq, "Extract", module + ext)
            if not os.path.exists(s):
                raise TieBroken("extracted module %s missing (Coq build of Extract/ failed?)" % module)
            shutil.copy(s, bdir)
        with open(os.path.join(bdir, "main.ml"), "w") as fh:
            fh.write("open %s\n" % (module[0].upper() + module[1:]))
            fh.write(open(os.path.join(VERIF, "driver", "dlib.ml")).read() + "\n")
            fh.write(open(os.path.join(VERIF, "driver", driver_ml)).read())
        cs = []
        for c in cstubs:
            shutil.copy(os.path.join(VERIF, "driver", c), bdir)
            cs.append(c)
        for c in csources:           # C sources of the scratch copy the stubs link against (absolute paths)
            shutil.copy(c, bdir)
            cs.append(os.path.basename(c))
        if ccopt:
            cs = ["-ccopt", ccopt] + cs
        out = os.path.join(self.bin, name)
        rc, o, e = sh(["ocamlfind", "ocamlopt", "-w", "-a", "-O2", "-package", "str,unix", "-linkpkg"] + cs +
                      [module + ".mli", module + ".ml", "main.ml", "-o", out], cwd=bdir, shell=False, timeout=900)
        if rc != 0:
            raise TieBroken("OCaml driver %s does not build:\n%s" % (name, (o + e)[-3000:]))
        return out


class TieBroken(Exception):
    pass


class setup_lock:
    """./check --setup builds coq/ in place (exclusive); checks copy it (shared)"""
    def __init__(self, shared):
        self.shared = shared
    def __enter__(self):
        import fcntl
        self.fh = open(os.path.join(VERIF, ".setup.lock"), "w")
        fcntl.flock(self.fh, fcntl.LOCK_SH if self.shared else fcntl.LOCK_EX)
    def __exit__(self, *a):
        import fcntl
        fcntl.flock(self.fh, fcntl.LOCK_UN)
        self.fh.close()


def scan_forbidden(coqdir):
    bad = []
    for f in glob.glob(os.path.join(coqdir, "**", "*.v"), recursive=True):
        txt = strip_comments(open(f).read())
        for m in FORBIDDEN.finditer(txt):
            bad.append("%s: %s" % (os.path.relpath(f, coqdir), m.group(0)))
    return bad


def strip_comments(txt):
    out, depth, i = [], 0, 0
    n = len(txt)
    while i < n:
        if txt.startswith("(*", i):
            depth += 1
            i += 2
        elif txt.startswith("*)", i) and depth > 0:
            depth -= 1
            i += 2
        else:
            if depth == 0:
                out.append(txt[i])
            i += 1
    return "".join(out)


def write_coqproject(coqdir):
    vs = sorted(os.path.relpath(p, coqdir) for p in glob.glob(os.path.join(coqdir, "**", "*.v"), recursive=True))
    with open(os.path.join(coqdir, "_CoqProject"), "w") as fh:
        fh.write("-Q . PM\n-arg -w -arg -notation-overridden,-deprecated-hint-without-locality,-deprecated-instance-without-locality,-deprecated-syntactic-definition\n")
        for v in vs:
            fh.write(v + "\n")


# ---------------------------------------------------------------------- verdicts
def load_known():
    p = os.path.join(VERIF, "known_findings.json")
    if not os.path.exists(p):
        return []
    return json.load(open(p)).get("findings", [])


def hexs(b):
    return b.hex() if isinstance(b, (bytes, bytearray)) else bytes(b).hex()


class Verdict:
    """collects what one run saw and turns it into exit status, VIOLATION / KNOWN-FINDING lines,
    replay files and the evidence file."""

    def __init__(self, ctx):
        self.ctx = ctx
        self.violations = []      # dict(clause, site, witness, detail)  -- property fails on a concrete input
        self.broken = []          # dict(kind='proof'|'correspondence'|'tie', name, detail, case)
        self.evaluations = 0
        self.nontrivial = set()
        self.samples = []
        self.dist = {}
        self.extra = {}
        self.rule = ""
        self.assumptions = []
        self.exhaustive = False

    def count(self, key, n=1):
        self.dist[key] = self.dist.get(key, 0) + n

    def case(self, canonical, nontrivial=True):
        self.evaluations += 1
        if nontrivial:
            self.nontrivial.add(hashlib.sha1(repr(canonical).encode()).hexdigest()[:16])

    def sample(self, s, limit=5):
        if len(self.samples) < limit:
            self.samples.append(s)

    def violation(self, clause, site, witness, detail=""):
        self.violations.append(dict(clause=clause, site=site, witness=witness, detail=detail))

    def tie_broken(self, kind, name, detail, case=None):
        self.broken.append(dict(kind=kind, name=name, detail=detail, case=case))

    def finish(self):
        ctx = self.ctx
        pid = ctx.pid
        known = [k for k in load_known() if k.get("property") == pid and k.get("status", "known") == "known"]
        rdir = REPLAY_DIR
        os.makedirs(rdir, exist_ok=True)
        lines, rc = [], 0
        seen_known, new = {}, {}
        for v in self.violations:
            k = next((k for k in known if k["clause"] == v["clause"] and k["site"] == v["site"]), None)
            if k is not None:
                seen_known.setdefault(k["id"], (k, v))
            else:
                new.setdefault((v["clause"], v["site"]), v)
        for kid, (k, v) in sorted(seen_known.items()):
            lines.append("KNOWN-FINDING: property=%s %s [%s] %s" % (pid, kid, k["clause"] + "@" + k["site"], k["what"]))
        for (clause, site), v in sorted(new.items()):
            h = hashlib.sha1(json.dumps([clause, site, v["witness"]], sort_keys=True, default=str).encode()).hexdigest()[:10]
            path = os.path.join(rdir, "%s-%s.json" % (pid, h))
            json.dump(dict(property=pid, verdict="violation", clause_violated=clause, site=site, seed=ctx.seed,
                           case=v["witness"], detail=v["detail"], tree=tree_id()), open(path, "w"), indent=1, default=str)
            lines.append("VIOLATION property=%s replay=%s" % (pid, path))
            rc = 1
        if self.broken and not new:
            # proof or correspondence no longer checks and the search found no input on which the
            # property itself fails (other than listed findings)
            b = self.broken[0]
            h = hashlib.sha1(json.dumps([b["kind"], b["name"]], default=str).encode()).hexdigest()[:10]
            path = os.path.join(rdir, "%s-%s.json" % (pid, h))
            json.dump(dict(property=pid, verdict="unproved", no_longer_checks=[dict(kind=x["kind"], name=x["name"], detail=x["detail"], case=x["case"]) for x in self.broken],
                           seed=ctx.seed, tree=tree_id(),
                           note="the theorem / correspondence relation named here no longer checks against the current tree; "
                                "the search (corpus, enlarged budget, small-scope enumeration) found no concrete input on which the property itself fails"),
                      open(path, "w"), indent=1, default=str)
            lines.append("VIOLATION property=%s replay=%s no-failing-input-found" % (pid, path))
            rc = 1
        for b in self.broken:
            ctx.log("BROKEN %s %s: %s" % (b["kind"], b["name"], str(b["detail"])[:1500]))
        for l in lines:
            print(l, flush=True)
        self.write_evidence(len(new) + (1 if (self.broken and not new) else 0), sorted(seen_known))
        if rc == 0:
            print("OK property=%s tier=%s evaluations=%d proof_obligations=%s/%s wall=%.1fs" % (
                pid, ctx.tier, self.evaluations, (ctx.proof or {}).get("discharged"), (ctx.proof or {}).get("obligations"), time.time() - ctx.t0), flush=True)
        return rc

    def write_evidence(self, nviol, known_hit):
        ctx = self.ctx
        pr = ctx.proof or dict(obligations=0, discharged=0, assumptions="", theorems=[], cone=[], forbidden=[], gen_changed=[])
        tb = list(TRUSTED_BASE) + list(self.assumptions)
        if pr.get("assumptions"):
            tb.append("Print Assumptions output of Properties/%s.v: %s" % (ctx.pid, re.sub(r"\s+", " ", pr["assumptions"])[:6000]))
        cov = dict(
            obligations=max(pr["obligations"], 0), discharged=pr["discharged"],
            checker_cmd="coq_makefile -f _CoqProject -o Makefile && make -k -j16 Properties/%s.vo (coqc 8.16.1, full .vo build of the cone) && coqc Properties/%s.v for Print Assumptions" % (ctx.pid, ctx.pid),
            trusted_base=tb, theorems=pr.get("theorems", []), proof_cone=pr.get("cone", []),
            regenerated_files_changed=pr.get("gen_changed", []), forbidden_constructs=pr.get("forbidden", []),
            evaluations=self.evaluations, distinct_nontrivial=len(self.nontrivial), rule=self.rule,
            samples=self.samples[:8], input_distribution=self.dist, exhaustive=self.exhaustive,
            known_findings_hit=known_hit,
            broken=[dict(kind=b["kind"], name=b["name"]) for b in self.broken])
        cov.update(self.extra)
        ev = dict(property_id=ctx.pid, tier=ctx.tier, seed=ctx.seed, level="proof", coverage=cov,
                  assumptions=tb, wall_s=round(time.time() - ctx.t0, 2), violations=nviol)
        os.makedirs(EVIDENCE_DIR, exist_ok=True)
        with open(os.path.join(EVIDENCE_DIR, ctx.pid + ".json"), "w") as fh:
            json.dump(ev, fh, indent=1, default=str)


TRUSTED_BASE = [
    "Coq 8.16.1 kernel (coqc full .vo build; vm_compute used for finite sweeps and witnesses; native_compute not used)",
    "no Axiom/Parameter/Conjecture/Admitted/admit/unset checks anywhere under coq/ (grep on every run + Print Assumptions per property theorem)",
    "translators gen/gen_*.py (constants, tables, shipped specs regenerated from /repo's current tree on every run)",
    "extraction: Require Extraction + ExtrOcamlBasic only (no Extract Constant / Extract Inductive of our own); OCaml 4.13.1; drivers under driver/",
    "correspondence harnesses under harness/ (differential testing of the hand-written model against the C, bounds but does not eliminate model/code divergence)",
    "gcc 12 + ASan/UBSan turn memory errors into observable outcomes for the tie only",
]


def tree_id():
    rc, o, e = sh("git -C %s rev-parse --short HEAD; git -C %s status --porcelain -- src etc t/etc | wc -l" % (REPO, REPO))
    return o.split()


def proof_gate(ctx, V, pid=None, extract=()):
    """steps 1-3 common to all checks. Returns True if all proofs check.
    extract: Extract/Ex*.vo targets whose extracted .ml the check's OCaml driver uses (rebuilt from the
    regenerated Gen files and the current model sources)"""
    ctx.copy_repo()
    ctx.copy_coq()
    try:
        ctx.regen()
    except TieBroken as ex:
        V.tie_broken("tie", "translator", str(ex))
        ctx.proof = dict(ok=False, log=str(ex), failing=[], obligations=1, discharged=0, theorems=[], assumptions="", forbidden=[], cone=[], gen_changed=[])
        return False
    pr = ctx.prove(pid, extra_targets=list(extract))
    if pr["forbidden"]:
        V.tie_broken("proof", "forbidden-construct", "; ".join(pr["forbidden"]))
    if not pr["ok"]:
        V.tie_broken("proof", ",".join(pr["failing"]) or "Properties/%s.v" % (pid or ctx.pid), ctx.first_error())
    return pr["ok"]
