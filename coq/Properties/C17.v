(* C17 -- every shipped device specification loads and is format-safe (DESIGN §5 C17).
   Model/SpecCheck.v: the rules; Spec/SpecCheckSpec.v: what they mean (hsprintf / sub_strdup calls of every
   execution); Gen/GenSpecs.v: every specification of the current tree (regenerated on every run). *)
From Coq Require Import List NArith ZArith Bool.
From PM Require Import Base.Bytes Gen.GenConsts Model.ScriptAst Model.RegexSyn Model.Fmt Model.SpecCheck
  Model.SpecDigest Spec.SpecCheckSpec Gen.GenSpecs Proofs.SpecCheckProofs Proofs.SpecCheckShipped.
Import ListNotations.

(* ---- the sweep: every rule holds of every specification in every shipped file *)
Theorem C17_all_shipped : forallb (fun '(f, s) => spec_ok s) GenSpecs.all_specs = true.
Proof. exact shipped_all_ok. Qed.
Print Assumptions C17_all_shipped.

(* ---- the sweep is complete and the automake lists agree with the directories *)
Theorem C17_enumeration :
  unparsable_files = [] /\ unlisted_files = [] /\ missing_files = [] /\ duplicate_specs = [] /\
  forallb (fun f => existsb (fun p => text_eqb (fst p) f) all_specs) shipped_files = true /\
  forallb (fun p => existsb (text_eqb (fst p)) shipped_files) all_specs = true.
Proof. exact shipped_enumeration. Qed.
Print Assumptions C17_enumeration.

Theorem C17_counts :
  length shipped_files = n_files /\ length all_specs = n_specs /\ count_scripts = n_scripts /\ count_stmts = n_stmts.
Proof. exact shipped_counts. Qed.
Print Assumptions C17_counts.

(* ---- the Coq terms of GenSpecs.v carry the fingerprints the translator computed from the reader's trees; the
   check recomputes the same fingerprints from the REAL parser's dump of every file *)
Theorem C17_terms_faithful : map (fun p => SpecDigest.spec_digest (snd p)) all_specs = spec_digests.
Proof. exact shipped_digests. Qed.
Print Assumptions C17_terms_faithful.

(* ---- meaning of the rules.  [run arg body tr]: tr is the sequence of hsprintf / successful expect / sub_strdup
   calls of a complete execution of the script; every real execution is a prefix, hence "tr = pre ++ ev :: post" *)

(* every format string reaching hsprintf fetches at most one argument, only as a string, and only when
   _process_send passes one *)
Theorem C17_meaning_send : forall s idx body tr, spec_ok s = true -> In (idx, body) (sp_scripts s) ->
  run (top_arg (kind_of idx)) body tr ->
  forall pre fmt arg post, tr = pre ++ EvSend fmt arg :: post ->
    (forall t, In t (fmt_args fmt) -> t = AStr) /\ (length (fmt_args fmt) <= 1)%nat /\ (fmt_args fmt <> [] -> arg = true).
Proof. exact meaning_send. Qed.
Print Assumptions C17_meaning_send.

(* every $N evaluated follows an executed expect of the same script run, whose pattern is within the compile
   limit, and N names a group of THAT expect inside the match array (or is the omitted plug slot, -1) *)
Theorem C17_meaning_groups : forall s idx body tr, spec_ok s = true -> In (idx, body) (sp_scripts s) ->
  run (top_arg (kind_of idx)) body tr ->
  forall pre n opt post, tr = pre ++ EvSub n opt :: post ->
    exists re g, last_expect pre = Some re /\ ngroups re = Some g /\
      ((opt = true /\ n = (-1)%Z) \/ (0 <= n <= Z.of_nat g /\ n <= MAX_MATCH_POS)%Z).
Proof. exact meaning_groups. Qed.
Print Assumptions C17_meaning_groups.

(* the diagnostic callback is only ever reached in scripts whose actions carry one *)
Theorem C17_meaning_setresult : forall s idx body tr, spec_ok s = true -> In (idx, body) (sp_scripts s) ->
  run (top_arg (kind_of idx)) body tr -> In EvDiag tr ->
  idx <> PM_LOG_IN /\ idx <> PM_LOG_OUT /\ idx <> PM_PING.
Proof. exact meaning_setresult. Qed.
Print Assumptions C17_meaning_setresult.

Theorem C17_scoped : forall s, spec_ok s = true -> Forall scoped_script (sp_scripts s).
Proof. exact spec_ok_scoped. Qed.
Print Assumptions C17_scoped.

Theorem C17_login_timeout : forall s, spec_ok s = true ->
  (exists body, assoc_script PM_LOG_IN (sp_scripts s) = Some body) /\ (0 < sp_timeout s)%Z.
Proof. exact spec_ok_login_timeout. Qed.
Print Assumptions C17_login_timeout.

(* the static list R-CTX compares with the real interpreter's hsprintf calls covers every send of every run *)
Theorem C17_sends_listed : forall arg l tr, run arg l tr ->
  forall f a, In (EvSend f a) tr -> exists p, In (p, f, a) (sends_block arg [] 0%nat l).
Proof. intros arg l tr H f a. exact (run_sends_listed arg l tr H [] 0%nat f a). Qed.
Print Assumptions C17_sends_listed.

(* ---- instantiated on the shipped data *)
Corollary C17_shipped_safe : forall f s idx body tr, In (f, s) all_specs -> In (idx, body) (sp_scripts s) ->
  run (top_arg (kind_of idx)) body tr ->
  (forall pre fmt arg post, tr = pre ++ EvSend fmt arg :: post -> fmt_safe arg fmt) /\
  (forall pre n opt post, tr = pre ++ EvSub n opt :: post -> sub_safe pre n opt) /\
  (exists login, assoc_script PM_LOG_IN (sp_scripts s) = Some login) /\ (0 < sp_timeout s)%Z.
Proof. exact shipped_safe. Qed.
Print Assumptions C17_shipped_safe.

(* ================================================================== non-vacuity *)
Local Open Scope string_scope.
Definition S (x : String.string) : text := bs x.
Definition mk (scripts : list (Z * list stmt)) : spec := mkSpec (S "bad") 5000000 0 None scripts.
Definition login_ok : Z * list stmt := (PM_LOG_IN, [Send (S "login\n"); Expect (S "ok")]).
Definition rules (s : spec) : list rule := map f_rule (spec_failures s).

(* a well-formed specification passes ... *)
Example good_spec_ok :
  spec_ok (mk [login_ok;
               (PM_POWER_ON, [Send (S "on %s\n"); Expect (S "([0-9]+): (OK|ERR)"); SetResult 1 2 [(RT_SUCCESS, S "OK")]]);
               (PM_STATUS_PLUGS_ALL, [Send (S "stat 100%%\n");
                                      ForeachPlug [Expect (S "plug ([0-9]+): (ON|OFF)");
                                                   SetPlugState None 1 2 [(ST_ON, S "ON"); (ST_OFF, S "OFF")]]])]) = true.
Proof. vm_compute. reflexivity. Qed.

(* ... and each rule rejects the defect it is there for *)
Example bad_no_login : rules (mk [(PM_POWER_ON, [Send (S "on %s")])]) = [R_LOGIN].
Proof. vm_compute. reflexivity. Qed.
Example bad_timeout : rules (mkSpec (S "bad") 0 0 None [login_ok]) = [R_TIMEOUT].
Proof. vm_compute. reflexivity. Qed.
Example bad_stray_d : rules (mk [login_ok; (PM_POWER_ON, [Send (S "on %s %d\n")])]) = [R_SEND].
Proof. vm_compute. reflexivity. Qed.
Example bad_two_s : rules (mk [login_ok; (PM_POWER_ON, [Send (S "on %s %s\n")])]) = [R_SEND].
Proof. vm_compute. reflexivity. Qed.
Example bad_s_without_plug : rules (mk [login_ok; (PM_POWER_ON_ALL, [Send (S "on %s\n")])]) = [R_SEND].
Proof. vm_compute. reflexivity. Qed.
Example bad_star_width : rules (mk [login_ok; (PM_POWER_ON, [Send (S "on %*s\n")])]) = [R_SEND].
Proof. vm_compute. reflexivity. Qed.
Example bad_percent_n : rules (mk [(PM_LOG_IN, [Send (S "100%n")])]) = [R_SEND].
Proof. vm_compute. reflexivity. Qed.
Example bad_trailing_percent : rules (mk [(PM_LOG_IN, [Send (S "100%")])]) = [R_SEND].
Proof. vm_compute. reflexivity. Qed.
Example ok_s_in_foreach_of_all_script :
  rules (mk [login_ok; (PM_POWER_ON_ALL, [ForeachPlug [Send (S "on %s\n")]])]) = [].
Proof. vm_compute. reflexivity. Qed.
Example bad_group_3_of_2 :
  rules (mk [login_ok; (PM_STATUS_PLUGS, [Expect (S "(a)(b)"); SetPlugState None 1 3 []])]) = [R_GROUP].
Proof. vm_compute. reflexivity. Qed.
Example bad_group_in_bracket_does_not_count :
  rules (mk [login_ok; (PM_STATUS_PLUGS, [Expect (S "(a)[(]\(b"); SetPlugState None 1 2 []])]) = [R_GROUP].
Proof. vm_compute. reflexivity. Qed.
Example bad_group_of_inner_expect :
  (* the expect that counts is the LAST one executed, also across a loop back edge *)
  rules (mk [login_ok; (PM_STATUS_PLUGS_ALL,
     [Expect (S "(a)(b)"); ForeachPlug [SetPlugState None 1 2 []; Expect (S "(c)")]])]) = [R_GROUP].
Proof. vm_compute. reflexivity. Qed.
Example bad_no_expect : rules (mk [login_ok; (PM_STATUS_PLUGS, [Send (S "s"); SetPlugState None (-1) 1 []])]) = [R_NOEXPECT].
Proof. vm_compute. reflexivity. Qed.
Example bad_above_max_match_pos :
  rules (mk [login_ok; (PM_STATUS_PLUGS,
     [Expect (S "(a)(a)(a)(a)(a)(a)(a)(a)(a)(a)(a)(a)(a)(a)(a)(a)(a)(a)(a)(a)(a)(a)"); SetPlugState None 1 21 []])]) = [R_GROUP].
Proof. vm_compute. reflexivity. Qed.
Example bad_foreach_in_singlet : rules (mk [login_ok; (PM_POWER_ON, [ForeachPlug [Send (S "on %s\n")]])]) = [R_FOREACH_SCOPE].
Proof. vm_compute. reflexivity. Qed.
Example bad_if_without_plug : rules (mk [login_ok; (PM_POWER_ON_ALL, [IfOn [Send (S "x")]])]) = [R_IF_SCOPE].
Proof. vm_compute. reflexivity. Qed.
Example bad_setresult_in_login :
  rules (mk [(PM_LOG_IN, [Expect (S "(a)(b)"); SetResult 1 2 [(RT_SUCCESS, S "b")]])]) = [R_SETRESULT_SCOPE].
Proof. vm_compute. reflexivity. Qed.
Example bad_long_pattern : rules (mk [(PM_LOG_IN, [Expect (repeat 97%N 257)])]) = [R_PATTERN].
Proof. vm_compute. reflexivity. Qed.
Example bad_empty_block : rules (mk [login_ok; (PM_POWER_ON_ALL, [ForeachPlug []])]) = [R_EMPTY].
Proof. vm_compute. reflexivity. Qed.
Example failure_is_located :
  spec_failures (mk [login_ok; (PM_POWER_OFF_ALL, [Send (S "off *"); ForeachPlug [Expect (S "ok"); Send (S "%d")]])])
  = [mkFail R_SEND PM_POWER_OFF_ALL [1; 1]%nat].
Proof. vm_compute. reflexivity. Qed.

(* the meaning theorems are about something: executions exist, reach hsprintf with and without an argument, and an
   unchecked specification does have an unsafe execution *)
Example run_exists_with_plug :
  run true [Send (S "on %s\n"); Expect (S "(ok)"); SetPlugState None (-1) 1 []]
           [EvSend (S "on %s\n") true; EvExpect (S "(ok)"); EvSub (-1) true; EvSub 1 false].
Proof. repeat constructor. Qed.
Example unsafe_run_exists :
  exists tr pre post, run false [Send (S "%s%d")] tr /\ tr = (pre ++ EvSend (S "%s%d") false :: post)%list /\
                      ~ fmt_safe false (S "%s%d").
Proof.
  exists [EvSend (S "%s%d") false], [], []. split; [repeat constructor|]. split; [reflexivity|].
  intros (A & B & C). vm_compute in B. repeat apply le_S_n in B. inversion B.
Qed.
Example unsafe_sub_exists : ~ sub_safe [EvSend (S "x") false] 1 false.
Proof. intros (re & g & L & _). vm_compute in L. discriminate. Qed.
Example fmt_args_examples :
  fmt_args (S "on %s\n") = [AStr] /\ fmt_args (S "100%% %-8.3s") = [AStr] /\ fmt_args (S "%5d %*s %ls %n") = [AInt; AInt; AStr; AWStr; AWritePtr].
Proof. vm_compute. repeat split; reflexivity. Qed.
Example digest_sees_a_dropped_statement :
  spec_digest (mk [login_ok]) <> spec_digest (mk [(PM_LOG_IN, [Send (S "login\n")])]) /\
  spec_digest (mk [(PM_LOG_IN, [ForeachPlug [Send (S "a")]; Send (S "b")])])
    <> spec_digest (mk [(PM_LOG_IN, [ForeachPlug [Send (S "a"); Send (S "b")]])]).
Proof. split; vm_compute; discriminate. Qed.
Example ngroups_examples :
  ngroups (S "plug ([0-9]+): (ON|OFF)") = Some 2%nat /\ ngroups (S "[]()]\(x\)(y)") = Some 1%nat /\
  ngroups (S "[[:alpha:](]+(a(b))") = Some 2%nat /\ ngroups (repeat 40%N 257) = None.
Proof. vm_compute. repeat split; reflexivity. Qed.

(* ------------------------------------------------------------------------------------------------------------------
   Bridge to the run-time theorems (Proofs/SpecBridge.v).  The rules above are about the specifications as data; the
   device-layer and whole-daemon theorems (C04, C07, C10, C12, C20) assume `cfg_ok` of every configured device.  For
   the shipped specifications that hypothesis is discharged here, from the same regenerated data: *)
From PM Require Import Model.Enqueue Model.Script Model.Device Model.DevHarness Proofs.DeviceStmt Proofs.DeviceInv Proofs.SpecBridge.

(* every shipped specification, attached to ANY device name, plug list, time-out and ping period, satisfies the
   configuration hypothesis of the device invariant: a login script exists, no block is empty, and every send format is
   one on which hsprintf is defined whatever the plug argument is (for every host-range compression oracle) *)
Theorem C17_shipped_cfg_ok : forall compress file s name plugs timeout ping,
  In (file, s) GenSpecs.all_specs -> cfg_ok compress (mk_device name plugs (sp_scripts s) timeout ping).
Proof. exact shipped_cfg_ok. Qed.
Print Assumptions C17_shipped_cfg_ok.
(* the boolean form it rests on, for any script table *)
Theorem C17_cfg_ok_decidable : forall compress scripts name plugs timeout ping,
  scripts_b scripts = true -> cfg_ok compress (mk_device name plugs scripts timeout ping).
Proof. exact scripts_b_cfg_ok. Qed.
Print Assumptions C17_cfg_ok_decidable.
Example C17_bridge_nonvacuous :
  GenSpecs.all_specs <> [] /\
  scripts_b [(PM_LOG_IN, [Send (S "login\n")]); (PM_POWER_ON, [Send (S "on %d\n")])] = false /\
  scripts_b [(PM_POWER_ON, [Send (S "on %s\n")])] = false /\
  scripts_b [(PM_LOG_IN, [Send (S "login\n")]); (PM_POWER_ON, [ForeachPlug []])] = false.
Proof. split; [discriminate|]. vm_compute. repeat split; reflexivity. Qed.
