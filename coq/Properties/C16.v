(* C16 -- Client library and CLI interpret replies faithfully and safely.
   Model: Model/LibPm.v (libpowerman.c reply scanner; powerman.c reply loop + xread.c), following the code with the
   repairs F12a..F12d (all four are applied in /repo).  Specification vocabulary: Spec/ReplySpec.v.
   Generated facts used: Gen/GenLibPm.v (retcode_table, server_codes, cli_suppress, cli_stderr, XREAD_CHUNKSIZE, enum
   values) and Gen/GenConsts.v (CP_* strings, CP_LINEMAX, class intervals). *)
From Coq Require Import List NArith ZArith Bool Lia.
From PM Require Import Base.Bytes Base.Outcome Gen.GenConsts Gen.GenLibPm Model.LibPm Spec.ReplySpec
  Proofs.LibPmBase Proofs.LibPmRecv Proofs.LibPmReply Proofs.LibPmCli Proofs.LibPmCliConf Proofs.LibPmMain.
Import ListNotations.
Local Open Scope Z_scope.

(* ---------------------------------------------------------------------------------------------------------------
   C16_total.  For ANY list of chunks (what successive read()s return; [] or the end of the list is end of file)
   _server_recv_response returns, without any access outside its buffer: either PM_ESERVEREOF, or the bytes consumed
   end with the prompt, nothing but them was taken from the stream, and the result is computed from them alone. *)
Theorem C16_total : forall chunks : list text,
  exists err resp rest, recv chunks = Ok (err, resp, rest) /\
    ((err = PM_ESERVEREOF /\ resp = []) \/
     (exists consumed, ends_with consumed CP_PROMPT /\ consumed ++ concat rest = concat chunks /\
        err = retcode (parse_response consumed) /\ resp = (if err =? PM_ESUCCESS then parse_response consumed else []))).
Proof. exact main_total. Qed.
Print Assumptions C16_total.

(* fewer bytes than the prompt in the first read (F12a's witness), and a read that spans the end of the reply *)
Example C16_total_ex :
  recv [bs "001 v"%string ++ CP_EOL; CP_PROMPT] = Ok (PM_ESUCCESS, [bs "001 v"%string ++ CP_EOL], []) /\
  recv [[48%N]] = Ok (PM_ESERVEREOF, [], []) /\
  recv [bs "102 ok"%string ++ CP_EOL ++ CP_PROMPT; bs "x"%string] = Ok (PM_ESUCCESS, [bs "102 ok"%string ++ CP_EOL], [bs "x"%string]).
Proof. vm_compute. auto. Qed.

(* ... and no sequence of API calls (connect, status, on, off, cycle, node iterator, raw receive, disconnect) reaches
   a memory error (receive buffer, node[CP_LINEMAX]); every call returns. *)
Theorem C16_total_session : forall (ops : list op) (chunks : list text),
  snd (run_session ops chunks) = None /\ length (fst (run_session ops chunks)) = length ops.
Proof. exact main_total_session. Qed.
Print Assumptions C16_total_session.

Example C16_total_session_ex :
  let chunks := [bs "001 v"%string ++ CP_EOL; CP_PROMPT; bs "105 x"%string ++ CP_EOL ++ CP_PROMPT;
                 bs "307 a"%string ++ CP_EOL ++ bs "307 b"%string ++ CP_EOL ++ bs "103 ok"%string ++ CP_EOL ++ CP_PROMPT] in
  map r_pay (fst (run_session [OpConnect; OpNodes] chunks)) = [PNone; PNodes [bs "a"%string; bs "b"%string]].
Proof. vm_compute. reflexivity. Qed.

(* ---------------------------------------------------------------------------------------------------------------
   C16_segmentation.  If "powerman> " occurs in the stream only as its very end, the result depends only on the
   concatenation of the chunks. *)
Theorem C16_segmentation : forall c1 c2 : list text,
  nonempty_chunks c1 -> nonempty_chunks c2 -> concat c1 = concat c2 ->
  prompt_only_at_end (concat c1) -> recv c1 = recv c2.
Proof. exact main_segmentation. Qed.
Print Assumptions C16_segmentation.

Definition ex_stream : text := bs "303 t0: on"%string ++ CP_EOL ++ bs "103 Query complete"%string ++ CP_EOL ++ CP_PROMPT.
Example C16_segmentation_ex :
  prompt_only_at_end ex_stream /\ nonempty_chunks [firstn 3 ex_stream; skipn 3 ex_stream] /\
  recv [firstn 3 ex_stream; skipn 3 ex_stream] = Ok (PM_ESUCCESS, [bs "103 Query complete"%string ++ CP_EOL; bs "303 t0: on"%string ++ CP_EOL], []).
Proof.
  split; [apply prompt_only_at_end_b_sound; vm_compute; reflexivity|].
  split; [repeat constructor; discriminate|vm_compute; reflexivity].
Qed.

(* the hypothesis is needed: a read that ends with a "powerman> " inside a line ends the exchange early
   (protocol weakness: device text relayed in 305 lines may contain it) *)
Theorem C16_segmentation_hypothesis_needed :
  exists c1 c2 : list text, nonempty_chunks c1 /\ nonempty_chunks c2 /\ concat c1 = concat c2 /\ recv c1 <> recv c2.
Proof.
  exists [bs "305 "%string ++ CP_PROMPT ++ CP_EOL ++ bs "102 ok"%string ++ CP_EOL ++ CP_PROMPT],
         [bs "305 "%string ++ CP_PROMPT; CP_EOL ++ bs "102 ok"%string ++ CP_EOL ++ CP_PROMPT].
  split; [repeat constructor; discriminate|]. split; [repeat constructor; discriminate|]. split; [reflexivity|].
  vm_compute. discriminate.
Qed.

(* ---------------------------------------------------------------------------------------------------------------
   C16_success_sound.  PM_ESUCCESS is returned only if the bytes consumed contain a CRLF-terminated line whose
   leading integer (as sscanf "%d" reads it) is a success code (001 or 1xx).  Uses the regenerated retcode_table. *)
Theorem C16_success_sound : forall chunks resp rest,
  recv chunks = Ok (PM_ESUCCESS, resp, rest) ->
  exists consumed raw a b line c,
    consumed ++ concat rest = concat chunks /\ consumed = a ++ raw ++ b /\ ends_with raw CP_EOL /\
    line = cstr raw /\ In line resp /\ sscanf_d line = Some c /\ success_code c.
Proof. exact main_success_sound. Qed.
Print Assumptions C16_success_sound.

Example C16_success_sound_ex : exists resp rest, recv [ex_stream] = Ok (PM_ESUCCESS, resp, rest).
Proof. eexists _, _. vm_compute. reflexivity. Qed.

(* ---------------------------------------------------------------------------------------------------------------
   C16_error_exact.  A conforming reply (3xx lines, then one terminal line) whose terminal code k is one powermand
   can send (server_codes, regenerated from client_proto.h), however segmented: the return code is PM_ESUCCESS for a
   success code and k itself otherwise.  Re-proved against the regenerated table of _server_retcode. *)
Theorem C16_error_exact : forall (r : reply) (chunks : list text),
  conforming r -> In (rl_code (rp_term r)) server_codes ->
  segmentation_of chunks (reply_stream r) -> prompt_only_at_end (reply_stream r) ->
  exists resp, recv chunks = Ok (spec_rc (rl_code (rp_term r)), resp, []).
Proof. exact main_error_exact. Qed.
Print Assumptions C16_error_exact.

(* a terminal code outside the library's table: PM_ESERVERPARSE, never success *)
Theorem C16_error_unknown_code : forall (r : reply) (chunks : list text),
  conforming r -> classify (rl_code (rp_term r)) = None ->
  segmentation_of chunks (reply_stream r) -> prompt_only_at_end (reply_stream r) ->
  recv chunks = Ok (PM_ESERVERPARSE, [], []).
Proof. exact main_error_unknown. Qed.
Print Assumptions C16_error_unknown_code.

Definition ex_reply (k : Z) : reply :=
  {| rp_info := [ {| rl_code := 303; rl_text := bs "t0: on"%string |}; {| rl_code := 303; rl_text := bs "t1: off"%string |};
                  {| rl_code := 307; rl_text := bs "t0"%string |}; {| rl_code := 307; rl_text := bs "t1"%string |} ];
     rp_term := {| rl_code := k; rl_text := bs "text"%string |} |}.

Lemma ex_reply_conforming k : terminal_code k -> 0 <= k <= 999 -> conforming (ex_reply k).
Proof.
  intros T K. unfold conforming, ex_reply. cbn [rp_info rp_term rl_code rl_text]. split; [|split; [|exact T]].
  - repeat constructor; cbn [rl_code rl_text]; try lia; try discriminate.
  - split; [exact K|]. repeat constructor; discriminate.
Qed.

Example C16_error_exact_ex :
  conforming (ex_reply 210) /\ In 210 server_codes /\ prompt_only_at_end (reply_stream (ex_reply 210)) /\
  segmentation_of [firstn 7 (reply_stream (ex_reply 210)); skipn 7 (reply_stream (ex_reply 210))] (reply_stream (ex_reply 210)) /\
  spec_rc 210 = PM_ECOMMAND /\
  conforming (ex_reply 256) /\ classify 256 = None.
Proof.
  split; [apply ex_reply_conforming; [right; cbv; split; discriminate|lia]|].
  split; [cbv; tauto|].
  split; [apply prompt_only_at_end_b_sound; vm_compute; reflexivity|].
  split; [split; [repeat constructor; discriminate|vm_compute; reflexivity]|].
  split; [reflexivity|].
  split; [apply ex_reply_conforming; [right; cbv; split; discriminate|lia]|reflexivity].
Qed.

(* ---------------------------------------------------------------------------------------------------------------
   C16_status.  pm_node_status answers OFF iff the reply has the exact line "303 <node>: off", ON iff it has
   "303 <node>: on" and not the off line, UNKNOWN otherwise -- for any list of received lines, and, through recv, for
   a conforming reply however segmented. *)
Theorem C16_status_lines : forall (node : text) (resp : list text), zlen node + 11 < CP_LINEMAX ->
  let offl := status_line node (bs "off"%string) ++ CP_EOL in
  let onl := status_line node (bs "on"%string) ++ CP_EOL in
  (node_status node resp = PM_OFF <-> In offl resp) /\
  (node_status node resp = PM_ON <-> ~ In offl resp /\ In onl resp) /\
  (node_status node resp = PM_UNKNOWN <-> ~ In offl resp /\ ~ In onl resp).
Proof. exact main_status_general. Qed.
Print Assumptions C16_status_lines.

Theorem C16_status : forall (r : reply) (chunks : list text) (node : text),
  conforming r -> success_code (rl_code (rp_term r)) -> In (rl_code (rp_term r)) server_codes ->
  segmentation_of chunks (reply_stream r) -> prompt_only_at_end (reply_stream r) -> zlen node + 11 < CP_LINEMAX ->
  exists resp, recv chunks = Ok (PM_ESUCCESS, resp, []) /\
    node_status node resp = spec_status PM_OFF PM_ON PM_UNKNOWN node (reply_lines r).
Proof. exact main_status. Qed.
Print Assumptions C16_status.

Example C16_status_ex :
  spec_status PM_OFF PM_ON PM_UNKNOWN (bs "t0"%string) (reply_lines (ex_reply 103)) = PM_ON /\
  spec_status PM_OFF PM_ON PM_UNKNOWN (bs "t1"%string) (reply_lines (ex_reply 103)) = PM_OFF /\
  spec_status PM_OFF PM_ON PM_UNKNOWN (bs "t"%string) (reply_lines (ex_reply 103)) = PM_UNKNOWN /\
  success_code 103 /\ In 103 server_codes.
Proof. vm_compute. intuition discriminate. Qed.

(* ---------------------------------------------------------------------------------------------------------------
   C16_nodes.  The node iterator yields exactly the names of the "307 name" lines, in the order of the reply; node[]
   is never overrun (C16_total_session); for ANY reply every name comes from a line sscanf("307 %s") accepts. *)
Theorem C16_nodes : forall (r : reply) (chunks : list text),
  conforming r -> success_code (rl_code (rp_term r)) -> In (rl_code (rp_term r)) server_codes -> names_ok r ->
  segmentation_of chunks (reply_stream r) -> prompt_only_at_end (reply_stream r) ->
  exists resp, recv chunks = Ok (PM_ESUCCESS, resp, []) /\ node_iter resp = Ok (spec_nodes (rp_info r ++ [rp_term r])).
Proof. exact main_nodes. Qed.
Print Assumptions C16_nodes.

Theorem C16_nodes_sound : forall (resp l : list text), node_iter resp = Ok l ->
  forall n, In n l -> exists line, In line resp /\ sscanf_s CP_INFO_XNODES line = Some n.
Proof. exact main_nodes_sound. Qed.
Print Assumptions C16_nodes_sound.

Example C16_nodes_ex :
  spec_nodes (rp_info (ex_reply 103) ++ [rp_term (ex_reply 103)]) = [bs "t0"%string; bs "t1"%string] /\ names_ok (ex_reply 103).
Proof.
  split; [reflexivity|]. unfold names_ok, ex_reply. cbn [rp_info rp_term app].
  repeat constructor; cbn [rl_code rl_text]; try (vm_compute; reflexivity); try (intros; discriminate); try lia.
Qed.

(* ---------------------------------------------------------------------------------------------------------------
   C16_cli_exit.  For ANY server stream the CLI terminates with an exit status without touching memory outside its
   objects; the status is 0 exactly when no err_exit happened and every terminal code read (one per request) is a
   success code.  On a conforming session it prints exactly the text of every non-suppressed line (309 lines on
   stderr) and exits 0 iff the terminal code of the main request is a success code. *)
Theorem C16_cli_total : forall (npre : nat) (stream : text), exists r, cli npre stream = Ok r.
Proof. exact main_cli_total. Qed.
Print Assumptions C16_cli_total.

Theorem C16_cli_exit_any : forall (npre : nat) (stream : text) (r : cli_result), cli npre stream = Ok r ->
  (c_status r = 0 <-> c_fatal r = None /\ c_terms r <> [] /\ Forall (fun k => cp_success k = true) (c_terms r)).
Proof. exact main_cli_exit. Qed.
Print Assumptions C16_cli_exit_any.

Theorem C16_cli_exit : forall (version : text) (pre : list reply) (main : reply),
  wf_name version -> Forall cmd_reply pre -> Forall (fun r => cp_success (term_code r) = true) pre -> cmd_reply main ->
  exists r, cli (length pre) (session_stream version (pre ++ [main])) = Ok r /\
    c_fatal r = None /\
    c_stdout r = spec_output cli_suppress cli_stderr false (pre ++ [main]) /\
    diag_of (c_stderr r) = spec_output cli_suppress cli_stderr true (pre ++ [main]) /\
    c_terms r = map term_code (pre ++ [main]) /\
    (c_status r = 0 <-> success_code (term_code main)).
Proof. exact main_cli_conforming. Qed.
Print Assumptions C16_cli_exit.

(* the tables of powerman.c the statement is relative to, as regenerated from the source *)
Example C16_cli_tables : cli_suppress = [103; 104; 105] /\ cli_stderr = [309].
Proof. split; reflexivity. Qed.

(* terminal code 256 (F12c's witness): failure class, exit status 1 *)
Example C16_cli_exit_ex :
  let main := {| rp_info := [ {| rl_code := 303; rl_text := bs "t0: on"%string |}; {| rl_code := 309; rl_text := bs "diag"%string |} ];
                 rp_term := {| rl_code := 256; rl_text := bs "failure class"%string |} |} in
  cmd_reply main /\
  exists r, cli 0 (session_stream (bs "v1"%string) [main]) = Ok r /\ c_status r = 1 /\
            c_stdout r = bs "t0: on"%string ++ [LF] ++ bs "failure class"%string ++ [LF].
Proof.
  cbv zeta. split.
  - unfold cmd_reply, line_ok, wf_line, clean, clean_byte. cbn [rp_info rp_term rl_code rl_text].
    repeat (split || constructor); try lia; try discriminate; reflexivity.
  - eexists. vm_compute. auto.
Qed.

(* a truncated session (F12d's witness: the server closes inside the prompt): err_exit, status 1, no hang *)
Example C16_cli_eof_ex :
  exists r, cli 0 (bs "001 v"%string ++ CP_EOL ++ CP_PROMPT ++ bs "102 ok"%string ++ CP_EOL ++ bs "power"%string) = Ok r /\
            c_status r = 1 /\ c_fatal r = Some fatal_eof_expect.
Proof. eexists. vm_compute. auto. Qed.
