(* C16 -- stub while the pipeline is brought up; replaced by the real statements *)
From PM Require Import Base.Bytes Base.Outcome Gen.GenConsts Gen.GenLibPm Model.LibPm.
Example C16_smoke : recv [CP_PROMPT] = Ok (PM_ESERVERPARSE, [], []).
Proof. vm_compute. reflexivity. Qed.
