(* C10 - one conversation at a time per device, and login comes first (device layer).
   Model: Model/Device.v (per-device state machine of device.c: _process_action, _act_completion, _enqueue_actions(login/ping/client),
   _rewind_action, _disconnect, _connect, _reconnect, _time_to_reconnect, _enqueue_ping, _handle_ready_device, dev_post_poll's loop body) and
   Model/DevHarness.v (several devices with stub transports, op lists), tied to the real device.c after EVERY pass by the exact differential
   R-DEV (props/C08.py + props/devlib.py).  glibc regexec and host-range compression are Section variables (any oracle).  Statements only;
   proofs in Proofs/Device*.v.  `valid_op` = client commands are the nine targeted ones, dev_initial_connect happens once (HInit);
   `cfg_ok` = what the parser guarantees (login script exists: F14; blocks non-empty; formats %s/%%-only) + formatted send strings fit 64 KiB. *)
From Coq Require Import List NArith ZArith Bool Lia.
From PM Require Import Base.Bytes Base.Outcome Base.Dec Gen.GenConsts Gen.GenCbuf Model.ScriptAst Model.Enqueue Model.Script Model.Device
  Model.DevHarness Proofs.DeviceProofs Proofs.DeviceStmt Proofs.DeviceStmtG Proofs.DeviceInv Proofs.DeviceInvG Proofs.DeviceRun Proofs.DeviceTimer Proofs.DeviceLocal Proofs.DeviceThms.
Import ListNotations.
Local Open Scope Z_scope.

(* FIFO and conservation, over every history and for every device k: the client ids of the completion callbacks (in order) followed by the
   client ids still queued (in queue order) are exactly the ids queued at the start followed by the ids enqueued by dev_enqueue_actions (in
   request order): completions are reported in request order, every enqueued action is completed at most once, none is lost while queued *)
Theorem C10_fifo : forall (rmatch : text -> text -> option pmatch) (compress : list text -> text) (sc : bool) (h h' : hstate) (ops : list hop) (outs : list hout) k d p,
  HInv compress h -> Forall valid_op ops -> run rmatch compress sc h ops = Ok (h', outs) ->
  nth_error (h_devs h) k = Some (d, p) ->
  exists d' p', nth_error (h_devs h') k = Some (d', p') /\
    comps k outs ++ queued d' = queued d ++ enqs (edev_of d) ops.
Proof.
  exact p_C10_fifo.
Qed.
Print Assumptions C10_fifo.

(* login comes first, in every reachable state of every device: the device is connected but not logged in exactly when a PM_LOG_IN action is
   the head of its queue (so until login completes nothing else can execute: only the head executes, C10_head_only); a login action is never
   anywhere but at the head (never two logins); a device that is not connected has no login queued (no stale login survives a disconnect) *)
Theorem C10_login_first : forall (rmatch : text -> text -> option pmatch) (compress : list text -> text) (sc : bool) (h h' : hstate) (ops : list hop) (outs : list hout) k d p,
  HInv compress h -> Forall valid_op ops -> run rmatch compress sc h ops = Ok (h', outs) ->
  nth_error (h_devs h') k = Some (d, p) ->
  ((exists l r, dv_acts d = l :: r /\ is_login l = true) <-> (dv_cstate d = DEV_CONNECTED /\ dv_logged_in d = false)) /\
  Forall (fun a => is_login a = false) (tl (dv_acts d)) /\
  (dv_cstate d <> DEV_CONNECTED -> Forall (fun a => is_login a = false) (dv_acts d)) /\
  Forall (fun a => a_hascb a = true -> is_login a = false) (dv_acts d).
Proof.
  exact p_C10_login_first.
Qed.
Print Assumptions C10_login_first.

(* only the head action is ever touched by an iteration of _process_action: afterwards the queue is the (updated) head followed by the
   untouched rest, or the untouched rest (head completed), or empty / just the fresh login of a new connection (everything failed) *)
Theorem C10_head_only : forall (rmatch : text -> text -> option pmatch) (compress : list text -> text) (sc : bool) now d store tmo plans act0 rest r,
  pa_step rmatch compress sc now d store tmo plans = Ok r -> dv_acts d = act0 :: rest ->
  let d' := match r with PaDone x _ _ _ _ => x | PaNext x _ _ _ => x end in
  (exists h', dv_acts d' = h' :: rest) \/ dv_acts d' = rest \/ dv_acts d' = [] \/
  (exists s, dv_acts d' = [create_action s PM_LOG_IN None 0 false false false None]).
Proof.
  exact pa_step_rest.
Qed.
Print Assumptions C10_head_only.

(* within one do-while round of the head action, the bytes queued for the device grow (as long as they fit the 64 KiB buffer; beyond that the
   oldest unsent bytes are overwritten, F38) exactly by what its send statements queued
   (EvSent), and a round never emits a completion, a connect or a disconnect *)
Theorem C10_bytes_by_statements_only : forall (rmatch : text -> text -> option pmatch) (compress : list text -> text) (sc : bool) fuel now sd a store fin sd' a' store' evs t,
  wf_action compress (sd_plugs sd) a -> inv_to sd a ->
  do_while rmatch compress sc fuel now sd a store [] None = Ok ((fin, sd', a', store', evs), t) ->
  ((length (sd_to sd ++ sent_bytes evs) <= Z.to_nat MAX_DEV_BUF)%nat -> sd_to sd' = sd_to sd ++ sent_bytes evs) /\ forallb ev_script evs = true /\ same_id a a' .
Proof.
  exact p_C10_bytes_by_statements_only.
Qed.
Print Assumptions C10_bytes_by_statements_only.


(* telemetry and diagnostics arrive while the client is still busy: in the event list of one device's share of dev_post_poll, every
   telemetry (vpf_fun) and diagnostic (dpf_fun) callback goes to a client whose action is completed LATER in the same list or is still
   queued on the device afterwards - never after its completion callback.  Flags = only actions with a completion callback carry the
   other two callbacks (true of every action device.c creates: login / ping carry none; client actions carry all of complete_fun, dpf_fun);
   it is preserved.  For ANY preprocess result (tcp transports included). *)
Theorem C10_callbacks_live : forall (rmatch : text -> text -> option pmatch) (compress : list text -> text) (sc : bool) now d store tmo pin d' store' tmo' evs,
  DInv compress d -> Flags d -> tmo_pos tmo -> 0 <= dv_retry_count d ->
  post_poll_one rmatch compress sc now d store tmo pin = Ok (d', store', tmo', evs) ->
  Flags d' /\
  forall e1 c m e2, (evs = e1 ++ [EvTele c m] ++ e2 \/ evs = e1 ++ [EvDiag c m] ++ e2) -> In c (completions e2 ++ queued d').
Proof.
  exact post_poll_one_callbacks_live.
Qed.
Print Assumptions C10_callbacks_live.

(* non-vacuity: a device with a login and an `on` script, run through a history with a time-out *)
Definition ex_rmatch : text -> text -> option pmatch := fun _ _ => None.
Definition ex_compress : list text -> text := fun l => concat (map (fun t => t ++ [44%N]) l).     (* grows with its input: names joined by commas *)
Definition ex_dev : device :=
  mk_device (bslit "d0") [mkPlug (bslit "p1") (Some (bslit "n1"))]
            [(PM_LOG_IN, [Send (bslit "login\n"); Expect (bslit "ok")]); (PM_POWER_ON, [Send (bslit "on %s\n"); Expect (bslit "done")])] 5000000 0.
Definition ex_h0 : hstate := mkH 0 [(ex_dev, peer0)] [].
Definition ex_ops : list hop :=
  [HNow 1000000; HPlan 0 [ConnNow; ConnNow]; HInit; HPass; HNewArgs [bslit "n1"]; HEnq PM_POWER_ON 7 false 0 [bslit "n1"]; HPass; HFeed 0 (bslit "\000\255junk");
   HPass; HNow 7000000; HPass; HNow 9000000; HPass].

Example C10_fifo_example :
  exists h outs d p, run ex_rmatch ex_compress false ex_h0 ex_ops = Ok (h, outs) /\ nth_error (h_devs h) 0 = Some (d, p) /\
    comps 0 outs = [7] /\ queued d = [] /\ enqs (edev_of ex_dev) ex_ops = [7].
Proof. vm_compute. eexists _, _, _, _. repeat split. Qed.
(* after the first pass the device is connected, not logged in, and the login action is the head *)
Example C10_login_first_example :
  exists h outs d p l r, run ex_rmatch ex_compress false ex_h0 (firstn 4 ex_ops) = Ok (h, outs) /\ nth_error (h_devs h) 0 = Some (d, p) /\
    dv_cstate d = DEV_CONNECTED /\ dv_logged_in d = false /\ dv_acts d = l :: r /\ is_login l = true.
Proof. vm_compute. eexists _, _, _, _, _, _. repeat split. Qed.

(* non-vacuity of C10_callbacks_live: a telemetry-enabled `on` of client 7: the send's telemetry line arrives while 7 is queued; at the
   time-out the telemetry line (what was received) precedes the completion *)
Definition ex_rmatch_ok : text -> text -> option pmatch :=
  fun re s => if text_eqb re (bslit "ok") then (if text_eqb s (bslit "ok") then Some [Some (O, 2%nat)] else None) else None.
Example C10_callbacks_live_example :
  exists h outs, run ex_rmatch_ok ex_compress false ex_h0
      [HNow 1000000; HPlan 0 [ConnNow; ConnNow]; HInit; HPass; HFeed 0 (bslit "ok"); HPass; HNewArgs [bslit "n1"]; HEnq PM_POWER_ON 7 true 0 [bslit "n1"];
       HPass; HPass; HNow 7000000; HPass] = Ok (h, outs) /\
    (exists b m, evs_of 0 (o_evs (nth 8 outs out0)) = [EvSent b; EvTele 7 m]) /\
    exists m1 m2 e2, evs_of 0 (o_evs (last outs out0)) = EvTele 7 m1 :: EvComplete 7 ACT_EEXPFAIL m2 :: e2.
Proof. vm_compute. eexists _, _. split; [reflexivity|]. split; [eexists _, _; reflexivity|eexists _, _, _; reflexivity]. Qed.
