(* C03 -- status queries report exactly what the devices answered, now (client.c _client_query_status_reply,
   _client_query_status_reply_nointerp, arglist.c; the writes come from device.c _process_setplugstate).
   Theorems about PM.Model.Client in the single-client world of PM.Model.CliWorld. *)
From Coq Require Import List NArith ZArith Bool Permutation.
From PM Require Import Base.Bytes Base.Outcome Gen.GenConsts Gen.GenClient Model.ScriptAst Model.Enqueue Model.Script Model.Client Model.CliWorld
                       Proofs.ClientProofs Proofs.ClientStream Proofs.ClientReply Proofs.ClientExamples.
Import ListNotations.
Local Open Scope Z_scope.

(* the text of a status / beacon reply: with -x one 303 line per mention of the target list, otherwise the 302 triple
   of the three lists below; then 211 if `err` else 103 *)
Theorem C03_status_text : forall ranged_sorted c al err,
  reply_status ranged_sorted c al err =
  (if cl_exp c
   then flat_map (fun a => cprintf CP_INFO_XSTATUS [ar_node a; state_word (ar_state a)]) (args_iter al)
   else cprintf CP_INFO_STATUS [ranged_sorted (on_nodes (args_iter al)); ranged_sorted (off_nodes (args_iter al)); ranged_sorted (unknown_nodes (args_iter al))])
  ++ (if err then CP_ERR_QRY_COMPLETE else CP_RSP_QRY_COMPLETE).
Proof. exact reply_status_text. Qed.
Print Assumptions C03_status_text.

(* on / off / unknown partition the target LIST: every mention is in exactly one list (permutation), the lists are
   pairwise disjoint as sets, and membership says what the node's Arg says; the -x listing iterates the same Args
   (args_iter), one line per mention, so both forms denote the same (node, state) relation *)
Theorem C03_partition : forall al n,
  Permutation (map ar_node al) (on_nodes (args_iter al) ++ off_nodes (args_iter al) ++ unknown_nodes (args_iter al))
  /\ map ar_node (args_iter al) = map ar_node al
  /\ (In n (on_nodes (args_iter al)) <-> exists a, arg_find al n = Some a /\ In n (map ar_node al) /\ ar_state a = ST_ON)
  /\ (In n (off_nodes (args_iter al)) <-> exists a, arg_find al n = Some a /\ In n (map ar_node al) /\ ar_state a = ST_OFF)
  /\ (In n (unknown_nodes (args_iter al)) <-> exists a, arg_find al n = Some a /\ In n (map ar_node al) /\ ar_state a <> ST_ON /\ ar_state a <> ST_OFF)
  /\ ~ (In n (on_nodes (args_iter al)) /\ In n (off_nodes (args_iter al)))
  /\ ~ (In n (on_nodes (args_iter al)) /\ In n (unknown_nodes (args_iter al)))
  /\ ~ (In n (off_nodes (args_iter al)) /\ In n (unknown_nodes (args_iter al))).
Proof.
  exact (fun al n => conj (status_lists_perm al) (conj (args_iter_nodes al)
           (conj (proj1 (status_lists_sound al n)) (conj (proj1 (proj2 (status_lists_sound al n))) (conj (proj2 (proj2 (status_lists_sound al n)))
           (status_lists_disjoint al n)))))).
Qed.
Example C03_partition_nonvacuous :
  out_of (run1 toy_expand toy_join toy_join toy_sorted toy_s0 evs_status) = bslit "001 2.4" ++ CP_EOL ++ CP_PROMPT
     ++ bslit "302 on:      n1," ++ CP_EOL ++ bslit "302 off:     " ++ CP_EOL ++ bslit "302 unknown: n2," ++ CP_EOL ++ CP_RSP_QRY_COMPLETE ++ CP_PROMPT.
Proof. exact (proj2 ex_status). Qed.
Print Assumptions C03_partition.

(* temperature (after the repairs of F5 and F19): one 303 line per mention that has a value (the value cut at CR / LF),
   then ONE line listing the mentions without value as unknown; every mention is listed exactly once *)
Theorem C03_temp_once : forall ranged_sorted c al err,
  reply_nointerp ranged_sorted c al err =
    flat_map (fun a => match ar_val a with Some v => cprintf CP_INFO_XSTATUS [ar_node a; cut_eol v] | None => [] end) (args_iter al)
    ++ (match map ar_node (unvalued (args_iter al)) with [] => [] | l => cprintf CP_INFO_XSTATUS [ranged_sorted l; bslit "unknown"] end)
    ++ (if err then CP_ERR_QRY_COMPLETE else CP_RSP_QRY_COMPLETE)
  /\ Permutation (map ar_node al) (map ar_node (valued (args_iter al)) ++ map ar_node (unvalued (args_iter al))).
Proof. exact (fun rs c al err => conj (reply_nointerp_text rs c al err) (temp_lists_perm al)). Qed.
Example C03_temp_nonvacuous :
  out_of (run1 toy_expand toy_join toy_join toy_sorted toy_s0 evs_temp) = bslit "001 2.4" ++ CP_EOL ++ CP_PROMPT ++ bslit "303 n1: 41" ++ CP_EOL ++ CP_RSP_QRY_COMPLETE ++ CP_PROMPT.
Proof. exact (proj1 (proj2 ex_temp)). Qed.
Print Assumptions C03_temp_once.

(* the reply of a query is computed from the arglist of THIS command as it stands at the last completion, and ends
   with 211 exactly when one of its completions carried an error (else 103) *)
Theorem C03_reply : forall expand_str ranged_sorted ranged_plain sorted evs s k s',
  cl_cmd (s_cl s) = Some k -> k_error k = false ->
  no_lines evs -> events_ok expand_str ranged_sorted ranged_plain sorted s evs = true ->
  run1 expand_str ranged_sorted ranged_plain sorted s evs = Ok s' -> cl_cmd (s_cl s') = None ->
  let al := nth (k_args k) (s_store s') [] in
  ((Z.eqb (k_com k) PM_STATUS_PLUGS || Z.eqb (k_com k) PM_STATUS_BEACON)%bool = true ->
     cl_out (s_cl s') = cl_out (s_cl s) ++ flat_map info_text evs ++ reply_status ranged_sorted (s_cl s) al (any_failed evs) ++ CP_PROMPT)
  /\ (k_com k = PM_STATUS_TEMP ->
     cl_out (s_cl s') = cl_out (s_cl s) ++ flat_map info_text evs ++ reply_nointerp ranged_sorted (s_cl s) al (any_failed evs) ++ CP_PROMPT).
Proof. exact query_command_reply. Qed.
Print Assumptions C03_reply.

(* freshness: a new command starts with every Arg UNKNOWN / no value, in a store slot of its own ... *)
Theorem C03_fresh : forall names (store : list arglist),
  Forall (fun a => ar_state a = ST_UNKNOWN /\ ar_result a = RT_NONE /\ ar_val a = None) (new_arglist names)
  /\ map ar_node (new_arglist names) = names
  /\ nth (length store) (store ++ [new_arglist names]) [] = new_arglist names.
Proof. exact (fun names store => conj (new_arglist_fresh names) (conj (new_arglist_nodes names) (fresh_slot store (new_arglist names)))). Qed.
(* ... writes to another slot do not reach it ... *)
Theorem C03_other_slots : forall (store : list arglist) i j n f, i <> j -> nth j (write_slot store i n f) [] = nth j store [].
Proof. exact write_slot_other. Qed.
(* ... and a node's state changes only through a setplugstate for that node executed by an action of this command
   between request and reply (so anything other than `unknown` was reported by the device during this request) *)
Theorem C03_only_reported : forall expand_str ranged_sorted ranged_plain sorted evs s k s' n,
  cl_cmd (s_cl s) = Some k -> (k_args k < length (s_store s))%nat -> no_lines evs ->
  existsb (sets_state_of n) evs = false -> run1 expand_str ranged_sorted ranged_plain sorted s evs = Ok s' ->
  option_map ar_state (arg_find (nth (k_args k) (s_store s') []) n) = option_map ar_state (arg_find (nth (k_args k) (s_store s) []) n).
Proof. exact state_only_if_set. Qed.
Print Assumptions C03_fresh.
Print Assumptions C03_only_reported.

(* ------------------------------------------------------------------------------------------------------------------
   END TO END, over histories (Proofs/DaemonE2E.v; the machinery of C02_end_to_end): in every pass of every run of the
   whole-daemon model from start-up (any rounds: any client input, any number of clients, any transport, any peer behaviour),
   with the external ledger (enq, ok, fail) per client id (drun_led / dstep_led: computed from the enqueue lists _parse_input
   returns and from the EvComplete events of the passes' event lists) and a second external ghost, the WRITE LEDGER of the
   result lists (drun_wr / dstep_wr: W s = the nodes whose Arg in list s - slot s of the store - was changed by the device
   half of some pass; computed only from the store the client half of a pass returns and the store the pass returns):

   (1) the ledger is tied to the state before and after the pass (C02_ledger_tied); a result list in use by a command is
       referred to by THAT client's queued actions only (so, by C11_result_list_writes, the device half changes it only while
       visiting a device whose queue holds an action of this command); a list that does not exist yet has an empty write
       ledger (so W s only holds changes made after the command that owns s was created);
   (2) the callback half of the pass leaves a client without a command exactly as it is; for every client with a QUERY
       command (status / beacon / temperature) in progress when the callback half of the pass
       begins: its output history gains exactly `render new`, any accepted token list of its stream extends by `new`;
       while the command goes on, `new` holds informational lines only; when the stream gains the TERMINAL token in this pass:
         - every action enqueued for the command has produced its completion event (ok + fail = enq > 0), the token is
           103 <-> no completion carried an error (fail = 0, ok = enq),  211 <-> one did;
         - the reply in front of the prompt is reply_status (status, beacon) / reply_nointerp (temperature) of the
           command's OWN result list as it stands at the end of the pass and of the flag (0 < fail): with C03_status_text,
           C03_partition, C03_temp_once this fixes the on / off / unknown lists and the 303 lines;
         - every Arg of that list that is not as arglist_create left it (a state other than unknown: the node is listed on
           or off; a value: the node is listed with a temperature) belongs to a node whose Arg IN THIS LIST was changed by
           the device half of a pass after the command was created and no later than this pass.
   "Changed by the device half of a pass" is sharpened to "written by a setplugstate / setresult statement executed for an
   action of THIS command" by C03_device_writes_are_statements (device layer) and C03_end_to_end_reported (all runs) further
   down; whose expect the written text stems from, and that no other part of a pass ends a query, by C03_reported_by_own_expect and
   C03_terminal_only_from_completions at the end of this file; what is NOT claimed is said there. *)
From PM Require Import Model.Device Model.Daemon Spec.Proto Proofs.DaemonLedger Proofs.DaemonSlots Proofs.DaemonPending Proofs.DaemonE2E.
From PM Require Proofs.DaemonE2EEx Properties.C07.
Theorem C03_end_to_end : forall expand_str ranged_sorted ranged_plain sorted rmatch compress short_circuit st0 now plans rs r,
  boot compress st0 -> Z.of_nat (length rs) < INT_MAX - 1 ->
  exists st1 o1, dinit st0 now plans = Ok (st1, o1) /\
  match drun expand_str ranged_sorted ranged_plain sorted rmatch compress short_circuit st1 rs [] with
  | Ok (st, _) =>
    let L := drun_led expand_str ranged_sorted ranged_plain sorted rmatch compress short_circuit st1 rs lzero in
    let W := drun_wr expand_str ranged_sorted ranged_plain sorted rmatch compress short_circuit st1 rs (winit (dm_store st1)) in
    match cli_post_poll expand_str ranged_sorted ranged_plain sorted st r with
    | Ok (sta, e1) =>
      match dev_loop ranged_sorted rmatch compress short_circuit (length (dm_devs sta)) (r_now r) sta O (r_dev r) None [] with
      | Ok (stb, tmo, e2) =>
        dstep expand_str ranged_sorted ranged_plain sorted rmatch compress short_circuit st r = Ok (stb, mkDout (e1 ++ e2) tmo) /\
        let Lb := dstep_led expand_str ranged_sorted ranged_plain sorted rmatch compress short_circuit st r L in
        let Wb := dstep_wr expand_str ranged_sorted ranged_plain sorted rmatch compress short_circuit st r W in
        (* (1) *)
        ledger_tied L st /\ ledger_tied Lb stb /\
        (forall c s x, In (c, s) (aslots (dm_devs st)) -> In x (dm_clients st) -> cmd_slot x = Some s -> cid x = c) /\
        (forall s, (length (dm_store st) <= s)%nat -> W s = []) /\
        (* (2) *)
        (forall p x0, nth_error (dm_clients sta) p = Some x0 -> cl_cmd (dc x0) = None -> nth_error (dm_clients stb) p = Some x0) /\
        forall p x0 k0, nth_error (dm_clients sta) p = Some x0 -> cl_cmd (dc x0) = Some k0 -> is_query (k_com k0) = true ->
          exists x new, nth_error (dm_clients stb) p = Some x /\ cid x = cid x0 /\
            cl_out (dc x) = cl_out (dc x0) ++ render new /\
            (forall toks0, cli_okT x0 toks0 -> cli_okT x (toks0 ++ new)) /\
            match cl_cmd (dc x) with
            | Some k => Forall info_tok new /\ k_com k = k_com k0 /\ k_args k = k_args k0
            | None =>
                let r := Lb (cid x0) in let al := nth (k_args k0) (dm_store stb) [] in
                exists infos infos_r c p, new = infos ++ (infos_r ++ [TLine c p]) ++ [TPrompt] /\ Forall info_tok infos /\ Forall info_tok infos_r /\
                  (c = 103%N \/ c = 211%N) /\
                  l_ok r + l_fail r = l_enq r /\ 0 < l_enq r /\ 0 <= l_ok r /\ 0 <= l_fail r /\
                  (c = 103%N <-> l_fail r = 0 /\ l_ok r = l_enq r) /\ (c = 211%N <-> 0 < l_fail r) /\
                  ((Z.eqb (k_com k0) PM_STATUS_PLUGS || Z.eqb (k_com k0) PM_STATUS_BEACON)%bool = true ->
                     render (infos_r ++ [TLine c p]) = reply_status ranged_sorted (dc x0) al (0 <? l_fail r)) /\
                  (k_com k0 = PM_STATUS_TEMP -> render (infos_r ++ [TLine c p]) = reply_nointerp ranged_sorted (dc x0) al (0 <? l_fail r)) /\
                  (forall n a, arg_find al n = Some a ->
                     (ar_state a = ST_UNKNOWN /\ ar_result a = RT_NONE /\ ar_val a = None) \/ In n (Wb (k_args k0)))
            end
      | _ => False
      end
    | _ => False
    end
  | _ => False
  end.
Proof. exact c03_end_to_end. Qed.
(* is_query, the write ledger and its step, spelled out *)
Theorem C03_ledgers_spelled_out :
  (forall com, is_query com = (Z.eqb com PM_STATUS_PLUGS || Z.eqb com PM_STATUS_BEACON || Z.eqb com PM_STATUS_TEMP)%bool) /\
  (forall store s, winit store s = map ar_node (nth s store [])) /\
  (forall W store store' s, wr_step W store store' s =
     W s ++ filter (fun n => negb (oarg_eqb (arg_find (nth s store []) n) (arg_find (nth s store' []) n))) (map ar_node (nth s store' []))) /\
  (forall expand_str ranged_sorted ranged_plain sorted rmatch compress short_circuit st r W,
     dstep_wr expand_str ranged_sorted ranged_plain sorted rmatch compress short_circuit st r W =
     match cli_post_poll expand_str ranged_sorted ranged_plain sorted st r with
     | Ok (sta, _) => match dstep expand_str ranged_sorted ranged_plain sorted rmatch compress short_circuit st r with
                      | Ok (stb, _) => wr_step W (dm_store sta) (dm_store stb) | _ => W end
     | _ => W
     end).
Proof. exact (conj (fun _ => eq_refl) (conj (fun _ _ => eq_refl) (conj (fun _ _ _ _ => eq_refl) (fun _ _ _ _ _ _ _ _ _ _ => eq_refl)))). Qed.
(* the on / off lists of the reply (C03_partition) read through (2): a node listed on or off has an entry in the write ledger *)
Theorem C03_listed_was_written : forall (al : arglist) (wr : list text) n,
  (forall m a, arg_find al m = Some a -> (ar_state a = ST_UNKNOWN /\ ar_result a = RT_NONE /\ ar_val a = None) \/ In m wr) ->
  In n (on_nodes (args_iter al)) \/ In n (off_nodes (args_iter al)) -> In n wr.
Proof. exact listed_was_written. Qed.
(* non-vacuity (Proofs/DaemonE2EEx.v; evaluated): the daemon of C02_end_to_end_nonvacuous; client 1 sends `status n1`, the device
   answers `on`: in the fifth pass EvComplete 1 ACT_ESUCCESS is delivered, the ledger entry of id 1 goes from (1,0,0) to (1,1,0),
   the stream gains `302 on: n1`, `302 off:`, `302 unknown:`, `103 Query complete` and the prompt, result list 0 holds n1 = ON
   and the write ledger of list 0 holds n1 *)
Example C03_end_to_end_nonvacuous :
  boot C07.ex_compress DaemonE2EEx.e2e_st /\
  DaemonE2EEx.last_pass DaemonE2EEx.query_rounds =
    Some ([(1, Some PM_STATUS_PLUGS, DaemonE2EEx.banner)],
          [(1, None, DaemonE2EEx.banner ++ render [TLine 302 (bslit "on:      n1"); TLine 302 (bslit "off:     "); TLine 302 (bslit "unknown: ");
                                                   TLine 103 (bslit "Query complete"); TPrompt])],
          [SysDev 0 (EvWrote (bslit "st p1\n")); SysDev 0 (EvMatched 2); SysDev 0 (EvComplete 1 ACT_ESUCCESS [])],
          mkL 1 0 0, mkL 1 1 0, [[mkArg (bslit "n1") ST_ON RT_NONE (Some (bslit "on"))]], [bslit "n1"]).
Proof. exact (conj DaemonE2EEx.e2e_boot DaemonE2EEx.query_example). Qed.
Print Assumptions C03_end_to_end.
Print Assumptions C03_listed_was_written.

(* ------------------------------------------------------------------------------------------------------------------
   WHO WRITES A RESULT LIST (Proofs/DeviceWrites.v, Proofs/DaemonE2EWrites.v): "a node is shown on, off or with a value
   only if during this very query its device reported that for its plug".

   A WRITE EVENT (report) = (result list, client id of the action, device name, setplugstate | setresult, node, interpreted
   code, text).  The events of a call of Device.post_poll_one (one device's share of dev_post_poll) are computed alongside
   by pp_reports, a function that only CALLS the model (process_stmt / do_while / pa_step / process_action, one step at a
   time) and that computes node, code and text of an event with the effect functions of the SPECIFICATION Spec/ScriptSem.v
   (state_effect / result_effect: capture = sub-match of the device's last expect, node_of = the device's plug table,
   interp = first matching pattern of the statement). *)
From PM Require Import Proofs.DeviceInv Proofs.DeviceInvG Proofs.DeviceSlots Proofs.DeviceWrites Proofs.DaemonE2EWrites.
From PM Require Proofs.DaemonE2EWritesEx Spec.ScriptSem Proofs.ScriptRefine.

(* DEVICE LAYER, any transport behaviour, any pass input: (a) the store after the call is the store before it with the events
   replayed in order - nothing else changes an Arg; (b) so an Arg that differs was hit by an event for its list and node;
   (c) every event was produced by an iteration of _process_action's loop of THIS call (dev_reports, spelled out below): the
   device - same name, plug table and scripts as d - was connected, the HEAD action of its queue carried the event's list
   (a_args = Some rp_slot) and client id, and the statement on top of that action's context stack was a setplugstate /
   setresult whose specified effect is (rp_node, rp_code, rp_text); (client id, list) is one of the pairs d's queue refers to *)
Theorem C03_device_writes_are_statements : forall rmatch compress sc now d store tmo pin d' store' tmo' evs,
  DInvG compress d -> ArgsCb d -> tmo_pos tmo -> 0 <= dv_retry_count d ->
  post_poll_one rmatch compress sc now d store tmo pin = Ok (d', store', tmo', evs) ->
  let ws := pp_reports rmatch compress sc now d store tmo pin in
  (length store' = length store /\ forall s n, arg_find (nth s store' []) n = replay s n ws (arg_find (nth s store []) n)) /\
  (forall s n, arg_find (nth s store' []) n <> arg_find (nth s store []) n -> exists w, In w ws /\ rp_slot w = s /\ rp_node w = n) /\
  (forall w, In w ws -> dev_reports rmatch d w /\ In (rp_client w, rp_slot w) (dslots d) /\ rp_dev w = sd_name (dv d)).
Proof. exact post_poll_one_writes_are_statements. Qed.
(* replaying an event, and what "produced by a statement" means, spelled out *)
Theorem C03_write_events_spelled_out :
  (forall w a, wr_arg w a = if rp_result w then mkArg (ar_node a) (ar_state a) (rp_code w) (Some (rp_text w))
                            else mkArg (ar_node a) (rp_code w) (ar_result a) (Some (rp_text w))) /\
  (forall s n ws oa, replay s n ws oa =
     fold_left (fun oa w => if (Nat.eqb (rp_slot w) s && text_eqb (rp_node w) n)%bool then option_map (wr_arg w) oa else oa) ws oa) /\
  (* some iteration of the loop, the device being in state dk *)
  (forall rmatch d w, dev_reports rmatch d w <->
     exists dk, same_cfg d dk /\ incl (dslots dk) (dslots d) /\
       exists act0 rest, dv_acts dk = act0 :: rest /\ connected dk = true /\
         a_args act0 = Some (rp_slot w) /\ a_client act0 = rp_client w /\ rp_dev w = sd_name (dv dk) /\
         exists sdk ak storek, sd_plugs sdk = sd_plugs (dv dk) /\ stmt_reports rmatch sdk ak storek w) /\
  (* the statement on top of the context stack of action a, the device being sd and the lists store *)
  (forall rmatch sd a store w, stmt_reports rmatch sd a store w <->
     exists e rest al old,
       a_exec a = e :: rest /\ a_args a = Some (rp_slot w) /\ a_client a = rp_client w /\ rp_dev w = sd_name sd /\
       nth_error store (rp_slot w) = Some al /\ arg_find al (rp_node w) = Some old /\
       ((exists lit pmp smp ints, cur e = Some (SetPlugState lit pmp smp ints) /\ rp_result w = false /\
           ScriptSem.state_effect rmatch (sd_plugs sd) (c_plugs e) lit pmp smp ints (ScriptSem.mkSst (Some al) (ScriptRefine.model_xm sd))
             = Some (rp_node w, rp_code w, rp_text w))
        \/ (exists pmp smp ints, cur e = Some (SetResult pmp smp ints) /\ rp_result w = true /\
           ScriptSem.result_effect rmatch (sd_plugs sd) pmp smp ints (ScriptSem.mkSst (Some al) (ScriptRefine.model_xm sd))
             = Some (rp_node w, rp_code w, rp_text w)))) /\
  (* the sub-matches a script sees: those of the device's last expect *)
  (forall sd, ScriptRefine.model_xm sd = if sd_xm_used sd then sd_xm sd else None) /\
  (* setplugstate: the plug is named by the literal of the statement, else by sub-match $plug of the last expect, else it is the
     first plug of the block; it is a plug of THIS device wired to the node; the text is sub-match $stat; the state is the code
     of the first pattern of the statement that matches the text, unknown if none does *)
  (forall rmatch devplugs ps lit pmp smp ints s node code str,
     ScriptSem.state_effect rmatch devplugs ps lit pmp smp ints s = Some (node, code, str) ->
     exists pn p,
       (lit = Some pn \/ (lit = None /\ ScriptSem.capture (ScriptSem.ss_xm s) pmp = Some pn)
        \/ (lit = None /\ ScriptSem.capture (ScriptSem.ss_xm s) pmp = None /\ ScriptSem.first_name ps = Some pn)) /\
       In p devplugs /\ pl_name p = pn /\ pl_node p = Some node /\
       ScriptSem.capture (ScriptSem.ss_xm s) smp = Some str /\ code = ScriptSem.interp rmatch ints str ST_UNKNOWN) /\
  (* setresult: the plug is named by sub-match $plug only *)
  (forall rmatch devplugs pmp smp ints s node code str,
     ScriptSem.result_effect rmatch devplugs pmp smp ints s = Some (node, code, str) ->
     exists pn p, ScriptSem.capture (ScriptSem.ss_xm s) pmp = Some pn /\ In p devplugs /\ pl_name p = pn /\ pl_node p = Some node /\
                  ScriptSem.capture (ScriptSem.ss_xm s) smp = Some str /\ code = ScriptSem.interp rmatch ints str RT_UNKNOWN).
Proof.
  exact (conj (fun _ _ => eq_refl) (conj (fun _ _ _ _ => eq_refl) (conj (fun _ _ _ => iff_refl _) (conj (fun _ _ _ _ _ => iff_refl _)
        (conj (fun _ => eq_refl) (conj state_effect_spelled result_effect_spelled)))))).
Qed.
(* non-vacuity (Proofs/DaemonE2EWritesEx.v; evaluated): the daemon of C03_end_to_end_nonvacuous, `status n1`, the device answers
   `on`: in the fifth pass device 0's share of dev_post_poll reports ONE event - list 0, client 1, device d0, a setplugstate,
   node n1, ST_ON, text "on" - and the list then holds n1 = ON / "on"; the report ledger was empty before that pass *)
Example C03_device_writes_nonvacuous :
  DaemonE2EWritesEx.last_pass_reports DaemonE2EEx.query_rounds =
    Some ([], [mkReport 0 1 (bslit "d0") false (bslit "n1") ST_ON (bslit "on")], [mkReport 0 1 (bslit "d0") false (bslit "n1") ST_ON (bslit "on")],
          [[mkArg (bslit "n1") ST_ON RT_NONE (Some (bslit "on"))]]).
Proof. exact DaemonE2EWritesEx.query_reports_example. Qed.
Print Assumptions C03_device_writes_are_statements.
Print Assumptions C03_write_events_spelled_out.

(* ALL RUNS of the whole-daemon model from start-up, with a third external ghost next to the ledgers of C03_end_to_end: the
   REPORT LEDGER R (drun_rep / dstep_rep: the events of the passes' device halves, oldest first; computed by calling the model:
   spelled out in C03_report_ledger_spelled_out).  In the pass in which a QUERY gets its terminal reply (same run, same pass,
   same client, same result list `al` as in C03_end_to_end, whose claim about the reply is repeated as query_done):
     (3) every Arg of the reply's list: a state other than unknown (the node is listed on / off: C03_listed_was_reported) is the
         state of a SETPLUGSTATE event of THIS list, made for an action of THIS client, for THAT node; a value (printed by a
         temperature query) is the text of an event of this list, this client, that node; a result other than none is the
         result of a setresult event of this list, this client, that node;
     (1) every event of the ledger was produced in one of the passes of the history up to this one: by the device at some index
         j of the daemon as the client half of that pass left it (dev_reports: C03_write_events_spelled_out), the list existing
         at that moment, (client id, list) being one of the pairs the device queues refer to, and every client whose command
         owned the list at that moment being that client;
     (2) no event is about a list that did not exist before the pass (lists are handed out once, in order: an event of list s
         was made after the command that owns s was created).
   Contrapositive: a node whose device could not be reached, timed out, or sent nothing the script's setplugstate accepts has no
   setplugstate event with state on / off, hence is listed unknown.
   The two points that earlier versions of this file left to reading are theorems now, at the end of the file:
     - WHOSE expect the sub-matches of a setplugstate / setresult come from (model_xm: those of the device's LAST expect; every expect
       first resets them: Script.process_expect): C03_reported_by_own_expect - for every specification that passes the static check
       own_ok (every shipped one; every one that passes C17's checker) they were captured by an expect executed earlier BY THE
       SAME ACTION in the same run of its script.  A script that reads $N without an expect of its own does read what an EARLIER
       action left on the device: C03_own_expect_needed.  That an expect consumes bytes read from the device's descriptor is C08 (OExpect);
     - that the CLIENT half of a pass never emits a query's terminal line nor drops / replaces the query:
       C03_terminal_only_from_completions (C02_client_half_keeps_commands for any command). *)
Theorem C03_end_to_end_reported : forall expand_str ranged_sorted ranged_plain sorted rmatch compress short_circuit st0 now plans rs r,
  boot compress st0 -> Z.of_nat (length rs) < INT_MAX - 1 ->
  exists st1 o1, dinit st0 now plans = Ok (st1, o1) /\
  match drun expand_str ranged_sorted ranged_plain sorted rmatch compress short_circuit st1 rs [] with
  | Ok (st, _) =>
    let L := drun_led expand_str ranged_sorted ranged_plain sorted rmatch compress short_circuit st1 rs lzero in
    let W := drun_wr expand_str ranged_sorted ranged_plain sorted rmatch compress short_circuit st1 rs (winit (dm_store st1)) in
    let R := drun_rep expand_str ranged_sorted ranged_plain sorted rmatch compress short_circuit st1 rs [] in
    match cli_post_poll expand_str ranged_sorted ranged_plain sorted st r with
    | Ok (sta, e1) =>
      match dev_loop ranged_sorted rmatch compress short_circuit (length (dm_devs sta)) (r_now r) sta O (r_dev r) None [] with
      | Ok (stb, tmo, e2) =>
        dstep expand_str ranged_sorted ranged_plain sorted rmatch compress short_circuit st r = Ok (stb, mkDout (e1 ++ e2) tmo) /\
        let Lb := dstep_led expand_str ranged_sorted ranged_plain sorted rmatch compress short_circuit st r L in
        let Wb := dstep_wr expand_str ranged_sorted ranged_plain sorted rmatch compress short_circuit st r W in
        let Rb := dstep_rep expand_str ranged_sorted ranged_plain sorted rmatch compress short_circuit st r R in
        (* (1) *)
        (forall w, In w Rb -> pass_of expand_str ranged_sorted ranged_plain sorted rmatch compress short_circuit st1 (rs ++ [r]) w) /\
        (* (2) *)
        (forall w, In w R -> (rp_slot w < length (dm_store st))%nat) /\
        (* (3) *)
        (forall p x0, nth_error (dm_clients sta) p = Some x0 -> cl_cmd (dc x0) = None -> nth_error (dm_clients stb) p = Some x0) /\
        forall p x0 k0, nth_error (dm_clients sta) p = Some x0 -> cl_cmd (dc x0) = Some k0 -> is_query (k_com k0) = true ->
          exists x new, nth_error (dm_clients stb) p = Some x /\ cid x = cid x0 /\
            cl_out (dc x) = cl_out (dc x0) ++ render new /\
            (forall toks0, cli_okT x0 toks0 -> cli_okT x (toks0 ++ new)) /\
            match cl_cmd (dc x) with
            | Some k => Forall info_tok new /\ k_com k = k_com k0 /\ k_args k = k_args k0
            | None =>
                let al := nth (k_args k0) (dm_store stb) [] in
                query_done ranged_sorted (Lb (cid x0)) (Wb (k_args k0)) (dc x0) (k_com k0) al new /\
                forall n a, arg_find al n = Some a ->
                  (ar_state a <> ST_UNKNOWN ->
                     exists w, In w Rb /\ rp_slot w = k_args k0 /\ rp_client w = cid x0 /\ rp_node w = n /\ rp_result w = false /\ rp_code w = ar_state a) /\
                  (forall v, ar_val a = Some v ->
                     exists w, In w Rb /\ rp_slot w = k_args k0 /\ rp_client w = cid x0 /\ rp_node w = n /\ rp_text w = v) /\
                  (ar_result a <> RT_NONE ->
                     exists w, In w Rb /\ rp_slot w = k_args k0 /\ rp_client w = cid x0 /\ rp_node w = n /\ rp_result w = true /\ rp_code w = ar_result a)
            end
      | _ => False
      end
    | _ => False
    end
  | _ => False
  end.
Proof. exact c03_end_to_end_reported. Qed.
(* the report ledger and "produced in a pass of the history", spelled out *)
Theorem C03_report_ledger_spelled_out :
  forall expand_str ranged_sorted ranged_plain sorted rmatch compress short_circuit,
  (* a pass appends the events of its device half: those of dev_post_poll on the state the client half returns *)
  (forall st r R, dstep_rep expand_str ranged_sorted ranged_plain sorted rmatch compress short_circuit st r R =
     R ++ match cli_post_poll expand_str ranged_sorted ranged_plain sorted st r with
          | Ok (sta, _) => dl_reports ranged_sorted rmatch compress short_circuit (length (dm_devs sta)) (r_now r) sta O (r_dev r) None
          | _ => []
          end) /\
  (* dev_post_poll from device i on: the events of Device.post_poll_one on device i (pp_reports; same device, store, time-out and
     transport answer as the model's dev_loop hands it), then those of the devices behind it in the state the model's dev_loop
     returns after device i's step *)
  (forall n now st i pins tmo, dl_reports ranged_sorted rmatch compress short_circuit (S n) now st i pins tmo =
     match nth_error (dm_devs st) i with
     | None => []
     | Some d =>
         pp_reports rmatch compress short_circuit now d (dm_store st) tmo
                    (fst (with_pre (nth i (dm_pipe st) true) (nth i (dm_tel st) Telnet.telnet_init) (hd passin0 pins)))
         ++ match dev_loop ranged_sorted rmatch compress short_circuit 1 now st i pins tmo [] with
            | Ok (st2, tmo', _) => dl_reports ranged_sorted rmatch compress short_circuit n now st2 (S i) (tl pins) tmo'
            | _ => []
            end
     end) /\
  (forall st rs r R, drun_rep expand_str ranged_sorted ranged_plain sorted rmatch compress short_circuit st (r :: rs) R =
     match dstep expand_str ranged_sorted ranged_plain sorted rmatch compress short_circuit st r with
     | Ok (st1, _) => drun_rep expand_str ranged_sorted ranged_plain sorted rmatch compress short_circuit st1 rs
                               (dstep_rep expand_str ranged_sorted ranged_plain sorted rmatch compress short_circuit st r R)
     | _ => R
     end) /\
  (* w was produced in pass r1 of the history rs that starts in st1: after the passes rs1 before it and the client half of r1 the
     list exists, (client id, list) is one of the pairs the device queues refer to, every client whose command owns the list is
     that client, and the device at some index j produced w in its share of this dev_post_poll *)
  (forall st1 rs w, pass_of expand_str ranged_sorted ranged_plain sorted rmatch compress short_circuit st1 rs w <->
     exists rs1 r1 rs2, rs = rs1 ++ r1 :: rs2 /\
       match drun expand_str ranged_sorted ranged_plain sorted rmatch compress short_circuit st1 rs1 [] with
       | Ok (stk, _) =>
         match cli_post_poll expand_str ranged_sorted ranged_plain sorted stk r1 with
         | Ok (stak, _) =>
             (rp_slot w < length (dm_store stak))%nat /\
             In (rp_client w, rp_slot w) (aslots (dm_devs stak)) /\
             (forall x, In x (dm_clients stak) -> cmd_slot x = Some (rp_slot w) -> cid x = rp_client w) /\
             exists j d, nth_error (dm_devs stak) j = Some d /\ dev_reports rmatch d w
         | _ => False
         end
       | _ => False
       end).
Proof.
  exact (fun _ _ _ _ _ _ _ => conj (fun _ _ _ => eq_refl) (conj (fun _ _ _ _ _ _ => eq_refl) (conj (fun _ _ _ _ => eq_refl) (fun _ _ _ => iff_refl _)))).
Qed.
(* the on / off lists and the printed values of the reply (C03_partition, C03_temp_once) read through (3) *)
Theorem C03_listed_was_reported : forall s c (al : arglist) (R : list report) n,
  (forall m a, arg_find al m = Some a ->
     (ar_state a <> ST_UNKNOWN -> exists w, In w R /\ rp_slot w = s /\ rp_client w = c /\ rp_node w = m /\ rp_result w = false /\ rp_code w = ar_state a) /\
     (forall v, ar_val a = Some v -> exists w, In w R /\ rp_slot w = s /\ rp_client w = c /\ rp_node w = m /\ rp_text w = v) /\
     (ar_result a <> RT_NONE -> exists w, In w R /\ rp_slot w = s /\ rp_client w = c /\ rp_node w = m /\ rp_result w = true /\ rp_code w = ar_result a)) ->
  (In n (on_nodes (args_iter al)) ->
     exists w, In w R /\ rp_slot w = s /\ rp_client w = c /\ rp_node w = n /\ rp_result w = false /\ rp_code w = ST_ON) /\
  (In n (off_nodes (args_iter al)) ->
     exists w, In w R /\ rp_slot w = s /\ rp_client w = c /\ rp_node w = n /\ rp_result w = false /\ rp_code w = ST_OFF) /\
  (forall a v, In a (args_iter al) -> ar_node a = n -> ar_val a = Some v ->
     exists w, In w R /\ rp_slot w = s /\ rp_client w = c /\ rp_node w = n /\ rp_text w = v).
Proof. exact listed_was_reported. Qed.
(* non-vacuity (Proofs/DaemonE2EWritesEx.v; evaluated): `status n1` answered `on` - the ledger goes from [] to the one setplugstate
   event (list 0, client 1, d0, n1, ST_ON, "on") in the pass that delivers `302 on: n1 ... 103 Query complete`
   (C03_end_to_end_nonvacuous); `on n1` - a power command: no event at all, the list stays as arglist_create left it *)
Example C03_end_to_end_reported_nonvacuous :
  boot C07.ex_compress DaemonE2EEx.e2e_st /\
  DaemonE2EWritesEx.last_pass_reports DaemonE2EEx.query_rounds =
    Some ([], [mkReport 0 1 (bslit "d0") false (bslit "n1") ST_ON (bslit "on")], [mkReport 0 1 (bslit "d0") false (bslit "n1") ST_ON (bslit "on")],
          [[mkArg (bslit "n1") ST_ON RT_NONE (Some (bslit "on"))]]) /\
  DaemonE2EWritesEx.last_pass_reports DaemonE2EEx.power_rounds = Some ([], [], [], [[mkArg (bslit "n1") ST_UNKNOWN RT_NONE None]]).
Proof. exact (conj DaemonE2EEx.e2e_boot (conj DaemonE2EWritesEx.query_reports_example DaemonE2EWritesEx.power_reports_example)). Qed.
Print Assumptions C03_end_to_end_reported.
Print Assumptions C03_report_ledger_spelled_out.
Print Assumptions C03_listed_was_reported.

(* ------------------------------------------------------------------------------------------------------------------
   THE TERMINAL LINE OF A QUERY COMES FROM ITS LAST COMPLETION ONLY (Proofs/DaemonE2ETerminal.v; the twin of
   C02_terminal_only_from_completions, where the statement is explained).  Every pass of every run from start-up, for every client
   that has a QUERY in progress when the pass BEGINS: either the client half destroys the record because poll reported POLLERR /
   POLLNVAL for its descriptor (nothing is written; the id is gone), or after the client half the SAME command record is in progress
   and the output gained refusals (208 / 203) only (BRel, refusals: C02_refusals_spelled_out), and after the callback half: the
   query goes on and the pass wrote informational lines only, or it ended - only then is cl_cmd None - with the reply of
   C03_end_to_end (query_done: 302 / 303 lines, 103 / 211, prompt), the callback half having delivered its last completion: before
   it ok + fail < enq, after it ok + fail = enq, and the pass's event list holds an EvComplete for this id. *)
From PM Require Import Proofs.DaemonFrame Proofs.DaemonE2ETerminal.
Theorem C03_terminal_only_from_completions : forall expand_str ranged_sorted ranged_plain sorted rmatch compress short_circuit st0 now plans rs r,
  boot compress st0 -> Z.of_nat (length rs) < INT_MAX - 1 ->
  exists st1 o1, dinit st0 now plans = Ok (st1, o1) /\
  match drun expand_str ranged_sorted ranged_plain sorted rmatch compress short_circuit st1 rs [] with
  | Ok (st, _) =>
    let L := drun_led expand_str ranged_sorted ranged_plain sorted rmatch compress short_circuit st1 rs lzero in
    let W := drun_wr expand_str ranged_sorted ranged_plain sorted rmatch compress short_circuit st1 rs (winit (dm_store st1)) in
    match cli_post_poll expand_str ranged_sorted ranged_plain sorted st r with
    | Ok (sta, e1) =>
      match dev_loop ranged_sorted rmatch compress short_circuit (length (dm_devs sta)) (r_now r) sta O (r_dev r) None [] with
      | Ok (stb, tmo, e2) =>
        dstep expand_str ranged_sorted ranged_plain sorted rmatch compress short_circuit st r = Ok (stb, mkDout (e1 ++ e2) tmo) /\
        let La := cpp_led expand_str ranged_sorted ranged_plain sorted st r L in
        let Lb := dstep_led expand_str ranged_sorted ranged_plain sorted rmatch compress short_circuit st r L in
        let Wb := dstep_wr expand_str ranged_sorted ranged_plain sorted rmatch compress short_circuit st r W in
        forall p x0 k0, nth_error (dm_clients st) p = Some x0 -> cl_cmd (dc x0) = Some k0 -> is_query (k_com k0) = true ->
          (ci_bad (nth p (r_cli r) cin0) = true /\ ~ In (cid x0) (ids sta) /\ ~ In (cid x0) (ids stb)) \/
          exists pa xa rf, nth_error (dm_clients sta) pa = Some xa /\ BRel x0 k0 xa rf /\
            exists xb new, nth_error (dm_clients stb) pa = Some xb /\ cid xb = cid x0 /\
              cl_out (dc xb) = cl_out (dc x0) ++ render (rf ++ new) /\
              (forall toks0, cli_okT x0 toks0 -> cli_okT xb (toks0 ++ rf ++ new)) /\
              match cl_cmd (dc xb) with
              | Some k => Forall info_tok new /\ k_com k = k_com k0 /\ k_args k = k_args k0
              | None =>
                  query_done ranged_sorted (Lb (cid xa)) (Wb (k_args k0)) (dc xa) (k_com k0) (nth (k_args k0) (dm_store stb) []) new /\
                  l_ok (La (cid x0)) + l_fail (La (cid x0)) < l_enq (La (cid x0)) /\
                  exists j err msg, In (SysDev j (EvComplete (cid x0) err msg)) e2
              end
      | _ => False
      end
    | _ => False
    end
  | _ => False
  end.
Proof. exact c03_terminal_only_from_completions. Qed.
(* non-vacuity: C03_end_to_end_nonvacuous is a pass of this kind (client 1 has `status n1` in progress when the fifth pass begins; the
   callback half delivers EvComplete 1 ACT_ESUCCESS; the ledger goes from (1,0,0) to (1,1,0); the stream gains 302 ... 103 and the prompt);
   a refusal in the client half and a destroyed client: C02_terminal_only_from_completions_nonvacuous *)
Example C03_terminal_only_from_completions_nonvacuous :
  DaemonE2EEx.last_pass DaemonE2EEx.query_rounds =
    Some ([(1, Some PM_STATUS_PLUGS, DaemonE2EEx.banner)],
          [(1, None, DaemonE2EEx.banner ++ render [TLine 302 (bslit "on:      n1"); TLine 302 (bslit "off:     "); TLine 302 (bslit "unknown: ");
                                                   TLine 103 (bslit "Query complete"); TPrompt])],
          [SysDev 0 (EvWrote (bslit "st p1\n")); SysDev 0 (EvMatched 2); SysDev 0 (EvComplete 1 ACT_ESUCCESS [])],
          mkL 1 0 0, mkL 1 1 0, [[mkArg (bslit "n1") ST_ON RT_NONE (Some (bslit "on"))]], [bslit "n1"]).
Proof. exact DaemonE2EEx.query_example. Qed.
Print Assumptions C03_terminal_only_from_completions.

(* ------------------------------------------------------------------------------------------------------------------
   WHOSE EXPECT A REPORTED STATE STEMS FROM (Proofs/DeviceWritesExpect.v, Proofs/DaemonE2EExpect.v, Proofs/SpecOwnExpect.v).

   The static check own_ok (spelled out below): through every script a bit "an expect of THIS script has been passed on every path
   to this point" is threaded - set by `expect`, unchanged by every other statement; a foreach / ifon / ifoff block is entered with
   the bit of the point in front of it and, since the block may be skipped, left with that same bit - and every setplugstate /
   setresult must stand at a point where the bit is set.  (Spec/SpecCheckSpec.sub_safe says the same of the traces of its run
   semantics; C17's checker - rule R_NOEXPECT - threads the same bit: C03_spec_ok_own_ok.)

   A fourth external ghost per device, next to the ledgers of C03_end_to_end_reported: `option xprov` = "the sub-matches the device
   holds were set by THIS successful expect of the action now at the head of its queue, in the current run of its script" (client
   id, result list and command of that action; the pattern; the unread device bytes it was matched on; the match array).  It is
   computed by functions that only CALL the model (spelled out below): SET only by an `expect` statement of the head action that
   matched; CLEARED by an expect that does not match (the model clears the sub-matches too), when the head action times out, fails or
   ends (the next action starts with no ghost), and whenever the device is not connected or its descriptor fails (the connection is
   re-made and the head action is rewound behind a fresh login: _rewind_action); left alone by everything else, in particular by the
   client half of a pass, which only appends actions behind the queues.  The write events of C03_end_to_end_reported are computed
   once more, each PAIRED with the ghost of its device at the moment its statement ran (the extended ledger drun_x / dstep_x).

   C03_reported_by_own_expect: in every pass of every run from start-up of a daemon all of whose devices' scripts pass own_ok,
     (1) the extended ledger holds the SAME write events, in the same order, as the report ledger Rb of C03_end_to_end_reported - so
         every on / off / value of every query reply is justified by an event of it (C03_end_to_end_reported (3));
     (2) every event w is paired with Some pv: a successful expect (pattern xp_re pv matched on the non-empty unread device bytes
         xp_buf pv, match array xp_pm pv) whose sub-matches are exactly the ones the event's setplugstate / setresult statement read
         (model_xm of the device state sdk in which it ran: C03_write_events_spelled_out); pv carries w's client id and result list
         and the command of the action that ran the statement.  That it was executed by the same ACTION (a command may queue several
         actions with the same id, list and command on one device, one per plug) in the same run of its script, earlier, is how the
         ghost is made: it is cleared whenever the head action ends, fails, times out or is rewound, so a ghost that is set was set
         by an expect of the action that is at the head now, after it last (re)started - and only the head action executes statements.
   C03_shipped_own_expect / C03_spec_ok_own_ok: the hypothesis holds for devices configured with any shipped specification (sweep
     over the regenerated Gen/GenSpecs.v) and with any specification that passes C17's checker.
   C03_own_expect_needed: without it the claim fails - a status script that is a bare `setplugstate` reads the sub-matches the login
     action's expect left on the device (the ghost is None).
   NOT claimed, and false of the model and of device.c alike (C03_reported_bytes_after_request_refuted): that the bytes the action's
     expect matched were SENT by the device after the action started.  dev->from keeps what earlier expects did not consume (it is
     emptied only by _disconnect), so a device that answers one query with more than the script consumes has the rest taken for
     its answer to the next query. *)
From PM Require Import Gen.GenSpecs Model.SpecCheck Model.DevHarness Proofs.DeviceWritesExpect Proofs.DaemonE2EExpect Proofs.SpecOwnExpect.
From PM Require Proofs.DaemonE2EExpectEx.
Theorem C03_reported_by_own_expect : forall expand_str ranged_sorted ranged_plain sorted rmatch compress short_circuit st0 now plans rs r,
  boot compress st0 -> Forall (fun d => own_ok (dv_scripts d) = true) (dm_devs st0) -> Z.of_nat (length rs) < INT_MAX - 1 ->
  exists st1 o1, dinit st0 now plans = Ok (st1, o1) /\
  match drun expand_str ranged_sorted ranged_plain sorted rmatch compress short_circuit st1 rs [] with
  | Ok (st, _) =>
    match dstep expand_str ranged_sorted ranged_plain sorted rmatch compress short_circuit st r with
    | Ok (stb, _) =>
        let Rb := dstep_rep expand_str ranged_sorted ranged_plain sorted rmatch compress short_circuit st r
                    (drun_rep expand_str ranged_sorted ranged_plain sorted rmatch compress short_circuit st1 rs []) in
        let Xb := dstep_x expand_str ranged_sorted ranged_plain sorted rmatch compress short_circuit st r
                    (drun_x expand_str ranged_sorted ranged_plain sorted rmatch compress short_circuit st1 rs ([], map (fun _ => None) (dm_devs st1))) in
        (* (1) *)
        map fst (fst Xb) = Rb /\
        (* (2) *)
        forall w og, In (w, og) (fst Xb) ->
          exists pv, og = Some pv /\ xp_client pv = rp_client w /\ xp_slot pv = Some (rp_slot w) /\
            (xp_buf pv <> [] /\ rmatch (xp_re pv) (nul_to_ff (xp_buf pv)) = Some (xp_pm pv)) /\
            exists sdk ak storek, stmt_reports rmatch sdk ak storek w /\
              ScriptRefine.model_xm sdk = Some (nul_to_ff (xp_buf pv), xp_pm pv) /\ a_com ak = xp_com pv
    | _ => False
    end
  | _ => False
  end.
Proof. exact c03_reported_by_own_expect_spelled. Qed.
(* the check and the ghost, spelled out *)
Theorem C03_own_expect_spelled_out :
  (* the check *)
  (forall scripts, own_ok scripts = forallb (fun p => ck_block false (snd p)) scripts) /\
  (forall h s r, ck_block h (s :: r) = (ck_stmt h s && ck_block (match s with Expect _ => true | _ => h end) r)%bool) /\ (forall h, ck_block h [] = true) /\
  (forall h s, ck_stmt h s = match s with
                             | SetPlugState _ _ _ _ | SetResult _ _ _ => h
                             | ForeachPlug b | ForeachNode b | IfOn b | IfOff b => ck_block h b
                             | _ => true
                             end) /\
  (* one statement of the head action a on device state sd *)
  (forall rmatch now sd a store g, xg_stmt rmatch now sd a store g =
     match a_exec a with
     | e :: _ =>
       match cur e with
       | Some (Expect re) =>
           match process_expect rmatch now sd a store re with
           | Ok (true, sd', _, _, _) =>
               match sd_xm sd' with
               | Some (_, pm) => Some (mkXprov (a_client a) (a_args a) (a_com a) re (sd_from sd) pm)
               | None => None
               end
           | _ => None
           end
       | _ => g
       end
     | [] => g
     end) /\
  (* one iteration of _process_action's loop: the events of DeviceWrites.pa_reports, each with the ghost at its statement; the ghost afterwards *)
  (forall rmatch compress sc now d store g, pa_x rmatch compress sc now d store g =
     match dv_acts d with
     | [] => ([], g)
     | act0 :: _ =>
       match a_exec act0 with
       | [] => ([], g)
       | _ =>
         let stamp := match a_stamp act0 with Some t => t | None => now end in
         let act := set_stamp (Some stamp) act0 in
         if stamp + dv_timeout d <=? now then ([], None)
         else if negb (connected d) then ([], g)
         else
           match do_while rmatch compress sc 8 now (dv d) act store [] None with
           | Ok ((fin, _, act', _, _), _) =>
               let xg := dw_x rmatch compress sc 8 now (dv d) act store g in
               (fst xg, if negb fin then snd xg
                        else if Z.eqb (a_err act') ACT_ESUCCESS then match a_exec (advance act') with [] => None | _ => snd xg end
                        else None)
           | _ => ([], g)
           end
       end
     end) /\
  (* the statements of one do..while round *)
  (forall rmatch compress sc f now sd a store g, dw_x rmatch compress sc (S f) now sd a store g =
     match process_stmt rmatch compress sc now sd a store with
     | Ok ((_, sd', a', store', _), _) =>
         let g1 := xg_stmt rmatch now sd a store g in
         if Nat.ltb (length (a_exec a)) (length (a_exec a'))
         then let '(xs, g2) := dw_x rmatch compress sc f now sd' a' store' g1 in (map (fun w => (w, g)) (stmt_report rmatch sd a store) ++ xs, g2)
         else (map (fun w => (w, g)) (stmt_report rmatch sd a store), g1)
     | _ => ([], g)
     end) /\
  (* descriptor, reconnect, ping: the ghost survives only on a connected device whose descriptor gave no error *)
  (forall d pin g, xg_front d pin g =
     if connected d then
       match (if dv_has_fd d && any_flag pin then handle_ready d pin else Ok (false, d, [])) with
       | Ok (false, _, _) => g
       | _ => None
       end
     else None) /\
  (* one device's share of dev_post_poll *)
  (forall rmatch compress sc now d store tmo pin g, pp_x rmatch compress sc now d store tmo pin g =
     match DeviceMask.pp_front now d tmo pin with
     | Ok (d3, t3, pl, _) => pas_x rmatch compress sc (pa_fuel d3) now d3 store t3 pl (xg_front d pin g)
     | _ => ([], g)
     end) /\
  (forall rmatch compress sc f now d store tmo plans g, pas_x rmatch compress sc (S f) now d store tmo plans g =
     match pa_step rmatch compress sc now d store tmo plans with
     | Ok (PaDone _ _ _ _ _) => pa_x rmatch compress sc now d store g
     | Ok (PaNext d' store' tmo' _) =>
         let x1 := pa_x rmatch compress sc now d store g in
         let x2 := pas_x rmatch compress sc f now d' store' tmo' plans (snd x1) in (fst x1 ++ fst x2, snd x2)
     | _ => ([], g)
     end) /\
  (* dev_post_poll from device i on (the same walk as the report ledger's dl_reports), a pass, a run *)
  (forall expand_str ranged_sorted ranged_plain sorted rmatch compress short_circuit,
     (forall n now st i pins tmo G, dl_x ranged_sorted rmatch compress short_circuit (S n) now st i pins tmo G =
        match nth_error (dm_devs st) i with
        | None => ([], G)
        | Some d =>
          let x1 := pp_x rmatch compress short_circuit now d (dm_store st) tmo
                         (fst (with_pre (nth i (dm_pipe st) true) (nth i (dm_tel st) Telnet.telnet_init) (hd passin0 pins))) (nth i G None) in
          let G1 := upd_nth G i (fun _ => snd x1) in
          match dev_loop ranged_sorted rmatch compress short_circuit 1 now st i pins tmo [] with
          | Ok (st2, tmo', _) => let x2 := dl_x ranged_sorted rmatch compress short_circuit n now st2 (S i) (tl pins) tmo' G1 in (fst x1 ++ fst x2, snd x2)
          | _ => (fst x1, G1)
          end
        end) /\
     (forall st r X, dstep_x expand_str ranged_sorted ranged_plain sorted rmatch compress short_circuit st r X =
        match cli_post_poll expand_str ranged_sorted ranged_plain sorted st r with
        | Ok (sta, _) => let x := dl_x ranged_sorted rmatch compress short_circuit (length (dm_devs sta)) (r_now r) sta O (r_dev r) None (snd X) in (fst X ++ fst x, snd x)
        | _ => X
        end) /\
     (forall st r rs X, drun_x expand_str ranged_sorted ranged_plain sorted rmatch compress short_circuit st (r :: rs) X =
        match dstep expand_str ranged_sorted ranged_plain sorted rmatch compress short_circuit st r with
        | Ok (st1, _) => drun_x expand_str ranged_sorted ranged_plain sorted rmatch compress short_circuit st1 rs
                                (dstep_x expand_str ranged_sorted ranged_plain sorted rmatch compress short_circuit st r X)
        | _ => X
        end)).
Proof.
  repeat split; try reflexivity.
  - intros h s. destruct s; cbn [ck_stmt]; try reflexivity; apply ck_blk_eq.
Qed.
(* the hypothesis: every shipped specification, whatever device name, plug list, time-out and ping period the configuration attaches to it;
   every specification that passes C17's checker *)
Theorem C03_shipped_own_expect : forall file s name plugs timeout ping,
  In (file, s) all_specs -> own_ok (dv_scripts (mk_device name plugs (sp_scripts s) timeout ping)) = true.
Proof. exact shipped_own_ok. Qed.
Theorem C03_spec_ok_own_ok : forall s, spec_ok s = true -> own_ok (sp_scripts s) = true.
Proof. exact spec_ok_own_ok. Qed.
(* non-vacuity (Proofs/DaemonE2EExpectEx.v; evaluated): the daemon of C03_end_to_end_reported_nonvacuous, `status n1` answered `on`: its scripts
   pass the check; the extended ledger after the fifth pass holds the one write event (list 0, client 1, d0, n1, ST_ON, "on") paired with
   the expect of client 1's action for list 0 and PM_STATUS_PLUGS, pattern `(on|off)`, matched on the unread bytes "on" *)
Example C03_reported_by_own_expect_nonvacuous :
  own_ok DaemonE2EEx.e2e_scripts = true /\
  DaemonE2EExpectEx.x_view DaemonE2EEx.e2e_st DaemonE2EEx.query_rounds =
    Some ([(mkReport 0 1 (bslit "d0") false (bslit "n1") ST_ON (bslit "on"),
            Some (mkXprov 1 (Some O) PM_STATUS_PLUGS (bslit "(on|off)") (bslit "on") [Some (O, 2%nat); Some (O, 2%nat)]))],
          [DaemonE2EEx.banner ++ render [TLine 302 (bslit "on:      n1"); TLine 302 (bslit "off:     "); TLine 302 (bslit "unknown: ");
                                         TLine 103 (bslit "Query complete"); TPrompt]]).
Proof. exact DaemonE2EExpectEx.own_example. Qed.
(* the hypothesis is needed: device d0 with the status script `setplugstate "p1" $0 on="ok"` (no expect of its own; own_ok fails).  `status n1`:
   the write event - n1 = ON from the text "ok" - read the sub-matches of the LOGIN action's `expect "ok"`; its ghost is None, and the
   client is told `on: n1` *)
Example C03_own_expect_needed :
  own_ok DaemonE2EExpectEx.bad_scripts = false /\
  DaemonE2EExpectEx.x_view DaemonE2EExpectEx.bad_st DaemonE2EExpectEx.bad_rounds =
    Some ([(mkReport 0 1 (bslit "d0") false (bslit "n1") ST_ON (bslit "ok"), None)],
          [DaemonE2EEx.banner ++ render [TLine 302 (bslit "on:      n1"); TLine 302 (bslit "off:     "); TLine 302 (bslit "unknown: ");
                                         TLine 103 (bslit "Query complete"); TPrompt]]).
Proof. exact DaemonE2EExpectEx.bad_example. Qed.
(* refuted: "the bytes an action's expect matches were sent by the device after the action started".  The daemon of
   C03_end_to_end_nonvacuous (its scripts pass own_ok); the device answers the first `status n1` with `onoff`; the reply is `on: n1`.  A second
   `status n1` arrives in the sixth pass; the device sends NOTHING more (the rounds deliver no further byte), and the seventh pass answers
   `off: n1`: the second action's own expect (ghost: client 1, list 1) matched the left-over bytes "off" *)
Example C03_reported_bytes_after_request_refuted :
  map (fun r => match r_dev r with [p] => pi_read p | _ => None end) (skipn 5 DaemonE2EExpectEx.late_rounds) = [None; None] /\
  DaemonE2EExpectEx.x_view DaemonE2EEx.e2e_st DaemonE2EExpectEx.late_rounds =
    Some ([(mkReport 0 1 (bslit "d0") false (bslit "n1") ST_ON (bslit "on"),
            Some (mkXprov 1 (Some O) PM_STATUS_PLUGS (bslit "(on|off)") (bslit "onoff") [Some (O, 2%nat); Some (O, 2%nat)]));
           (mkReport 1 1 (bslit "d0") false (bslit "n1") ST_OFF (bslit "off"),
            Some (mkXprov 1 (Some 1%nat) PM_STATUS_PLUGS (bslit "(on|off)") (bslit "off") [Some (O, 3%nat); Some (O, 3%nat)]))],
          [DaemonE2EEx.banner ++ render [TLine 302 (bslit "on:      n1"); TLine 302 (bslit "off:     "); TLine 302 (bslit "unknown: ");
                                         TLine 103 (bslit "Query complete"); TPrompt;
                                         TLine 302 (bslit "on:      "); TLine 302 (bslit "off:     n1"); TLine 302 (bslit "unknown: ");
                                         TLine 103 (bslit "Query complete"); TPrompt]]).
Proof. exact (conj eq_refl DaemonE2EExpectEx.late_example). Qed.
Print Assumptions C03_reported_by_own_expect.
Print Assumptions C03_own_expect_spelled_out.
Print Assumptions C03_shipped_own_expect.
Print Assumptions C03_spec_ok_own_ok.
