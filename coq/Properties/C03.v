(* C03 -- status queries report exactly what the devices answered, now (client.c _client_query_status_reply,
   _client_query_status_reply_nointerp, arglist.c; the writes come from device.c _process_setplugstate).
   Theorems about PM.Model.Client in the single-client world of PM.Model.CliWorld. *)
From Coq Require Import List NArith ZArith Bool Permutation.
From PM Require Import Base.Bytes Base.Outcome Gen.GenConsts Gen.GenClient Model.ScriptAst Model.Enqueue Model.Script Model.Client Model.CliWorld
                       Proofs.ClientProofs Proofs.ClientStream Proofs.ClientReply Proofs.ClientExamples.
Import ListNotations.
Local Open Scope Z_scope.

(* the text of a status / beacon reply: with -x one 303 line per mention of the target list, otherwise the 302 triple
   of the three lists below; then 211 if `err` else 103 *)
Theorem C03_status_text : forall ranged_sorted c al err,
  reply_status ranged_sorted c al err =
  (if cl_exp c
   then flat_map (fun a => cprintf CP_INFO_XSTATUS [ar_node a; state_word (ar_state a)]) (args_iter al)
   else cprintf CP_INFO_STATUS [ranged_sorted (on_nodes (args_iter al)); ranged_sorted (off_nodes (args_iter al)); ranged_sorted (unknown_nodes (args_iter al))])
  ++ (if err then CP_ERR_QRY_COMPLETE else CP_RSP_QRY_COMPLETE).
Proof. exact reply_status_text. Qed.
Print Assumptions C03_status_text.

(* on / off / unknown partition the target LIST: every mention is in exactly one list (permutation), the lists are
   pairwise disjoint as sets, and membership says what the node's Arg says; the -x listing iterates the same Args
   (args_iter), one line per mention, so both forms denote the same (node, state) relation *)
Theorem C03_partition : forall al n,
  Permutation (map ar_node al) (on_nodes (args_iter al) ++ off_nodes (args_iter al) ++ unknown_nodes (args_iter al))
  /\ map ar_node (args_iter al) = map ar_node al
  /\ (In n (on_nodes (args_iter al)) <-> exists a, arg_find al n = Some a /\ In n (map ar_node al) /\ ar_state a = ST_ON)
  /\ (In n (off_nodes (args_iter al)) <-> exists a, arg_find al n = Some a /\ In n (map ar_node al) /\ ar_state a = ST_OFF)
  /\ (In n (unknown_nodes (args_iter al)) <-> exists a, arg_find al n = Some a /\ In n (map ar_node al) /\ ar_state a <> ST_ON /\ ar_state a <> ST_OFF)
  /\ ~ (In n (on_nodes (args_iter al)) /\ In n (off_nodes (args_iter al)))
  /\ ~ (In n (on_nodes (args_iter al)) /\ In n (unknown_nodes (args_iter al)))
  /\ ~ (In n (off_nodes (args_iter al)) /\ In n (unknown_nodes (args_iter al))).
Proof.
  exact (fun al n => conj (status_lists_perm al) (conj (args_iter_nodes al)
           (conj (proj1 (status_lists_sound al n)) (conj (proj1 (proj2 (status_lists_sound al n))) (conj (proj2 (proj2 (status_lists_sound al n)))
           (status_lists_disjoint al n)))))).
Qed.
Example C03_partition_nonvacuous :
  out_of (run1 toy_expand toy_join toy_join toy_sorted toy_s0 evs_status) = bslit "001 2.4" ++ CP_EOL ++ CP_PROMPT
     ++ bslit "302 on:      n1," ++ CP_EOL ++ bslit "302 off:     " ++ CP_EOL ++ bslit "302 unknown: n2," ++ CP_EOL ++ CP_RSP_QRY_COMPLETE ++ CP_PROMPT.
Proof. exact (proj2 ex_status). Qed.
Print Assumptions C03_partition.

(* temperature (after the repairs of F5 and F19): one 303 line per mention that has a value (the value cut at CR / LF),
   then ONE line listing the mentions without value as unknown; every mention is listed exactly once *)
Theorem C03_temp_once : forall ranged_sorted c al err,
  reply_nointerp ranged_sorted c al err =
    flat_map (fun a => match ar_val a with Some v => cprintf CP_INFO_XSTATUS [ar_node a; cut_eol v] | None => [] end) (args_iter al)
    ++ (match map ar_node (unvalued (args_iter al)) with [] => [] | l => cprintf CP_INFO_XSTATUS [ranged_sorted l; bslit "unknown"] end)
    ++ (if err then CP_ERR_QRY_COMPLETE else CP_RSP_QRY_COMPLETE)
  /\ Permutation (map ar_node al) (map ar_node (valued (args_iter al)) ++ map ar_node (unvalued (args_iter al))).
Proof. exact (fun rs c al err => conj (reply_nointerp_text rs c al err) (temp_lists_perm al)). Qed.
Example C03_temp_nonvacuous :
  out_of (run1 toy_expand toy_join toy_join toy_sorted toy_s0 evs_temp) = bslit "001 2.4" ++ CP_EOL ++ CP_PROMPT ++ bslit "303 n1: 41" ++ CP_EOL ++ CP_RSP_QRY_COMPLETE ++ CP_PROMPT.
Proof. exact (proj1 (proj2 ex_temp)). Qed.
Print Assumptions C03_temp_once.

(* the reply of a query is computed from the arglist of THIS command as it stands at the last completion, and ends
   with 211 exactly when one of its completions carried an error (else 103) *)
Theorem C03_reply : forall expand_str ranged_sorted ranged_plain sorted evs s k s',
  cl_cmd (s_cl s) = Some k -> k_error k = false ->
  no_lines evs -> events_ok expand_str ranged_sorted ranged_plain sorted s evs = true ->
  run1 expand_str ranged_sorted ranged_plain sorted s evs = Ok s' -> cl_cmd (s_cl s') = None ->
  let al := nth (k_args k) (s_store s') [] in
  ((Z.eqb (k_com k) PM_STATUS_PLUGS || Z.eqb (k_com k) PM_STATUS_BEACON)%bool = true ->
     cl_out (s_cl s') = cl_out (s_cl s) ++ flat_map info_text evs ++ reply_status ranged_sorted (s_cl s) al (any_failed evs) ++ CP_PROMPT)
  /\ (k_com k = PM_STATUS_TEMP ->
     cl_out (s_cl s') = cl_out (s_cl s) ++ flat_map info_text evs ++ reply_nointerp ranged_sorted (s_cl s) al (any_failed evs) ++ CP_PROMPT).
Proof. exact query_command_reply. Qed.
Print Assumptions C03_reply.

(* freshness: a new command starts with every Arg UNKNOWN / no value, in a store slot of its own ... *)
Theorem C03_fresh : forall names (store : list arglist),
  Forall (fun a => ar_state a = ST_UNKNOWN /\ ar_result a = RT_NONE /\ ar_val a = None) (new_arglist names)
  /\ map ar_node (new_arglist names) = names
  /\ nth (length store) (store ++ [new_arglist names]) [] = new_arglist names.
Proof. exact (fun names store => conj (new_arglist_fresh names) (conj (new_arglist_nodes names) (fresh_slot store (new_arglist names)))). Qed.
(* ... writes to another slot do not reach it ... *)
Theorem C03_other_slots : forall (store : list arglist) i j n f, i <> j -> nth j (write_slot store i n f) [] = nth j store [].
Proof. exact write_slot_other. Qed.
(* ... and a node's state changes only through a setplugstate for that node executed by an action of this command
   between request and reply (so anything other than `unknown` was reported by the device during this request) *)
Theorem C03_only_reported : forall expand_str ranged_sorted ranged_plain sorted evs s k s' n,
  cl_cmd (s_cl s) = Some k -> (k_args k < length (s_store s))%nat -> no_lines evs ->
  existsb (sets_state_of n) evs = false -> run1 expand_str ranged_sorted ranged_plain sorted s evs = Ok s' ->
  option_map ar_state (arg_find (nth (k_args k) (s_store s') []) n) = option_map ar_state (arg_find (nth (k_args k) (s_store s) []) n).
Proof. exact state_only_if_set. Qed.
Print Assumptions C03_fresh.
Print Assumptions C03_only_reported.
