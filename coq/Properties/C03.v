(* C03 -- status queries report exactly what the devices answered, now (client.c _client_query_status_reply,
   _client_query_status_reply_nointerp, arglist.c; the writes come from device.c _process_setplugstate).
   Theorems about PM.Model.Client in the single-client world of PM.Model.CliWorld. *)
From Coq Require Import List NArith ZArith Bool Permutation.
From PM Require Import Base.Bytes Base.Outcome Gen.GenConsts Gen.GenClient Model.ScriptAst Model.Enqueue Model.Script Model.Client Model.CliWorld
                       Proofs.ClientProofs Proofs.ClientStream Proofs.ClientReply Proofs.ClientExamples.
Import ListNotations.
Local Open Scope Z_scope.

(* the text of a status / beacon reply: with -x one 303 line per mention of the target list, otherwise the 302 triple
   of the three lists below; then 211 if `err` else 103 *)
Theorem C03_status_text : forall ranged_sorted c al err,
  reply_status ranged_sorted c al err =
  (if cl_exp c
   then flat_map (fun a => cprintf CP_INFO_XSTATUS [ar_node a; state_word (ar_state a)]) (args_iter al)
   else cprintf CP_INFO_STATUS [ranged_sorted (on_nodes (args_iter al)); ranged_sorted (off_nodes (args_iter al)); ranged_sorted (unknown_nodes (args_iter al))])
  ++ (if err then CP_ERR_QRY_COMPLETE else CP_RSP_QRY_COMPLETE).
Proof. exact reply_status_text. Qed.
Print Assumptions C03_status_text.

(* on / off / unknown partition the target LIST: every mention is in exactly one list (permutation), the lists are
   pairwise disjoint as sets, and membership says what the node's Arg says; the -x listing iterates the same Args
   (args_iter), one line per mention, so both forms denote the same (node, state) relation *)
Theorem C03_partition : forall al n,
  Permutation (map ar_node al) (on_nodes (args_iter al) ++ off_nodes (args_iter al) ++ unknown_nodes (args_iter al))
  /\ map ar_node (args_iter al) = map ar_node al
  /\ (In n (on_nodes (args_iter al)) <-> exists a, arg_find al n = Some a /\ In n (map ar_node al) /\ ar_state a = ST_ON)
  /\ (In n (off_nodes (args_iter al)) <-> exists a, arg_find al n = Some a /\ In n (map ar_node al) /\ ar_state a = ST_OFF)
  /\ (In n (unknown_nodes (args_iter al)) <-> exists a, arg_find al n = Some a /\ In n (map ar_node al) /\ ar_state a <> ST_ON /\ ar_state a <> ST_OFF)
  /\ ~ (In n (on_nodes (args_iter al)) /\ In n (off_nodes (args_iter al)))
  /\ ~ (In n (on_nodes (args_iter al)) /\ In n (unknown_nodes (args_iter al)))
  /\ ~ (In n (off_nodes (args_iter al)) /\ In n (unknown_nodes (args_iter al))).
Proof.
  exact (fun al n => conj (status_lists_perm al) (conj (args_iter_nodes al)
           (conj (proj1 (status_lists_sound al n)) (conj (proj1 (proj2 (status_lists_sound al n))) (conj (proj2 (proj2 (status_lists_sound al n)))
           (status_lists_disjoint al n)))))).
Qed.
Example C03_partition_nonvacuous :
  out_of (run1 toy_expand toy_join toy_join toy_sorted toy_s0 evs_status) = bslit "001 2.4" ++ CP_EOL ++ CP_PROMPT
     ++ bslit "302 on:      n1," ++ CP_EOL ++ bslit "302 off:     " ++ CP_EOL ++ bslit "302 unknown: n2," ++ CP_EOL ++ CP_RSP_QRY_COMPLETE ++ CP_PROMPT.
Proof. exact (proj2 ex_status). Qed.
Print Assumptions C03_partition.

(* temperature (after the repairs of F5 and F19): one 303 line per mention that has a value (the value cut at CR / LF),
   then ONE line listing the mentions without value as unknown; every mention is listed exactly once *)
Theorem C03_temp_once : forall ranged_sorted c al err,
  reply_nointerp ranged_sorted c al err =
    flat_map (fun a => match ar_val a with Some v => cprintf CP_INFO_XSTATUS [ar_node a; cut_eol v] | None => [] end) (args_iter al)
    ++ (match map ar_node (unvalued (args_iter al)) with [] => [] | l => cprintf CP_INFO_XSTATUS [ranged_sorted l; bslit "unknown"] end)
    ++ (if err then CP_ERR_QRY_COMPLETE else CP_RSP_QRY_COMPLETE)
  /\ Permutation (map ar_node al) (map ar_node (valued (args_iter al)) ++ map ar_node (unvalued (args_iter al))).
Proof. exact (fun rs c al err => conj (reply_nointerp_text rs c al err) (temp_lists_perm al)). Qed.
Example C03_temp_nonvacuous :
  out_of (run1 toy_expand toy_join toy_join toy_sorted toy_s0 evs_temp) = bslit "001 2.4" ++ CP_EOL ++ CP_PROMPT ++ bslit "303 n1: 41" ++ CP_EOL ++ CP_RSP_QRY_COMPLETE ++ CP_PROMPT.
Proof. exact (proj1 (proj2 ex_temp)). Qed.
Print Assumptions C03_temp_once.

(* the reply of a query is computed from the arglist of THIS command as it stands at the last completion, and ends
   with 211 exactly when one of its completions carried an error (else 103) *)
Theorem C03_reply : forall expand_str ranged_sorted ranged_plain sorted evs s k s',
  cl_cmd (s_cl s) = Some k -> k_error k = false ->
  no_lines evs -> events_ok expand_str ranged_sorted ranged_plain sorted s evs = true ->
  run1 expand_str ranged_sorted ranged_plain sorted s evs = Ok s' -> cl_cmd (s_cl s') = None ->
  let al := nth (k_args k) (s_store s') [] in
  ((Z.eqb (k_com k) PM_STATUS_PLUGS || Z.eqb (k_com k) PM_STATUS_BEACON)%bool = true ->
     cl_out (s_cl s') = cl_out (s_cl s) ++ flat_map info_text evs ++ reply_status ranged_sorted (s_cl s) al (any_failed evs) ++ CP_PROMPT)
  /\ (k_com k = PM_STATUS_TEMP ->
     cl_out (s_cl s') = cl_out (s_cl s) ++ flat_map info_text evs ++ reply_nointerp ranged_sorted (s_cl s) al (any_failed evs) ++ CP_PROMPT).
Proof. exact query_command_reply. Qed.
Print Assumptions C03_reply.

(* freshness: a new command starts with every Arg UNKNOWN / no value, in a store slot of its own ... *)
Theorem C03_fresh : forall names (store : list arglist),
  Forall (fun a => ar_state a = ST_UNKNOWN /\ ar_result a = RT_NONE /\ ar_val a = None) (new_arglist names)
  /\ map ar_node (new_arglist names) = names
  /\ nth (length store) (store ++ [new_arglist names]) [] = new_arglist names.
Proof. exact (fun names store => conj (new_arglist_fresh names) (conj (new_arglist_nodes names) (fresh_slot store (new_arglist names)))). Qed.
(* ... writes to another slot do not reach it ... *)
Theorem C03_other_slots : forall (store : list arglist) i j n f, i <> j -> nth j (write_slot store i n f) [] = nth j store [].
Proof. exact write_slot_other. Qed.
(* ... and a node's state changes only through a setplugstate for that node executed by an action of this command
   between request and reply (so anything other than `unknown` was reported by the device during this request) *)
Theorem C03_only_reported : forall expand_str ranged_sorted ranged_plain sorted evs s k s' n,
  cl_cmd (s_cl s) = Some k -> (k_args k < length (s_store s))%nat -> no_lines evs ->
  existsb (sets_state_of n) evs = false -> run1 expand_str ranged_sorted ranged_plain sorted s evs = Ok s' ->
  option_map ar_state (arg_find (nth (k_args k) (s_store s') []) n) = option_map ar_state (arg_find (nth (k_args k) (s_store s) []) n).
Proof. exact state_only_if_set. Qed.
Print Assumptions C03_fresh.
Print Assumptions C03_only_reported.

(* ------------------------------------------------------------------------------------------------------------------
   END TO END, over histories (Proofs/DaemonE2E.v; the machinery of C02_end_to_end): in every pass of every run of the
   whole-daemon model from start-up (any rounds: any client input, any number of clients, any transport, any peer behaviour),
   with the external ledger (enq, ok, fail) per client id (drun_led / dstep_led: computed from the enqueue lists _parse_input
   returns and from the EvComplete events of the passes' event lists) and a second external ghost, the WRITE LEDGER of the
   result lists (drun_wr / dstep_wr: W s = the nodes whose Arg in list s - slot s of the store - was changed by the device
   half of some pass; computed only from the store the client half of a pass returns and the store the pass returns):

   (1) the ledger is tied to the state before and after the pass (C02_ledger_tied); a result list in use by a command is
       referred to by THAT client's queued actions only (so, by C11_result_list_writes, the device half changes it only while
       visiting a device whose queue holds an action of this command); a list that does not exist yet has an empty write
       ledger (so W s only holds changes made after the command that owns s was created);
   (2) the callback half of the pass leaves a client without a command exactly as it is; for every client with a QUERY
       command (status / beacon / temperature) in progress when the callback half of the pass
       begins: its output history gains exactly `render new`, any accepted token list of its stream extends by `new`;
       while the command goes on, `new` holds informational lines only; when the stream gains the TERMINAL token in this pass:
         - every action enqueued for the command has produced its completion event (ok + fail = enq > 0), the token is
           103 <-> no completion carried an error (fail = 0, ok = enq),  211 <-> one did;
         - the reply in front of the prompt is reply_status (status, beacon) / reply_nointerp (temperature) of the
           command's OWN result list as it stands at the end of the pass and of the flag (0 < fail): with C03_status_text,
           C03_partition, C03_temp_once this fixes the on / off / unknown lists and the 303 lines;
         - every Arg of that list that is not as arglist_create left it (a state other than unknown: the node is listed on
           or off; a value: the node is listed with a temperature) belongs to a node whose Arg IN THIS LIST was changed by
           the device half of a pass after the command was created and no later than this pass.
   (* OPEN *) "changed by the device half of a pass" is not yet "by a setplugstate statement for that node's plug executed
   by an action of this command".  Missing is a device-layer lemma over post_poll_one (Model/Device.v):
       post_poll_one ... d store ... = Ok (d', store', _, _) -> arg_find (nth s store' []) n <> arg_find (nth s store []) n ->
       some iteration of _process_action of this call ran, for the head action act with a_args act = Some s, a
       SetPlugState / SetResult statement whose node resolves to n  (an OSetState n / OSetResult n observation of
       Spec/ScriptSem.v in that iteration's trace);
   Proofs/DeviceSlots.v has only the frame half (SlotRel: lists the queue does not refer to are untouched); the statement-level
   half is C03_only_reported over the single-client world. *)
From PM Require Import Model.Device Model.Daemon Spec.Proto Proofs.DaemonLedger Proofs.DaemonSlots Proofs.DaemonPending Proofs.DaemonE2E.
From PM Require Proofs.DaemonE2EEx Properties.C07.
Theorem C03_end_to_end : forall expand_str ranged_sorted ranged_plain sorted rmatch compress short_circuit st0 now plans rs r,
  boot compress st0 -> Z.of_nat (length rs) < INT_MAX - 1 ->
  exists st1 o1, dinit st0 now plans = Ok (st1, o1) /\
  match drun expand_str ranged_sorted ranged_plain sorted rmatch compress short_circuit st1 rs [] with
  | Ok (st, _) =>
    let L := drun_led expand_str ranged_sorted ranged_plain sorted rmatch compress short_circuit st1 rs lzero in
    let W := drun_wr expand_str ranged_sorted ranged_plain sorted rmatch compress short_circuit st1 rs (winit (dm_store st1)) in
    match cli_post_poll expand_str ranged_sorted ranged_plain sorted st r with
    | Ok (sta, e1) =>
      match dev_loop ranged_sorted rmatch compress short_circuit (length (dm_devs sta)) (r_now r) sta O (r_dev r) None [] with
      | Ok (stb, tmo, e2) =>
        dstep expand_str ranged_sorted ranged_plain sorted rmatch compress short_circuit st r = Ok (stb, mkDout (e1 ++ e2) tmo) /\
        let Lb := dstep_led expand_str ranged_sorted ranged_plain sorted rmatch compress short_circuit st r L in
        let Wb := dstep_wr expand_str ranged_sorted ranged_plain sorted rmatch compress short_circuit st r W in
        (* (1) *)
        ledger_tied L st /\ ledger_tied Lb stb /\
        (forall c s x, In (c, s) (aslots (dm_devs st)) -> In x (dm_clients st) -> cmd_slot x = Some s -> cid x = c) /\
        (forall s, (length (dm_store st) <= s)%nat -> W s = []) /\
        (* (2) *)
        (forall p x0, nth_error (dm_clients sta) p = Some x0 -> cl_cmd (dc x0) = None -> nth_error (dm_clients stb) p = Some x0) /\
        forall p x0 k0, nth_error (dm_clients sta) p = Some x0 -> cl_cmd (dc x0) = Some k0 -> is_query (k_com k0) = true ->
          exists x new, nth_error (dm_clients stb) p = Some x /\ cid x = cid x0 /\
            cl_out (dc x) = cl_out (dc x0) ++ render new /\
            (forall toks0, cli_okT x0 toks0 -> cli_okT x (toks0 ++ new)) /\
            match cl_cmd (dc x) with
            | Some k => Forall info_tok new /\ k_com k = k_com k0 /\ k_args k = k_args k0
            | None =>
                let r := Lb (cid x0) in let al := nth (k_args k0) (dm_store stb) [] in
                exists infos infos_r c p, new = infos ++ (infos_r ++ [TLine c p]) ++ [TPrompt] /\ Forall info_tok infos /\ Forall info_tok infos_r /\
                  (c = 103%N \/ c = 211%N) /\
                  l_ok r + l_fail r = l_enq r /\ 0 < l_enq r /\ 0 <= l_ok r /\ 0 <= l_fail r /\
                  (c = 103%N <-> l_fail r = 0 /\ l_ok r = l_enq r) /\ (c = 211%N <-> 0 < l_fail r) /\
                  ((Z.eqb (k_com k0) PM_STATUS_PLUGS || Z.eqb (k_com k0) PM_STATUS_BEACON)%bool = true ->
                     render (infos_r ++ [TLine c p]) = reply_status ranged_sorted (dc x0) al (0 <? l_fail r)) /\
                  (k_com k0 = PM_STATUS_TEMP -> render (infos_r ++ [TLine c p]) = reply_nointerp ranged_sorted (dc x0) al (0 <? l_fail r)) /\
                  (forall n a, arg_find al n = Some a ->
                     (ar_state a = ST_UNKNOWN /\ ar_result a = RT_NONE /\ ar_val a = None) \/ In n (Wb (k_args k0)))
            end
      | _ => False
      end
    | _ => False
    end
  | _ => False
  end.
Proof. exact c03_end_to_end. Qed.
(* is_query, the write ledger and its step, spelled out *)
Theorem C03_ledgers_spelled_out :
  (forall com, is_query com = (Z.eqb com PM_STATUS_PLUGS || Z.eqb com PM_STATUS_BEACON || Z.eqb com PM_STATUS_TEMP)%bool) /\
  (forall store s, winit store s = map ar_node (nth s store [])) /\
  (forall W store store' s, wr_step W store store' s =
     W s ++ filter (fun n => negb (oarg_eqb (arg_find (nth s store []) n) (arg_find (nth s store' []) n))) (map ar_node (nth s store' []))) /\
  (forall expand_str ranged_sorted ranged_plain sorted rmatch compress short_circuit st r W,
     dstep_wr expand_str ranged_sorted ranged_plain sorted rmatch compress short_circuit st r W =
     match cli_post_poll expand_str ranged_sorted ranged_plain sorted st r with
     | Ok (sta, _) => match dstep expand_str ranged_sorted ranged_plain sorted rmatch compress short_circuit st r with
                      | Ok (stb, _) => wr_step W (dm_store sta) (dm_store stb) | _ => W end
     | _ => W
     end).
Proof. exact (conj (fun _ => eq_refl) (conj (fun _ _ => eq_refl) (conj (fun _ _ _ _ => eq_refl) (fun _ _ _ _ _ _ _ _ _ _ => eq_refl)))). Qed.
(* the on / off lists of the reply (C03_partition) read through (2): a node listed on or off has an entry in the write ledger *)
Theorem C03_listed_was_written : forall (al : arglist) (wr : list text) n,
  (forall m a, arg_find al m = Some a -> (ar_state a = ST_UNKNOWN /\ ar_result a = RT_NONE /\ ar_val a = None) \/ In m wr) ->
  In n (on_nodes (args_iter al)) \/ In n (off_nodes (args_iter al)) -> In n wr.
Proof. exact listed_was_written. Qed.
(* non-vacuity (Proofs/DaemonE2EEx.v; evaluated): the daemon of C02_end_to_end_nonvacuous; client 1 sends `status n1`, the device
   answers `on`: in the fifth pass EvComplete 1 ACT_ESUCCESS is delivered, the ledger entry of id 1 goes from (1,0,0) to (1,1,0),
   the stream gains `302 on: n1`, `302 off:`, `302 unknown:`, `103 Query complete` and the prompt, result list 0 holds n1 = ON
   and the write ledger of list 0 holds n1 *)
Example C03_end_to_end_nonvacuous :
  boot C07.ex_compress DaemonE2EEx.e2e_st /\
  DaemonE2EEx.last_pass DaemonE2EEx.query_rounds =
    Some ([(1, Some PM_STATUS_PLUGS, DaemonE2EEx.banner)],
          [(1, None, DaemonE2EEx.banner ++ render [TLine 302 (bslit "on:      n1"); TLine 302 (bslit "off:     "); TLine 302 (bslit "unknown: ");
                                                   TLine 103 (bslit "Query complete"); TPrompt])],
          [SysDev 0 (EvWrote (bslit "st p1\n")); SysDev 0 (EvMatched 2); SysDev 0 (EvComplete 1 ACT_ESUCCESS [])],
          mkL 1 0 0, mkL 1 1 0, [[mkArg (bslit "n1") ST_ON RT_NONE (Some (bslit "on"))]], [bslit "n1"]).
Proof. exact (conj DaemonE2EEx.e2e_boot DaemonE2EEx.query_example). Qed.
Print Assumptions C03_end_to_end.
Print Assumptions C03_listed_was_written.
