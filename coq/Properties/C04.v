(* C04 -- every request gets exactly one final answer, in bounded time.
   Theorems over Model/Daemon.v (the whole daemon as a transducer per pass of _select_loop, tied to the real powermand by the
   per-pass replay R-SIM), Model/Client.v (single client stream) and Model/Device.v (timers).  Quantification: every
   configuration of devices of any transport satisfying the parser's guarantees (cfg_ok) and the static nesting bound nest_ok
   (no script nests its blocks more than DeviceFuel.DMAX = 7 deep; no shipped script nests deeper than 1: SpecBridge.shipped_max_depth),
   every list of rounds (= every interleaving of client connections, input bytes, closes, device bytes, faults, connect outcomes
   and clock steps), every oracle.
   Hang (the fuel of the model's loops running out) is IMPOSSIBLE in every whole-daemon theorem below: the per-device invariant
   carried by DPInv / boot is Proofs/DeviceHang.DInvH (= DInvG, 0 <= retry_count, queued plug lists no longer than the device's,
   nest_ok of the device's scripts), under which one device's share of dev_post_poll always returns Ok (post_poll_one_invH). *)
From Coq Require Import List NArith ZArith Bool Permutation.
From PM Require Import Base.Bytes Base.Outcome Gen.GenConsts Model.ScriptAst Model.Enqueue Model.Script Model.Device Model.DevHarness
                       Model.Client Model.CliWorld Model.Daemon Spec.Proto
                       Proofs.ClientProto Proofs.ClientStream Proofs.DeviceInv Proofs.DeviceRun Proofs.DeviceInvG Proofs.DeviceRunG Proofs.DeviceFuel Proofs.DeviceHang Proofs.DeviceTimer Proofs.DaemonNoHang Proofs.DaemonLedger Proofs.DaemonFrame Proofs.DaemonPending Model.Xpoll Proofs.XpollProofs.
From PM Require Properties.C07.
Import ListNotations.
Local Open Scope Z_scope.

Section C04.
  Variable expand_str : text -> option (list text).
  Variable ranged_sorted : list text -> text.
  Variable ranged_plain : list text -> text.
  Variable sorted : list text -> list text.
  Variable rmatch : text -> text -> option pmatch.
  Variable compress : list text -> text.
  Variable short_circuit : bool.

  (* The cross-layer invariant, from start-up, over EVERY history of passes (every transport: for tcp devices the telnet
     filter's option replies land in dev->to, which DInvG does not constrain - crash-freedom there rests on the repair F38):
       - the pass function ALWAYS returns Ok: never Exit / Abort / MemErr - in particular _act_finish always finds the command it
         completes (assert(c->cmd != NULL) is unreachable) and no device-layer assert fires - and never Hang (no loop of the
         model runs out of fuel: `boot` includes nest_ok of every device's scripts, Proofs/DeviceHang.v);
       - for every live client:  pending = number of its actions still queued on the devices   (no completion is lost,
         none is delivered twice, none reaches another client: ids are unique);
       - for every live client the output produced so far parses as protocol tokens with
             #terminal replies + (1 if a command is in progress) = #lines handed to _parse_input
         i.e. exactly one terminal (1xx/2xx) reply per request line, the outstanding one being the command in progress;
         and (cli_ok, unless the descriptor failed: dc_bad) the token list is accepted by the protocol recogniser, which is
         at rest unless a command is in progress - telemetry / diagnostic lines reach a client only while its command is
         pending (the device layer's callbacks are live: Proofs/DeviceInvG.tg_live) - and the bytes written so far
         followed by the bytes still queued are exactly that output;
       - every time-out handed to poll is strictly positive (no zero-time-out spin requested by the device layer). *)
  Theorem C04_daemon_invariant : forall st now plans rs,
    boot compress st -> Z.of_nat (length rs) < INT_MAX - 1 ->
    exists st1 o, dinit st now plans = Ok (st1, o) /\
      match drun expand_str ranged_sorted ranged_plain sorted rmatch compress short_circuit st1 rs [] with
      | Ok (st', outs) =>
          Forall (fun x => cli_ok x /\ pend (dc x) = cnt (cid x) (qall (dm_devs st'))) (dm_clients st') /\
          NoDup (ids st') /\ Forall (DInvH compress) (dm_devs st') /\
          Forall (fun o => forall t, do_tmo o = Some t -> 0 < t) outs
      | _ => False
      end.
  Proof. exact (daemon_invariant expand_str ranged_sorted ranged_plain sorted rmatch compress short_circuit). Qed.

  (* one pass ALWAYS returns Ok and re-establishes the invariant (the induction step, usable from any state that satisfies it) *)
  Theorem C04_pass_invariant : forall st r, DPInv compress st -> NL st -> 1 <= dm_seq st < INT_MAX ->
    match dstep expand_str ranged_sorted ranged_plain sorted rmatch compress short_circuit st r with
    | Ok (st', o) => DPInv compress st' /\ NL st' /\ (forall t, do_tmo o = Some t -> 0 < t) /\ length (dm_devs st') = length (dm_devs st) /\
                     dm_seq st <= dm_seq st' <= dm_seq st + 1
    | _ => False
    end.
  Proof. exact (dstep_inv expand_str ranged_sorted ranged_plain sorted rmatch compress short_circuit). Qed.

  (* a single client in isolation: any sequence of lines, completions, telemetry and diagnostics in which callbacks only
     arrive while a command is in progress (what C04_daemon_invariant establishes for the whole daemon) yields a stream
     accepted by the protocol recogniser, with one terminal reply per line *)
  Theorem C04_client_stream : forall cf id version evs,
    let s0 := mkCstate cf [] (new_client id version) in
    events_ok expand_str ranged_sorted ranged_plain sorted s0 evs = true ->
    exists s' toks st,
      run1 expand_str ranged_sorted ranged_plain sorted s0 evs = Ok s'
      /\ cl_out (s_cl s') = render toks /\ run PStart toks = Some st
      /\ (busy (s_cl s') = false -> at_rest st = true)
      /\ (terminals toks + b2n (busy (s_cl s')) = lines_of evs)%nat.
  Proof.
    intros cf id version evs s0 H. destruct (client_stream expand_str ranged_sorted ranged_plain sorted cf id version evs H) as (s' & toks & st & A & B & C & D & E & _).
    exists s', toks, st. auto.
  Qed.

  (* the device layer's timers, per pass of the device world (Model/DevHarness.v): every device whose queue is not empty has
     asked for a time-out t with 0 < t <= (deadline of its head action) - now, unless the head is the not yet started login
     with no client action behind it: no request waits without a timer.  HInvH = every device of the harness world satisfies
     DInvH: with it the pass always returns (no Hang) *)
  Theorem C04_no_timerless_wait : forall h, HInv compress h -> HInvH compress h ->
    match hstep rmatch compress short_circuit h HPass with
    | Ok (h', o) =>
        tmo_pos (o_tmo o) /\ h_now h' = h_now h /\
        forall k d p, nth_error (h_devs h) k = Some (d, p) ->
          exists d', nth_error (h_devs h') k = Some (d', apply_evs p (evs_of k (o_evs o))) /\
                     dev_pass_ok compress (h_now h) d d' (evs_of k (o_evs o)) (o_tmo o)
    | _ => False
    end.
  Proof. exact (hpass_ok_H rmatch compress short_circuit). Qed.
End C04.

(* the deadline of an action never moves once it is stamped: not by a rewind (re-login), not by advancing *)
Theorem C04_deadline_fixed : forall a, a_stamp (rewind_action a) = a_stamp a /\ a_stamp (advance a) = a_stamp a.
Proof. intros a. split; [apply stamp_kept_by_rewind|apply stamp_kept_by_advance]. Qed.

(* xpoll (libcommon/xpoll.c): when poll() is interrupted by signals, every time-out handed to the next poll call is a real
   one (never negative = never "forever" for a finite request: F39), and it does not overshoot the caller's deadline *)
Theorem C04_xpoll_never_infinite : forall tv start intr, 0 <= tv -> Forall (fun e => start <= e) intr ->
  Forall (fun ms => 0 <= ms) (xpoll_timeouts (Some tv) start intr).
Proof. exact xpoll_never_infinite. Qed.
Theorem C04_xpoll_within_deadline : forall tv start e, 0 <= tv -> start <= e ->
  let ms := ms_of (remaining tv start e) in
  (e - start) + ms * 1000 <= Z.max tv (e - start) /\ (e - start < tv -> tv - 1000 < (e - start) + ms * 1000).
Proof. exact xpoll_within_deadline. Qed.
Theorem C04_xpoll_unrepaired_refuted : ms_of (2000000 - (1002000100 - 1000000000)) = -1.
Proof. exact xpoll_unrepaired_refuted. Qed.
Example C04_xpoll_example : xpoll_timeouts (Some 2000000) 1000000000 [1000700000; 1001500000; 1002000100] = [2000; 1300; 500; 0].
Proof. reflexivity. Qed.

(* ---------------- non-vacuity: a daemon with one coprocess device; a client connects, sends `on n1`, the device stays
   silent, the action times out: exactly one terminal reply (210) and the invariant's hypotheses hold ---------------- *)
Definition ex_st : daemon :=
  mkDaemon [bslit "n1"] [] [bslit "spec"] [true] [C07.ex_dev] [] 1 [] (bslit "2.4") [Telnet.telnet_init].
Example C04_boot_example : boot C07.ex_compress ex_st.
Proof.
  split; [reflexivity|]. split; [reflexivity|]. constructor; [|constructor].
    destruct (mk_device_invH C07.ex_compress (bslit "d0") [mkPlug (bslit "p1") (Some (bslit "n1"))]
               [(PM_LOG_IN, [Send (bslit "login\n"); Expect (bslit "ok")]); (PM_POWER_ON, [Send (bslit "on %s\n"); Expect (bslit "done")])] 5000000 0
               C07.C07_cfg_ok_example (proj1 C07.C07_nest_ok_example)) as [H1 H2].
    split; [exact H1|]. split; [exact H2|]. split; reflexivity.
Qed.
(* non-vacuity of the hypotheses of C04_no_timerless_wait: the harness world of C07's example device satisfies both invariants *)
Example C04_no_timerless_wait_nonvacuous : HInv C07.ex_compress C07.ex_h0 /\ HInvH C07.ex_compress C07.ex_h0.
Proof.
  split; (constructor; [|constructor]); cbn [fst].
  - exact (proj1 (mk_device_inv C07.ex_compress _ _ _ _ _ C07.C07_cfg_ok_example)).
  - exact (proj1 (mk_device_invH C07.ex_compress _ _ _ _ _ C07.C07_cfg_ok_example (proj1 C07.C07_nest_ok_example))).
Qed.
(* the same device behind a tcp transport (telnet filter active) *)
Definition ex_st_tcp : daemon :=
  mkDaemon [bslit "n1"] [] [bslit "spec"] [false] [C07.ex_dev] [] 1 [] (bslit "2.4") [Telnet.telnet_init].
Example C04_boot_example_tcp : boot C07.ex_compress ex_st_tcp.
Proof. exact C04_boot_example. Qed.
Definition ex_expand (t : text) : option (list text) := Some [t].
Definition ex_join (l : list text) : text := concat l.
Definition ex_rounds : list round :=
  [ mkRound 1000000 true [] [];
    mkRound 1100000 false [mkCin false true false (Some (bslit "on n1" ++ [LF])) None] [];
    mkRound 1200000 false [] [];
    mkRound 7000000 false [] [] ].
Example C04_run_example :
  match dinit ex_st 1000000 [[ConnNow; ConnNow; ConnNow]] with
  | Ok (st1, _) =>
    match drun ex_expand ex_join ex_join (fun l => l) C07.ex_rmatch C07.ex_compress false st1 ex_rounds [] with
    | Ok (st', outs) =>
        match dm_clients st' with
        | [x] => busy (dc x) = false /\ dc_lines x = 1%nat /\
                 (let tail := CP_ERR_COM_COMPLETE ++ CP_PROMPT in
                  skipn (length (cl_out (dc x)) - length tail) (cl_out (dc x)) = tail)
        | _ => False
        end
    | _ => False
    end
  | _ => False
  end.
Proof. vm_compute. split; [reflexivity|]. split; reflexivity. Qed.

(* ... and a run of the tcp variant in which the device sends IAC DO ECHO in front of its reply: the pass is Ok, the filter
   keeps `ok` for the script and the option reply IAC WONT ECHO is written to the device after the queued send *)
Definition pin_rd (b : text) : passin := mkPassin false false false false true (Some b) None true [] None.
Definition pin_wr (n : nat) : passin := mkPassin false false false true false None (Some n) true [] None.
Definition ex_rounds_tcp : list round :=
  [ mkRound 1000000 true [] [pin_wr 100];
    mkRound 1100000 false [mkCin false true false (Some (bslit "on n1" ++ [LF])) None] [pin_rd ([255; 253; 1]%N ++ bslit "ok")];
    mkRound 1200000 false [] [pin_wr 100] ].
Example C04_run_example_tcp :
  match dinit ex_st_tcp 1000000 [[ConnNow; ConnNow; ConnNow]] with
  | Ok (st1, _) =>
    match drun ex_expand ex_join ex_join (fun l => l) C07.ex_rmatch C07.ex_compress false st1 ex_rounds_tcp [] with
    | Ok (st', outs) =>
        map do_evs (skipn 1 outs) = [[SysDev 0 (EvRead 5)]; [SysDev 0 (EvWrote (bslit "login\n" ++ [255; 252; 1]%N))]] /\
        length (dm_clients st') = 1%nat
    | _ => False
    end
  | _ => False
  end.
Proof. vm_compute. split; reflexivity. Qed.

(* ---------------- the hypothesis `boot` is what start-up produces: a daemon whose devices all use SHIPPED specifications
   (etc/devices, t/etc: the data of C17, regenerated from the tree on every run) - any device names, plug lists, transports,
   node / alias tables - satisfies it, so every whole-daemon theorem of this file, of C11, C15 and C20 applies to it with no
   hypothesis left about the configuration (Proofs/SpecBridge.v: shipped_cfg_ok, and shipped_nest_ok for the nesting bound that
   excludes Hang - decided by computation on the regenerated specifications on every run) ---------------- *)
From PM Require Import Gen.GenSpecs Proofs.SpecBridge.
Definition shipped_device (c : text * spec * text * list plug) : device :=
  let '(file, s, name, plugs) := c in mk_device name plugs (sp_scripts s) (sp_timeout s) (sp_ping s).
Theorem C04_shipped_boot : forall compress nodes aliases specs pipes version tel (cfgs : list (text * spec * text * list plug)),
  Forall (fun c => let '(file, s, _, _) := c in In (file, s) all_specs) cfgs ->
  boot compress (mkDaemon nodes aliases specs pipes (map shipped_device cfgs) [] 1 [] version tel).
Proof.
  intros compress nodes aliases specs pipes version tel cfgs H. split; [reflexivity|]. split; [reflexivity|].
  cbn [dm_devs]. induction H as [|[[[file s] name] plugs] r Hin Hr IH]; cbn [map]; constructor; [|exact IH].
  cbn [shipped_device].
  destruct (shipped_invH compress file s name plugs (sp_timeout s) (sp_ping s) Hin) as [H1 H2].
  split; [exact H1|]. split; [exact H2|]. split; reflexivity.
Qed.
Example C04_shipped_boot_nonvacuous :
  match all_specs with
  | (file, s) :: _ => Forall (fun c => let '(f, sp, _, _) := c in In (f, sp) all_specs) [(file, s, bslit "d0", [mkPlug (bslit "1") (Some (bslit "n1"))])]
  | [] => False
  end.
Proof. cbv beta iota delta [all_specs]. constructor; [left; reflexivity|constructor]. Qed.
Print Assumptions C04_shipped_boot.

Print Assumptions C04_daemon_invariant.
Print Assumptions C04_pass_invariant.
Print Assumptions C04_client_stream.
Print Assumptions C04_no_timerless_wait.
Print Assumptions C04_deadline_fixed.
Print Assumptions C04_xpoll_never_infinite.
Print Assumptions C04_xpoll_within_deadline.

(* ---------------- the bounded-time clause (Proofs/DeviceDeadline.v, DaemonDeadline.v) ----------------
   What is TRUE of the code, and proved: a deadline is enforced on the action that is the HEAD of a device's queue when
   _process_action runs; the pass that finds it expired completes it and everything queued behind it (D1); over any run of
   passes in which no connection is established under the queue (`steady`: silent peer, garbage, refused connections, ...)
   everything queued is completed by `bound` = head stamp + span * time-out (D2), and at the level of the whole daemon the
   client then has its terminal reply (D3).
   What is FALSE, and refuted (C04_bounded_time_refuted, finding F41, confirmed on the real device.c): without `steady`
   there is no bound at all - every connection that comes up puts a FRESH login (deadline now + time-out) in front of the
   queue, so a peer that accepts, never answers the login and hangs up before the login's deadline postpones the client's
   action for ever as soon as the device's time-out exceeds the longest reconnect back-off step (60 s; three shipped
   specifications use 100 s).
   The unsteady case is proved below for time-out + latency < 60 s (C04_bounded_time: the back-off table ends the starvation),
   through the select loop with the passes tied to the time-outs they request.
   (* OPEN *)  `quiet_for` (nothing new queued on the devices concerned) is a hypothesis on the run, derived only for runs without
   client input; `dtimely` is an assumption about poll / the scheduler.  Hang (the model's loop fuel) is impossible: DPInv
   carries DInvH (static hypothesis nest_ok: blocks nested at most DMAX = 7 deep; no shipped script nests deeper than 1,
   SpecBridge.shipped_max_depth), so the run ALWAYS returns Ok (C04_pass_invariant, DaemonPending.drun_inv); the hypothesis
   `drun ... = Ok (st', outs)` of C04_bounded_time* only names the result the other hypotheses (dtimely) speak about. *)
From PM Require Import Proofs.DeviceMask Proofs.DeviceDeadline Proofs.DeviceDeadlineEx Proofs.DaemonDeadline.

(* D1: one device's share of one pass, head past its deadline: all queued actions complete in this pass, or the expired
   login was dropped by a disconnect and nothing came back, or a connection was established in this very pass (the pass
   returns in that case too: no Hang under DInvH) *)
Theorem C04_deadline_pass : forall rmatch compress sc now d store tmo pin act0 rest,
  DInvH compress d -> tmo_pos tmo ->
  dv_acts d = act0 :: rest -> hstamp now act0 + dv_timeout d <= now ->
  flushes rmatch compress sc now d store tmo pin
  \/
  (exists d' st' tmo' evs, post_poll_one rmatch compress sc now d store tmo pin = Ok (d', st', tmo', evs) /\
     is_login act0 = true /\ dv_cstate d' <> DEV_CONNECTED /\ completions evs = [] /\ queued d' = queued d /\
     exists a1 r1, rest = a1 :: r1 /\ now < hstamp now a1 + dv_timeout d /\ kept now a1 r1 (dv_acts d'))
  \/
  (exists d3 t3 pl e12 Lf new, pp_front now d tmo pin = Ok (d3, t3, pl, e12) /\ dv_cstate d3 = DEV_CONNECTED /\
     fresh_login Lf /\ pings new /\ dv_acts d3 = Lf :: rw (nolog (act0 :: rest)) ++ new /\
     ((dv_cstate d = DEV_CONNECTING /\ pi_finish_ok pin = true /\ pi_out pin = true) \/ hd ConnFail (pi_plans pin) = ConnNow) /\
     match post_poll_one rmatch compress sc now d store tmo pin with
     | Ok (d', _, _, evs) => completions evs ++ queued d' = queued d
     | _ => False
     end).
Proof. exact deadline_pass_H. Qed.
Print Assumptions C04_deadline_pass.
(* non-vacuity of its hypotheses: the connected device of Proofs/DeviceDeadlineEx.v (login stamped 1 s, time-out 5 s) at 6 s *)
Example C04_deadline_pass_nonvacuous :
  DInvH cp d5 /\ tmo_pos None /\ exists act0 rest, dv_acts d5 = act0 :: rest /\ hstamp 6000000 act0 + dv_timeout d5 <= 6000000.
Proof.
  split; [|split; [exact tmo_pos_none|eexists _, _; split; [vm_compute; reflexivity|vm_compute; discriminate]]].
  apply DInvH_intro; [exact d5_inv|]. split; [|apply nest_b_ok; vm_compute; reflexivity].
  unfold PL, ctx_ok, dep_ok. vm_compute. repeat constructor.
Qed.

(* D2: any run of passes with non-decreasing clocks, nothing appended, no connection established under the queue: once a
   pass happens at or after `bound`, everything that was queued has been completed, in queue order *)
Theorem C04_deadline_reached : forall rmatch compress sc p r d t0 d' evs,
  DInvG compress d -> 0 <= dv_retry_count d -> 0 < dv_timeout d -> stamps_le t0 (dv_acts d) ->
  clocks_from t0 (p :: r) -> Forall (fun p => tmo_pos (p_tmo p)) (p :: r) -> steady_run rmatch compress sc (p :: r) d ->
  passes rmatch compress sc (p :: r) d = Ok (d', evs) ->
  bound (p_now p) d <= last_clock t0 (p :: r) ->
  completions evs = queued d /\ queued d' = [].
Proof. exact deadline_reached. Qed.
Print Assumptions C04_deadline_reached.

(* D3: a whole round of the select loop: if, after the client pass, every device that holds an action of client `id` has
   its head past its deadline and stays steady in this pass, the round leaves `id` with no queued action, no command in
   progress and one terminal reply per request line *)
Theorem C04_answer_by_deadline : forall expand_str ranged_sorted ranged_plain sorted rmatch compress short_circuit st r id,
  DPInv compress st -> NL st -> 1 <= dm_seq st < INT_MAX ->
  (forall st1 e1, cli_post_poll expand_str ranged_sorted ranged_plain sorted st r = Ok (st1, e1) -> due (r_now r) st1 (r_dev r) 0 id) ->
  match dstep expand_str ranged_sorted ranged_plain sorted rmatch compress short_circuit st r with
  | Ok (st', _) => DPInv compress st' /\ ~ In id (qall (dm_devs st')) /\ answered st' id
  | _ => False
  end.
Proof. exact dstep_deadline. Qed.
Print Assumptions C04_answer_by_deadline.

(* F41: without `steady` the conclusion of C04_deadline_reached is false.  Device time-out 100 s; the peer accepts every
   connection at once, never answers the login and hangs up after 61 s, fifty times: 3051 s later - 28 time-outs past the
   bound - client 7's action is still queued, has never been stamped, and nothing has been reported to the client.
   The same history run against the real device.c (props/C04.py, stage bounded-time) gives the same trace. *)
Theorem C04_bounded_time_refuted :
  exists d t0 p r d' evs,
    DInvG cp d /\ 0 <= dv_retry_count d /\ 0 < dv_timeout d /\ stamps_le t0 (dv_acts d) /\
    clocks_from t0 (p :: r) /\ Forall (fun p => tmo_pos (p_tmo p)) (p :: r) /\
    passes rm cp false (p :: r) d = Ok (d', evs) /\
    bound (p_now p) d + 28 * dv_timeout d <= last_clock t0 (p :: r) /\
    queued d = [7] /\ completions evs = [] /\ queued d' = [7] /\
    map (fun a => (a_com a, a_client a, a_stamp a)) (dv_acts d') = [(PM_LOG_IN, 0, Some 3051000000); (PM_POWER_ON, 7, None)].
Proof. exact deadline_unsteady_refuted. Qed.
Print Assumptions C04_bounded_time_refuted.
(* ---------------- bounded time through the select loop (Proofs/DeviceDeadlineBackoff.v, DaemonProgress.v) ----------------
   dtimely sigma: every pass starts no later than `sigma` after the wake-up the previous pass asked poll for (the time-out it
   returned; Model/Xpoll.v: the daemon's own arithmetic adds no lateness, so sigma is poll / scheduler latency only);
   quiet_for id: nothing new is queued on the devices working for client `id` during the run (e.g. no client input at all);
   dev_ready: 0 < time-out, time-out + sigma < the ceiling of the reconnect back-off table (60 s, regenerated from device.c).
   Then, WHATEVER the peers do (flapping included), the client is answered - no action of its command queued any more, no
   command in progress, one terminal line per request line - by the first round whose clock reaches B, where B bounds the
   potential `pot` of each device that works for the client: a function of the device state alone (head stamp, span of the
   queue, back-off steps still below the time-out).  C04_bounded_time_explicit gives B in closed form:
       clock of the first round + (cheap back-off steps left + queue span + 4) * (time-out + sigma). *)
From PM Require Import Proofs.DeviceDeadlineBackoff Proofs.DeviceDeadlineBackoffEx Proofs.DaemonProgress Proofs.DaemonProgressEx.
Theorem C04_bounded_time : forall expand_str ranged_sorted ranged_plain sorted rmatch compress short_circuit sigma, 0 <= sigma ->
  forall id B r rs st st' outs lim t0,
  DPInv compress st -> NL st -> 1 <= dm_seq st -> dm_seq st + Z.of_nat (length (r :: rs)) <= INT_MAX ->
  quiet_for expand_str ranged_sorted ranged_plain sorted rmatch compress short_circuit id (r :: rs) st ->
  drun expand_str ranged_sorted ranged_plain sorted rmatch compress short_circuit st (r :: rs) [] = Ok (st', outs) ->
  dtimely sigma lim t0 (r :: rs) outs ->
  (forall j d, nth_error (dm_devs st) j = Some d -> In id (queued d) -> dev_ready sigma lim t0 d /\ pot sigma (r_now r) d <= B) ->
  B <= last_rclock t0 (r :: rs) ->
  DPInv compress st' /\ ~ In id (qall (dm_devs st')) /\ answered st' id.
Proof. exact daemon_bounded_time. Qed.
Print Assumptions C04_bounded_time.
Theorem C04_bounded_time_explicit : forall expand_str ranged_sorted ranged_plain sorted rmatch compress short_circuit sigma, 0 <= sigma ->
  forall id B r rs st st' outs lim t0,
  DPInv compress st -> NL st -> 1 <= dm_seq st -> dm_seq st + Z.of_nat (length (r :: rs)) <= INT_MAX ->
  quiet_for expand_str ranged_sorted ranged_plain sorted rmatch compress short_circuit id (r :: rs) st ->
  drun expand_str ranged_sorted ranged_plain sorted rmatch compress short_circuit st (r :: rs) [] = Ok (st', outs) ->
  dtimely sigma lim t0 (r :: rs) outs ->
  (forall j d, nth_error (dm_devs st) j = Some d -> In id (queued d) ->
     dev_ready sigma lim t0 d /\
     r_now r + (ncheap (dv_timeout d + sigma) (dv_retry_count d + 1) + Z.of_nat (span (dv_acts d)) + 4) * (dv_timeout d + sigma) <= B) ->
  B <= last_rclock t0 (r :: rs) ->
  DPInv compress st' /\ ~ In id (qall (dm_devs st')) /\ answered st' id.
Proof. exact daemon_bounded_time_explicit. Qed.
Print Assumptions C04_bounded_time_explicit.
(* any time-out, rounds need not be timely: devices that stay steady *)
Theorem C04_bounded_time_steady : forall expand_str ranged_sorted ranged_plain sorted rmatch compress short_circuit sigma, 0 <= sigma ->
  forall id B r rs st st' outs t0,
  DPInv compress st -> NL st -> 1 <= dm_seq st -> dm_seq st + Z.of_nat (length (r :: rs)) <= INT_MAX ->
  quiet_for expand_str ranged_sorted ranged_plain sorted rmatch compress short_circuit id (r :: rs) st ->
  steady_for expand_str ranged_sorted ranged_plain sorted rmatch compress short_circuit id (fun _ => true) (r :: rs) st ->
  drun expand_str ranged_sorted ranged_plain sorted rmatch compress short_circuit st (r :: rs) [] = Ok (st', outs) ->
  dclocks t0 (r :: rs) ->
  (forall j d, nth_error (dm_devs st) j = Some d -> In id (queued d) -> 0 < dv_timeout d /\ stamps_le t0 (dv_acts d) /\ bound (r_now r) d <= B) ->
  B <= last_rclock t0 (r :: rs) ->
  DPInv compress st' /\ ~ In id (qall (dm_devs st')) /\ answered st' id.
Proof. exact daemon_bounded_time_steady. Qed.
Print Assumptions C04_bounded_time_steady.
(* the condition time-out + sigma < 60 s is sharp (F41 refined): with time-out = 60 s, sigma = 0 and perfectly timely passes the
   flapping peer starves the queue for ever (3001 s: nothing reported); same trace on the real device.c *)
Theorem C04_bounded_time_60s_refuted :
  exists d t0 lim p r d' evs,
    DInvG cp d /\ 0 <= dv_retry_count d /\ 0 < dv_timeout d /\ dv_timeout d + 0 = last backoff_table 0 /\ stamps_le t0 (dv_acts d) /\
    clocks_from t0 (p :: r) /\ Forall (fun p => tmo_pos (p_tmo p)) (p :: r) /\
    lim_covers lim d /\ timely_run rm cp false 0 lim (p :: r) d /\
    passes rm cp false (p :: r) d = Ok (d', evs) /\
    last_clock t0 (p :: r) = 3001000000 /\
    queued d = [7] /\ completions evs = [] /\ queued d' = [7] /\
    map (fun a => (a_com a, a_client a, a_stamp a)) (dv_acts d') = [(PM_LOG_IN, 0, Some 3001000000); (PM_POWER_ON, 7, None)].
Proof. exact deadline_60s_refuted. Qed.
Print Assumptions C04_bounded_time_60s_refuted.
(* non-vacuity of C04_bounded_time: Proofs/DaemonProgressEx.daemon_bounded_time_example (the flapping rounds on the 5 s device,
   sigma = 1 ms, B = 36.007 s, dtimely established by computation, the conclusion taken through the theorem) *)

(* non-vacuity of D2 / D3: Proofs/DeviceDeadlineEx.deadline_reached_example (passes at 2, 6, 11 s on a silent device: the bound is
   11 s and the theorem yields the completion) and Proofs/DeviceDeadlineDaemonEx.dstep_deadline_example (this file's example daemon
   in the round at 7 s) *)
Example C04_deadline_nonvacuous :
  exists d' evs, passes rm cp false ps5 d5 = Ok (d', evs) /\ bound 2000000 d5 = 11000000 /\ last_clock 1000000 ps5 = 11000000 /\
                 completions evs = [7] /\ queued d' = [].
Proof. exact deadline_reached_example. Qed.
