(* C04 - under construction: statements arrive with Proofs/DaemonProofs.v *)
From Coq Require Import List NArith ZArith Bool.
From PM Require Import Base.Bytes Base.Outcome Gen.GenConsts Model.Client Model.Device Model.Daemon.
Example C04_take_line : take_line [] (bslit "ab" ++ [LF] ++ bslit "c") = Some (bslit "ab" ++ [LF], bslit "c").
Proof. vm_compute. reflexivity. Qed.
