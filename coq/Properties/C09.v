(* PLACEHOLDER while the pipeline is brought up; replaced by the real statements *)
From PM Require Import Base.Bytes Model.Cbuf Model.Telnet Spec.Fifo Spec.TelnetSpec.
Example C09_pipeline_placeholder : Cbuf.used (Cbuf.flush (Cbuf.mk 0 0 0 0 0 Cbuf.WRAP_MANY false 0 0 0 nil)) = 0%Z.
Proof. reflexivity. Qed.
