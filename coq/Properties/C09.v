(* C09 - scripts see the device's bytes unaltered, in order, once.

   Models:  Model/Cbuf.v   = src/liblsd/cbuf.c (index arithmetic, wrap, cbuf_grow, WRAP_MANY overwrite), tied by R-CBUF
            Model/Telnet.v = _telnet_preprocess (dev, nread) of device_tcp.c (with the F13 repair), _handle_read,
                             _handle_write, _disconnect, _getregex_buf of device.c, tied by R-TEL / R-DEVIO
   Specs:   Spec/Fifo.v       a bounded queue on plain lists (fifo_step / fifo_run)
            Spec/TelnetSpec.v a whole-stream decoder (parse / data / replies)
   Every theorem below is closed under the global context (see the Print Assumptions output). *)
From Coq Require Import List ZArith NArith Bool.
From PM Require Import Base.Bytes Gen.GenConsts Gen.GenCbuf Model.Cbuf Model.Telnet Spec.Fifo Spec.TelnetSpec
  Proofs.CbufInv Proofs.CbufStep Proofs.CbufDelivery
  Proofs.TelnetProofs Proofs.TelnetDevice Proofs.TelnetRun Proofs.TelnetView.
Import ListNotations.
Local Open Scope Z_scope.

(* ================================================================================================ (a) cbuf.c *)
(* For every minsize / maxsize and EVERY list of operations (write, write_from_fd with any short counts / EAGAIN /
   EOF, peek, drop, read, peek_line, read_line, read_to_fd with any short writes / errors, flush, used) on a buffer
   fresh from cbuf_create - across growth (cbuf_grow's relocation of the wrapped tail) and index wrap-around -
   the C predicate cbuf_is_valid holds at the end (hence, ops being arbitrary, after every prefix), `used` is the
   length of the abstract queue, the queue never exceeds max(minsize, maxsize), and every return value, every byte
   delivered and every dropped count is what the list queue Spec/Fifo.v yields. *)
Theorem C09_cbuf_refines : forall mn mx cb0 ops cb outs,
  Cbuf.create mn mx = Some cb0 -> Cbuf.run cb0 ops = (cb, outs) ->
  Cbuf.is_valid cb = true /\ cb_used cb = qlen (Cbuf.abs cb) /\ qlen (Cbuf.abs cb) <= Z.max mn mx
  /\ fifo_run (Z.max mn mx) [] ops outs (Cbuf.abs cb).
Proof. exact cbuf_refines_fifo. Qed.
Print Assumptions C09_cbuf_refines.

(* non-vacuity: a history on a 4..12 byte buffer that grows (4 -> 12), wraps (i_in < i_out with unread data),
   takes a short read from a descriptor, delivers through short writes and overwrites 2 bytes *)
Example C09_cbuf_refines_ex :
  match Cbuf.create 4 12 with
  | Some cb0 =>
      match Cbuf.run cb0 (firstn 7 ex_ops), Cbuf.run cb0 ex_ops with
      | (cb1, _), (cb, outs) =>
          cb_size cb0 = 4 /\ cb_size cb1 = 12 /\ cb_i_in cb1 = 3 /\ cb_i_out cb1 = 1 /\ cb_used cb1 = 2
          /\ Cbuf.abs cb1 = [7; 8]%N
          /\ map o_ret outs = [3; 2; 3; 2; 3; 1; 3; 12; 12; 1; 0; 0]
          /\ map o_dropped outs = [0; 0; 0; 0; 0; 0; 0; 2; 0; 0; 0; 0]
          /\ Cbuf.is_valid cb = true
      end
  | None => False
  end.
Proof. vm_compute. repeat split; reflexivity. Qed.

(* the same from any state that satisfies the representation invariant (Inv = cbuf_is_valid + the array has size+1
   slots + alloc = size + overhead; mode WRAP_MANY, the only one powerman uses) *)
Theorem C09_cbuf_refines_from : forall ops cb cb' outs,
  Rep cb -> Cbuf.run cb ops = (cb', outs) ->
  Rep cb' /\ cb_maxsize cb' = cb_maxsize cb /\ fifo_run (cb_maxsize cb) (Cbuf.abs cb) ops outs (Cbuf.abs cb').
Proof. exact run_refines. Qed.
Print Assumptions C09_cbuf_refines_from.

Example C09_cbuf_refines_from_ex : exists cb, Cbuf.create 1024 65536 = Some cb /\ Rep cb.
Proof. eexists. split; [reflexivity|]. eapply (create_Rep 1024 65536). reflexivity. Qed.

(* while used + n <= maxsize a write loses nothing: the lost-byte counter is 0 and the queue is extended *)
Theorem C09_no_loss_within_capacity : forall cb bs cb' n d,
  Rep cb -> cb_used cb + zlen bs <= cb_maxsize cb -> Cbuf.write cb bs = (cb', n, d) ->
  Rep cb' /\ n = zlen bs /\ d = 0 /\ Cbuf.abs cb' = Cbuf.abs cb ++ bs.
Proof. exact write_within_capacity. Qed.
Print Assumptions C09_no_loss_within_capacity.

(* ... and a read from the descriptor appends exactly the bytes w that left the descriptor *)
Theorem C09_no_loss_from_fd : forall cb fd len cb' n d fd',
  Rep cb -> Cbuf.write_from_fd cb fd len = (cb', n, d, fd') ->
  exists w, fd_bytes fd = w ++ fd_bytes fd' /\ Rep cb' /\ (0 < zlen w -> n = zlen w) /\ (zlen w = 0 -> n <= 0)
    /\ (cb_used cb + zlen w <= cb_maxsize cb -> d = 0 /\ Cbuf.abs cb' = Cbuf.abs cb ++ w).
Proof. exact write_from_fd_within_capacity. Qed.
Print Assumptions C09_no_loss_from_fd.

Example C09_no_loss_ex :
  match Cbuf.create 4 12 with
  | Some cb0 =>
      match Cbuf.write cb0 [1;2;3]%N with
      | (cb1, n1, d1) =>
          match Cbuf.drop cb1 2 with
          | (cb2, _) =>
              match Cbuf.write_from_fd cb2 [FdData [4;5;6;7;8;9]%N] 6 with
              | (cb3, n3, d3, fd') =>
                  n1 = 3 /\ d1 = 0 /\ n3 = 6 /\ d3 = 0 /\ fd' = [] /\ Cbuf.abs cb3 = [3;4;5;6;7;8;9]%N
                  /\ (cb_used cb2 + 6 <=? cb_maxsize cb2) = true /\ cb_size cb2 = 4 /\ cb_size cb3 = 12
              end
          end
      end
  | None => False
  end.
Proof. vm_compute. repeat split; reflexivity. Qed.

(* ============================================================================== (b) in order, exactly once *)
(* Ledger of a history (Proofs/CbufDelivery.v): lg_in = every byte that entered the buffer since the last flush
   (cbuf_write: the caller's bytes; cbuf_write_from_fd: the bytes that left the descriptor), lg_out = every byte
   that left it to a consumer (read, read_to_fd: the bytes delivered; drop / read_line: the bytes a peek shows
   just before), lg_lost = sum of the *ndropped reports.  For every history, whatever the descriptors' short
   counts: while nothing was reported lost,  delivered ++ unread = entered. *)
Theorem C09_delivery : forall mn mx cb0 ops cb lg,
  Cbuf.create mn mx = Some cb0 -> lrun cb0 (mkLg [] [] 0) ops = (cb, lg) ->
  0 <= lg_lost lg /\ (lg_lost lg = 0 -> lg_out lg ++ Cbuf.abs cb = lg_in lg).
Proof. exact delivery_in_order_once. Qed.
Print Assumptions C09_delivery.

Example C09_delivery_ex :
  match Cbuf.create 4 12 with
  | Some cb0 =>
      match lrun cb0 (mkLg [] [] 0) (firstn 7 ex_ops) with
      | (cb, lg) => lg = mkLg [1;2;3;4;5;6;7;8]%N [1;2;3;4;5;6]%N 0 /\ Cbuf.abs cb = [7;8]%N
      end
  | None => False
  end.
Proof. vm_compute. repeat split; reflexivity. Qed.

Theorem C09_delivery_from : forall cb lg ops cb' lg',
  Rep cb -> lg_out lg ++ Cbuf.abs cb = lg_in lg -> lrun cb lg ops = (cb', lg') ->
  lg_lost lg <= lg_lost lg' /\ (lg_lost lg' = lg_lost lg -> lg_out lg' ++ Cbuf.abs cb' = lg_in lg').
Proof. exact delivery_from. Qed.
Print Assumptions C09_delivery_from.

Example C09_delivery_from_ex :
  match Cbuf.create 4 12 with
  | Some cb0 =>
      match Cbuf.write cb0 [1;2;3]%N with
      | (cb, _, _) => lg_out (mkLg [1;2;3]%N [] 0) ++ Cbuf.abs cb = lg_in (mkLg [1;2;3]%N [] 0)
      end
  | None => False
  end.
Proof. vm_compute. reflexivity. Qed.

(* the write side (daemon -> device, daemon -> client): text queued with cbuf_write and flushed by
   cbuf_read_to_fd under ARBITRARY accept scripts (short writes, EAGAIN/-1, zero) reaches the descriptor exactly
   once and in order; what has not been accepted yet is still queued *)
Theorem C09_write_side : forall mn mx cb0 ops cb outs,
  Cbuf.create mn mx = Some cb0 -> forallb is_write_side ops = true -> Cbuf.run cb0 ops = (cb, outs) ->
  qlen (queued ops) <= Z.max mn mx ->
  accepted outs ++ Cbuf.abs cb = queued ops.
Proof. exact write_side_in_order_once. Qed.
Print Assumptions C09_write_side.

Example C09_write_side_ex :
  match Cbuf.create 4 12 with
  | Some cb0 =>
      match Cbuf.run cb0 [OWrite [1;2;3;4;5]%N; OReadFd [2; -1; 1] (-1); OWrite [6;7;8;9]%N; OReadFd [0] (-1); OReadFd [3;100] (-1); OReadFd [] (-1)] with
      | (cb, outs) =>
          map o_ret outs = [5; 2; 4; 0; 3; 4] /\ accepted outs = [1;2;3;4;5;6;7;8;9]%N /\ Cbuf.abs cb = []
      end
  | None => False
  end.
Proof. vm_compute. repeat split; reflexivity. Qed.

(* ==================================================================================== (c) the telnet filter *)
(* the specification decoder is compositional (so "independent of the split into reads" is true of it by
   construction) and, started in DNone, is the whole-stream grammar TelnetSpec.parse *)
Theorem C09_telnet_spec_compositional : forall a st b,
  decode st (a ++ b) =
  match decode st a with
  | (st1, d1, a1) => match decode st1 b with (st2, d2, a2) => (st2, d1 ++ d2, a1 ++ a2) end
  end.
Proof. exact decode_app. Qed.
Print Assumptions C09_telnet_spec_compositional.

Example C09_telnet_spec_ex :
  parse [97; 255; 255; 255; 253; 3; 98; 255; 241; 0; 255; 253; 24; 255]%N
  = ([97; 255; 98; 0]%N, [255; 251; 3; 255; 252; 24]%N).
Proof. reflexivity. Qed.

(* _telnet_preprocess (dev, nread) on the level of buffer contents: for EVERY way of cutting a stream into reads
   and EVERY interleaved consumption by expects, what was consumed followed by what is still unread is the data
   of the whole stream (IAC sequences removed, IAC IAC -> 0xFF) and the queued answers are its replies *)
Theorem C09_telnet_filter : forall evs,
  let s := fold_left lstep evs linit in
  l_consumed s ++ l_content s = data (stream_of evs) /\ l_replies s = replies (stream_of evs).
Proof. exact telnet_all_chunkings. Qed.
Print Assumptions C09_telnet_filter.

Theorem C09_telnet_chunking_independent : forall evs1 evs2,
  stream_of evs1 = stream_of evs2 ->
  let s1 := fold_left lstep evs1 linit in
  let s2 := fold_left lstep evs2 linit in
  l_consumed s1 ++ l_content s1 = l_consumed s2 ++ l_content s2 /\ l_replies s1 = l_replies s2.
Proof. exact telnet_chunking_independent. Qed.
Print Assumptions C09_telnet_chunking_independent.

Example C09_telnet_chunking_independent_ex :
  let e1 := [Read [255]%N; Read [255; 120]%N; Consume 1; Read [0; 255]%N; Read [253]%N; Read [3; 121]%N] in
  let e2 := [Read [255; 255; 120; 0; 255; 253; 3; 121]%N; Consume 3] in
  stream_of e1 = stream_of e2
  /\ (let s := fold_left lstep e1 linit in (l_consumed s, l_content s, l_replies s)) = ([255]%N, [120; 0; 121]%N, [255; 251; 3]%N)
  /\ (let s := fold_left lstep e2 linit in (l_consumed s, l_content s, l_replies s)) = ([255; 120; 0]%N, [121]%N, [255; 251; 3]%N).
Proof. vm_compute. repeat split; reflexivity. Qed.

(* the two F13 witnesses, on the repaired filter: (i) a restored 0xFF is not read again as IAC by the next pass;
   (ii) a command split across reads is not applied to old unread bytes *)
Example C09_telnet_filter_ex :
  (let s := fold_left lstep [Read [255; 255; 120]%N; Read [121]%N] linit in
   l_content s = [255; 120; 121]%N /\ l_replies s = [])
  /\ (let s := fold_left lstep [Read [97; 98; 99; 255]%N; Read [253; 1]%N; Consume 2; Read [122]%N] linit in
      l_consumed s = [97; 98]%N /\ l_content s = [99; 122]%N /\ l_replies s = [255; 252; 1]%N).
Proof. vm_compute. repeat split; reflexivity. Qed.

(* the same on a Device with REAL circular buffers (dev->from, dev->to), POLLIN events whose descriptor returns
   whatever it returns (full, short, EAGAIN, EOF), consumption by expects and POLLOUT events with short writes:
   while the unconsumed data and the unanswered replies stay within capacity (r_within), consumed ++ unread is the
   decoding of exactly the bytes taken from the descriptor, delivered ++ queued are its replies, and the filter
   never saw a short cbuf_write / cbuf_drop *)
Theorem C09_telnet : forall mn mx d evs,
  dev_create mn mx = Some d -> Z.max mn mx <= MAX_DEV_BUF ->
  let st := fold_left rstep evs (rinit d) in
  r_within st = true ->
  r_consumed st ++ Cbuf.abs (d_from (r_dev st)) = data (r_taken st)
  /\ r_delivered st ++ Cbuf.abs (d_to (r_dev st)) = replies (r_taken st)
  /\ d_errs (r_dev st) = 0.
Proof. exact telnet_device_run. Qed.
Print Assumptions C09_telnet.

Example C09_telnet_ex :
  match dev_create 8 32 with
  | Some d =>
      let st := fold_left rstep ex_evs (rinit d) in
      (Z.max 8 32 <=? MAX_DEV_BUF) = true
      /\ r_within st = true /\ r_taken st = [97; 255; 255; 255; 253; 3; 98; 0; 255]%N
      /\ r_consumed st = [97]%N /\ Cbuf.abs (d_from (r_dev st)) = [255; 98; 0]%N
      /\ r_delivered st = [255; 251]%N /\ Cbuf.abs (d_to (r_dev st)) = [3]%N
      /\ t_state (d_tcp (r_dev st)) = TELNET_CMD
  | None => False
  end.
Proof. vm_compute. repeat split; reflexivity. Qed.

(* the buffers dev_create really makes (cbuf_create (MIN_DEV_BUF, MAX_DEV_BUF), constants regenerated from device.c)
   satisfy the size hypothesis: the static peek[] / device[] arrays of _telnet_preprocess hold a full buffer *)
Example C09_telnet_real_sizes :
  (exists d, dev_create MIN_DEV_BUF MAX_DEV_BUF = Some d) /\ Z.max MIN_DEV_BUF MAX_DEV_BUF <= MAX_DEV_BUF.
Proof. split; [eexists; reflexivity | vm_compute; discriminate]. Qed.

(* ====================================================================== (d) NUL presentation and reconnects *)
(* _getregex_buf matches against the whole unread content with every NUL shown as 0xFF (nothing else changed,
   same length), matches nothing on an empty buffer, and a match ending at offset m consumes the first m bytes *)
Theorem C09_nul : forall b, Inv b ->
  regex_subject b = if cb_used b =? 0 then None else Some (nul_to_ff (Cbuf.abs b)).
Proof. exact regex_subject_spec. Qed.
Print Assumptions C09_nul.

Theorem C09_nul_pointwise : forall q i, (i < length q)%nat ->
  length (nul_to_ff q) = length q
  /\ nth i (nul_to_ff q) 0%N = (if N.eqb (nth i q 0%N) 0 then 255%N else nth i q 0%N).
Proof. exact nul_to_ff_pointwise. Qed.
Print Assumptions C09_nul_pointwise.

Theorem C09_consume : forall b m b' r, Inv b -> 0 <= m <= cb_used b -> regex_consume b m = (b', r) ->
  Inv b' /\ r = m /\ Cbuf.abs b' = fifo_drop (Cbuf.abs b) m /\ cb_used b' = cb_used b - m.
Proof. exact regex_consume_spec. Qed.
Print Assumptions C09_consume.

Example C09_nul_ex :
  match Cbuf.create 4 12 with
  | Some cb0 =>
      match Cbuf.write cb0 [111; 0; 107; 255; 0]%N with
      | (cb, _, _) =>
          match regex_consume cb 3 with
          | (cb', r) =>
              regex_subject cb = Some [111; 255; 107; 255; 255]%N /\ r = 3
              /\ regex_subject cb' = Some [255; 255]%N /\ regex_subject cb0 = None
          end
      end
  | None => False
  end.
Proof. vm_compute. repeat split; reflexivity. Qed.

(* two connections in a row, the FIRST ONE ARBITRARY (it may overflow the buffers, end in the middle of a telnet
   command, leave unread data and unsent replies): after _disconnect (flush of both buffers) and the next connect
   (_telnet_init) a script sees exactly the decoding of the bytes of the second connection, nothing else *)
Theorem C09_reconnect : forall mn mx d0 evs1 evs2,
  dev_create mn mx = Some d0 -> Z.max mn mx <= MAX_DEV_BUF ->
  let st1 := fold_left rstep evs1 (rinit d0) in
  let st2 := fold_left rstep evs2 (rinit (disconnect (r_dev st1))) in
  r_within st2 = true ->
  r_consumed st2 ++ Cbuf.abs (d_from (r_dev st2)) = data (r_taken st2)
  /\ r_delivered st2 ++ Cbuf.abs (d_to (r_dev st2)) = replies (r_taken st2)
  /\ d_errs (r_dev st2) = d_errs (r_dev st1).
Proof. exact telnet_reconnect. Qed.
Print Assumptions C09_reconnect.

Theorem C09_reconnect_clears : forall d, DevInv d ->
  let d' := connected (disconnect d) in
  Cbuf.abs (d_from d') = [] /\ Cbuf.abs (d_to d') = [] /\ cb_used (d_from d') = 0 /\ cb_used (d_to d') = 0
  /\ d_tcp d' = telnet_init /\ regex_subject (d_from d') = None.
Proof. exact reconnect_clears. Qed.
Print Assumptions C09_reconnect_clears.

Example C09_reconnect_clears_ex :
  exists d0, dev_create 8 32 = Some d0 /\
    let d := r_dev (fold_left rstep ex_evs (rinit d0)) in
    DevInv d /\ Cbuf.abs (d_from d) = [255; 98; 0]%N /\ Cbuf.abs (d_to d) = [3]%N.
Proof.
  eexists. split; [reflexivity|]. cbv zeta. split.
  - apply rrun_DevInv. apply (dev_create_spec 8 32); [reflexivity | vm_compute; discriminate].
  - vm_compute. split; reflexivity.
Qed.

(* non-vacuity: the first connection ends with unread data, an unsent reply and a pending IAC; the second one
   starts with a byte (DO = 253) that would be read as a command if the state had survived *)
Example C09_reconnect_ex :
  match dev_create 8 32 with
  | Some d =>
      let st1 := fold_left rstep ex_evs (rinit d) in
      let st2 := fold_left rstep [DRead [FdData [253; 3; 107]%N]] (rinit (disconnect (r_dev st1))) in
      Cbuf.abs (d_from (r_dev st1)) = [255; 98; 0]%N /\ Cbuf.abs (d_to (r_dev st1)) = [3]%N
      /\ t_state (d_tcp (r_dev st1)) = TELNET_CMD
      /\ r_within st2 = true /\ Cbuf.abs (d_from (r_dev st2)) = [253; 3; 107]%N /\ Cbuf.abs (d_to (r_dev st2)) = []
  | None => False
  end.
Proof. vm_compute. repeat split; reflexivity. Qed.

(* ------------------------------------------------------------------------------------------------------------------
   Bridge to the whole-daemon model (Proofs/DaemonCbuf.v): the client buffers of Model/Daemon.v (c->to and c->from,
   cbuf_create(MIN_CLIENT_BUF, MAX_CLIENT_BUF), default policy) are written by Daemon.cbuf_put, which IS the write step of
   the abstract queue of this file's refinement theorem with capacity MAX_CLIENT_BUF; its overflow flag (after which the
   daemon-level stream theorem C15_daemon_streams stops speaking about that client) is "the queue dropped something". *)
From PM Require Import Model.Daemon Proofs.DaemonCbuf.
Theorem C09_client_buffers_are_cbufs : forall buf new,
  cbuf_put buf new = (fifo_write MAX_CLIENT_BUF buf new, (0 <? fifo_dropped MAX_CLIENT_BUF buf new)%Z).
Proof. exact cbuf_put_is_fifo_write. Qed.
Print Assumptions C09_client_buffers_are_cbufs.
Example C09_client_buffers_nonvacuous : cbuf_put [1; 2; 3]%N [4; 5]%N = ([1; 2; 3; 4; 5]%N, false).
Proof. vm_compute. reflexivity. Qed.
(* ... and the device buffers of Model/Script.v / Model/Device.v (process_send, the telnet replies, _handle_read): *)
Theorem C09_device_buffers_are_cbufs : forall q bs,
  Script.lastn (Z.to_nat MAX_DEV_BUF) (q ++ bs) = fifo_write MAX_DEV_BUF q bs.
Proof. intros q bs. apply lastn_is_fifo_write. discriminate. Qed.
Print Assumptions C09_device_buffers_are_cbufs.
