(* C08 - device scripts execute exactly as written.
   Statements only; proofs in Proofs/ScriptProofs.v.  The model (Model/Script.v, Model/Device.v) is tied to
   device.c by the exact differential R-DEV (props/C08.py): every callback, written byte, time-out, queue,
   exec stack, buffer and Arg is compared after every pass.

   (* OPEN *) C08_refines: the whole-run statement "the observation trace of an action is a derivation of the
   inductive trace semantics of its script" (DESIGN §5 C08, A.5) is NOT proved; what is proved are the
   statement-level laws below, from which program order follows statement by statement because the machine
   only moves from a statement to its successor through [advance] after [fin = true] (by construction of
   Device.process_action). *)
From Coq Require Import List NArith ZArith Bool.
From PM Require Import Base.Bytes Base.Outcome Gen.GenConsts Model.ScriptAst Model.Enqueue Model.Script Proofs.ScriptProofs.
Import ListNotations.
Local Open Scope Z_scope.

(* `%s` stands for the configured name of the single plug, or for the compressed list of exactly the context's
   plug names (ranged scripts), or for nothing when the context has no plug *)
Theorem C08_send_argument : forall (compress : list text -> text) (e : ctx),
  send_arg compress e =
    match c_plugs e with
    | Some [p] => Some (pl_name p)
    | Some ((p :: _ :: _) as ps) => Some (compress (map pl_name ps))
    | _ => None
    end.
Proof. exact send_arg_spec. Qed.

(* the bytes queued are the format with the argument substituted for %s (%% -> %), nothing else *)
Theorem C08_send_format : forall fmt a str : text, hsprintf1 fmt (Some a) = Some str -> str = subst_spec fmt a.
Proof. exact hsprintf1_spec. Qed.

(* a send queues its string exactly once, on the first visit, behind what is already queued, and does not touch
   unread device input; it finishes when the queue is empty *)
Theorem C08_send_once : forall (rmatch : text -> text -> option pmatch) (compress : list text -> text) now d a store e rest fmt fin d' a' store' evs,
  process_send compress now d a store e rest fmt = Ok (fin, d', a', store', evs) ->
  (c_processing e = false -> (length (sd_to d) <= Z.to_nat MAX_DEV_BUF)%nat ->
     exists str, hsprintf1 fmt (send_arg compress e) = Some str
       /\ sd_to d' = lastn (Z.to_nat MAX_DEV_BUF) (sd_to d ++ str)           (* the 64 KiB queue overwrites its oldest bytes *)
       /\ ((length (sd_to d ++ str) <= Z.to_nat MAX_DEV_BUF)%nat -> sd_to d' = sd_to d ++ str)
       /\ sd_from d' = sd_from d
       /\ In (EvSent str) evs /\ store' = store /\ fin = match sd_to d' with [] => true | _ => false end)
  /\ (c_processing e = true ->
     d' = d /\ evs = [] /\ store' = store /\ fin = match sd_to d with [] => true | _ => false end).
Proof.
  intros rmatch compress now d a store e rest fmt fin d' a' store' evs H. split; intros Hp.
  - intros Hcap. exact (process_send_first rmatch compress now d a store e rest fmt fin d' a' store' evs Hp Hcap H).
  - exact (process_send_again rmatch compress now d a store e rest fmt fin d' a' store' evs Hp H).
Qed.

(* an expect finishes only on a match against the unread device bytes (NUL shown as 0xFF) and then consumes
   exactly the bytes up to the end of the match; otherwise the buffer is untouched; it never sends *)
Theorem C08_expect : forall (rmatch : text -> text -> option pmatch) now d a store re fin d' a' store' evs,
  process_expect rmatch now d a store re = Ok (fin, d', a', store', evs) ->
  a' = a /\ store' = store /\ sd_to d' = sd_to d /\
  (fin = true -> exists pm so eo, rmatch re (nul_to_ff (sd_from d)) = Some pm /\ nth_error pm 0 = Some (Some (so, eo)) /\
       sd_from d' = skipn eo (sd_from d) /\ sd_xm d' = Some (nul_to_ff (sd_from d), pm) /\ sd_xm_used d' = true) /\
  (fin = false -> sd_from d' = sd_from d).
Proof. exact process_expect_spec. Qed.

(* a delay lasts at least its stated time, measured from its first visit (unless delays are short-circuited: -Y) *)
Theorem C08_delay : forall sc now d a store e rest usec fin d' a' store' evs dt,
  process_delay sc now d a store e rest usec = Ok (fin, d', a', store', evs, dt) ->
  d' = d /\ store' = store /\
  (fin = true -> sc = true \/ (if c_processing e then a_delay_start a else now) + usec <= now) /\
  (c_processing e = false -> a_delay_start a' = now) /\
  (c_processing e = true -> a_delay_start a' = a_delay_start a).
Proof. exact process_delay_spec. Qed.

(* the foreach iterator visits the plugs of its list once each, in list order *)
Theorem C08_foreach_order : forall (l : list plug) (fuel i : nat),
  (length l - i < fuel)%nat -> (i <= length l)%nat -> enumerate fuel false l i = skipn i l.
Proof. exact enumerate_all. Qed.

(* setplugstate / setresult: the FIRST matching pattern decides *)
Theorem C08_first_interpretation : forall (rmatch : text -> text -> option pmatch) interps str dflt,
  first_interp rmatch interps str dflt =
    match find (fun cr : Z * text => rtest rmatch (snd cr) str) interps with Some (code, _) => code | None => dflt end.
Proof. exact first_interp_spec. Qed.

(* ifon / ifoff: the body runs, with the same plug list, exactly when the plug's recorded state is the wanted
   one; an unknown state fails the action; otherwise the block is skipped; on return the statement is finished *)
Theorem C08_ifonoff : forall d a store e rest want body,
  (c_processing e = false ->
   process_ifonoff d a store e rest want body =
     (let st := plug_state store a e in
      let cond := want && (st =? ST_ON) || negb want && (st =? ST_OFF) in
      let a1 := if negb cond && (st =? ST_UNKNOWN) then set_err ACT_EEXPFAIL a else a in
      if cond
      then Ok (true, d, set_exec (new_ctx body (match c_plugs e with Some ps => Some ps | None => Some [] end)
                                   :: set_processing true e :: rest) a1, store, [])
      else Ok (true, d, a1, store, [])))
  /\ (c_processing e = true ->
      process_ifonoff d a store e rest want body = Ok (true, d, put_top (set_processing false e) rest a, store, [])).
Proof.
  intros. split; [apply process_ifonoff_closed | apply process_ifonoff_return].
Qed.

(* telemetry escaping (dbg_memstr): at most 4 output bytes per byte, only printable ASCII *)
Theorem C08_memstr : forall t : text, (length (memstr t) <= 4 * length t)%nat /\ Forall (fun c => is_print c = true) (memstr t).
Proof. intros t. split; [apply memstr_len | apply memstr_printable]. Qed.

(* non-vacuity *)
Example C08_memstr_example : memstr [13; 10; 9; 65; 0; 200; 255]%N = bslit "\r\n\tA\000\310\377".
Proof. vm_compute. reflexivity. Qed.
Example C08_format_example : hsprintf1 (bslit "on %s 100%%") (Some (bslit "p[1-3]")) = Some (bslit "on p[1-3] 100%").
Proof. vm_compute. reflexivity. Qed.
Example C08_format_ub_example : hsprintf1 (bslit "on %d") (Some (bslit "p1")) = None /\ hsprintf1 (bslit "%s %s") (Some (bslit "p1")) = None.
Proof. vm_compute. split; reflexivity. Qed.

Print Assumptions C08_send_argument. Print Assumptions C08_send_format. Print Assumptions C08_send_once.
Print Assumptions C08_expect. Print Assumptions C08_delay. Print Assumptions C08_foreach_order.
Print Assumptions C08_first_interpretation. Print Assumptions C08_ifonoff. Print Assumptions C08_memstr.
