(* C08 - device scripts execute exactly as written.
   Statements only; proofs in Proofs/ScriptProofs.v.  The model (Model/Script.v, Model/Device.v) is tied to
   device.c by the exact differential R-DEV (props/C08.py): every callback, written byte, time-out, queue,
   exec stack, buffer and Arg is compared after every pass.

   Whole run (second half of the file): C08_refines - every run of a freshly created action through any
   schedule of passes, device bytes and clock steps is total (never Abort / Hang: the do..while fuel 8 suffices for
   scripts of at most 8 nesting levels) and its observations are a derivation of the independent trace
   semantics Spec/ScriptSem.v of the script (complete, failed, or cut = prefix); C08_fresh_start - the same for
   every reachable action after _rewind_action (F9 repaired), C08_fresh_start_same - the rewound action behaves
   exactly like a freshly created one; C08_delays, C08_program_order - what the semantics says about every trace;
   C08_device_round - the round of Device.pa_step is the step of the run.  Proofs in Proofs/ScriptRefine.v,
   ScriptSim.v, ScriptRun.v, ScriptRewind.v, ScriptDevice.v. *)
From Coq Require Import List NArith ZArith Bool.
From PM Require Import Base.Bytes Base.Outcome Gen.GenConsts Model.ScriptAst Model.Enqueue Model.Script Model.Device Spec.ScriptSem
  Proofs.ScriptProofs Proofs.ScriptRefine Proofs.ScriptSim Proofs.ScriptRun Proofs.ScriptDevice.
Import ListNotations.
Local Open Scope Z_scope.

(* `%s` stands for the configured name of the single plug, or for the compressed list of exactly the context's
   plug names (ranged scripts), or for nothing when the context has no plug *)
Theorem C08_send_argument : forall (compress : list text -> text) (e : ctx),
  send_arg compress e =
    match c_plugs e with
    | Some [p] => Some (pl_name p)
    | Some ((p :: _ :: _) as ps) => Some (compress (map pl_name ps))
    | _ => None
    end.
Proof. exact send_arg_spec. Qed.

(* the bytes queued are the format with the argument substituted for %s (%% -> %), nothing else *)
Theorem C08_send_format : forall fmt a str : text, hsprintf1 fmt (Some a) = Some str -> str = subst_spec fmt a.
Proof. exact hsprintf1_spec. Qed.

(* a send queues its string exactly once, on the first visit, behind what is already queued, and does not touch
   unread device input; it finishes when the queue is empty *)
Theorem C08_send_once : forall (rmatch : text -> text -> option pmatch) (compress : list text -> text) now d a store e rest fmt fin d' a' store' evs,
  process_send compress now d a store e rest fmt = Ok (fin, d', a', store', evs) ->
  (c_processing e = false -> (length (sd_to d) <= Z.to_nat MAX_DEV_BUF)%nat ->
     exists str, hsprintf1 fmt (send_arg compress e) = Some str
       /\ sd_to d' = lastn (Z.to_nat MAX_DEV_BUF) (sd_to d ++ str)           (* the 64 KiB queue overwrites its oldest bytes *)
       /\ ((length (sd_to d ++ str) <= Z.to_nat MAX_DEV_BUF)%nat -> sd_to d' = sd_to d ++ str)
       /\ sd_from d' = sd_from d
       /\ In (EvSent str) evs /\ store' = store /\ fin = match sd_to d' with [] => true | _ => false end)
  /\ (c_processing e = true ->
     d' = d /\ evs = [] /\ store' = store /\ fin = match sd_to d with [] => true | _ => false end).
Proof.
  intros rmatch compress now d a store e rest fmt fin d' a' store' evs H. split; intros Hp.
  - intros Hcap. exact (process_send_first rmatch compress now d a store e rest fmt fin d' a' store' evs Hp Hcap H).
  - exact (process_send_again rmatch compress now d a store e rest fmt fin d' a' store' evs Hp H).
Qed.

(* an expect finishes only on a match against the unread device bytes (NUL shown as 0xFF) and then consumes
   exactly the bytes up to the end of the match; otherwise the buffer is untouched; it never sends *)
Theorem C08_expect : forall (rmatch : text -> text -> option pmatch) now d a store re fin d' a' store' evs,
  process_expect rmatch now d a store re = Ok (fin, d', a', store', evs) ->
  a' = a /\ store' = store /\ sd_to d' = sd_to d /\
  (fin = true -> exists pm so eo, rmatch re (nul_to_ff (sd_from d)) = Some pm /\ nth_error pm 0 = Some (Some (so, eo)) /\
       sd_from d' = skipn eo (sd_from d) /\ sd_xm d' = Some (nul_to_ff (sd_from d), pm) /\ sd_xm_used d' = true) /\
  (fin = false -> sd_from d' = sd_from d).
Proof. exact process_expect_spec. Qed.

(* a delay lasts at least its stated time, measured from its first visit (unless delays are short-circuited: -Y) *)
Theorem C08_delay : forall sc now d a store e rest usec fin d' a' store' evs dt,
  process_delay sc now d a store e rest usec = Ok (fin, d', a', store', evs, dt) ->
  d' = d /\ store' = store /\
  (fin = true -> sc = true \/ (if c_processing e then a_delay_start a else now) + usec <= now) /\
  (c_processing e = false -> a_delay_start a' = now) /\
  (c_processing e = true -> a_delay_start a' = a_delay_start a).
Proof. exact process_delay_spec. Qed.

(* the foreach iterator visits the plugs of its list once each, in list order *)
Theorem C08_foreach_order : forall (l : list plug) (fuel i : nat),
  (length l - i < fuel)%nat -> (i <= length l)%nat -> enumerate fuel false l i = skipn i l.
Proof. exact enumerate_all. Qed.

(* setplugstate / setresult: the FIRST matching pattern decides *)
Theorem C08_first_interpretation : forall (rmatch : text -> text -> option pmatch) interps str dflt,
  first_interp rmatch interps str dflt =
    match find (fun cr : Z * text => rtest rmatch (snd cr) str) interps with Some (code, _) => code | None => dflt end.
Proof. exact first_interp_spec. Qed.

(* ifon / ifoff: the body runs, with the same plug list, exactly when the plug's recorded state is the wanted
   one; an unknown state fails the action; otherwise the block is skipped; on return the statement is finished *)
Theorem C08_ifonoff : forall d a store e rest want body,
  (c_processing e = false ->
   process_ifonoff d a store e rest want body =
     (let st := plug_state store a e in
      let cond := want && (st =? ST_ON) || negb want && (st =? ST_OFF) in
      let a1 := if negb cond && (st =? ST_UNKNOWN) then set_err ACT_EEXPFAIL a else a in
      if cond
      then Ok (true, d, set_exec (new_ctx body (match c_plugs e with Some ps => Some ps | None => Some [] end)
                                   :: set_processing true e :: rest) a1, store, [])
      else Ok (true, d, a1, store, [])))
  /\ (c_processing e = true ->
      process_ifonoff d a store e rest want body = Ok (true, d, put_top (set_processing false e) rest a, store, [])).
Proof.
  intros. split; [apply process_ifonoff_closed | apply process_ifonoff_return].
Qed.

(* telemetry escaping (dbg_memstr): at most 4 output bytes per byte, only printable ASCII *)
Theorem C08_memstr : forall t : text, (length (memstr t) <= 4 * length t)%nat /\ Forall (fun c => is_print c = true) (memstr t).
Proof. intros t. split; [apply memstr_len | apply memstr_printable]. Qed.

(* non-vacuity *)
Example C08_memstr_example : memstr [13; 10; 9; 65; 0; 200; 255]%N = bslit "\r\n\tA\000\310\377".
Proof. vm_compute. reflexivity. Qed.
Example C08_format_example : hsprintf1 (bslit "on %s 100%%") (Some (bslit "p[1-3]")) = Some (bslit "on p[1-3] 100%").
Proof. vm_compute. reflexivity. Qed.
Example C08_format_ub_example : hsprintf1 (bslit "on %d") (Some (bslit "p1")) = None /\ hsprintf1 (bslit "%s %s") (Some (bslit "p1")) = None.
Proof. vm_compute. split; reflexivity. Qed.

Print Assumptions C08_send_argument. Print Assumptions C08_send_format. Print Assumptions C08_send_once.
Print Assumptions C08_expect. Print Assumptions C08_delay. Print Assumptions C08_foreach_order.
Print Assumptions C08_first_interpretation. Print Assumptions C08_ifonoff. Print Assumptions C08_memstr.

(* ================= whole run ================= *)

(* C08_refines.  Hypotheses: what the parser and dev_enqueue_actions guarantee - [bwf]: blocks are not empty and
   every send format is one hsprintf is defined on (at most one %s, otherwise only %%; C17 / C18); at most 8 nesting
   levels (the model's do..while fuel); ranged commands carry a plug list; requests with an argument table have a
   diagnostics callback.  Nothing is assumed about the device state d0, the device's bytes or the regex oracle.
   [ins] is ANY schedule: before every round the device may deliver bytes, accept any part of the queued bytes, and
   the clock may move (ScriptSim.env_step); a round is the inner do..while of _process_action followed by advance.
   Conclusion: the run is total (never Abort / Hang: fuel 8 is enough), and its observations (ScriptSim.step_obs:
   the model's own EvSent / EvMatched events, a finished delay with its start and end clock, the argument table
   after a setplugstate / setresult) are a trace of the script in the sense of Spec/ScriptSem.v: complete (Done)
   when the action completed, failed (Fail) when an ifon/ifoff met a plug of unknown state, a prefix (Cut) while it
   is still running - which is all an action that later times out in an expect ever produces; the argument table
   at the end is the one the semantics computes; and ALL bytes the model queued for the device during the run ([raw]:
   every event of every round, EvSent payloads concatenated) are exactly the send strings of the trace, in order
   (no other statement queues anything). *)
Theorem C08_refines : forall (rmatch : text -> text -> option pmatch) (compress : list text -> text) (sc : bool)
    script ps com client hascb tele hasdiag args d0 store0 ins,
  bwf script -> (block_levels script <= 8)%nat -> (is_ranged_com com = true -> ps <> None) ->
  (args <> None -> hasdiag = true) ->
  let a0 := create_action script com ps client hascb tele hasdiag args in
  let s0 := mkSst (get_args store0 a0) (model_xm d0) in
  exists st d a store tr raw,
    run rmatch compress sc ins d0 a0 store0 [] [] = Ok (st, d, a, store, tr, raw) /\
    (exists s', exec_script rmatch compress sc (is_ranged_com com) (sd_plugs d0) script ps s0 tr s' (status_of st) /\
                (st <> Failed -> ss_args s' = get_args store a)) /\
    sent_of tr = raw_sent raw.
Proof. exact script_refines. Qed.

(* C08_fresh_start (F9 repaired).  For every action reachable by a run, _rewind_action yields a single context at
   the first statement of the script with processing = false and no iterator, and every run that follows (on the
   reconnected device d1: same plug table, anything in its buffers) is again a trace of the WHOLE script from its
   beginning. *)
Theorem C08_fresh_start : forall (rmatch : text -> text -> option pmatch) (compress : list text -> text) (sc : bool)
    script ps com client hascb tele hasdiag args d0 store0 ins1 d a store tr raw,
  bwf script -> (block_levels script <= 8)%nat -> (is_ranged_com com = true -> ps <> None) ->
  (args <> None -> hasdiag = true) ->
  run rmatch compress sc ins1 d0 (create_action script com ps client hascb tele hasdiag args) store0 [] []
    = Ok (Running, d, a, store, tr, raw) ->
  (exists e, a_exec (rewind_action a) = [e] /\ c_block e = script /\ c_plugs e = ps /\ c_pos e = O /\
             c_processing e = false /\ c_plugitr e = None) /\
  forall d1 ins2, sd_plugs d1 = sd_plugs d0 ->
  exists st d' a' store' tr2 raw2,
    run rmatch compress sc ins2 d1 (rewind_action a) store [] [] = Ok (st, d', a', store', tr2, raw2) /\
    (exists s', exec_script rmatch compress sc (is_ranged_com com) (sd_plugs d0) script ps
                            (mkSst (get_args store a) (model_xm d1)) tr2 s' (status_of st) /\
                (st <> Failed -> ss_args s' = get_args store' a')) /\
    sent_of tr2 = raw_sent raw2.
Proof. exact rewound_refines. Qed.

(* ... and, literally: on EVERY schedule the rewound action behaves exactly like a freshly created action for the same
   request (same script, command, plugs, client, callbacks, argument table): same status, same device state, same
   argument store, same observations, same raw events.  (The two actions differ in the time stamp, the stale
   delay_start and the cached plug-list copy of a ranged foreach; Proofs/ScriptRewind.v shows that no handler can
   tell.) *)
Theorem C08_fresh_start_same : forall (rmatch : text -> text -> option pmatch) (compress : list text -> text) (sc : bool)
    script ps com client hascb tele hasdiag args d0 store0 ins1 d a store tr raw,
  bwf script -> (block_levels script <= 8)%nat -> (is_ranged_com com = true -> ps <> None) ->
  (args <> None -> hasdiag = true) ->
  run rmatch compress sc ins1 d0 (create_action script com ps client hascb tele hasdiag args) store0 [] []
    = Ok (Running, d, a, store, tr, raw) ->
  forall d1 ins2 st d' a2 store' tr2 raw2, sd_plugs d1 = sd_plugs d0 ->
  run rmatch compress sc ins2 d1 (rewind_action a) store [] [] = Ok (st, d', a2, store', tr2, raw2) ->
  exists a2',
    run rmatch compress sc ins2 d1
        (create_action script (a_com a) ps (a_client a) (a_hascb a) (a_tele a) (a_hasdiag a) (a_args a)) store [] []
      = Ok (st, d', a2', store', tr2, raw2).
Proof. exact rewound_same. Qed.

(* what the semantics says about EVERY trace (complete, failed or cut): each delay lasted at least its time *)
Theorem C08_delays : forall (rmatch : text -> text -> option pmatch) (compress : list text -> text) sc ranged devplugs
    script ps s tr s' st,
  exec_script rmatch compress sc ranged devplugs script ps s tr s' st -> delays_ok sc tr.
Proof. intros rmatch compress sc ranged devplugs. exact (proj1 (proj2 (sem_delays rmatch compress sc ranged devplugs))). Qed.

(* ... and a block of plain statements that ran to its end was observed statement by statement, in program order,
   each exactly once, sends carrying the format with the block's argument substituted *)
Theorem C08_program_order : forall (rmatch : text -> text -> option pmatch) (compress : list text -> text) sc ranged devplugs
    b ps s tr s',
  Forall plain b -> exec_block rmatch compress sc ranged devplugs b ps s tr s' Done ->
  Forall2 (obs_of compress sc ps) b tr.
Proof. exact sem_plain_block. Qed.

(* non-vacuity of the whole-run theorems: a concrete run (toy oracle: a pattern matches when it is a literal prefix
   of the unread bytes).  foreachnode skips the unmapped plug p2, the send is observed once per mapped plug in plug
   order, the delay of 5 begins at clock 12 and is over at 17, the expect consumes exactly "ok" of "okZ". *)
Definition toy_match (re s : text) : option pmatch := if is_prefix re s then Some [Some (O, length re)] else None.
Definition toy_compress (l : list text) : text := concat l.
Definition toy_dev : sdev :=
  mkSdev (bslit "d") [mkPlug (bslit "p1") (Some (bslit "n1")); mkPlug (bslit "p2") None; mkPlug (bslit "p3") (Some (bslit "n3"))] [] [] None false.
Definition toy_script : list stmt := [ForeachNode [Send (bslit "s%s;")]; Delay 5; Expect (bslit "ok")].
Definition toy_action : action := create_action toy_script 3 None 1 true false true None.
Definition toy_ins : list input :=
  [mkInput 10 [] 0; mkInput 10 [] 9; mkInput 10 [] 9; mkInput 10 [] 9; mkInput 10 [] 9; mkInput 12 [] 0;
   mkInput 17 (bslit "okZ") 0; mkInput 17 [] 0].
Definition toy_trace : list obs := [OSend (bslit "sp1;"); OSend (bslit "sp3;"); ODelay 5 12 17; OExpect (bslit "ok") (bslit "ok")].

Example C08_refines_example :
  match run toy_match toy_compress false toy_ins toy_dev toy_action [] [] [] with
  | Ok (st, d, _, _, tr, raw) => st = Completed /\ sd_from d = bslit "Z" /\ tr = toy_trace /\ raw_sent raw = bslit "sp1;sp3;"
  | _ => False
  end.
Proof. vm_compute. repeat split. Qed.

(* the hypotheses of C08_refines hold for it, so the theorem yields a complete derivation of exactly that trace *)
Example C08_refines_hyps_example : bwf toy_script /\ (block_levels toy_script <= 8)%nat.
Proof.
  split; [|vm_compute; repeat constructor].
  split; [discriminate|]. constructor; [|repeat constructor]. cbn [swf]. split; [discriminate|]. split; [|exact I].
  intros a. destruct a; vm_compute; discriminate.
Qed.
Example C08_semantics_example :
  exists s', exec_script toy_match toy_compress false false (sd_plugs toy_dev) toy_script None (mkSst None None) toy_trace s' Done.
Proof.
  destruct C08_refines_hyps_example as [Hb Hl].
  destruct (C08_refines toy_match toy_compress false toy_script None 3 1 true false true None toy_dev [] toy_ins Hb Hl
              ltac:(discriminate) ltac:(intros K; now contradiction K)) as (st & d & a & store & tr & raw & E & (s' & H & _) & _).
  pose proof C08_refines_example as X. unfold toy_action in X. rewrite E in X. destruct X as (-> & _ & -> & _).
  exists s'. exact H.
Qed.
Example C08_delays_example : delays_ok false toy_trace /\ ~ delays_ok false [ODelay 5 12 16].
Proof.
  split.
  - destruct C08_semantics_example as (s' & H). exact (C08_delays _ _ _ _ _ _ _ _ _ _ _ H).
  - intros H. unfold delays_ok in H. inversion H as [|x l K T]; subst. destruct K as [K|K]; [discriminate K|].
    vm_compute in K. apply K. reflexivity.
Qed.
Example C08_program_order_example :
  forall s tr s', exec_block toy_match toy_compress false false [] [Send (bslit "a%s"); Expect (bslit "ok"); Send (bslit "b")] None s tr s' Done ->
  exists c, tr = [OSend (bslit "a(null)"); OExpect (bslit "ok") c; OSend (bslit "b")].
Proof.
  intros s tr s' H. apply C08_program_order in H; [|repeat constructor].
  inversion H as [|x1 o1 l1 t1 H1 T1]; subst. inversion T1 as [|x2 o2 l2 t2 H2 T2]; subst.
  inversion T2 as [|x3 o3 l3 t3 H3 T3]; subst. inversion T3; subst.
  destruct o1; cbn [obs_of] in H1; try contradiction. destruct o2; cbn [obs_of] in H2; try contradiction.
  destruct o3; cbn [obs_of] in H3; try contradiction. subst. eexists. reflexivity.
Qed.

(* rewinding: after the first pass (the first send is queued, processing = true) the connection drops; the rewound
   action, run on the reconnected device, sends "sp1;" AGAIN and produces the whole trace (before the repair of F9 the
   retried script skipped its first send) *)
Example C08_fresh_start_example :
  match run toy_match toy_compress false [mkInput 10 [] 0] toy_dev toy_action [] [] [] with
  | Ok (Running, _, a, store, tr1, _) =>
      tr1 = [OSend (bslit "sp1;")] /\
      match run toy_match toy_compress false toy_ins toy_dev (rewind_action a) store [] [] with
      | Ok (st, _, _, _, tr2, _) => st = Completed /\ tr2 = toy_trace
      | _ => False
      end
  | _ => False
  end.
Proof. vm_compute. repeat split. Qed.

(* the round of the device loop (Model/Device.v pa_step = one iteration of the while loop of _process_action, which
   R-DEV compares with the C after every pass) IS the step of [run]: on a connected device whose head action has not
   timed out, pa_step performs exactly step1 on that action - same do..while round with the same fuel, same advance,
   same device / store / events afterwards *)
Theorem C08_device_round : forall (rmatch : text -> text -> option pmatch) (compress : list text -> text) (sc : bool)
    now d store tmo plans act0 rest,
  dv_acts d = act0 :: rest -> a_exec act0 <> [] ->
  let stamp := match a_stamp act0 with Some t => t | None => now end in
  let act := set_stamp (Some stamp) act0 in
  (stamp + dv_timeout d <=? now) = false -> connected d = true ->
  match step1 rmatch compress sc now (dv d) act store with
  | Ok (Running, sd', a', store', o, evs) =>
      (exists d' tmo' pl', pa_step rmatch compress sc now d store tmo plans = Ok (PaDone d' store' tmo' pl' evs)
                           /\ dv d' = sd' /\ dv_acts d' = a' :: rest)
      \/ (exists d' tmo', pa_step rmatch compress sc now d store tmo plans = Ok (PaNext d' store' tmo' evs)
                          /\ dv d' = sd' /\ dv_acts d' = a' :: rest)
  | Ok (Completed, sd', a', store', o, evs) =>
      exists d' tmo' done, pa_step rmatch compress sc now d store tmo plans = Ok (PaNext d' store' tmo' (evs ++ done))
                           /\ dv d' = sd' /\ dv_acts d' = rest
  | Ok (Failed, sd', a', store', o, evs) =>
      exists tmo', pa_step rmatch compress sc now d store tmo plans
                   = fail_and_reconnect now (upd_sdev (fun _ => sd') d) a' rest store' tmo' plans evs
  | Exit c x => pa_step rmatch compress sc now d store tmo plans = Exit c x
  | Abort x => pa_step rmatch compress sc now d store tmo plans = Abort x
  | MemErr x => pa_step rmatch compress sc now d store tmo plans = MemErr x
  | Hang x => pa_step rmatch compress sc now d store tmo plans = Hang x
  end.
Proof. exact pa_step_is_step1. Qed.

Definition toy_device : device := mkDevice toy_dev [] 5000000 0 DEV_CONNECTED true true [toy_action] 0 0 0 1 0 65536.
Example C08_device_round_example :
  match pa_step toy_match toy_compress false 10 toy_device [] None [] with
  | Ok (PaDone d' _ _ _ evs) => sd_to (dv d') = bslit "sp1;" /\ evs = [EvSent (bslit "sp1;")] /\ length (dv_acts d') = 1%nat
  | _ => False
  end.
Proof. vm_compute. repeat split. Qed.
(* ... which is what the freshly created action does on the same schedule (C08_refines_example) *)
Example C08_fresh_start_same_example :
  match run toy_match toy_compress false [mkInput 10 [] 0] toy_dev toy_action [] [] [],
        run toy_match toy_compress false toy_ins toy_dev toy_action [] [] [] with
  | Ok (Running, _, a, store, _, _), Ok (st1, d1, _, store1, tr1, raw1) =>
      match run toy_match toy_compress false toy_ins toy_dev (rewind_action a) store [] [] with
      | Ok (st2, d2, _, store2, tr2, raw2) => st2 = st1 /\ d2 = d1 /\ store2 = store1 /\ tr2 = tr1 /\ raw2 = raw1
      | _ => False
      end
  | _, _ => False
  end.
Proof. vm_compute. repeat split. Qed.

Print Assumptions C08_refines. Print Assumptions C08_fresh_start. Print Assumptions C08_delays. Print Assumptions C08_program_order.
Print Assumptions C08_device_round. Print Assumptions C08_fresh_start_same.
