(* C08 - device scripts execute exactly as written.  (statements only; under construction) *)
From Coq Require Import List NArith ZArith Bool.
From PM Require Import Base.Bytes Base.Outcome Gen.GenConsts Model.ScriptAst Model.Enqueue Model.Script Model.Device.
Import ListNotations.

Example C08_memstr_example : memstr [13; 10; 9; 65; 0; 200; 255]%N = bslit "\r\n\tA\000\310\377".
Proof. vm_compute. reflexivity. Qed.
Print Assumptions C08_memstr_example.
