(* C06 -- no client input can crash, kill, corrupt or wedge the daemon: the client layer (client.c _parse_input,
   _create_command, _act_finish and the callbacks) over ARBITRARY input lines.
   Theorems about PM.Model.Client / PM.Model.CliWorld (tied to the source by Gen/GenConsts.v, Gen/GenClient.v and R-CLIENT).
   The host-list parser behind `expand_str` is C14's (F1 F2 F3 F33 repaired there); line extraction from the input
   cbuf is C09's model (Model/Cbuf.v) and is not repeated here. *)
From Coq Require Import List NArith ZArith Bool.
From PM Require Import Base.Bytes Base.Outcome Gen.GenConsts Gen.GenClient Model.ScriptAst Model.Enqueue Model.Script Model.Client Model.CliWorld
                       Spec.Proto Proofs.ClientProto Proofs.ClientStream Proofs.ClientTotal Proofs.ClientIsolation Proofs.ClientExamples.
Import ListNotations.
Local Open Scope Z_scope.

(* Whatever byte strings any number of clients send as lines, in whatever order connections, lines, disconnects and
   the completions / callbacks / Arg writes of the queued actions occur: the client layer never reaches an assert or
   an exit (outcome Ok), for every total host-list oracle; and the invariant `winv` (per client: pending = number of
   its queued actions > 0, a valid command code, its own fresh arglist slot; distinct client ids) holds throughout.
   `_act_finish`'s assert(c->cmd != NULL) is thereby unreachable.  Hypothesis: fewer than 2^31 - 1 connections
   (the id counter does not wrap). *)
Theorem C06_client_layer_total : forall expand_str ranged_sorted ranged_plain sorted evs w,
  winv w -> w_next w + Z.of_nat (connects evs) <= CLI_ID_MAX ->
  exists w', wrun expand_str ranged_sorted ranged_plain sorted w evs = Ok w' /\ winv w'.
Proof. exact world_total. Qed.
Example C06_total_nonvacuous : winv (world0 toy_conf) /\ CLI_ID_FIRST + Z.of_nat (connects wevs) <= CLI_ID_MAX
  /\ is_ok (wrun toy_expand toy_join toy_join toy_sorted (world0 toy_conf) wevs) = true.
Proof. split; [apply winv0|]. split; vm_compute; [discriminate|reflexivity]. Qed.
Print Assumptions C06_client_layer_total.

(* every line is answered by exactly one terminal line, at once (terminals = 1) or - when it queued a command - at
   that command's last completion (C15_stream counts them over whole histories); a line sent while a command is
   pending queues nothing and allocates nothing *)
Theorem C06_one_reply_per_line : forall expand_str ranged_sorted ranged_plain sorted cf store c line,
  cmd_inv c ->
  exists cf' store' c' q d,
    parse_input expand_str ranged_sorted ranged_plain sorted cf store c line = (cf', store', c', q)
    /\ cl_out c' = cl_out c ++ render d
    /\ (terminals d + b2n (busy c') = 1 + b2n (busy c))%nat
    /\ (busy c = true -> q = [] /\ store' = store)
    /\ cmd_inv c'.
Proof. exact line_one_reply. Qed.
Example C06_one_reply_nonvacuous :
  out_of (run1 toy_expand toy_join toy_join toy_sorted toy_s0 [ELine ([255; 254; 0]%N ++ bslit "on n1")]) = bslit "001 2.4" ++ CP_EOL ++ CP_PROMPT ++ CP_ERR_UNKNOWN ++ CP_PROMPT
  /\ out_of (run1 toy_expand toy_join toy_join toy_sorted toy_s0 [ELine (bslit "on n[")]) = bslit "001 2.4" ++ CP_EOL ++ CP_PROMPT ++ bslit "205 Hostlist error: invalid range" ++ CP_EOL ++ CP_PROMPT.
Proof. split; [vm_compute; reflexivity|exact (proj1 (proj2 (proj2 ex_refusals)))]. Qed.
Print Assumptions C06_one_reply_per_line.

(* bounded-buffer obligation of _parse_input: the length gate (regenerated from the source: LINE_GATE) precedes every
   sscanf("%s") into arg1[ARG1_SIZE]; the word of every request that carries one, plus its NUL, fits *)
Theorem C06_arg1_fits : forall s a,
  (exists com, classify s = RCommand com (Some a)) \/ classify s = RDevice (Some a) ->
  Z.of_nat (length a) + 1 <= ARG1_SIZE.
Proof. exact arg1_fits. Qed.
Theorem C06_buffer_declarations :
  LINE_GATE = CP_LINEMAX /\ LINE_GATE <= ARG1_SIZE /\ INBUF_SIZE = MAX_CLIENT_BUF /\ CP_LINEMAX < INBUF_SIZE.
Proof. exact buffer_declarations. Qed.
Example C06_classify_example :
  classify (bslit "on t1") = RCommand PM_POWER_ON (Some (bslit "t1")) /\ classify (bslit "STATUS") = RCommand PM_STATUS_PLUGS None
  /\ classify (bslit "statusx") = RCommand PM_STATUS_PLUGS (Some (bslit "x")) /\ classify (bslit "on") = RUnknown /\ classify (bslit "device  n1 x") = RDevice (Some (bslit "n1"))
  /\ classify (bslit "On t1") = RUnknown /\ classify (bslit "QUIT now") = RQuit /\ classify [] = RUnknown.
Proof. vm_compute. repeat split; reflexivity. Qed.
Print Assumptions C06_arg1_fits.
Print Assumptions C06_buffer_declarations.
