(* C06 - under construction *)
From Coq Require Import List NArith ZArith Bool.
From PM Require Import Base.Bytes Base.Outcome Gen.GenConsts Model.Client.
Example C06_classify_example : classify (bslit "on t1") = RCommand PM_POWER_ON (Some (bslit "t1")).
Proof. vm_compute. reflexivity. Qed.
