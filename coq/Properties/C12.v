(* C12 - failures are contained, reported and recovered from (device layer).
   Model: Model/Device.v (per-device state machine of device.c: _process_action, _act_completion, _enqueue_actions(login/ping/client),
   _rewind_action, _disconnect, _connect, _reconnect, _time_to_reconnect, _enqueue_ping, _handle_ready_device, dev_post_poll's loop body) and
   Model/DevHarness.v (several devices with stub transports, op lists), tied to the real device.c after EVERY pass by the exact differential
   R-DEV (props/C08.py + props/devlib.py).  glibc regexec and host-range compression are Section variables (any oracle).  Statements only;
   proofs in Proofs/Device*.v.  `valid_op` = client commands are the nine targeted ones, dev_initial_connect happens once (HInit);
   `cfg_ok` = what the parser guarantees (login script exists: F14; blocks non-empty; formats %s/%%-only) + formatted send strings fit 64 KiB. *)

(* OPEN *) (* C12_recovery (whole statement): "once the device behaves, every new request completes with ACT_ESUCCESS" for ARBITRARY scripts.
   Proved: C12_recovery_partial (below) for a login script and a client script consisting of ONE `expect` statement, no ping, no preprocess
   method: not-connected + empty queue + open gate + a connect that succeeds -> connected, login is the head; the peer answers -> logged in;
   a client action enqueued then completes with ACT_ESUCCESS.  Together with C12_reconnect_attempted (the gate always reopens and connect is
   then called) and C12_timeout_fails_queue / C12_keep_on_io_error (no failed state keeps actions) there is no absorbing failed state in
   device.c.  Missing for the whole statement: a symbolic-execution lemma over script positions (send / expect sequences, blocks), i.e.
   C08_refines, which is open as well.  The pmsim monitor post-recovery-success searches for a counter-example on the implementation. *)
From Coq Require Import List NArith ZArith Bool Lia.
From PM Require Import Base.Bytes Base.Outcome Base.Dec Gen.GenConsts Gen.GenCbuf Model.ScriptAst Model.Enqueue Model.Script Model.Device
  Model.DevHarness Proofs.DeviceProofs Proofs.DeviceStmt Proofs.DeviceInv Proofs.DeviceRun Proofs.DeviceTimer Proofs.DeviceLocal Proofs.DeviceThms
  Proofs.DeviceBackoff Proofs.DeviceRecover.
Import ListNotations.
Local Open Scope Z_scope.

(* when _process_action finds the head action past its deadline, that same iteration completes it and EVERY action queued behind it, in
   queue order, each with a failure code (connect / login / expect time-out for the head; abort, or the same code, for the rest); nothing
   a client waits for stays queued; the queue is then empty or holds just the fresh login of the connection that came back; at most one
   connect attempt was made, and only through the back-off gate *)
Theorem C12_timeout_fails_queue : forall (rmatch : text -> text -> option pmatch) (compress : list text -> text) (sc : bool) now d store tmo plans act0 rest,
  DInv compress d -> tmo_pos tmo -> dv_acts d = act0 :: rest ->
  (match a_stamp act0 with Some t => t | None => now end) + dv_timeout d <= now ->
  exists d2 tmo2 pl evs, pa_step rmatch compress sc now d store tmo plans = Ok (PaDone d2 store tmo2 pl evs) /\
    DInv compress d2 /\ completions evs = queued d /\ all_fail evs /\ queued d2 = [] /\
    (dv_acts d2 = [] \/ exists s, dv_acts d2 = [create_action s PM_LOG_IN None 0 false false false None] /\ dv_cstate d2 = DEV_CONNECTED) /\
    conn_rel now d d2 evs.
Proof.
  exact pa_step_timeout.
Qed.
Print Assumptions C12_timeout_fails_queue.

(* per pass and per device: at most ONE connect attempt; an attempt is made only if retry_count = 0 (first attempt, or a client request
   reset it) or backoff(retry_count) has elapsed since last_retry; it then stamps last_retry := now and counts itself; with no attempt both
   fields are unchanged.  Every time-out a pass requests is strictly positive (no busy loop) *)
Theorem C12_backoff_pass : forall (rmatch : text -> text -> option pmatch) (compress : list text -> text) (sc : bool) (h : hstate),
  HInv compress h ->
  match hstep rmatch compress sc h HPass with
  | Ok (h', o) =>
      tmo_pos (o_tmo o) /\
      forall k d p, nth_error (h_devs h) k = Some (d, p) ->
        exists d', nth_error (h_devs h') k = Some (d', apply_evs p (evs_of k (o_evs o))) /\
                   conn_rel (h_now h) d d' (evs_of k (o_evs o))
  | Hang _ => True
  | _ => False
  end.
Proof.
  exact p_C12_backoff_pass.
Qed.
Print Assumptions C12_backoff_pass.

(* the regenerated back-off table never allows two attempts closer than one second *)
Theorem C12_backoff_ge_1s : forall rc : Z, 1000000 <= backoff rc.
Proof.
  exact backoff_ge_1s.
Qed.
Print Assumptions C12_backoff_ge_1s.

(* between passes the retry bookkeeping moves only by a client request (dev_enqueue_actions resets retry_count of a not-connected device it
   queued something for): feeding bytes, closing the peer, changing plans or the clock leave every device untouched *)
Theorem C12_retry_fields_only_by_connect : forall (rmatch : text -> text -> option pmatch) (compress : list text -> text) (sc : bool) (h : hstate) (op : hop),
  match op with HNow _ | HPlan _ _ | HFinish _ _ | HFeed _ _ | HPeerClose _ | HNewArgs _ => True | _ => False end ->
  exists h', hstep rmatch compress sc h op = Ok (h', out0) /\ map fst (h_devs h') = map fst (h_devs h).
Proof.
  exact other_ops_keep_devices.
Qed.
Print Assumptions C12_retry_fields_only_by_connect.

(* _reconnect (what dev_post_poll calls on EOF / read error / write error / HUP / failed finish_connect, and what a time-out calls) never
   drops a client action: the queue is kept minus a head login; if the new connection is up at once the head is rewound and a fresh login put
   in front; no completion callback is made *)
Theorem C12_keep_on_io_error : forall (rmatch : text -> text -> option pmatch) (compress : list text -> text) (sc : bool) now d tmo plans,
  DInv compress d -> tmo_pos tmo ->
  exists d' evs tmo' pl', reconnect now d tmo plans = Ok (d', evs, tmo', pl') /\
    DInv compress d' /\ queued d' = queued d /\ completions evs = [] /\
    (dv_cstate d' <> DEV_CONNECTED -> dv_acts d' = after_disc d) /\
    (dv_cstate d' = DEV_CONNECTED -> exists s, assoc_script PM_LOG_IN (dv_scripts d) = Some s /\
       dv_acts d' = create_action s PM_LOG_IN None 0 false false false None
                      :: (match after_disc d with [] => [] | h :: r => rewind_action h :: r end)).
Proof.
  exact p_C12_keep_on_io_error.
Qed.
Print Assumptions C12_keep_on_io_error.

(* a rewound action starts again from the first statement of its outer block with the per-statement state cleared (processing flag, plug
   iterator: the repair of F9); it keeps its identity, its argument list and its time stamp (the deadline does not move) *)
Theorem C12_restart_from_first : forall a : action, a_exec a <> [] ->
  exists outer, last (a_exec a) outer = outer /\ In outer (a_exec a) /\
    a_exec (rewind_action a) = [mkCtx (c_plugs outer) (c_block outer) 0 None (c_pluglist outer) false]
    /\ a_com (rewind_action a) = a_com a /\ a_args (rewind_action a) = a_args a /\ a_client (rewind_action a) = a_client a
    /\ a_stamp (rewind_action a) = a_stamp a.
Proof.
  exact rewind_action_spec.
Qed.
Print Assumptions C12_restart_from_first.

(* no absorbing failed state in device.c: whenever the gate is open (first attempt, or the back-off has elapsed) _reconnect does call the
   transport's connect method, and if that succeeds at once the device is connected, not logged in, with the login action at the head *)
Theorem C12_reconnect_attempted : forall (rmatch : text -> text -> option pmatch) (compress : list text -> text) (sc : bool) now d tmo plans,
  DInv compress d -> tmo_pos tmo ->
  dv_retry_count d <= 0 \/ dv_last_retry d + backoff (dv_retry_count d) <= now ->
  exists d' evs tmo' pl, reconnect now d tmo plans = Ok (d', evs, tmo', pl) /\ nconn evs = 1%nat /\
    dv_last_retry d' = now /\ dv_retry_count d' = dv_retry_count d + 1 /\
    (hd ConnFail plans = ConnNow -> dv_cstate d' = DEV_CONNECTED /\ dv_logged_in d' = false /\
       exists l r, dv_acts d' = l :: r /\ is_login l = true).
Proof.
  exact p_C12_reconnect_attempted.
Qed.
Print Assumptions C12_reconnect_attempted.


(* TRACE-LEVEL BACK-OFF, all histories.  conn_clocks k now ops outs = the clock values of the operations whose output contains a connect attempt
   of device k; chain last rc ts = each attempt came no earlier than the previous one + backoff(number of attempts so far).  Over any list of
   operations in which nothing is enqueued on device k (quiet: a client request queued on a not-connected device resets the count - the
   documented way to expedite a reconnect), from any state that satisfies the invariant, starting from the device's own record of its
   last attempt (dv_last_retry, dv_retry_count). *)
Theorem C12_backoff_trace : forall (rmatch : text -> text -> option pmatch) (compress : list text -> text) (sc : bool) ops h h' outs k d p,
  HInv compress h -> Forall valid_op ops -> Forall (quiet (edev_of d)) ops ->
  run rmatch compress sc h ops = Ok (h', outs) -> nth_error (h_devs h) k = Some (d, p) ->
  chain (dv_last_retry d) (dv_retry_count d) (conn_clocks k (h_now h) ops outs).
Proof.
  exact backoff_trace.
Qed.
Print Assumptions C12_backoff_trace.

(* what a chain means for two consecutive attempts at clock values t1, t2: t2 - t1 >= backoff(count at t1) >= 1 s *)
Theorem C12_backoff_spacing : forall ts last rc, 0 <= rc -> chain last rc ts ->
  forall i t1 t2, nth_error ts i = Some t1 -> nth_error ts (S i) = Some t2 ->
    t1 + backoff (rc + 1 + Z.of_nat i) <= t2 /\ 1000000 <= t2 - t1.
Proof.
  exact chain_spacing.
Qed.
Print Assumptions C12_backoff_spacing.

(* RECOVERY (partial: single-`expect` login and client scripts, no ping, no preprocess method).  answers re b = the regex oracle matches `re`
   on the bytes b the peer sends, up to their end; reads pin b = the descriptor is readable and delivers b.  Three passes: connect, login
   answered, request answered. *)
Theorem C12_recovery_partial : forall (rmatch : text -> text -> option pmatch) (compress : list text -> text) (sc : bool)
    now1 now2 now3 d store tmo1 tmo2 tmo3 pin1 pin2 pin3 re re2 b b2 pl q client tele args,
  DInv compress d -> dv_cstate d = DEV_NOT_CONNECTED -> dv_acts d = [] -> sd_from (dv d) = [] ->
  (dv_retry_count d <= 0 \/ dv_last_retry d + backoff (dv_retry_count d) <= now1) ->
  dv_ping_period d = 0 -> 0 < dv_timeout d ->
  assoc_script PM_LOG_IN (dv_scripts d) = Some [Expect re] -> assoc_script (qa_com q) (dv_scripts d) = Some [Expect re2] ->
  pi_plans pin1 = ConnNow :: pl ->
  now2 < now1 + dv_timeout d -> reads pin2 b -> answers rmatch re b ->
  reads pin3 b2 -> answers rmatch re2 b2 ->
  exists d1 t1 d2 t2 e2 d2' d3 t3 e3,
    post_poll_one rmatch compress sc now1 d store tmo1 pin1 = Ok (d1, store, t1, [EvConnect]) /\
    post_poll_one rmatch compress sc now2 d1 store tmo2 pin2 = Ok (d2, store, t2, e2) /\
    dv_cstate d2 = DEV_CONNECTED /\ dv_logged_in d2 = true /\ dv_acts d2 = [] /\
    append_client_action d2 q client tele args = Ok d2' /\
    post_poll_one rmatch compress sc now3 d2' store tmo3 pin3 = Ok (d3, store, t3, e3) /\
    In (EvComplete client ACT_ESUCCESS []) e3 /\ dv_acts d3 = [] /\ dv_logged_in d3 = true /\
    dv_retry_count d3 = dv_retry_count d + 1.
Proof.
  exact recovery_partial.
Qed.
Print Assumptions C12_recovery_partial.

(* non-vacuity: a device with a login and an `on` script, run through a history with a time-out *)
Definition ex_rmatch : text -> text -> option pmatch := fun _ _ => None.
Definition ex_compress : list text -> text := fun l => concat (map (fun t => t ++ [44%N]) l).     (* grows with its input: names joined by commas *)
Definition ex_dev : device :=
  mk_device (bslit "d0") [mkPlug (bslit "p1") (Some (bslit "n1"))]
            [(PM_LOG_IN, [Send (bslit "login\n"); Expect (bslit "ok")]); (PM_POWER_ON, [Send (bslit "on %s\n"); Expect (bslit "done")])] 5000000 0.
Definition ex_h0 : hstate := mkH 0 [(ex_dev, peer0)] [].
Definition ex_ops : list hop :=
  [HNow 1000000; HPlan 0 [ConnNow; ConnNow]; HInit; HPass; HNewArgs [bslit "n1"]; HEnq PM_POWER_ON 7 false 0 [bslit "n1"]; HPass; HFeed 0 (bslit "\000\255junk");
   HPass; HNow 7000000; HPass; HNow 9000000; HPass].

(* the `on` request is stamped at t = 1 s (5 s time-out); at t = 7 s the login (stamped 1 s) has timed out: the queue is failed, client 7 gets
   its one completion with a failure code, the device reconnects at once (plan ConnNow; 6 s since the last attempt >= 1 s) *)
Example C12_timeout_example :
  exists h outs, run ex_rmatch ex_compress false ex_h0 ex_ops = Ok (h, outs) /\
    flat_map (fun o => flat_map (fun ie => match snd ie with EvComplete c e _ => [(c, e)] | _ => [] end) (o_evs o)) outs = [(7, ACT_ELOGINTIMEOUT)] /\
    nconn (evs_of 0 (flat_map o_evs outs)) = 2%nat.
Proof. vm_compute. eexists _, _. repeat split. Qed.
Example C12_backoff_table_example : map backoff [1; 2; 3; 7; 8; 100] = [1000000; 2000000; 4000000; 60000000; 60000000; 60000000].
Proof. vm_compute. reflexivity. Qed.

(* non-vacuity of C12_backoff_trace / C12_backoff_spacing: a device whose connects are refused is retried at 1 s, then 2 s, then 4 s spacing *)
Example C12_backoff_trace_example :
  exists h outs,
    let ops := [HPlan 0 [ConnFail; ConnFail; ConnFail; ConnFail]; HNow 1000000; HPass; HNow 1500000; HPass; HNow 2000000; HPass; HNow 3999999; HPass; HNow 4000000; HPass;
                HNow 7999999; HPass; HNow 8000000; HPass] in
    run ex_rmatch ex_compress false ex_h0 ops = Ok (h, outs) /\
    conn_clocks 0 0 ops outs = [1000000; 2000000; 4000000; 8000000].
Proof. vm_compute. eexists _, _. split; reflexivity. Qed.

(* non-vacuity of C12_recovery_partial: its hypotheses are satisfiable (a device with single-expect login / on scripts, an oracle that
   matches "ok" at the end of the bytes) *)
Definition ex_rm : text -> text -> option pmatch := fun re s => if text_eqb re s then Some [Some (O, length s)] else None.
Definition ex_dev_r : device := mk_device (bslit "d0") [mkPlug (bslit "p1") (Some (bslit "n1"))] [(PM_LOG_IN, [Expect (bslit "ok")]); (PM_POWER_ON, [Expect (bslit "on")])] 5000000 0.
Example C12_recovery_hyps :
  answers ex_rm (bslit "ok") (bslit "ok") /\ answers ex_rm (bslit "on") (bslit "on") /\
  reads (mkPassin false false false false true (Some (bslit "ok")) None true [] None) (bslit "ok") /\
  assoc_script PM_LOG_IN (dv_scripts ex_dev_r) = Some [Expect (bslit "ok")] /\ dv_ping_period ex_dev_r = 0.
Proof.
  split; [|split; [|split; [|split; reflexivity]]].
  - split; [discriminate|]. split; [apply Nat.leb_le; vm_compute; reflexivity|]. eexists _, _. split; vm_compute; reflexivity.
  - split; [discriminate|]. split; [apply Nat.leb_le; vm_compute; reflexivity|]. eexists _, _. split; vm_compute; reflexivity.
  - repeat split.
Qed.
