(* C12 - failures are contained, reported and recovered from (device layer).
   Model: Model/Device.v (per-device state machine of device.c: _process_action, _act_completion, _enqueue_actions(login/ping/client),
   _rewind_action, _disconnect, _connect, _reconnect, _time_to_reconnect, _enqueue_ping, _handle_ready_device, dev_post_poll's loop body) and
   Model/DevHarness.v (several devices with stub transports, op lists), tied to the real device.c after EVERY pass by the exact differential
   R-DEV (props/C08.py + props/devlib.py).  glibc regexec and host-range compression are Section variables (any oracle).  Statements only;
   proofs in Proofs/Device*.v.  `valid_op` = client commands are the nine targeted ones, dev_initial_connect happens once (HInit);
   `cfg_ok` = what the parser guarantees (login script exists: F14; blocks non-empty; formats %s/%%-only) + formatted send strings fit 64 KiB. *)

(* OPEN *) (* C12_recovery (whole statement): "once the device behaves, every new request completes with ACT_ESUCCESS".  Proved instead:
   C12_reconnect_attempted (the gate always reopens and connect is then called; on success login is the head, C10_login_first) and
   C12_timeout_fails_queue / C12_keep_on_io_error (no failed state keeps actions).  Missing: a liveness argument over the script semantics
   (C08_refines is open as well).  The pmsim monitor post-recovery-success searches for a counter-example on the implementation. *)
(* OPEN *) (* C12_backoff over whole traces ("two consecutive EvConnect of one device with no client request in between are >= backoff apart"):
   follows from C12_backoff_pass (the gate, last_retry := now, count) + C12_retry_fields_only_by_connect + C12_backoff_ge_1s by induction over
   the op list; the induction itself is not mechanised.  The R-DEV monitor `backoff-spacing` evaluates exactly that trace property on the C. *)
From Coq Require Import List NArith ZArith Bool Lia.
From PM Require Import Base.Bytes Base.Outcome Base.Dec Gen.GenConsts Gen.GenCbuf Model.ScriptAst Model.Enqueue Model.Script Model.Device
  Model.DevHarness Proofs.DeviceProofs Proofs.DeviceStmt Proofs.DeviceInv Proofs.DeviceRun Proofs.DeviceTimer Proofs.DeviceLocal Proofs.DeviceThms.
Import ListNotations.
Local Open Scope Z_scope.

(* when _process_action finds the head action past its deadline, that same iteration completes it and EVERY action queued behind it, in
   queue order, each with a failure code (connect / login / expect time-out for the head; abort, or the same code, for the rest); nothing
   a client waits for stays queued; the queue is then empty or holds just the fresh login of the connection that came back; at most one
   connect attempt was made, and only through the back-off gate *)
Theorem C12_timeout_fails_queue : forall (rmatch : text -> text -> option pmatch) (compress : list text -> text) (sc : bool) now d store tmo plans act0 rest,
  DInv compress d -> tmo_pos tmo -> dv_acts d = act0 :: rest ->
  (match a_stamp act0 with Some t => t | None => now end) + dv_timeout d <= now ->
  exists d2 tmo2 pl evs, pa_step rmatch compress sc now d store tmo plans = Ok (PaDone d2 store tmo2 pl evs) /\
    DInv compress d2 /\ completions evs = queued d /\ all_fail evs /\ queued d2 = [] /\
    (dv_acts d2 = [] \/ exists s, dv_acts d2 = [create_action s PM_LOG_IN None 0 false false false None] /\ dv_cstate d2 = DEV_CONNECTED) /\
    conn_rel now d d2 evs.
Proof.
  exact pa_step_timeout.
Qed.
Print Assumptions C12_timeout_fails_queue.

(* per pass and per device: at most ONE connect attempt; an attempt is made only if retry_count = 0 (first attempt, or a client request
   reset it) or backoff(retry_count) has elapsed since last_retry; it then stamps last_retry := now and counts itself; with no attempt both
   fields are unchanged.  Every time-out a pass requests is strictly positive (no busy loop) *)
Theorem C12_backoff_pass : forall (rmatch : text -> text -> option pmatch) (compress : list text -> text) (sc : bool) (h : hstate),
  HInv compress h ->
  match hstep rmatch compress sc h HPass with
  | Ok (h', o) =>
      tmo_pos (o_tmo o) /\
      forall k d p, nth_error (h_devs h) k = Some (d, p) ->
        exists d', nth_error (h_devs h') k = Some (d', apply_evs p (evs_of k (o_evs o))) /\
                   conn_rel (h_now h) d d' (evs_of k (o_evs o))
  | Hang _ => True
  | _ => False
  end.
Proof.
  exact p_C12_backoff_pass.
Qed.
Print Assumptions C12_backoff_pass.

(* the regenerated back-off table never allows two attempts closer than one second *)
Theorem C12_backoff_ge_1s : forall rc : Z, 1000000 <= backoff rc.
Proof.
  exact backoff_ge_1s.
Qed.
Print Assumptions C12_backoff_ge_1s.

(* between passes the retry bookkeeping moves only by a client request (dev_enqueue_actions resets retry_count of a not-connected device it
   queued something for): feeding bytes, closing the peer, changing plans or the clock leave every device untouched *)
Theorem C12_retry_fields_only_by_connect : forall (rmatch : text -> text -> option pmatch) (compress : list text -> text) (sc : bool) (h : hstate) (op : hop),
  match op with HNow _ | HPlan _ _ | HFinish _ _ | HFeed _ _ | HPeerClose _ | HNewArgs _ => True | _ => False end ->
  exists h', hstep rmatch compress sc h op = Ok (h', out0) /\ map fst (h_devs h') = map fst (h_devs h).
Proof.
  exact other_ops_keep_devices.
Qed.
Print Assumptions C12_retry_fields_only_by_connect.

(* _reconnect (what dev_post_poll calls on EOF / read error / write error / HUP / failed finish_connect, and what a time-out calls) never
   drops a client action: the queue is kept minus a head login; if the new connection is up at once the head is rewound and a fresh login put
   in front; no completion callback is made *)
Theorem C12_keep_on_io_error : forall (rmatch : text -> text -> option pmatch) (compress : list text -> text) (sc : bool) now d tmo plans,
  DInv compress d -> tmo_pos tmo ->
  exists d' evs tmo' pl', reconnect now d tmo plans = Ok (d', evs, tmo', pl') /\
    DInv compress d' /\ queued d' = queued d /\ completions evs = [] /\
    (dv_cstate d' <> DEV_CONNECTED -> dv_acts d' = after_disc d) /\
    (dv_cstate d' = DEV_CONNECTED -> exists s, assoc_script PM_LOG_IN (dv_scripts d) = Some s /\
       dv_acts d' = create_action s PM_LOG_IN None 0 false false false None
                      :: (match after_disc d with [] => [] | h :: r => rewind_action h :: r end)).
Proof.
  exact p_C12_keep_on_io_error.
Qed.
Print Assumptions C12_keep_on_io_error.

(* a rewound action starts again from the first statement of its outer block with the per-statement state cleared (processing flag, plug
   iterator: the repair of F9); it keeps its identity, its argument list and its time stamp (the deadline does not move) *)
Theorem C12_restart_from_first : forall a : action, a_exec a <> [] ->
  exists outer, last (a_exec a) outer = outer /\ In outer (a_exec a) /\
    a_exec (rewind_action a) = [mkCtx (c_plugs outer) (c_block outer) 0 None (c_pluglist outer) false]
    /\ a_com (rewind_action a) = a_com a /\ a_args (rewind_action a) = a_args a /\ a_client (rewind_action a) = a_client a
    /\ a_stamp (rewind_action a) = a_stamp a.
Proof.
  exact rewind_action_spec.
Qed.
Print Assumptions C12_restart_from_first.

(* no absorbing failed state in device.c: whenever the gate is open (first attempt, or the back-off has elapsed) _reconnect does call the
   transport's connect method, and if that succeeds at once the device is connected, not logged in, with the login action at the head *)
Theorem C12_reconnect_attempted : forall (rmatch : text -> text -> option pmatch) (compress : list text -> text) (sc : bool) now d tmo plans,
  DInv compress d -> tmo_pos tmo ->
  dv_retry_count d <= 0 \/ dv_last_retry d + backoff (dv_retry_count d) <= now ->
  exists d' evs tmo' pl, reconnect now d tmo plans = Ok (d', evs, tmo', pl) /\ nconn evs = 1%nat /\
    dv_last_retry d' = now /\ dv_retry_count d' = dv_retry_count d + 1 /\
    (hd ConnFail plans = ConnNow -> dv_cstate d' = DEV_CONNECTED /\ dv_logged_in d' = false /\
       exists l r, dv_acts d' = l :: r /\ is_login l = true).
Proof.
  exact p_C12_reconnect_attempted.
Qed.
Print Assumptions C12_reconnect_attempted.


(* non-vacuity: a device with a login and an `on` script, run through a history with a time-out *)
Definition ex_rmatch : text -> text -> option pmatch := fun _ _ => None.
Definition ex_compress : list text -> text := fun _ => [].
Definition ex_dev : device :=
  mk_device (bslit "d0") [mkPlug (bslit "p1") (Some (bslit "n1"))]
            [(PM_LOG_IN, [Send (bslit "login\n"); Expect (bslit "ok")]); (PM_POWER_ON, [Send (bslit "on %s\n"); Expect (bslit "done")])] 5000000 0.
Definition ex_h0 : hstate := mkH 0 [(ex_dev, peer0)] [].
Definition ex_ops : list hop :=
  [HNow 1000000; HPlan 0 [ConnNow; ConnNow]; HInit; HPass; HNewArgs [bslit "n1"]; HEnq PM_POWER_ON 7 false 0 [bslit "n1"]; HPass; HFeed 0 (bslit "\000\255junk");
   HPass; HNow 7000000; HPass; HNow 9000000; HPass].

(* the `on` request is stamped at t = 1 s (5 s time-out); at t = 7 s the login (stamped 1 s) has timed out: the queue is failed, client 7 gets
   its one completion with a failure code, the device reconnects at once (plan ConnNow; 6 s since the last attempt >= 1 s) *)
Example C12_timeout_example :
  exists h outs, run ex_rmatch ex_compress false ex_h0 ex_ops = Ok (h, outs) /\
    flat_map (fun o => flat_map (fun ie => match snd ie with EvComplete c e _ => [(c, e)] | _ => [] end) (o_evs o)) outs = [(7, ACT_ELOGINTIMEOUT)] /\
    nconn (evs_of 0 (flat_map o_evs outs)) = 2%nat.
Proof. vm_compute. eexists _, _. repeat split. Qed.
Example C12_backoff_table_example : map backoff [1; 2; 3; 7; 8; 100] = [1000000; 2000000; 4000000; 60000000; 60000000; 60000000].
Proof. vm_compute. reflexivity. Qed.
