(* C20 -- no resource leaks, and clean shutdown at any moment.
   Theorems over Model/Daemon.v, the whole-daemon pass transducer (cli_post_poll ; dev_post_poll per pass of
   powermand.c:_select_loop), which R-SIM ties to the real powermand: recorded runs under the virtual OS are replayed
   through the extracted `dstep` and compared after every pass, including the number of open descriptors and of live
   children at every poll call (props/C20.py).  Quantification: every initial configuration, every list of rounds
   (= every history of client sessions, requests, device bytes, faults, reconnections and clock steps), every
   regex / host-range oracle. *)
From Coq Require Import List NArith ZArith Bool Permutation.
From PM Require Import Base.Bytes Base.Outcome Gen.GenConsts Model.ScriptAst Model.Enqueue Model.Script Model.Device Model.Client Model.Daemon
                       Proofs.DeviceInv Proofs.DeviceRun Proofs.DeviceRunG Proofs.DeviceHang Proofs.DaemonLedger Proofs.DaemonPending Proofs.DaemonFds.
Import ListNotations.
Local Open Scope Z_scope.

Section C20.
  Variable expand_str : text -> option (list text).
  Variable ranged_sorted : list text -> text.
  Variable ranged_plain : list text -> text.
  Variable sorted : list text -> list text.
  Variable rmatch : text -> text -> option pmatch.
  Variable compress : list text -> text.
  Variable short_circuit : bool.

  (* One pass: the client records (= client descriptors) afterwards are exactly those before, plus the one accept()
     delivered, minus those _destroy_client closed; a close only ever hits a record that existed. *)
  Theorem C20_pass_ledger : forall st r st' o,
    dstep expand_str ranged_sorted ranged_plain sorted rmatch compress short_circuit st r = Ok (st', o) ->
    Permutation (ids st ++ accepts (do_evs o)) (closes (do_evs o) ++ ids st') /\
    incl (closes (do_evs o)) (ids st ++ accepts (do_evs o)) /\
    accepts (do_evs o) = (if r_accept r then [fst (next_id (dm_seq st))] else []) /\
    dm_seq st' = (if r_accept r then snd (next_id (dm_seq st)) else dm_seq st).
  Proof. exact (dstep_ledger expand_str ranged_sorted ranged_plain sorted rmatch compress short_circuit). Qed.

  (* Every history from start-up (fewer than 2^31 passes, so that the client id counter does not wrap):
     accepted = closed + held by a live client; nothing is closed twice; ids are unique; a closed descriptor
     belongs to no live client.  Hence the daemon holds exactly one descriptor per live client record. *)
  Theorem C20_client_descriptors : forall st rs st' outs,
    started st -> Z.of_nat (length rs) < INT_MAX ->
    drun expand_str ranged_sorted ranged_plain sorted rmatch compress short_circuit st rs [] = Ok (st', outs) ->
    let ev := all_evs outs in
    Permutation (accepts ev) (closes ev ++ ids st') /\ NoDup (closes ev) /\ NoDup (ids st') /\
    (forall id, In id (closes ev) -> ~ In id (ids st')).
  Proof. exact (client_descriptors_balanced expand_str ranged_sorted ranged_plain sorted rmatch compress short_circuit). Qed.

  (* Device side, every history from start-up (every transport): in every reachable state each device holds a
     descriptor exactly when it is connected or connecting, so
        descriptors beyond the listeners = live clients + attached devices,   children = attached (coprocess) devices,
     and every device still satisfies the device-layer invariant (no stale descriptor, login bookkeeping consistent).
     The run ALWAYS returns Ok: Hang (the model's loop fuel) is impossible, `boot` carries the device invariant DInvH with the
     static hypothesis nest_ok (blocks nested at most DMAX = 7 deep; no shipped script nests deeper than 1:
     SpecBridge.shipped_max_depth; C04_shipped_boot). *)
  Theorem C20_device_descriptors : forall st now plans rs,
    boot compress st -> Z.of_nat (length rs) < INT_MAX - 1 ->
    exists st1 o, dinit st now plans = Ok (st1, o) /\
      match drun expand_str ranged_sorted ranged_plain sorted rmatch compress short_circuit st1 rs [] with
      | Ok (st', outs) =>
          open_fds st' = (length (dm_clients st') + length (filter attached (dm_devs st')))%nat /\
          Forall (fun d => dv_has_fd d = attached d) (dm_devs st')
      | _ => False
      end.
  Proof.
    intros st now plans rs Hb Hn.
    destruct (daemon_invariant expand_str ranged_sorted ranged_plain sorted rmatch compress short_circuit st now plans rs Hb Hn) as (st1 & o & E & H).
    exists st1, o. split; [exact E|].
    destruct (drun expand_str ranged_sorted ranged_plain sorted rmatch compress short_circuit st1 rs []) as [[st' outs]| | | |]; try contradiction.
    destruct H as (_ & _ & HdH & _).
    assert (Hd : Forall (DInvRG compress) (dm_devs st')) by (eapply Forall_impl; [|exact HdH]; intros d; apply DInvH_RG).
    split.
    - unfold open_fds, dev_fds. now rewrite (dev_fds_attached compress _ Hd).
    - eapply Forall_impl; [|exact Hd]. intros d Hdd. exact (has_fd_attached compress d Hdd).
  Qed.
End C20.

(* with coprocess transports only, one child per device that holds a descriptor *)
Theorem C20_children : forall st, all_pipe st -> children st = dev_fds st.
Proof. intros st Hp. unfold children, dev_fds. apply kids_all_pipe. exact Hp. Qed.

(* shutdown (cli_fini): one close per live client record, nothing else is left of the client layer *)
Theorem C20_shutdown_closes_all : forall st, closes (shutdown_evs st) = ids st.
Proof. intros st. unfold shutdown_evs, closes, ids, cid. induction (dm_clients st) as [|x l IH]; cbn; [reflexivity|]. now rewrite IH. Qed.

(* non-vacuity: a pass that accepts a client; one in which it sends `quit` (the 101 line is queued, the record stays: F37);
   one in which the descriptor is writable: everything owed is written and the client is destroyed *)
Example C20_nonvacuous :
  let st0 := mkDaemon [bslit "n0"] [] [] [] [] [] 1 [] (bslit "2.4") [] in
  let nolist := fun _ : list text => @nil N in
  let step := dstep (fun _ => None) nolist nolist (fun l => l) (fun _ _ => None) nolist false in
  match step st0 (mkRound 0 true [] []) with
  | Ok (st1, o1) =>
      ids st1 = [1] /\ accepts (do_evs o1) = [1] /\
      match step st1 (mkRound 10 false [mkCin false true true (Some (bslit "quit" ++ [LF])) (Some 1000%nat)] []) with
      | Ok (st2, o2) =>
          ids st2 = [1] /\ closes (do_evs o2) = [] /\
          match step st2 (mkRound 20 false [mkCin false false true None (Some 1000%nat)] []) with
          | Ok (st3, o3) => ids st3 = [] /\ closes (do_evs o3) = [1]
          | _ => False
          end
      | _ => False
      end
  | _ => False
  end.
Proof. vm_compute. repeat split; reflexivity. Qed.

Print Assumptions C20_pass_ledger.
Print Assumptions C20_client_descriptors.
Print Assumptions C20_shutdown_closes_all.
Print Assumptions C20_device_descriptors.
Print Assumptions C20_children.

(* ---------------- the result lists (ArgList: the only heap object shared between the layers, reference-counted in
   arglist.c) ----------------
   `referenced st s`: list s is referred to by a command in progress or by an action queued on some device.
   One pass, from any state of the cross-layer invariant: the store only grows at its end, and every list referred to
   after the pass either was referred to before it or is one of the lists created during the pass.  So a list that
   nothing refers to any more (C11_result_lists: that is exactly when its command completed and its last action left the
   queues, or - client gone - when its orphaned actions did) is never referred to again: what arglist.c frees at reference
   count zero is never used afterwards, and nothing but the lists of commands in progress and of queued actions is kept. *)
From PM Require Import Proofs.DaemonFrame Proofs.DaemonSlots Proofs.DaemonRefs.
Theorem C20_no_stale_result_list : forall expand_str ranged_sorted ranged_plain sorted rmatch compress short_circuit st r st' o,
  DPInv compress st -> NL st -> 1 <= dm_seq st < INT_MAX ->
  dstep expand_str ranged_sorted ranged_plain sorted rmatch compress short_circuit st r = Ok (st', o) ->
  (length (dm_store st) <= length (dm_store st'))%nat /\
  forall s, referenced st' s -> referenced st s \/ (length (dm_store st) <= s)%nat.
Proof. exact dstep_ref. Qed.
Print Assumptions C20_no_stale_result_list.
(* ... and over any history of passes *)
Theorem C20_no_stale_result_list_run : forall expand_str ranged_sorted ranged_plain sorted rmatch compress short_circuit rs st acc st' outs,
  DPInv compress st -> NL st -> 1 <= dm_seq st -> dm_seq st + Z.of_nat (length rs) <= INT_MAX ->
  drun expand_str ranged_sorted ranged_plain sorted rmatch compress short_circuit st rs acc = Ok (st', outs) ->
  (length (dm_store st) <= length (dm_store st'))%nat /\
  forall s, referenced st' s -> referenced st s \/ (length (dm_store st) <= s)%nat.
Proof. exact drun_ref. Qed.
Print Assumptions C20_no_stale_result_list_run.

(* non-vacuity: C04's example daemon: after the request `on n1` list 0 is referred to by the command and by its action; after the
   time-out round the command has completed (210), nothing refers to list 0 any more, and the store still has its one slot *)
From PM Require Properties.C04 Properties.C07.
Example C20_result_list_nonvacuous :
  match dinit C04.ex_st 1000000 [[ConnNow; ConnNow; ConnNow]] with
  | Ok (st1, _) =>
    match drun C04.ex_expand C04.ex_join C04.ex_join (fun l => l) C07.ex_rmatch C07.ex_compress false st1 (firstn 2 C04.ex_rounds) [],
          drun C04.ex_expand C04.ex_join C04.ex_join (fun l => l) C07.ex_rmatch C07.ex_compress false st1 C04.ex_rounds [] with
    | Ok (sta, _), Ok (stb, _) =>
        aslots (dm_devs sta) = [(1, 0%nat)] /\ map cmd_slot (dm_clients sta) = [Some 0%nat] /\
        aslots (dm_devs stb) = [] /\ map cmd_slot (dm_clients stb) = [None] /\ length (dm_store stb) = 1%nat
    | _, _ => False
    end
  | _ => False
  end.
Proof. vm_compute. repeat split. Qed.

(* OPEN (DESIGN §5 C20): (1) device side: C20_device_descriptors proves "one descriptor per connected or connecting device"
   for every reachable state, but the device descriptors and coprocess children are FUNCTIONS of the state (dv_has_fd,
   transport kind) tied to the implementation by the per-pass comparison of R-SIM (descriptor and child counts at every
   poll), not derived from the open()/close()/fork()/waitpid() calls of device_tcp.c / device_pipe.c, which
   Model/Device.v abstracts into connect plans.
   (2) heap: the result lists are covered by C20_no_stale_result_list + C11_result_lists (what is referred to, and that a
   dropped list is never referred to again); the malloc/free calls themselves (arglist.c reference counts, Action / ExecCtx /
   Command records, cbufs) are outside the model: LeakSanitizer at exit and the steady-state heap monitor on pmsim (F10, F40
   were found that way) are testing only. *)
