(* Property C18 -- the configuration parser is safe on arbitrary input.
   Model: Model/Lexer.v (token layer of parse_lex.l by hand; recursive-descent reading of parse_tab.y running the
   hand-written semantic actions; the LALR automaton and flex's DFA are NOT modelled -- trusted base, tied by R-LEX).
   Source facts: Gen/GenLex.v, regenerated from the current tree on every run and used by the proofs by computation. *)
From Coq Require Import List NArith ZArith Bool.
From PM Require Import Base.Bytes Base.Outcome Gen.GenLex Model.Lexer Proofs.LexerTotal Proofs.LexerLoad Proofs.LexerConf.
Import ListNotations.
Local Open Scope N_scope.

(* ---- the lexer: for ALL byte strings and ALL include maps the token layer ends in Ok or Exit 1 -- never MemErr
   (string_buf, include_stack/linenum/filename, yytext[len-1]), never Abort, never Hang; the include nesting is
   bounded by the depth test read from the source, so cyclic includes end in Exit 1 *)
Theorem C18_lexer_total : forall (files : text -> option text) (main : text),
  (exists toks, tokens files main = Ok toks) \/ (exists site, tokens files main = Exit 1 site).
Proof. exact lexer_total. Qed.
Print Assumptions C18_lexer_total.

Example C18_lexer_total_nonvacuous_ok :
  tokens (fun _ => None) (bs "listen ""a\tb"" # c
 timeout 1.5 $ { } = plug  name status_all ~"%string)
  = Ok [TKw TOK_LISTEN; TStr [97; 9; 98]; TKw TOK_DEV_TIMEOUT; TNum [49; 46; 53]; TMatchpos; TBegin; TEnd; TEquals;
        TPlugName; TKw TOK_STATUS_ALL; TUnrec].
Proof. vm_compute. reflexivity. Qed.

Example C18_lexer_total_nonvacuous_cycle :      (* a file that includes itself *)
  let f := bs "include ""f"" "%string in
  tokens (fun n => if text_eqb n (bs "f"%string) then Some f else None) f = Exit 1 S_INCL_DEPTH.
Proof. vm_compute. reflexivity. Qed.

Example C18_lexer_total_nonvacuous_string_spans_files :   (* EOF inside the string state of an included file *)
  tokens (fun n => if text_eqb n (bs "a"%string) then Some (bs "listen ""he"%string) else None)
         (bs "include ""a"" llo"" }"%string)
  = Ok [TKw TOK_LISTEN; TStr (bs "he llo"%string); TEnd].
Proof. vm_compute. reflexivity. Qed.

(* ---- the string buffer: every index the lexer stores into (terminating NUL included) is below the capacity of
   string_buf read from the current source.  This is the theorem the F15 repair makes true: it needs
   GenLex.string_checked = true and 1 <= GenLex.string_slack <= GenLex.string_buf_size *)
Theorem C18_string_bound : forall (files : text -> option text) (main : text),
  l_maxidx (fst (lex_run files main)) < string_buf_size /\
  l_idx (fst (lex_run files main)) <= string_buf_size - string_slack.
Proof. exact string_bound. Qed.
Print Assumptions C18_string_bound.

Definition long_string (n : N) : text := (bs "listen """%string) ++ N.iter n (cons 97) [] ++ [34].

Example C18_string_bound_nonvacuous_max :       (* the longest accepted string uses the last index for its NUL *)
  l_maxidx (fst (lex_run (fun _ => None) (long_string (string_buf_size - 1)))) = string_buf_size - 1 /\
  snd (lex_run (fun _ => None) (long_string (string_buf_size - 1))) = EndEOF.
Proof. vm_compute. split; reflexivity. Qed.

Example C18_string_bound_nonvacuous_refused :   (* one byte more is refused with a diagnostic *)
  tokens (fun _ => None) (long_string string_buf_size) = Exit 1 S_STR_TOOLONG.
Proof. vm_compute. reflexivity. Qed.

(* ---- the semantic actions: load of ANY token list is Ok or Exit 1 (a diagnostic is printed on every Exit path of
   the C: err_exit / _errormsg / err + exit(1)) -- never MemErr (xstrdup(NULL) of serial_create, out-of-range
   double -> time_t conversion), never Abort, never Hang *)
Theorem C18_load_total : forall hl_expand regcomp_ok resolves is_chardev stale_erange (toks : list token),
  (exists c, load hl_expand regcomp_ok resolves is_chardev stale_erange toks = Ok c) \/
  (exists site, load hl_expand regcomp_ok resolves is_chardev stale_erange toks = Exit 1 site).
Proof. exact load_total. Qed.
Print Assumptions C18_load_total.

(* ---- an accepted configuration has every element the daemon dereferences unconditionally at run time *)
Theorem C18_accepted_runs : forall hl_expand regcomp_ok resolves is_chardev stale_erange (toks : list token) c,
  load hl_expand regcomp_ok resolves is_chardev stale_erange toks = Ok c -> mandatory_ok c = true.
Proof. exact load_accepted. Qed.
Print Assumptions C18_accepted_runs.

(* ---- lexer and parser interleaved as in the C (the parser may exit before the lexer reports its own error) *)
Theorem C18_conf_init_total : forall hl_expand regcomp_ok resolves is_chardev stale_erange (files : text -> option text) (main : text),
  (exists c, conf_init hl_expand regcomp_ok resolves is_chardev stale_erange files main = Ok c /\ mandatory_ok c = true) \/
  (exists site, conf_init hl_expand regcomp_ok resolves is_chardev stale_erange files main = Exit 1 site).
Proof. exact conf_init_total. Qed.
Print Assumptions C18_conf_init_total.

Definition ex_hl (s : text) : option (list text) := Some [s].
Definition ex_conf : text := bs "specification ""s"" { timeout 5 plug name { ""1"" ""2"" }
  script login { send ""x\n"" expect ""x"" }
  script status { send ""s"" expect ""(.):(.)"" setplugstate $1 $2 on=""1"" off=""0"" } }
device ""d"" ""s"" ""127.0.0.1:23""
node ""n1"" ""d""
node ""n2"" ""d"" ""2""
alias ""all"" ""n1"""%string.

Example C18_load_nonvacuous_accepted :
  match conf_init ex_hl (fun _ _ => true) (fun _ _ => true) (fun _ => false) (fun _ => false) (fun _ => None) ex_conf with
  | Ok c => mandatory_ok c = true /\ length (c_devs c) = 1%nat /\ c_nodes c = [bs "n1"%string; bs "n2"%string] /\
            map d_plugs (c_devs c) = [[(bs "1"%string, Some (bs "n1"%string)); (bs "2"%string, Some (bs "n2"%string))]]
  | _ => False
  end.
Proof. vm_compute. repeat split. Qed.

Example C18_load_nonvacuous_no_login :          (* F14: refused at the closing brace of the specification *)
  conf_init ex_hl (fun _ _ => true) (fun _ _ => true) (fun _ => false) (fun _ => false) (fun _ => None)
    (bs "specification ""s"" { timeout 5 script status { send ""s"" } } device ""d"" ""s"" ""/bin/cat |&"" node ""n"" ""d"""%string)
  = Exit 1 S_NO_LOGIN.
Proof. vm_compute. reflexivity. Qed.

Example C18_load_nonvacuous_order :             (* a semantic error wins over a later lexer error, as in the C *)
  conf_init ex_hl (fun _ _ => true) (fun _ _ => true) (fun _ => false) (fun _ => false) (fun _ => None)
    (bs "plug_log_level ""bogus"" include ""missing"" "%string) = Exit 1 S_LOGLEVEL /\
  conf_init ex_hl (fun _ _ => true) (fun _ _ => true) (fun _ => false) (fun _ => false) (fun _ => None)
    (bs "node ""n"" ""d"" include ""missing"" "%string) = Exit 1 S_INCL_OPEN.
Proof. vm_compute. split; reflexivity. Qed.

(* ---- the environment oracle [stale_erange] (F30 is not applied): _strtolong tests `errno == ERANGE` without clearing
   errno, so the exact value LONG_MAX is refused -- with a diagnostic, exit status 1 -- when errno still holds ERANGE
   from an earlier strtod underflow.  Every theorem above holds for BOTH answers of the oracle. *)
Example C18_stale_errno_nonvacuous :
  let conf := bs "specification ""s"" { timeout 1 script login { send ""x"" expect ""(x)"" setplugstate $9223372036854775807 $1 } }
device ""d"" ""s"" ""/bin/cat |&"" node ""n"" ""d"""%string in
  (exists c, conf_init ex_hl (fun _ _ => true) (fun _ _ => true) (fun _ => false) (fun _ => false) (fun _ => None) conf = Ok c) /\
  conf_init ex_hl (fun _ _ => true) (fun _ _ => true) (fun _ => false) (fun _ => true) (fun _ => None) conf
    = (if errno_cleared_strtol then conf_init ex_hl (fun _ _ => true) (fun _ _ => true) (fun _ => false) (fun _ => false) (fun _ => None) conf
       else Exit 1 S_LONG_RANGE).
Proof. vm_compute. split; [eexists; reflexivity | reflexivity]. Qed.

(* ---- numbers.
   (* OPEN *)  C18_numbers (DESIGN §5): "every numeric token that reaches _strtolong/_strtodouble is read from text
   that still holds the token" is a statement about the lifetime of a pointer into flex's refillable buffer; that
   buffer is not modelled.  What is proved: the current source copies numeric tokens (fact read by gen_lex.py from
   the number rule), hence a token carries its own text in the model, and that text is always a non-empty run of
   digits and dots; string tokens are NUL-free.  The lifetime itself is checked on the implementation on every run
   by the harness monitor (each conversion compares the memory it reads with the recorded token). *)
Theorem C18_numbers_partial : number_copied = true /\
  forall (files : text -> option text) (main : text), Forall tok_wf (fst (lex_all files main)).
Proof. exact numbers_partial. Qed.
Print Assumptions C18_numbers_partial.

Example C18_numbers_nonvacuous :
  fst (lex_all (fun _ => None) (bs "setplugstate $017 $2.5"%string))
  = [TKw TOK_SETPLUGSTATE; TMatchpos; TNum (bs "017"%string); TMatchpos; TNum (bs "2.5"%string)] /\
  strtol0 (bs "017"%string) = LVal 15 /\ strtol0 (bs ".5"%string) = LNoConv /\
  time_check (bs "2147483"%string) = TimeOk /\ time_check (bs "2147484"%string) = TimeExit S_TIME_LARGE.
Proof. vm_compute. repeat split. Qed.
