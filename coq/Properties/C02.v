(* C02 -- success is reported only when every target was really handled (client.c _create_command / _parse_input /
   _act_finish / _client_power_status_reply; device.c dev_check_actions / dev_enqueue_actions).
   Theorems about PM.Model.Client + PM.Model.Enqueue in the worlds of PM.Model.CliWorld. *)
From Coq Require Import List NArith ZArith Bool.
From PM Require Import Base.Bytes Base.Outcome Gen.GenConsts Gen.GenClient Model.ScriptAst Model.Enqueue Model.Script Model.Client Model.CliWorld
                       Proofs.EnqueueProofs Proofs.ClientProofs Proofs.ClientStream Proofs.ClientReply Proofs.ClientIsolation Proofs.ClientExamples.
Import ListNotations.
Local Open Scope Z_scope.

(* One power command from the moment it is queued (error flag clear) to its last completion, whatever callbacks and
   Arg writes arrive in between: the terminal line is 102 or 210; it is 102 EXACTLY when no completion carried an
   error and no Arg of this command ended as RT_UNKNOWN; the callbacks' lines (308 for every failed completion,
   305, 309) precede it; the number of completions equals the pending count. *)
Theorem C02_power_reply : forall expand_str ranged_sorted ranged_plain sorted evs s k s',
  cl_cmd (s_cl s) = Some k -> existsb (Z.eqb (k_com k)) power_coms = true -> k_error k = false ->
  no_lines evs -> events_ok expand_str ranged_sorted ranged_plain sorted s evs = true ->
  run1 expand_str ranged_sorted ranged_plain sorted s evs = Ok s' -> cl_cmd (s_cl s') = None ->
  exists t,
    cl_out (s_cl s') = cl_out (s_cl s) ++ flat_map info_text evs ++ t ++ CP_PROMPT
    /\ (t = CP_RSP_COM_COMPLETE \/ t = CP_ERR_COM_COMPLETE)
    /\ (t = CP_RSP_COM_COMPLETE <-> any_failed evs = false /\ no_unknown_result (nth (k_args k) (s_store s') []) = true)
    /\ completions evs = k_pending k.
Proof. exact power_command_reply. Qed.
Example C02_power_reply_nonvacuous :
  out_of (run1 toy_expand toy_join toy_join toy_sorted toy_s0 evs_on_ok) = bslit "001 2.4" ++ CP_EOL ++ CP_PROMPT ++ CP_RSP_COM_COMPLETE ++ CP_PROMPT
  /\ out_of (run1 toy_expand toy_join toy_join toy_sorted toy_s0 evs_on_unknown) = bslit "001 2.4" ++ CP_EOL ++ CP_PROMPT ++ bslit "309 n1: ERR" ++ CP_EOL ++ CP_ERR_COM_COMPLETE ++ CP_PROMPT.
Proof. exact (conj (proj2 ex_on_ok) (proj2 ex_on_unknown)). Qed.
Print Assumptions C02_power_reply.

(* every failed completion is named: its message is printed in a 308 line (among the lines before the terminal one) *)
Theorem C02_errors_named : forall evs err msg,
  In (EComplete err msg) evs -> err <> ACT_ESUCCESS ->
  exists a b, flat_map info_text evs = a ++ cprintf CP_INFO_ACTERROR [msg] ++ b.
Proof. exact failed_completion_reported. Qed.
Example C02_errors_named_nonvacuous :
  out_of (run1 toy_expand toy_join toy_join toy_sorted toy_s0 evs_on_fail) = bslit "001 2.4" ++ CP_EOL ++ CP_PROMPT ++ bslit "305 send(d0): 'on 1'" ++ CP_EOL
     ++ bslit "308 d0: action timed out waiting for expected response" ++ CP_EOL ++ CP_ERR_COM_COMPLETE ++ CP_PROMPT.
Proof. exact (proj2 ex_on_fail). Qed.
Print Assumptions C02_errors_named.

(* 213 exactly when the targets resolve but the pre-check fails or nothing would be queued; otherwise the command
   is queued with pending = number of queued actions, a clear error flag, and a fresh arglist in its own slot *)
Theorem C02_unhandled : forall expand_str ranged_plain cf n com arg,
  create_command expand_str ranged_plain cf n com arg =
  match resolve expand_str ranged_plain cf arg with
  | inr t => CRefused t
  | inl tg =>
      let devs := map cd_edev (cf_devs cf) in
      if (negb (check_actions devs com tg) || Nat.eqb (total (enqueue devs com tg)) 0)%bool then CRefused CP_ERR_UNIMPL
      else CQueued (mkCommand com tg (Z.of_nat (total (enqueue devs com tg))) false n) (new_arglist tg) (enqueue devs com tg)
  end.
Proof. exact create_command_resolved. Qed.
Example C02_unhandled_nonvacuous :
  out_of (run1 toy_expand toy_join toy_join toy_sorted toy_s0 [ELine (bslit "reset n1")]) = bslit "001 2.4" ++ CP_EOL ++ CP_PROMPT ++ CP_ERR_UNIMPL ++ CP_PROMPT
  /\ (exists p, CP_ERR_UNIMPL = bslit "213 " ++ p).
Proof. split; [exact (proj1 ex_refusals)|exact unimpl_is_213]. Qed.
Print Assumptions C02_unhandled.

(* when the pre-check accepts, every targeted plug of every device is covered by a queued action (after the repair
   of F4; the old predicate is refuted in Proofs/EnqueueProofs.check_actions_any_refuted) *)
Theorem C02_covered : forall devs com tgts,
  check_actions devs com tgts = true ->
  forall d p, In d devs -> In p (targeted d tgts) -> exists a, In a (enqueue_dev d com tgts) /\ covers a p.
Proof. exact check_actions_covers. Qed.
Theorem C02_old_check_refuted :
  check_actions_any [f4_dev] PM_POWER_ON [bs "b0"%string] = true /\
  needs f4_dev [bs "b0"%string] = true /\ enqueue_dev f4_dev PM_POWER_ON [bs "b0"%string] = [].
Proof. exact check_actions_any_refuted. Qed.
Print Assumptions C02_covered.

(* pending count: in every reachable world, a client's pending count is the number of queued actions that carry
   its id (part of winv; preserved by every step, see C06_client_layer_total) *)
Theorem C02_pending_exact : forall expand_str ranged_sorted ranged_plain sorted evs cf w' c k,
  CLI_ID_FIRST + Z.of_nat (connects evs) <= CLI_ID_MAX ->
  wrun expand_str ranged_sorted ranged_plain sorted (world0 cf) evs = Ok w' -> In c (w_clients w') -> cl_cmd c = Some k ->
  k_pending k = Z.of_nat (count_for (cl_id c) (w_queue w')) /\ 0 < k_pending k.
Proof. exact pending_exact. Qed.
Example C02_pending_exact_nonvacuous : is_ok (wrun toy_expand toy_join toy_join toy_sorted (world0 toy_conf) (firstn 4 wevs)) = true.
Proof. vm_compute. reflexivity. Qed.
Print Assumptions C02_pending_exact.
