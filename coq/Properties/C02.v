(* C02 -- success is reported only when every target was really handled (client.c _create_command / _parse_input /
   _act_finish / _client_power_status_reply; device.c dev_check_actions / dev_enqueue_actions).
   Theorems about PM.Model.Client + PM.Model.Enqueue in the worlds of PM.Model.CliWorld. *)
From Coq Require Import List NArith ZArith Bool.
From PM Require Import Base.Bytes Base.Outcome Gen.GenConsts Gen.GenClient Model.ScriptAst Model.Enqueue Model.Script Model.Client Model.CliWorld
                       Proofs.EnqueueProofs Proofs.ClientProofs Proofs.ClientStream Proofs.ClientReply Proofs.ClientIsolation Proofs.ClientExamples.
Import ListNotations.
Local Open Scope Z_scope.

(* One power command from the moment it is queued (error flag clear) to its last completion, whatever callbacks and
   Arg writes arrive in between: the terminal line is 102 or 210; it is 102 EXACTLY when no completion carried an
   error and no Arg of this command ended as RT_UNKNOWN; the callbacks' lines (308 for every failed completion,
   305, 309) precede it; the number of completions equals the pending count. *)
Theorem C02_power_reply : forall expand_str ranged_sorted ranged_plain sorted evs s k s',
  cl_cmd (s_cl s) = Some k -> existsb (Z.eqb (k_com k)) power_coms = true -> k_error k = false ->
  no_lines evs -> events_ok expand_str ranged_sorted ranged_plain sorted s evs = true ->
  run1 expand_str ranged_sorted ranged_plain sorted s evs = Ok s' -> cl_cmd (s_cl s') = None ->
  exists t,
    cl_out (s_cl s') = cl_out (s_cl s) ++ flat_map info_text evs ++ t ++ CP_PROMPT
    /\ (t = CP_RSP_COM_COMPLETE \/ t = CP_ERR_COM_COMPLETE)
    /\ (t = CP_RSP_COM_COMPLETE <-> any_failed evs = false /\ no_unknown_result (nth (k_args k) (s_store s') []) = true)
    /\ completions evs = k_pending k.
Proof. exact power_command_reply. Qed.
Example C02_power_reply_nonvacuous :
  out_of (run1 toy_expand toy_join toy_join toy_sorted toy_s0 evs_on_ok) = bslit "001 2.4" ++ CP_EOL ++ CP_PROMPT ++ CP_RSP_COM_COMPLETE ++ CP_PROMPT
  /\ out_of (run1 toy_expand toy_join toy_join toy_sorted toy_s0 evs_on_unknown) = bslit "001 2.4" ++ CP_EOL ++ CP_PROMPT ++ bslit "309 n1: ERR" ++ CP_EOL ++ CP_ERR_COM_COMPLETE ++ CP_PROMPT.
Proof. exact (conj (proj2 ex_on_ok) (proj2 ex_on_unknown)). Qed.
Print Assumptions C02_power_reply.

(* every failed completion is named: its message is printed in a 308 line (among the lines before the terminal one) *)
Theorem C02_errors_named : forall evs err msg,
  In (EComplete err msg) evs -> err <> ACT_ESUCCESS ->
  exists a b, flat_map info_text evs = a ++ cprintf CP_INFO_ACTERROR [msg] ++ b.
Proof. exact failed_completion_reported. Qed.
Example C02_errors_named_nonvacuous :
  out_of (run1 toy_expand toy_join toy_join toy_sorted toy_s0 evs_on_fail) = bslit "001 2.4" ++ CP_EOL ++ CP_PROMPT ++ bslit "305 send(d0): 'on 1'" ++ CP_EOL
     ++ bslit "308 d0: action timed out waiting for expected response" ++ CP_EOL ++ CP_ERR_COM_COMPLETE ++ CP_PROMPT.
Proof. exact (proj2 ex_on_fail). Qed.
Print Assumptions C02_errors_named.

(* 213 exactly when the targets resolve but the pre-check fails or nothing would be queued; otherwise the command
   is queued with pending = number of queued actions, a clear error flag, and a fresh arglist in its own slot *)
Theorem C02_unhandled : forall expand_str ranged_plain cf n com arg,
  create_command expand_str ranged_plain cf n com arg =
  match resolve expand_str ranged_plain cf arg with
  | inr t => CRefused t
  | inl tg =>
      let devs := map cd_edev (cf_devs cf) in
      if (negb (check_actions devs com tg) || Nat.eqb (total (enqueue devs com tg)) 0)%bool then CRefused CP_ERR_UNIMPL
      else CQueued (mkCommand com tg (Z.of_nat (total (enqueue devs com tg))) false n) (new_arglist tg) (enqueue devs com tg)
  end.
Proof. exact create_command_resolved. Qed.
Example C02_unhandled_nonvacuous :
  out_of (run1 toy_expand toy_join toy_join toy_sorted toy_s0 [ELine (bslit "reset n1")]) = bslit "001 2.4" ++ CP_EOL ++ CP_PROMPT ++ CP_ERR_UNIMPL ++ CP_PROMPT
  /\ (exists p, CP_ERR_UNIMPL = bslit "213 " ++ p).
Proof. split; [exact (proj1 ex_refusals)|exact unimpl_is_213]. Qed.
Print Assumptions C02_unhandled.

(* when the pre-check accepts, every targeted plug of every device is covered by a queued action (after the repair
   of F4; the old predicate is refuted in Proofs/EnqueueProofs.check_actions_any_refuted) *)
Theorem C02_covered : forall devs com tgts,
  check_actions devs com tgts = true ->
  forall d p, In d devs -> In p (targeted d tgts) -> exists a, In a (enqueue_dev d com tgts) /\ covers a p.
Proof. exact check_actions_covers. Qed.
Theorem C02_old_check_refuted :
  check_actions_any [f4_dev] PM_POWER_ON [bs "b0"%string] = true /\
  needs f4_dev [bs "b0"%string] = true /\ enqueue_dev f4_dev PM_POWER_ON [bs "b0"%string] = [].
Proof. exact check_actions_any_refuted. Qed.
Print Assumptions C02_covered.

(* pending count: in every reachable world, a client's pending count is the number of queued actions that carry
   its id (part of winv; preserved by every step, see C06_client_layer_total) *)
Theorem C02_pending_exact : forall expand_str ranged_sorted ranged_plain sorted evs cf w' c k,
  CLI_ID_FIRST + Z.of_nat (connects evs) <= CLI_ID_MAX ->
  wrun expand_str ranged_sorted ranged_plain sorted (world0 cf) evs = Ok w' -> In c (w_clients w') -> cl_cmd c = Some k ->
  k_pending k = Z.of_nat (count_for (cl_id c) (w_queue w')) /\ 0 < k_pending k.
Proof. exact pending_exact. Qed.
Example C02_pending_exact_nonvacuous : is_ok (wrun toy_expand toy_join toy_join toy_sorted (world0 toy_conf) (firstn 4 wevs)) = true.
Proof. vm_compute. reflexivity. Qed.
Print Assumptions C02_pending_exact.

(* ------------------------------------------------------------------------------------------------------------------
   The device half of "success only if every script ran to completion" (Proofs/DeviceSuccess.v, over Model/Device.v).
   One iteration of _process_action, from any state of the device invariant, for any device behaviour: a completion
   with ACT_ESUCCESS is reported only for the HEAD action, only while the device is connected and the head is within
   its deadline, and only by the iteration in which the interpreter finished the action's last statement with the error
   code still ACT_ESUCCESS - which is the `Completed` step of the whole-run refinement C08_refines (a `Done` trace:
   every statement of the script once, every expect matched).  A time-out (connect / login / expect), a failed
   statement, and the abort of the actions queued behind a failed head all report a code different from ACT_ESUCCESS.
   The client half is C02_power_reply (102 iff no failed completion and no unsuccessful per-plug result); that each
   completion reaches its own client exactly once is C04_daemon_invariant. *)
From PM Require Import Model.Script Model.Device Proofs.DeviceInvG Proofs.DeviceSuccess Proofs.ScriptSim.
Theorem C02_success_only_when_script_finished : forall rmatch compress sc now d store tmo plans r,
  DInvG compress d -> pa_step rmatch compress sc now d store tmo plans = Ok r ->
  forall e, In e (pa_events r) -> is_success e = true ->
  exists act0 rest, dv_acts d = act0 :: rest /\ a_hascb act0 = true /\ e = EvComplete (a_client act0) ACT_ESUCCESS [] /\
    finishing rmatch compress sc now d store act0 /\
    exists sd' a'' store' obs evs0,
      step1 rmatch compress sc now (dv d) (set_stamp (Some (match a_stamp act0 with Some t => t | None => now end)) act0) store
        = Ok (Completed, sd', a'', store', obs, evs0) /\ a_exec a'' = [].
Proof.
  intros rm cp sc now d store tmo plans r I H e Hin Hs.
  destruct (pa_step_success rm cp sc now d store tmo plans r I H e Hin Hs) as (act0 & rest & A & B & C & F).
  exists act0, rest. repeat split; auto. exact (finishing_step1 rm cp sc now d store act0 F).
Qed.
Print Assumptions C02_success_only_when_script_finished.
(* every failure path reports a failure *)
Theorem C02_failures_report_failure : forall now d act rest store tmo plans pre r,
  a_err act <> ACT_ESUCCESS -> (forall e, In e pre -> is_success e = false) ->
  fail_and_reconnect now d act rest store tmo plans pre = Ok r -> forall e, In e (pa_events r) -> is_success e = false.
Proof. exact fail_and_reconnect_no_success. Qed.
Print Assumptions C02_failures_report_failure.
(* non-vacuity: a connected, logged-in device whose head action `on p1` (client 7) waits at its last statement `expect "done"`
   and whose input buffer holds "done": the iteration reports success for client 7; the same device past the deadline reports
   a failure instead *)
Definition ex02_p1 : plug := mkPlug (bslit "p1") (Some (bslit "n1")).
Definition ex02_scripts : list (Z * list stmt) :=
  [(PM_LOG_IN, [Send (bslit "login\n"); Expect (bslit "ok")]); (PM_POWER_ON, [Send (bslit "on %s\n"); Expect (bslit "done")])].
Definition ex02_rm : text -> text -> option pmatch := fun re s => if text_eqb re (bslit "done") then Some [Some (O, 4%nat)] else None.
Definition ex02_dev : device :=
  mkDevice (mkSdev (bslit "d0") [ex02_p1] (bslit "done") [] None false) ex02_scripts 5000000 0 DEV_CONNECTED true true
           [advance (create_action [Send (bslit "on %s\n"); Expect (bslit "done")] PM_POWER_ON (Some [ex02_p1]) 7 true false true (Some O))]
           0 1 0 1 0 MIN_DEV_BUF.
Example C02_success_nonvacuous :
  (exists r, pa_step ex02_rm (fun l => concat l) false 1000000 ex02_dev [[]] None [] = Ok r /\
             pa_events r = [EvMatched 4; EvComplete 7 ACT_ESUCCESS []]) /\
  (exists r, pa_step ex02_rm (fun l => concat l) false 6000000 (set_acts (map (set_stamp (Some 1)) (dv_acts ex02_dev)) ex02_dev) [[]] None [] = Ok r /\
             existsb is_success (pa_events r) = false /\
             existsb (fun e => match e with EvComplete c _ _ => Z.eqb c 7 | _ => false end) (pa_events r) = true).
Proof. split; eexists; vm_compute; repeat split. Qed.

(* ------------------------------------------------------------------------------------------------------------------
   END TO END, over histories (Proofs/DaemonE2E.v): the three layers above - the client layer's terminal reply, the daemon's
   delivery of the completion callbacks, the device layer's completion events - in ONE theorem about every pass of every
   run of the whole-daemon model (Model/Daemon.v) from start-up: any rounds (any client input, any number of clients, any
   transport, any peer behaviour, any clock).

   An external ghost LEDGER is threaded along the run (drun_led / dstep_led; no Model file knows about it): for every client
   id (enq, ok, fail) = the device actions enqueued for its current command, the completions with ACT_ESUCCESS and the
   completions with an error seen since.  It is computed only from what the components of a pass return: the enqueue list
   `q` that _parse_input hands to dev_enqueue_actions (a new command: (total q, 0, 0)), and the EvComplete events of the
   event list the pass returns, in delivery order.  It never reads a pending counter, an error flag or a device queue.

   (1) the ledger is tied to the state, before and after the pass: for EVERY id the number of its actions still queued on
       the devices is enq - ok - fail; a client's pending counter is enq - ok - fail > 0 and its error flag is (0 < fail);
       for an idle client everything enqueued has completed;
   (2) the callback half of the pass (sta = the state the client half cli_post_poll returns, stb = the state the pass
       returns) leaves a client without a command exactly as it is; for every client with a POWER command in progress
       when it begins: its output history gains exactly `render new`; any token list its stream was
       accepted with (stream_ok) extends by `new` and is accepted again; while the command goes on, `new` holds
       informational lines only; and when the stream gains the TERMINAL token of the command in this pass it is 102 or 210,
       EVERY action enqueued for the command has produced its completion event in this or an earlier pass of the run
       (ok + fail = enq > 0), and
           102  <->  fail = 0 (so ok = enq: every completion carried ACT_ESUCCESS) and no result of the command's list is RT_UNKNOWN
           210  <->  one completion carried an error, or a result is RT_UNKNOWN
       with ledger and result list as they stand at the END of the pass.
   The success completions are the ones of C02_success_only_when_script_finished: C02_end_to_end_scripts below. *)
From PM Require Import Model.Daemon Spec.Proto Proofs.DaemonLedger Proofs.DaemonPending Proofs.DaemonE2E.
From PM Require Proofs.DaemonE2EEx Properties.C07.
Theorem C02_end_to_end : forall expand_str ranged_sorted ranged_plain sorted rmatch compress short_circuit st0 now plans rs r,
  boot compress st0 -> Z.of_nat (length rs) < INT_MAX - 1 ->
  exists st1 o1, dinit st0 now plans = Ok (st1, o1) /\
  match drun expand_str ranged_sorted ranged_plain sorted rmatch compress short_circuit st1 rs [] with
  | Ok (st, _) =>
    let L := drun_led expand_str ranged_sorted ranged_plain sorted rmatch compress short_circuit st1 rs lzero in
    match cli_post_poll expand_str ranged_sorted ranged_plain sorted st r with
    | Ok (sta, e1) =>
      match dev_loop ranged_sorted rmatch compress short_circuit (length (dm_devs sta)) (r_now r) sta O (r_dev r) None [] with
      | Ok (stb, tmo, e2) =>
        dstep expand_str ranged_sorted ranged_plain sorted rmatch compress short_circuit st r = Ok (stb, mkDout (e1 ++ e2) tmo) /\
        let Lb := dstep_led expand_str ranged_sorted ranged_plain sorted rmatch compress short_circuit st r L in
        (* (1) *)
        ledger_tied L st /\ ledger_tied Lb stb /\
        (* (2) *)
        (forall p x0, nth_error (dm_clients sta) p = Some x0 -> cl_cmd (dc x0) = None -> nth_error (dm_clients stb) p = Some x0) /\
        forall p x0 k0, nth_error (dm_clients sta) p = Some x0 -> cl_cmd (dc x0) = Some k0 -> existsb (Z.eqb (k_com k0)) power_coms = true ->
          exists x new, nth_error (dm_clients stb) p = Some x /\ cid x = cid x0 /\
            cl_out (dc x) = cl_out (dc x0) ++ render new /\
            (forall toks0, cli_okT x0 toks0 -> cli_okT x (toks0 ++ new)) /\
            match cl_cmd (dc x) with
            | Some k => Forall info_tok new /\ k_com k = k_com k0 /\ k_args k = k_args k0
            | None =>
                let r := Lb (cid x0) in let al := nth (k_args k0) (dm_store stb) [] in
                exists infos c p, new = infos ++ [TLine c p; TPrompt] /\ Forall info_tok infos /\ (c = 102%N \/ c = 210%N) /\
                  l_ok r + l_fail r = l_enq r /\ 0 < l_enq r /\ 0 <= l_ok r /\ 0 <= l_fail r /\
                  (c = 102%N <-> l_fail r = 0 /\ l_ok r = l_enq r /\ no_unknown_result al = true) /\
                  (c = 210%N <-> 0 < l_fail r \/ no_unknown_result al = false)
            end
      | _ => False
      end
    | _ => False
    end
  | _ => False
  end.
Proof. exact c02_end_to_end. Qed.
(* ledger_tied L st (Proofs/DaemonE2E.v), spelled out *)
Theorem C02_ledger_tied : forall L st,
  ledger_tied L st <->
  (forall id, cnt id (qall (dm_devs st)) = l_enq (L id) - l_ok (L id) - l_fail (L id) /\ 0 <= l_ok (L id) /\ 0 <= l_fail (L id)) /\
  (forall x k, In x (dm_clients st) -> cl_cmd (dc x) = Some k ->
     k_pending k = l_enq (L (cid x)) - l_ok (L (cid x)) - l_fail (L (cid x)) /\ k_error k = (0 <? l_fail (L (cid x))) /\
     l_ok (L (cid x)) + l_fail (L (cid x)) < l_enq (L (cid x))) /\
  (forall x, In x (dm_clients st) -> cl_cmd (dc x) = None -> l_ok (L (cid x)) + l_fail (L (cid x)) = l_enq (L (cid x))).
Proof. exact (fun L st => iff_refl _). Qed.
(* non-vacuity (Proofs/DaemonE2EEx.v; evaluated): a daemon with one coprocess device that satisfies `boot`; client 1 sends `on n1`;
   in the fifth pass the device's `done` completes the script: the event EvComplete 1 ACT_ESUCCESS is delivered, the ledger
   entry of id 1 goes from (1,0,0) to (1,1,0) and the stream of client 1 gains `102 Command completed successfully` and
   the prompt.  Against a silent device the login times out at 7 s: ledger (1,0,1), and the stream gains the 308 line,
   `210 Command completed with errors` and the prompt. *)
Example C02_end_to_end_nonvacuous :
  boot C07.ex_compress DaemonE2EEx.e2e_st /\
  DaemonE2EEx.last_pass DaemonE2EEx.power_rounds =
    Some ([(1, Some PM_POWER_ON, DaemonE2EEx.banner)],
          [(1, None, DaemonE2EEx.banner ++ render [TLine 102 (bslit "Command completed successfully"); TPrompt])],
          [SysDev 0 (EvWrote (bslit "on p1\n")); SysDev 0 (EvMatched 4); SysDev 0 (EvComplete 1 ACT_ESUCCESS [])],
          mkL 1 0 0, mkL 1 1 0, [[mkArg (bslit "n1") ST_UNKNOWN RT_NONE None]], []) /\
  DaemonE2EEx.last_pass DaemonE2EEx.fail_rounds =
    Some ([(1, Some PM_POWER_ON, DaemonE2EEx.banner)],
          [(1, None, DaemonE2EEx.banner ++ render [TLine 308 (bslit "d0: login timeout"); TLine 210 (bslit "Command completed with errors"); TPrompt])],
          [SysDev 0 (EvComplete 1 ACT_ELOGINTIMEOUT (bslit "d0: login timeout")); SysDev 0 EvDisconnect; SysDev 0 EvConnect],
          mkL 1 0 0, mkL 1 0 1, [[mkArg (bslit "n1") ST_UNKNOWN RT_NONE None]], []).
Proof. exact (conj DaemonE2EEx.e2e_boot (conj DaemonE2EEx.power_example DaemonE2EEx.fail_example)). Qed.
Print Assumptions C02_end_to_end.

(* ... and the device layer's half inside the same histories: every completion event with ACT_ESUCCESS that any pass of any
   run from start-up produces - these are exactly the events the ledger counts as `ok` - was produced by an iteration of
   _process_action (pa_step, from a device state that satisfies the device invariant) that finished the LAST statement of
   the head action's script with the error code still ACT_ESUCCESS (`finishing`: the `Completed` step of C08_refines; every
   expect matched, every statement once), for the action at the head of that device's queue, and carries that action's
   client id. *)
Theorem C02_end_to_end_scripts : forall expand_str ranged_sorted ranged_plain sorted rmatch compress short_circuit st0 now plans rs r,
  boot compress st0 -> Z.of_nat (length rs) < INT_MAX - 1 ->
  exists st1 o1, dinit st0 now plans = Ok (st1, o1) /\
  match drun expand_str ranged_sorted ranged_plain sorted rmatch compress short_circuit st1 rs [] with
  | Ok (st, _) =>
    match dstep expand_str ranged_sorted ranged_plain sorted rmatch compress short_circuit st r with
    | Ok (_, o) =>
        forall j e, In (SysDev j e) (do_evs o) -> is_success e = true ->
          exists d store tmo plans1 res act0 rest,
            DInvG compress d /\ pa_step rmatch compress short_circuit (r_now r) d store tmo plans1 = Ok res /\ In e (pa_events res) /\
            dv_acts d = act0 :: rest /\ a_hascb act0 = true /\ e = EvComplete (a_client act0) ACT_ESUCCESS [] /\
            finishing rmatch compress short_circuit (r_now r) d store act0
    | _ => False
    end
  | _ => False
  end.
Proof. exact c02_end_to_end_scripts. Qed.
(* non-vacuity: the fifth pass of the example history produces such an event *)
Example C02_end_to_end_scripts_nonvacuous :
  match DaemonE2EEx.last_pass DaemonE2EEx.power_rounds with
  | Some (_, _, evs, _, _, _, _) => In (SysDev 0 (EvComplete 1 ACT_ESUCCESS [])) evs /\ is_success (EvComplete 1 ACT_ESUCCESS []) = true
  | None => False
  end.
Proof. rewrite DaemonE2EEx.power_example. split; [right; right; left; reflexivity|reflexivity]. Qed.
Print Assumptions C02_end_to_end_scripts.

(* ------------------------------------------------------------------------------------------------------------------
   THE CLIENT HALF OF A PASS NEVER ENDS A COMMAND (Proofs/DaemonE2ETerminal.v).  C02_end_to_end speaks about the terminal token a
   client's stream gains in the CALLBACK half of a pass.  The other half - cli_post_poll: accept, read, write, _handle_input /
   _parse_input for every buffered line, _destroy_client - is covered here, for EVERY state that satisfies the cross-layer
   invariant (DPInv, NL: what every reachable state satisfies, C04_daemon_invariant) and EVERY answer of poll / read / write:

   C02_client_half_keeps_commands: a client with a command in progress when the client half begins
     - either is destroyed in it: exactly when poll reported POLLERR / POLLNVAL for its descriptor (ci_bad; client.c
       cli_post_poll `if (revents & (POLLERR | POLLNVAL)) delete`).  Then NOTHING is written to it - no terminal line of the
       command, ever - and no record carries its id afterwards; its queued actions stay (C11_vanish) and their completions find
       no client (Daemon.route: find_cli = None; example below).  (End-of-file on its socket does NOT destroy it: client_quit is
       set and the record stays until the command has ended.)
     - or is still there afterwards with the SAME command record - same command word, targets, pending counter, error flag,
       result list: cl_cmd = Some k0 - same id, same -x / telemetry flags, and its output has gained REFUSALS only: for every
       further request line one of `208` (busy, no prompt) or, for a line of CP_LINEMAX bytes or more, `203` followed by the
       prompt (no prompt once the client has quit).  Codes 208 and 203 only: never 102 / 210 / 103 / 211, never a 3xx line.
   C02_creating_line_is_silent: the request line that CREATES a command writes nothing: error flag clear, pending counter = the
     number of actions handed to dev_enqueue_actions = the ledger entry (enq, 0, 0) of C02_end_to_end; from the next line on
     the lines of that client are refused (the per-line lemmas line_busy / hi_busy behind C02_client_half_keeps_commands).
   C02_terminal_only_from_completions: every pass of every run from start-up, both halves composed: for every client that has a
     POWER command in progress when the pass BEGINS (record x0, command k0), either it is destroyed by the client half as above
     (nothing written, the id is gone when the pass ends) or when the pass ends its record is there (same id) and the tokens its
     stream gained in the whole pass are `rf ++ new`: refusals from the client half, then what C02_end_to_end says of the
     callback half -
       the command is still in progress (same command word and result list): `new` holds informational lines only, so the pass
         wrote NO terminal line of the command;
       the command has ended - cl_cmd is None only in this case, and only the callback half can bring it about: `new` is
         informational lines, then the ONE terminal line 102 / 210 decided as in C02_end_to_end, then the prompt; when the
         callback half began not every action enqueued for the command had completed (ledger La = the ledger after the client
         half: ok + fail < enq), when it ended every one had (ok + fail = enq), and the pass's event list holds a completion
         event EvComplete for this client's id: the command disappears ONLY in a pass whose callback half delivered its last
         completion.
     A command is created by a request line of a client WITHOUT a command (silently: C02_creating_line_is_silent), so it is in
     progress at the beginning of every later pass up to the one that ends it: by the two cases, in no pass between its creation
     and that pass does the stream gain 102 / 210, and the replies to lines the client sends meanwhile are 208 / 203 only. *)
From PM Require Import Proofs.DaemonFrame Proofs.DaemonE2ETerminal.
From PM Require Proofs.DaemonE2ETerminalEx.
Theorem C02_client_half_keeps_commands : forall expand_str ranged_sorted ranged_plain sorted compress st r sta e1,
  DPInv compress st -> NL st -> 1 <= dm_seq st < INT_MAX ->
  cli_post_poll expand_str ranged_sorted ranged_plain sorted st r = Ok (sta, e1) ->
  forall p x0 k0, nth_error (dm_clients st) p = Some x0 -> cl_cmd (dc x0) = Some k0 ->
    (exists x rf, In x (dm_clients sta) /\ BRel x0 k0 x rf) \/
    (ci_bad (nth p (r_cli r) cin0) = true /\ ~ In (cid x0) (ids sta)).
Proof. exact cli_post_poll_busy. Qed.
(* BRel and refusals, spelled out *)
Theorem C02_refusals_spelled_out :
  (forall x0 k0 x rf, BRel x0 k0 x rf <->
     cid x = cid x0 /\ cl_cmd (dc x) = Some k0 /\ cl_exp (dc x) = cl_exp (dc x0) /\ cl_tele (dc x) = cl_tele (dc x0) /\
     refusals rf /\ cl_out (dc x) = cl_out (dc x0) ++ render rf /\ (forall toks0, cli_okT x0 toks0 -> cli_okT x (toks0 ++ rf))) /\
  (forall l, refusals l <-> exists gs, l = concat gs /\ Forall (fun d => d = [busy_tok] \/ d = [long_tok; TPrompt] \/ d = [long_tok]) gs) /\
  render [busy_tok] = CP_ERR_CLIBUSY /\ render [long_tok] = CP_ERR_TOOLONG /\
  (forall l, refusals l -> forall c p, In (TLine c p) l -> c = 208%N \/ c = 203%N) /\
  (forall l, Forall info_tok l -> forall c p, In (TLine c p) l -> ~ (c = 102 \/ c = 210 \/ c = 103 \/ c = 211)%N).
Proof.
  exact (conj (fun _ _ _ _ => iff_refl _) (conj (fun _ => iff_refl _) (conj (eq_sym (proj1 c_clibusy)) (conj (eq_sym (proj1 c_toolong))
        (conj refusals_codes infos_not_terminal))))).
Qed.
Theorem C02_creating_line_is_silent : forall expand_str ranged_sorted ranged_plain sorted st i acc st1 a1 x0 L,
  handle_input expand_str ranged_sorted ranged_plain sorted 1 st i acc = Ok (st1, a1) ->
  nth_error (dm_clients st) i = Some x0 -> cl_cmd (dc x0) = None ->
  forall x k, nth_error (dm_clients st1) i = Some x -> cl_cmd (dc x) = Some k ->
    cid x = cid x0 /\ cl_out (dc x) = cl_out (dc x0) /\ k_error k = false /\ 0 < k_pending k /\ k_args k = length (dm_store st) /\
    line_led expand_str ranged_sorted ranged_plain sorted st i L (cid x0) = mkL (k_pending k) 0 0.
Proof. exact (fun es rs rp so => line_creates es rs rp so (fun _ _ => None)). Qed.
(* ... and from ANY state (no invariant needed), for any number of further lines of _handle_input: every command in progress stays as it
   is, the outputs gain refusals only - in particular from the state right after the creating line to the end of that _handle_input *)
Theorem C02_handle_input_keeps_commands : forall expand_str ranged_sorted ranged_plain sorted fuel st i acc st' a',
  handle_input expand_str ranged_sorted ranged_plain sorted fuel st i acc = Ok (st', a') ->
  forall p x0 k0, nth_error (dm_clients st) p = Some x0 -> cl_cmd (dc x0) = Some k0 ->
    exists x rf, nth_error (dm_clients st') p = Some x /\ BRel x0 k0 x rf.
Proof. exact hi_busy. Qed.
Theorem C02_terminal_only_from_completions : forall expand_str ranged_sorted ranged_plain sorted rmatch compress short_circuit st0 now plans rs r,
  boot compress st0 -> Z.of_nat (length rs) < INT_MAX - 1 ->
  exists st1 o1, dinit st0 now plans = Ok (st1, o1) /\
  match drun expand_str ranged_sorted ranged_plain sorted rmatch compress short_circuit st1 rs [] with
  | Ok (st, _) =>
    let L := drun_led expand_str ranged_sorted ranged_plain sorted rmatch compress short_circuit st1 rs lzero in
    match cli_post_poll expand_str ranged_sorted ranged_plain sorted st r with
    | Ok (sta, e1) =>
      match dev_loop ranged_sorted rmatch compress short_circuit (length (dm_devs sta)) (r_now r) sta O (r_dev r) None [] with
      | Ok (stb, tmo, e2) =>
        dstep expand_str ranged_sorted ranged_plain sorted rmatch compress short_circuit st r = Ok (stb, mkDout (e1 ++ e2) tmo) /\
        let La := cpp_led expand_str ranged_sorted ranged_plain sorted st r L in
        let Lb := dstep_led expand_str ranged_sorted ranged_plain sorted rmatch compress short_circuit st r L in
        forall p x0 k0, nth_error (dm_clients st) p = Some x0 -> cl_cmd (dc x0) = Some k0 -> existsb (Z.eqb (k_com k0)) power_coms = true ->
          (ci_bad (nth p (r_cli r) cin0) = true /\ ~ In (cid x0) (ids sta) /\ ~ In (cid x0) (ids stb)) \/
          exists pa xa rf, nth_error (dm_clients sta) pa = Some xa /\ BRel x0 k0 xa rf /\
            exists xb new, nth_error (dm_clients stb) pa = Some xb /\ cid xb = cid x0 /\
              cl_out (dc xb) = cl_out (dc x0) ++ render (rf ++ new) /\
              (forall toks0, cli_okT x0 toks0 -> cli_okT xb (toks0 ++ rf ++ new)) /\
              match cl_cmd (dc xb) with
              | Some k => Forall info_tok new /\ k_com k = k_com k0 /\ k_args k = k_args k0
              | None =>
                  (let r := Lb (cid xa) in let al := nth (k_args k0) (dm_store stb) [] in
                   exists infos c p, new = infos ++ [TLine c p; TPrompt] /\ Forall info_tok infos /\ (c = 102%N \/ c = 210%N) /\
                     l_ok r + l_fail r = l_enq r /\ 0 < l_enq r /\ 0 <= l_ok r /\ 0 <= l_fail r /\
                     (c = 102%N <-> l_fail r = 0 /\ l_ok r = l_enq r /\ no_unknown_result al = true) /\
                     (c = 210%N <-> 0 < l_fail r \/ no_unknown_result al = false)) /\
                  l_ok (La (cid x0)) + l_fail (La (cid x0)) < l_enq (La (cid x0)) /\
                  exists j err msg, In (SysDev j (EvComplete (cid x0) err msg)) e2
              end
      | _ => False
      end
    | _ => False
    end
  | _ => False
  end.
Proof. exact c02_terminal_only_from_completions. Qed.
(* non-vacuity (Proofs/DaemonE2ETerminalEx.v; evaluated): the daemon of C02_end_to_end_nonvacuous; client 1 sends `on n1` and, while the
   command is in progress, `status n1`: the client half of the third pass answers 208 (= CP_ERR_CLIBUSY, no prompt), the command
   stays; the fifth pass delivers EvComplete 1 ACT_ESUCCESS and the stream gains `102 Command completed successfully` and the prompt.
   When poll reports POLLERR for the client in the third pass instead, the record is destroyed with the command in progress,
   nothing is written, and the completion event of the fifth pass finds no client *)
Example C02_terminal_only_from_completions_nonvacuous :
  (DaemonE2ETerminalEx.pass_view (firstn 3 DaemonE2ETerminalEx.busy_rounds) =
     Some ([(1, Some PM_POWER_ON, DaemonE2EEx.banner)], [(1, Some PM_POWER_ON, DaemonE2EEx.banner ++ render [busy_tok])],
           [(1, Some PM_POWER_ON, DaemonE2EEx.banner ++ render [busy_tok])], []) /\
   DaemonE2ETerminalEx.pass_view DaemonE2ETerminalEx.busy_rounds =
     Some ([(1, Some PM_POWER_ON, DaemonE2EEx.banner ++ render [busy_tok])], [(1, Some PM_POWER_ON, DaemonE2EEx.banner ++ render [busy_tok])],
           [(1, None, DaemonE2EEx.banner ++ render [busy_tok] ++ render [TLine 102 (bslit "Command completed successfully"); TPrompt])],
           [(1, ACT_ESUCCESS)]) /\
   render [busy_tok] = CP_ERR_CLIBUSY) /\
  (DaemonE2ETerminalEx.pass_view (firstn 3 DaemonE2ETerminalEx.vanish_rounds) = Some ([(1, Some PM_POWER_ON, DaemonE2EEx.banner)], [], [], []) /\
   DaemonE2ETerminalEx.pass_view DaemonE2ETerminalEx.vanish_rounds = Some ([], [], [], [(1, ACT_ESUCCESS)])).
Proof. exact (conj DaemonE2ETerminalEx.busy_example DaemonE2ETerminalEx.vanish_example). Qed.
Print Assumptions C02_client_half_keeps_commands.
Print Assumptions C02_creating_line_is_silent.
Print Assumptions C02_handle_input_keeps_commands.
Print Assumptions C02_terminal_only_from_completions.
