(* C02 -- success is reported only when every target was really handled (client.c _create_command / _parse_input /
   _act_finish / _client_power_status_reply; device.c dev_check_actions / dev_enqueue_actions).
   Theorems about PM.Model.Client + PM.Model.Enqueue in the worlds of PM.Model.CliWorld. *)
From Coq Require Import List NArith ZArith Bool.
From PM Require Import Base.Bytes Base.Outcome Gen.GenConsts Gen.GenClient Model.ScriptAst Model.Enqueue Model.Script Model.Client Model.CliWorld
                       Proofs.EnqueueProofs Proofs.ClientProofs Proofs.ClientStream Proofs.ClientReply Proofs.ClientIsolation Proofs.ClientExamples.
Import ListNotations.
Local Open Scope Z_scope.

(* One power command from the moment it is queued (error flag clear) to its last completion, whatever callbacks and
   Arg writes arrive in between: the terminal line is 102 or 210; it is 102 EXACTLY when no completion carried an
   error and no Arg of this command ended as RT_UNKNOWN; the callbacks' lines (308 for every failed completion,
   305, 309) precede it; the number of completions equals the pending count. *)
Theorem C02_power_reply : forall expand_str ranged_sorted ranged_plain sorted evs s k s',
  cl_cmd (s_cl s) = Some k -> existsb (Z.eqb (k_com k)) power_coms = true -> k_error k = false ->
  no_lines evs -> events_ok expand_str ranged_sorted ranged_plain sorted s evs = true ->
  run1 expand_str ranged_sorted ranged_plain sorted s evs = Ok s' -> cl_cmd (s_cl s') = None ->
  exists t,
    cl_out (s_cl s') = cl_out (s_cl s) ++ flat_map info_text evs ++ t ++ CP_PROMPT
    /\ (t = CP_RSP_COM_COMPLETE \/ t = CP_ERR_COM_COMPLETE)
    /\ (t = CP_RSP_COM_COMPLETE <-> any_failed evs = false /\ no_unknown_result (nth (k_args k) (s_store s') []) = true)
    /\ completions evs = k_pending k.
Proof. exact power_command_reply. Qed.
Example C02_power_reply_nonvacuous :
  out_of (run1 toy_expand toy_join toy_join toy_sorted toy_s0 evs_on_ok) = bslit "001 2.4" ++ CP_EOL ++ CP_PROMPT ++ CP_RSP_COM_COMPLETE ++ CP_PROMPT
  /\ out_of (run1 toy_expand toy_join toy_join toy_sorted toy_s0 evs_on_unknown) = bslit "001 2.4" ++ CP_EOL ++ CP_PROMPT ++ bslit "309 n1: ERR" ++ CP_EOL ++ CP_ERR_COM_COMPLETE ++ CP_PROMPT.
Proof. exact (conj (proj2 ex_on_ok) (proj2 ex_on_unknown)). Qed.
Print Assumptions C02_power_reply.

(* every failed completion is named: its message is printed in a 308 line (among the lines before the terminal one) *)
Theorem C02_errors_named : forall evs err msg,
  In (EComplete err msg) evs -> err <> ACT_ESUCCESS ->
  exists a b, flat_map info_text evs = a ++ cprintf CP_INFO_ACTERROR [msg] ++ b.
Proof. exact failed_completion_reported. Qed.
Example C02_errors_named_nonvacuous :
  out_of (run1 toy_expand toy_join toy_join toy_sorted toy_s0 evs_on_fail) = bslit "001 2.4" ++ CP_EOL ++ CP_PROMPT ++ bslit "305 send(d0): 'on 1'" ++ CP_EOL
     ++ bslit "308 d0: action timed out waiting for expected response" ++ CP_EOL ++ CP_ERR_COM_COMPLETE ++ CP_PROMPT.
Proof. exact (proj2 ex_on_fail). Qed.
Print Assumptions C02_errors_named.

(* 213 exactly when the targets resolve but the pre-check fails or nothing would be queued; otherwise the command
   is queued with pending = number of queued actions, a clear error flag, and a fresh arglist in its own slot *)
Theorem C02_unhandled : forall expand_str ranged_plain cf n com arg,
  create_command expand_str ranged_plain cf n com arg =
  match resolve expand_str ranged_plain cf arg with
  | inr t => CRefused t
  | inl tg =>
      let devs := map cd_edev (cf_devs cf) in
      if (negb (check_actions devs com tg) || Nat.eqb (total (enqueue devs com tg)) 0)%bool then CRefused CP_ERR_UNIMPL
      else CQueued (mkCommand com tg (Z.of_nat (total (enqueue devs com tg))) false n) (new_arglist tg) (enqueue devs com tg)
  end.
Proof. exact create_command_resolved. Qed.
Example C02_unhandled_nonvacuous :
  out_of (run1 toy_expand toy_join toy_join toy_sorted toy_s0 [ELine (bslit "reset n1")]) = bslit "001 2.4" ++ CP_EOL ++ CP_PROMPT ++ CP_ERR_UNIMPL ++ CP_PROMPT
  /\ (exists p, CP_ERR_UNIMPL = bslit "213 " ++ p).
Proof. split; [exact (proj1 ex_refusals)|exact unimpl_is_213]. Qed.
Print Assumptions C02_unhandled.

(* when the pre-check accepts, every targeted plug of every device is covered by a queued action (after the repair
   of F4; the old predicate is refuted in Proofs/EnqueueProofs.check_actions_any_refuted) *)
Theorem C02_covered : forall devs com tgts,
  check_actions devs com tgts = true ->
  forall d p, In d devs -> In p (targeted d tgts) -> exists a, In a (enqueue_dev d com tgts) /\ covers a p.
Proof. exact check_actions_covers. Qed.
Theorem C02_old_check_refuted :
  check_actions_any [f4_dev] PM_POWER_ON [bs "b0"%string] = true /\
  needs f4_dev [bs "b0"%string] = true /\ enqueue_dev f4_dev PM_POWER_ON [bs "b0"%string] = [].
Proof. exact check_actions_any_refuted. Qed.
Print Assumptions C02_covered.

(* pending count: in every reachable world, a client's pending count is the number of queued actions that carry
   its id (part of winv; preserved by every step, see C06_client_layer_total) *)
Theorem C02_pending_exact : forall expand_str ranged_sorted ranged_plain sorted evs cf w' c k,
  CLI_ID_FIRST + Z.of_nat (connects evs) <= CLI_ID_MAX ->
  wrun expand_str ranged_sorted ranged_plain sorted (world0 cf) evs = Ok w' -> In c (w_clients w') -> cl_cmd c = Some k ->
  k_pending k = Z.of_nat (count_for (cl_id c) (w_queue w')) /\ 0 < k_pending k.
Proof. exact pending_exact. Qed.
Example C02_pending_exact_nonvacuous : is_ok (wrun toy_expand toy_join toy_join toy_sorted (world0 toy_conf) (firstn 4 wevs)) = true.
Proof. vm_compute. reflexivity. Qed.
Print Assumptions C02_pending_exact.

(* ------------------------------------------------------------------------------------------------------------------
   The device half of "success only if every script ran to completion" (Proofs/DeviceSuccess.v, over Model/Device.v).
   One iteration of _process_action, from any state of the device invariant, for any device behaviour: a completion
   with ACT_ESUCCESS is reported only for the HEAD action, only while the device is connected and the head is within
   its deadline, and only by the iteration in which the interpreter finished the action's last statement with the error
   code still ACT_ESUCCESS - which is the `Completed` step of the whole-run refinement C08_refines (a `Done` trace:
   every statement of the script once, every expect matched).  A time-out (connect / login / expect), a failed
   statement, and the abort of the actions queued behind a failed head all report a code different from ACT_ESUCCESS.
   The client half is C02_power_reply (102 iff no failed completion and no unsuccessful per-plug result); that each
   completion reaches its own client exactly once is C04_daemon_invariant. *)
From PM Require Import Model.Script Model.Device Proofs.DeviceInvG Proofs.DeviceSuccess Proofs.ScriptSim.
Theorem C02_success_only_when_script_finished : forall rmatch compress sc now d store tmo plans r,
  DInvG compress d -> pa_step rmatch compress sc now d store tmo plans = Ok r ->
  forall e, In e (pa_events r) -> is_success e = true ->
  exists act0 rest, dv_acts d = act0 :: rest /\ a_hascb act0 = true /\ e = EvComplete (a_client act0) ACT_ESUCCESS [] /\
    finishing rmatch compress sc now d store act0 /\
    exists sd' a'' store' obs evs0,
      step1 rmatch compress sc now (dv d) (set_stamp (Some (match a_stamp act0 with Some t => t | None => now end)) act0) store
        = Ok (Completed, sd', a'', store', obs, evs0) /\ a_exec a'' = [].
Proof.
  intros rm cp sc now d store tmo plans r I H e Hin Hs.
  destruct (pa_step_success rm cp sc now d store tmo plans r I H e Hin Hs) as (act0 & rest & A & B & C & F).
  exists act0, rest. repeat split; auto. exact (finishing_step1 rm cp sc now d store act0 F).
Qed.
Print Assumptions C02_success_only_when_script_finished.
(* every failure path reports a failure *)
Theorem C02_failures_report_failure : forall now d act rest store tmo plans pre r,
  a_err act <> ACT_ESUCCESS -> (forall e, In e pre -> is_success e = false) ->
  fail_and_reconnect now d act rest store tmo plans pre = Ok r -> forall e, In e (pa_events r) -> is_success e = false.
Proof. exact fail_and_reconnect_no_success. Qed.
Print Assumptions C02_failures_report_failure.
(* non-vacuity: a connected, logged-in device whose head action `on p1` (client 7) waits at its last statement `expect "done"`
   and whose input buffer holds "done": the iteration reports success for client 7; the same device past the deadline reports
   a failure instead *)
Definition ex02_p1 : plug := mkPlug (bslit "p1") (Some (bslit "n1")).
Definition ex02_scripts : list (Z * list stmt) :=
  [(PM_LOG_IN, [Send (bslit "login\n"); Expect (bslit "ok")]); (PM_POWER_ON, [Send (bslit "on %s\n"); Expect (bslit "done")])].
Definition ex02_rm : text -> text -> option pmatch := fun re s => if text_eqb re (bslit "done") then Some [Some (O, 4%nat)] else None.
Definition ex02_dev : device :=
  mkDevice (mkSdev (bslit "d0") [ex02_p1] (bslit "done") [] None false) ex02_scripts 5000000 0 DEV_CONNECTED true true
           [advance (create_action [Send (bslit "on %s\n"); Expect (bslit "done")] PM_POWER_ON (Some [ex02_p1]) 7 true false true (Some O))]
           0 1 0 1 0 MIN_DEV_BUF.
Example C02_success_nonvacuous :
  (exists r, pa_step ex02_rm (fun l => concat l) false 1000000 ex02_dev [[]] None [] = Ok r /\
             pa_events r = [EvMatched 4; EvComplete 7 ACT_ESUCCESS []]) /\
  (exists r, pa_step ex02_rm (fun l => concat l) false 6000000 (set_acts (map (set_stamp (Some 1)) (dv_acts ex02_dev)) ex02_dev) [[]] None [] = Ok r /\
             existsb is_success (pa_events r) = false /\
             existsb (fun e => match e with EvComplete c _ _ => Z.eqb c 7 | _ => false end) (pa_events r) = true).
Proof. split; eexists; vm_compute; repeat split. Qed.
