(* C07 - no device behaviour can crash or corrupt the daemon (device layer).
   Model: Model/Device.v (per-device state machine of device.c: _process_action, _act_completion, _enqueue_actions(login/ping/client),
   _rewind_action, _disconnect, _connect, _reconnect, _time_to_reconnect, _enqueue_ping, _handle_ready_device, dev_post_poll's loop body) and
   Model/DevHarness.v (several devices with stub transports, op lists), tied to the real device.c after EVERY pass by the exact differential
   R-DEV (props/C08.py + props/devlib.py).  glibc regexec and host-range compression are Section variables (any oracle).  Statements only;
   proofs in Proofs/Device*.v.  `valid_op` = client commands are the nine targeted ones, dev_initial_connect happens once (HInit);
   `cfg_ok` = what the parser guarantees (login script exists: F14; blocks non-empty; formats %s/%%-only) + formatted send strings fit 64 KiB. *)

(* HANG.  The C loop of _process_action has no bound; the model's loop is a structural recursion on a fuel.  Until 2026-10-02 the fuel was
   the constant 4096 and every theorem here was "Ok or Hang"; `C07_no_hang_refuted` exhibited a legal configuration (65 plugs under two
   nested foreachplug) on which the constant ran out - an artefact of the model, the C terminates.  Now the fuel is STATE-DEPENDENT:
   Model/Device.pa_fuel d3 = 2 + psi d3, psi = the potential of the queue handed to the loop (Model/DeviceFuel.v: remaining statements, a
   foreach weighted by the plugs of the device it has not visited yet), and Hang is excluded outright:
     C07_never_hangs     one device's share of dev_post_poll ALWAYS returns Ok and re-establishes the invariant DInvH
                         (= DInvG, 0 <= retry_count, every exec context walks plug lists no longer than the device's own and blocks at most
                         7 deep, every script of the device nests at most 7 deep);
     C07_total_no_hang   from the configured state, after start-up + dev_initial_connect, EVERY operation sequence returns Ok
                         (never Abort / MemErr / Exit / Hang); C07_total_from_no_hang: the same from any state satisfying HInv and HInvH.
   The only hypothesis added is STATIC: nest_ok = every script nests its blocks at most 7 deep (the do..while round of the model keeps its
   constant fuel 8; the C round has no bound either).  Proofs/SpecBridge.shipped_nest_ok re-checks it for every shipped specification on every
   run (the deepest shipped script nests 1 level).  The old theorems C07_total / C07_total_from / C07_telnet_replies keep their
   `Hang _ => True` form (the daemon layer quotes them); C07_no_hang_bounded (the measure, for any P, D, fuel) stays; C07_pass_no_hang lost
   its bound `Psi < 4096` (the fuel now IS the potential); C07_no_hang_refuted is replaced by C07_constant_fuel_insufficient: the SAME
   configuration and pass, with the old constant the loop would stop at Hang 2, with the model's fuel the pass completes (R-DEV agrees with
   the C: the device is logged in after the pass). *)
(* OPEN *) (* the nesting bound itself: a script nested 8 or more deep makes the model's do..while round return Hang 1 although the C has no such
   limit (no shipped script comes near; the parser accepts any depth).  A depth-dependent round fuel would remove nest_ok. *)
(* OPEN *) (* C07_others_usable is C05's; the telnet filter (device_tcp.c) and cbuf are C09's; device_tcp.c / device_pipe.c descriptor
   bookkeeping is abstracted (stub transports: the connect methods answer with a plan) and only exercised by the pmsim monitors. *)
From Coq Require Import List NArith ZArith Bool Lia.
From PM Require Import Base.Bytes Base.Outcome Base.Dec Gen.GenConsts Gen.GenCbuf Model.ScriptAst Model.Enqueue Model.Script Model.Device
  Model.DevHarness Proofs.DeviceProofs Proofs.DeviceStmt Proofs.DeviceStmtG Proofs.DeviceInv Proofs.DeviceInvG Proofs.DeviceRun Proofs.DeviceRunG Proofs.DeviceTimer Proofs.DeviceLocal Proofs.DeviceThms Proofs.DeviceMask Model.DeviceFuel Proofs.DeviceFuel Proofs.EnqueueProofs Proofs.DeviceHang.
Import ListNotations.
Local Open Scope Z_scope.

(* no history of device behaviour crashes the device layer: from the configured, never connected state, after the harness start-up
   (clock, connect plans, arg lists), dev_initial_connect and ANY sequence of operations - any bytes fed in any chunking, peer close at any
   point, any connect plan sequence (now / pending / fail, finish ok or not), telemetry on or off, any clock - every operation returns;
   the only non-Ok outcome left is Hang = the model's own fuel ran out (excluded by C07_total_no_hang below under the static nesting
   hypothesis; this statement has no such hypothesis) *)
Theorem C07_total : forall (rmatch : text -> text -> option pmatch) (compress : list text -> text) (sc : bool) (cfgs : list (text * list plug * list (Z * list stmt) * Z * Z)) (pre ops : list hop),
  Forall (fun c => let '(name, plugs, scripts, timeout, ping) := c in cfg_ok compress (mk_device name plugs scripts timeout ping)) cfgs ->
  Forall setup_op pre -> Forall valid_op ops ->
  no_crash (run rmatch compress sc
              (mkH 0 (map (fun c => let '(name, plugs, scripts, timeout, ping) := c in (mk_device name plugs scripts timeout ping, peer0)) cfgs) [])
              (pre ++ HInit :: ops)).
Proof.
  exact p_C07_total.
Qed.
Print Assumptions C07_total.

(* the same from ANY state that satisfies the invariant (so after any history), and the invariant holds again afterwards *)
Theorem C07_total_from : forall (rmatch : text -> text -> option pmatch) (compress : list text -> text) (sc : bool) (h : hstate) (ops : list hop),
  HInv compress h -> Forall valid_op ops ->
  match run rmatch compress sc h ops with
  | Ok (h', outs) => HInv compress h' /\ length outs = length ops
  | Hang _ => True
  | _ => False
  end.
Proof.
  exact p_C07_total_from.
Qed.
Print Assumptions C07_total_from.

(* descriptor and connect state agree in every reachable state: fd == NO_FD  <->  connect_state == DEV_NOT_CONNECTED
   (the two asserts of _handle_ready_device and the one of the connect methods can never fire; F8 was the counter-example) *)
Theorem C07_fd_state : forall (rmatch : text -> text -> option pmatch) (compress : list text -> text) (sc : bool) (h h' : hstate) (ops : list hop) (outs : list hout) k d p,
  HInv compress h -> Forall valid_op ops -> run rmatch compress sc h ops = Ok (h', outs) ->
  nth_error (h_devs h') k = Some (d, p) ->
  (dv_has_fd d = false <-> dv_cstate d = DEV_NOT_CONNECTED) /\ (dv_logged_in d = true -> dv_cstate d = DEV_CONNECTED).
Proof.
  exact p_C07_fd_state.
Qed.
Print Assumptions C07_fd_state.

(* one statement of a well-formed action never aborts, whatever the device buffer holds (any bytes, NUL, >= 0x80), whatever the regex oracle
   answers (empty / missing capture groups: F7, F26), with or without an argument list (F32), telemetry on or off; it keeps the action well formed *)
Theorem C07_statement_total : forall (rmatch : text -> text -> option pmatch) (compress : list text -> text) (sc : bool) now sd a store,
  wf_action compress (sd_plugs sd) a -> inv_to sd a ->
  match process_stmt rmatch compress sc now sd a store with
  | Ok ((fin, sd', a', store', evs), t) => wf_action compress (sd_plugs sd') a' /\ same_id a a' /\ (fin = true -> sd_to sd' = [])
  | _ => False
  end.
Proof.
  exact p_C07_statement_total.
Qed.
Print Assumptions C07_statement_total.

(* xregex_match_sub_strdup never aborts (after F7 / F26): any index, any match array *)
Theorem C07_submatch : forall (d : sdev) (i : Z), exists o, sub_strdup d i = Ok o.
Proof.
  exact sub_strdup_ok.
Qed.
Print Assumptions C07_submatch.

(* with a transport that has no preprocess method (coprocess, serial, the stub transports of R-DEV) dev->to only ever holds the string of the
   send statement in progress (inv_to): a send queues its string only when the buffer is empty, so dev->to never wraps (fmt_ok: a formatted
   string fits 64 KiB).  For tcp transports this is FALSE (telnet option replies are queued behind the script's back): see C07_telnet_replies
   and finding F38 *)
Theorem C07_output_buffer : forall (rmatch : text -> text -> option pmatch) (compress : list text -> text) (sc : bool) (h h' : hstate) (ops : list hop) (outs : list hout) k d p,
  HInv compress h -> Forall valid_op ops -> run rmatch compress sc h ops = Ok (h', outs) ->
  nth_error (h_devs h') k = Some (d, p) ->
  (dv_cstate d <> DEV_CONNECTED -> sd_to (dv d) = []) /\
  match dv_acts d with hd :: _ => inv_to (dv d) hd | [] => sd_to (dv d) = [] end.
Proof.
  exact p_C07_output_buffer.
Qed.
Print Assumptions C07_output_buffer.


(* TCP transports (finding F38).  The telnet filter of device_tcp.c (dev->preprocess) rewrites the bytes just read and queues option replies
   in dev->to behind the script's back: `pi_pre pin = Some (kept, reply)` for ARBITRARY kept / reply (the filter itself is C09's).  The
   invariant without any condition on dev->to (DInvG; DInv_G: it follows from DInv) is preserved by one device's share of dev_post_poll
   for every descriptor answer and every preprocess result, and the pass never crashes.  Before the repair of F38 this was false: a peer
   that stops reading and floods IAC DO <opt> fills dev->to with replies and the next `send` statement hit
   assert(dropped == strlen(str) - written) in _process_send (reproduced on the unmodified daemon, corpus/C07).  The proof uses the source
   fact GenConsts.SEND_OVERRUN_ASSERT = false (regenerated from device.c on every run): if the assert comes back the proof breaks. *)
Theorem C07_telnet_replies : forall (rmatch : text -> text -> option pmatch) (compress : list text -> text) (sc : bool) now d store tmo pin,
  DInvG compress d -> tmo_pos tmo -> 0 <= dv_retry_count d ->
  match post_poll_one rmatch compress sc now d store tmo pin with
  | Ok (d', store', tmo', evs) => step_postG compress now d store tmo d' store' tmo' evs /\ timer_ok now d' tmo'
  | Hang _ => True
  | _ => False
  end.
Proof.
  exact post_poll_one_inv_pre.
Qed.
Print Assumptions C07_telnet_replies.

(* one statement never aborts WHATEVER dev->to holds (no inv_to hypothesis): a send on a full buffer overwrites the oldest unsent bytes *)
Theorem C07_statement_total_any_output_buffer : forall (rmatch : text -> text -> option pmatch) (compress : list text -> text) (sc : bool) now sd a store,
  wf_action compress (sd_plugs sd) a ->
  match process_stmt rmatch compress sc now sd a store with
  | Ok ((fin, sd', a', store', evs), t) => stmt_postG compress sd a store fin sd' a' store' evs t
  | _ => False
  end.
Proof.
  exact process_stmt_propsG.
Qed.
Print Assumptions C07_statement_total_any_output_buffer.

(* non-vacuity: a device with a login and an `on` script, run through a history with a time-out *)
Definition ex_rmatch : text -> text -> option pmatch := fun _ _ => None.
Definition ex_compress : list text -> text := fun l => concat (map (fun t => t ++ [44%N]) l).     (* grows with its input: names joined by commas *)
Definition ex_dev : device :=
  mk_device (bslit "d0") [mkPlug (bslit "p1") (Some (bslit "n1"))]
            [(PM_LOG_IN, [Send (bslit "login\n"); Expect (bslit "ok")]); (PM_POWER_ON, [Send (bslit "on %s\n"); Expect (bslit "done")])] 5000000 0.
Definition ex_h0 : hstate := mkH 0 [(ex_dev, peer0)] [].
Definition ex_ops : list hop :=
  [HNow 1000000; HPlan 0 [ConnNow; ConnNow]; HInit; HPass; HNewArgs [bslit "n1"]; HEnq PM_POWER_ON 7 false 0 [bslit "n1"]; HPass; HFeed 0 (bslit "\000\255junk");
   HPass; HNow 7000000; HPass; HNow 9000000; HPass].

Example C07_total_example :
  exists h outs, run ex_rmatch ex_compress false ex_h0 ex_ops = Ok (h, outs) /\ length outs = 13%nat /\
    comps 0 outs = [7] /\ nconn (evs_of 0 (flat_map o_evs outs)) = 2%nat.
Proof. vm_compute. eexists _, _. repeat split. Qed.
Example C07_cfg_ok_example : cfg_ok ex_compress ex_dev.
Proof.
  split; [eexists; reflexivity|]. intros i s H.
  cbn [dv_scripts ex_dev mk_device assoc_script] in H.
  destruct (Z.eqb i PM_LOG_IN); [injection H as <-|destruct (Z.eqb i PM_POWER_ON); [injection H as <-|discriminate H]];
    (split; [discriminate|]); (constructor; [|constructor; [exact Logic.I|constructor]]); cbn [wf_stmt]; intros ps _; eexists; vm_compute; reflexivity.
Qed.
(* the hypothesis cfg_ok is satisfiable for a device with several plugs, a RANGED script whose format contains %s, and a host-range
   compression that really grows with the plug list (no bound on the formatted string is demanded: F38) *)
Definition ex_dev3 : device :=
  mk_device (bslit "d3") [mkPlug (bslit "p1") (Some (bslit "n1")); mkPlug (bslit "p2") (Some (bslit "n2")); mkPlug (bslit "p3") None]
            [(PM_LOG_IN, [Send (bslit "login\n"); Expect (bslit "ok")]);
             (PM_POWER_ON_RANGED, [Send (bslit "on %s\n"); ForeachPlug [Expect (bslit "([^ ]+) ok"); SetResult 1 2 []]; Expect (bslit "done")])] 5000000 0.
Example C07_cfg_ok_ranged_example :
  cfg_ok ex_compress ex_dev3 /\
  send_arg ex_compress (new_ctx [] (Some (sd_plugs (dv ex_dev3) ++ sd_plugs (dv ex_dev3)))) = Some (bslit "p1,p2,p3,p1,p2,p3,").
Proof.
  split; [|vm_compute; reflexivity].
  split; [eexists; reflexivity|]. intros i s H.
  cbn [dv_scripts ex_dev3 mk_device assoc_script] in H.
  destruct (Z.eqb i PM_LOG_IN); [injection H as <-|destruct (Z.eqb i PM_POWER_ON_RANGED); [injection H as <-|discriminate H]].
  - split; [discriminate|]. constructor; [|constructor; [exact Logic.I|constructor]]. cbn [wf_stmt]. intros ps _. eexists. vm_compute. reflexivity.
  - split; [discriminate|]. constructor; [cbn [wf_stmt]; intros ps _; eexists; vm_compute; reflexivity|].
    constructor; [|constructor; [exact Logic.I|constructor]]. cbn [wf_stmt]. split; [discriminate|]. repeat split.
Qed.

(* TERMINATION MEASURE of _process_action's loop.  P bounds the length of every plug list a foreach walks (DPL), D < 8 the nesting of blocks.
   Psi d = sum over the queued actions of Phi = sum over the exec stack of what each context still owes (hc).  For ANY fuel above Psi the
   loop ends (never Hang). *)
Theorem C07_no_hang_bounded : forall (rmatch : text -> text -> option pmatch) (compress : list text -> text) (sc : bool) (P : nat)
  (D : nat), (D < 8)%nat -> forall fuel now d store tmo plans acc,
  DInvG compress d -> DPL P D d -> tmo_pos tmo -> 0 <= dv_retry_count d -> (Psi P d < fuel)%nat ->
  match process_action rmatch compress sc fuel now d store tmo plans acc with Hang _ => False | _ => True end.
Proof.
  exact process_action_no_hang.
Qed.
Print Assumptions C07_no_hang_bounded.

(* the model's fuel is 2 + that potential (P := the device's plug count): no bound on the configuration is left *)
Theorem C07_pass_no_hang : forall (rmatch : text -> text -> option pmatch) (compress : list text -> text) (sc : bool)
  (D : nat), (D < 8)%nat -> forall now d store tmo pin,
  DInvG compress d -> tmo_pos tmo -> 0 <= dv_retry_count d ->
  (forall d3 t3 pl e12, pp_front now d tmo pin = Ok (d3, t3, pl, e12) -> DPL (length (sd_plugs (dv d3))) D d3) ->
  match post_poll_one rmatch compress sc now d store tmo pin with Hang _ => False | _ => True end.
Proof.
  exact post_poll_one_no_hang.
Qed.
Print Assumptions C07_pass_no_hang.

(* HANG IS IMPOSSIBLE (pass level).  DInvH d = DInvG d, 0 <= retry_count, every exec context of every queued action walks plug lists no longer
   than the device's plug list and blocks at most DMAX = 7 deep, every script of the device nests at most 7 deep.  One device's share of
   dev_post_poll - for every regex / compress oracle, every descriptor answer, every preprocess result, every store, every clock - returns
   Ok (no Hang, no Abort, no MemErr, no Exit), re-establishes DInvH and guarantees everything C07_telnet_replies says *)
Theorem C07_never_hangs : forall (rmatch : text -> text -> option pmatch) (compress : list text -> text) (sc : bool) now d store tmo pin,
  DInvH compress d -> tmo_pos tmo ->
  exists d' store' tmo' evs, post_poll_one rmatch compress sc now d store tmo pin = Ok (d', store', tmo', evs) /\
    DInvH compress d' /\ step_postG compress now d store tmo d' store' tmo' evs /\ timer_ok now d' tmo'.
Proof.
  exact p_C07_never_hangs.
Qed.
Print Assumptions C07_never_hangs.

(* the invariant holds of a configured, never connected device whose scripts nest at most 7 deep ... *)
Theorem C07_invH_initial : forall (compress : list text -> text) name plugs scripts timeout ping,
  cfg_ok compress (mk_device name plugs scripts timeout ping) -> nest_ok scripts ->
  DInvH compress (mk_device name plugs scripts timeout ping) /\ dv_cstate (mk_device name plugs scripts timeout ping) = DEV_NOT_CONNECTED.
Proof.
  exact mk_device_invH.
Qed.
Print Assumptions C07_invH_initial.

(* ... and is kept by dev_enqueue_actions: the plug list handed to a queued action is a SUB-LIST of the device's plug list (so no longer) *)
Theorem C07_enqueued_plugs_sublist : forall d com tgts a ps,
  In a (enqueue_dev d com tgts) -> qa_plugs a = Some ps -> sublist ps (ed_plugs d) /\ (length ps <= length (ed_plugs d))%nat.
Proof.
  exact (fun d com tgts a ps H E => conj (enq_plugs_sublist d com tgts a ps H E) (sublist_length _ _ (enq_plugs_sublist d com tgts a ps H E))).
Qed.
Print Assumptions C07_enqueued_plugs_sublist.

(* HANG IS IMPOSSIBLE (all op lists): C07_total without the Hang case.  From the configured state (cfg_ok as before + nest_ok), after the harness
   start-up and dev_initial_connect, EVERY operation sequence returns: never Abort / MemErr / Exit / Hang; both invariants hold afterwards *)
Theorem C07_total_no_hang : forall (rmatch : text -> text -> option pmatch) (compress : list text -> text) (sc : bool) (cfgs : list (text * list plug * list (Z * list stmt) * Z * Z)) (pre ops : list hop),
  Forall (fun c => let '(name, plugs, scripts, timeout, ping) := c in cfg_ok compress (mk_device name plugs scripts timeout ping) /\ nest_ok scripts) cfgs ->
  Forall setup_op pre -> Forall valid_op ops ->
  exists h' outs, run rmatch compress sc
              (mkH 0 (map (fun c => let '(name, plugs, scripts, timeout, ping) := c in (mk_device name plugs scripts timeout ping, peer0)) cfgs) [])
              (pre ++ HInit :: ops) = Ok (h', outs) /\ length outs = length (pre ++ HInit :: ops) /\ HInv compress h' /\ HInvH compress h'.
Proof.
  exact p_C07_total_no_hang.
Qed.
Print Assumptions C07_total_no_hang.

Theorem C07_total_from_no_hang : forall (rmatch : text -> text -> option pmatch) (compress : list text -> text) (sc : bool) (h : hstate) (ops : list hop),
  HInv compress h -> HInvH compress h -> Forall valid_op ops ->
  exists h' outs, run rmatch compress sc h ops = Ok (h', outs) /\ HInv compress h' /\ HInvH compress h' /\ length outs = length ops.
Proof.
  exact p_C07_total_from_no_hang.
Qed.
Print Assumptions C07_total_from_no_hang.

(* non-vacuity of the hypotheses of C07_total_no_hang / C07_invH_initial: the example devices satisfy nest_ok *)
Example C07_nest_ok_example : nest_ok (dv_scripts ex_dev) /\ nest_ok (dv_scripts ex_dev3) /\ depths (snd (nth 1 (dv_scripts ex_dev3) (0, []))) = 1%nat.
Proof. split; [apply nest_b_ok; reflexivity|split; [apply nest_b_ok; reflexivity|reflexivity]]. Qed.
Example C07_never_hangs_example : DInvH ex_compress ex_dev3.
Proof. refine (proj1 (mk_device_invH ex_compress _ _ _ _ _ (proj1 C07_cfg_ok_ranged_example) _)). apply nest_b_ok. reflexivity. Qed.

(* WHY the fuel had to become state-dependent: 65 plugs, login script foreachplug { foreachplug { setplugstate } } (a legal configuration:
   cfg_ok, nest depth 2).  In the pass that follows the connect the queue handed to _process_action owes psi = 65 * 66 + 1 = 4291 statement
   rounds; with the OLD constant fuel 64 * 64 = 4096 the model's loop stops at Hang 2 (this was C07_no_hang_refuted: an artefact, the C
   terminates), with the model's fuel pa_fuel = 2 + psi the pass completes and the device is logged in, as in the C. *)
Definition ex_plugs (n : nat) : list plug := map (fun i => mkPlug [N.of_nat i] (Some [N.of_nat i])) (seq 1 n).
Definition ex_nested (n : nat) : device :=
  mk_device (bslit "d0") (ex_plugs n) [(PM_LOG_IN, [ForeachPlug [ForeachPlug [SetPlugState None 1 2 []]]])] 5000000 0.
Definition ex_nested_pin : passin := passin_of (ex_nested 65) (mkPeer [] false [ConnNow] true []).
Theorem C07_constant_fuel_insufficient :
  cfg_ok ex_compress (ex_nested 65) /\ nest_ok (dv_scripts (ex_nested 65)) /\
  match pp_front 1000000 (ex_nested 65) None ex_nested_pin with
  | Ok (d3, t3, pl, e12) =>
      psi d3 = 4291%nat /\ process_action ex_rmatch ex_compress false (Nat.mul 64 64) 1000000 d3 [] t3 pl e12 = Hang 2
  | _ => False
  end /\
  exists h outs, run ex_rmatch ex_compress false (mkH 0 [(ex_nested 65, peer0)] []) [HPlan 0 [ConnNow]; HNow 1000000; HPass] = Ok (h, outs) /\
    map (fun dp => (dv_logged_in (fst dp), dv_acts (fst dp))) (h_devs h) = [(true, [])].
Proof.
  split; [|split; [apply nest_b_ok; reflexivity|split; [vm_compute; split; reflexivity|vm_compute; eexists _, _; split; reflexivity]]].
  split; [eexists; reflexivity|]. intros i s H. cbn [dv_scripts ex_nested mk_device assoc_script] in H.
  destruct (Z.eqb i PM_LOG_IN); [injection H as <-|discriminate H].
  split; [discriminate|]. repeat (constructor; try discriminate; try exact Logic.I).
Qed.
Print Assumptions C07_constant_fuel_insufficient.

(* non-vacuity of C07_telnet_replies: a connected device reads "ok" while the telnet filter queues a 3-byte option reply; the login's expect
   matches and the next statement - a send - starts on a dev->to that is NOT empty (inv_to is false here): the pass returns Ok and the
   script's bytes are queued behind the reply.  (The 64 KiB overrun itself is exercised on the C: corpus/C07, props/C07.py.) *)
Definition ex_rmatch_ok : text -> text -> option pmatch := fun re s => if text_eqb re (bslit "ok") then Some [Some (O, 2%nat)] else None.
Definition ex_tel_dev : device :=
  mkDevice (mkSdev (bslit "d0") [mkPlug (bslit "p1") (Some (bslit "n1"))] [] [255; 252; 1]%N None false)
           [(PM_LOG_IN, [Expect (bslit "ok"); Send (bslit "login\n"); Expect (bslit "ok")])] 5000000 0 DEV_CONNECTED false true
           [create_action [Expect (bslit "ok"); Send (bslit "login\n"); Expect (bslit "ok")] PM_LOG_IN None 0 false false false None] 0 1 0 1 0 MIN_DEV_BUF.
Definition ex_tel_pin : passin := mkPassin false false false false true (Some (bslit "ok")) None true [] (Some (bslit "ok", [255; 251; 3]%N)).
Example C07_telnet_replies_example :
  exists d' st' t' evs, post_poll_one ex_rmatch_ok ex_compress false 1000000 ex_tel_dev [] None ex_tel_pin = Ok (d', st', t', evs) /\
    sd_to (dv d') = [255; 252; 1; 255; 251; 3]%N ++ bslit "login\n".
Proof. vm_compute. eexists _, _, _, _. repeat split. Qed.

(* non-vacuity of C07_no_hang_bounded: the potential of the nested-foreach login is 62 * 63 + 1 = 3907 with 62 plugs and
   65 * 66 + 1 = 4291 with 65 (the case of C07_constant_fuel_insufficient) *)
Example C07_potential_example :
  costs 62 [ForeachPlug [ForeachPlug [SetPlugState None 1 2 []]]] = 3907%nat /\ costs 65 [ForeachPlug [ForeachPlug [SetPlugState None 1 2 []]]] = 4291%nat /\
  Phi 62 (create_action [ForeachPlug [ForeachPlug [SetPlugState None 1 2 []]]] PM_LOG_IN None 0 false false false None) = 3907%nat /\
  depths [ForeachPlug [ForeachPlug [SetPlugState None 1 2 []]]] = 2%nat.
Proof. vm_compute. repeat split. Qed.
