(* C07 - no device behaviour can crash or corrupt the daemon (device layer).
   Model: Model/Device.v (per-device state machine of device.c: _process_action, _act_completion, _enqueue_actions(login/ping/client),
   _rewind_action, _disconnect, _connect, _reconnect, _time_to_reconnect, _enqueue_ping, _handle_ready_device, dev_post_poll's loop body) and
   Model/DevHarness.v (several devices with stub transports, op lists), tied to the real device.c after EVERY pass by the exact differential
   R-DEV (props/C08.py + props/devlib.py).  glibc regexec and host-range compression are Section variables (any oracle).  Statements only;
   proofs in Proofs/Device*.v.  `valid_op` = client commands are the nine targeted ones, dev_initial_connect happens once (HInit);
   `cfg_ok` = what the parser guarantees (login script exists: F14; blocks non-empty; formats %s/%%-only) + formatted send strings fit 64 KiB. *)

(* OPEN *) (* C07_no_hang: `run` never returns Hang.  Hang is the model's own fuel (64*64 iterations of _process_action's loop per device and
   pass, 8 nested blocks in one do-while round); the C loops have no such bound and terminate because every iteration finishes a statement of
   a finite script over a finite plug list.  Not proved: a termination measure over foreach x plugs.  R-DEV would show a Hang as a mismatch. *)
(* OPEN *) (* C07_others_usable is C05's; the telnet filter (device_tcp.c) and cbuf are C09's; device_tcp.c / device_pipe.c descriptor
   bookkeeping is abstracted (stub transports: the connect methods answer with a plan) and only exercised by the pmsim monitors. *)
From Coq Require Import List NArith ZArith Bool Lia.
From PM Require Import Base.Bytes Base.Outcome Base.Dec Gen.GenConsts Gen.GenCbuf Model.ScriptAst Model.Enqueue Model.Script Model.Device
  Model.DevHarness Proofs.DeviceProofs Proofs.DeviceStmt Proofs.DeviceInv Proofs.DeviceRun Proofs.DeviceTimer Proofs.DeviceLocal Proofs.DeviceThms.
Import ListNotations.
Local Open Scope Z_scope.

(* no history of device behaviour crashes the device layer: from the configured, never connected state, after the harness start-up
   (clock, connect plans, arg lists), dev_initial_connect and ANY sequence of operations - any bytes fed in any chunking, peer close at any
   point, any connect plan sequence (now / pending / fail, finish ok or not), telemetry on or off, any clock - every operation returns;
   the only non-Ok outcome left is Hang = the model's own fuel (4096 loop iterations per device and pass, 8 nested blocks) ran out *)
Theorem C07_total : forall (rmatch : text -> text -> option pmatch) (compress : list text -> text) (sc : bool) (cfgs : list (text * list plug * list (Z * list stmt) * Z * Z)) (pre ops : list hop),
  Forall (fun c => let '(name, plugs, scripts, timeout, ping) := c in cfg_ok compress (mk_device name plugs scripts timeout ping)) cfgs ->
  Forall setup_op pre -> Forall valid_op ops ->
  no_crash (run rmatch compress sc
              (mkH 0 (map (fun c => let '(name, plugs, scripts, timeout, ping) := c in (mk_device name plugs scripts timeout ping, peer0)) cfgs) [])
              (pre ++ HInit :: ops)).
Proof.
  exact p_C07_total.
Qed.
Print Assumptions C07_total.

(* the same from ANY state that satisfies the invariant (so after any history), and the invariant holds again afterwards *)
Theorem C07_total_from : forall (rmatch : text -> text -> option pmatch) (compress : list text -> text) (sc : bool) (h : hstate) (ops : list hop),
  HInv compress h -> Forall valid_op ops ->
  match run rmatch compress sc h ops with
  | Ok (h', outs) => HInv compress h' /\ length outs = length ops
  | Hang _ => True
  | _ => False
  end.
Proof.
  exact p_C07_total_from.
Qed.
Print Assumptions C07_total_from.

(* descriptor and connect state agree in every reachable state: fd == NO_FD  <->  connect_state == DEV_NOT_CONNECTED
   (the two asserts of _handle_ready_device and the one of the connect methods can never fire; F8 was the counter-example) *)
Theorem C07_fd_state : forall (rmatch : text -> text -> option pmatch) (compress : list text -> text) (sc : bool) (h h' : hstate) (ops : list hop) (outs : list hout) k d p,
  HInv compress h -> Forall valid_op ops -> run rmatch compress sc h ops = Ok (h', outs) ->
  nth_error (h_devs h') k = Some (d, p) ->
  (dv_has_fd d = false <-> dv_cstate d = DEV_NOT_CONNECTED) /\ (dv_logged_in d = true -> dv_cstate d = DEV_CONNECTED).
Proof.
  exact p_C07_fd_state.
Qed.
Print Assumptions C07_fd_state.

(* one statement of a well-formed action never aborts, whatever the device buffer holds (any bytes, NUL, >= 0x80), whatever the regex oracle
   answers (empty / missing capture groups: F7, F26), with or without an argument list (F32), telemetry on or off; it keeps the action well formed *)
Theorem C07_statement_total : forall (rmatch : text -> text -> option pmatch) (compress : list text -> text) (sc : bool) now sd a store,
  wf_action compress (sd_plugs sd) a -> inv_to sd a ->
  match process_stmt rmatch compress sc now sd a store with
  | Ok ((fin, sd', a', store', evs), t) => wf_action compress (sd_plugs sd') a' /\ same_id a a' /\ (fin = true -> sd_to sd' = [])
  | _ => False
  end.
Proof.
  exact p_C07_statement_total.
Qed.
Print Assumptions C07_statement_total.

(* xregex_match_sub_strdup never aborts (after F7 / F26): any index, any match array *)
Theorem C07_submatch : forall (d : sdev) (i : Z), exists o, sub_strdup d i = Ok o.
Proof.
  exact sub_strdup_ok.
Qed.
Print Assumptions C07_submatch.

(* a device that does not read cannot overflow dev->to: a send queues its string only when the buffer is empty (inv_to), so the
   assert(dropped == ...) of _process_send depends on the configuration only (fmt_ok: the formatted string fits 64 KiB) *)
Theorem C07_output_buffer : forall (rmatch : text -> text -> option pmatch) (compress : list text -> text) (sc : bool) (h h' : hstate) (ops : list hop) (outs : list hout) k d p,
  HInv compress h -> Forall valid_op ops -> run rmatch compress sc h ops = Ok (h', outs) ->
  nth_error (h_devs h') k = Some (d, p) ->
  (dv_cstate d <> DEV_CONNECTED -> sd_to (dv d) = []) /\
  match dv_acts d with hd :: _ => inv_to (dv d) hd | [] => sd_to (dv d) = [] end.
Proof.
  exact p_C07_output_buffer.
Qed.
Print Assumptions C07_output_buffer.


(* non-vacuity: a device with a login and an `on` script, run through a history with a time-out *)
Definition ex_rmatch : text -> text -> option pmatch := fun _ _ => None.
Definition ex_compress : list text -> text := fun _ => [].
Definition ex_dev : device :=
  mk_device (bslit "d0") [mkPlug (bslit "p1") (Some (bslit "n1"))]
            [(PM_LOG_IN, [Send (bslit "login\n"); Expect (bslit "ok")]); (PM_POWER_ON, [Send (bslit "on %s\n"); Expect (bslit "done")])] 5000000 0.
Definition ex_h0 : hstate := mkH 0 [(ex_dev, peer0)] [].
Definition ex_ops : list hop :=
  [HNow 1000000; HPlan 0 [ConnNow; ConnNow]; HInit; HPass; HNewArgs [bslit "n1"]; HEnq PM_POWER_ON 7 false 0 [bslit "n1"]; HPass; HFeed 0 (bslit "\000\255junk");
   HPass; HNow 7000000; HPass; HNow 9000000; HPass].

Example C07_total_example :
  exists h outs, run ex_rmatch ex_compress false ex_h0 ex_ops = Ok (h, outs) /\ length outs = 13%nat /\
    comps 0 outs = [7] /\ nconn (evs_of 0 (flat_map o_evs outs)) = 2%nat.
Proof. vm_compute. eexists _, _. repeat split. Qed.
Example C07_cfg_ok_example : cfg_ok ex_compress ex_dev.
Proof.
  split; [eexists; reflexivity|]. intros i s H.
  assert (G : forall l : text, (forall ps, opt_incl ps (sd_plugs (dv ex_dev)) -> exists str, hsprintf1 l (send_arg ex_compress (new_ctx [] ps)) = Some str /\ (length str <= Z.to_nat MAX_DEV_BUF)%nat) -> fmt_ok ex_compress (sd_plugs (dv ex_dev)) l) by (intros l Hl; exact Hl).
  cbn [dv_scripts ex_dev mk_device assoc_script] in H.
  destruct (Z.eqb i PM_LOG_IN); [injection H as <-|destruct (Z.eqb i PM_POWER_ON); [injection H as <-|discriminate H]].
  - split; [discriminate|]. constructor; [|constructor; [exact Logic.I|constructor]]. cbn [wf_stmt]. apply G. intros ps _.
    eexists. split; [vm_compute; reflexivity|cbn [length]; unfold MAX_DEV_BUF; lia].
  - split; [discriminate|]. constructor; [|constructor; [exact Logic.I|constructor]]. cbn [wf_stmt]. apply G. intros [[|p [|q r]]|] Hi.
    + eexists. split; [vm_compute; reflexivity|cbn [length]; unfold MAX_DEV_BUF; lia].
    + assert (p = mkPlug (bslit "p1") (Some (bslit "n1"))) by (destruct (Hi p (or_introl eq_refl)) as [<-|[]]; reflexivity). subst p.
      eexists. split; [vm_compute; reflexivity|cbn [length]; unfold MAX_DEV_BUF; lia].
    + eexists. split; [vm_compute; reflexivity|cbn [length]; unfold MAX_DEV_BUF; lia].
    + eexists. split; [vm_compute; reflexivity|cbn [length]; unfold MAX_DEV_BUF; lia].
Qed.
