(* C11 -- clients are isolated from one another (client.c: client_id carried by every Action, _find_client in the three
   callbacks, one Command per client, _destroy_client).
   Theorems about the multi-client world of PM.Model.CliWorld over PM.Model.Client. *)
From Coq Require Import List NArith ZArith Bool.
From PM Require Import Base.Bytes Base.Outcome Gen.GenConsts Gen.GenClient Model.ScriptAst Model.Enqueue Model.Script Model.Client Model.CliWorld
                       Proofs.ClientProofs Proofs.ClientStream Proofs.ClientIsolation Proofs.ClientExamples.
Import ListNotations.
Local Open Scope Z_scope.

(* an event that talks to client `id` (a line of it, a completion / telemetry / diagnostic of an action tagged with it,
   its disconnect), or to nobody (connect of a new client, Arg writes), leaves the record of every OTHER client - its
   output stream, flags and command - exactly as it was *)
Theorem C11_others_untouched : forall expand_str ranged_sorted ranged_plain sorted w e w' j,
  wstep expand_str ranged_sorted ranged_plain sorted w e = Ok w' ->
  target w e <> Some j -> In j (map cl_id (w_clients w)) ->
  find_client (w_clients w') j = find_client (w_clients w) j.
Proof. exact other_clients_untouched. Qed.
Print Assumptions C11_others_untouched.

(* what a line of client `id` can add to the shared state: actions tagged with ITS id and the store slot allocated
   for THIS command (a fresh arglist appended to the store); and while its command is in progress a further line of
   length < CP_LINEMAX is answered 208, queues nothing, allocates nothing, changes no configuration *)
Theorem C11_line_effects : forall expand_str ranged_sorted ranged_plain sorted w id l w' c,
  wstep expand_str ranged_sorted ranged_plain sorted w (WLine id l) = Ok w' -> find_client (w_clients w) id = Some c ->
  exists q, w_queue w' = w_queue w ++ tag_actions id (length (w_store w)) q
    /\ (forall e, In e (tag_actions id (length (w_store w)) q) -> qe_client e = id /\ qe_slot e = length (w_store w))
    /\ (w_store w' = w_store w \/ exists k, w_store w' = w_store w ++ [new_arglist (k_targets k)])
    /\ (busy c = true -> Z.of_nat (length (strip (cstr l))) < CP_LINEMAX ->
        q = [] /\ w_store w' = w_store w /\ w_cf w' = w_cf w /\ find_client (w_clients w') id = Some (emit CP_ERR_CLIBUSY c)).
Proof. exact line_effects. Qed.
Print Assumptions C11_line_effects.

(* a client that goes away: queued actions, arglists and configuration stay; the completion of an orphaned action
   is discarded without touching any client *)
Theorem C11_vanish : forall expand_str ranged_sorted ranged_plain sorted w,
  (forall id w', wstep expand_str ranged_sorted ranged_plain sorted w (WDrop id) = Ok w' ->
     w_queue w' = w_queue w /\ w_store w' = w_store w /\ w_cf w' = w_cf w)
  /\ (forall i err msg e, nth_error (w_queue w) i = Some e -> find_client (w_clients w) (qe_client e) = None ->
     wstep expand_str ranged_sorted ranged_plain sorted w (WComplete i err msg)
     = Ok (mkWorld (w_cf w) (w_store w) (w_clients w) (remove_nth i (w_queue w)) (w_next w))).
Proof.
  exact (fun es rs rp so w => conj (fun id w' => drop_keeps_actions es rs rp so w id w') (fun i err msg e => orphan_completion_discarded es rs rp so w i err msg e)).
Qed.
Print Assumptions C11_vanish.

(* in every reachable world: live clients have pairwise distinct ids, no queued action carries an id that a later
   client could get (ids below the counter; hypothesis: the counter has not wrapped), and the arglist slot a client's
   reply reads is written only by actions tagged with that client's id *)
Theorem C11_result_scope : forall w c k e,
  winv w -> In c (w_clients w) -> cl_cmd c = Some k -> In e (w_queue w) -> qe_slot e = k_args k -> qe_client e = cl_id c.
Proof. exact result_scope. Qed.
Theorem C11_reachable_inv : forall expand_str ranged_sorted ranged_plain sorted evs w,
  winv w -> w_next w + Z.of_nat (connects evs) <= CLI_ID_MAX ->
  exists w', wrun expand_str ranged_sorted ranged_plain sorted w evs = Ok w' /\ winv w'.
Proof. exact world_total. Qed.
Example C11_nonvacuous :
  wout (wrun toy_expand toy_join toy_join toy_sorted (world0 toy_conf) (firstn 5 wevs)) 1 = bslit "001 2.4" ++ CP_EOL ++ CP_PROMPT ++ CP_ERR_CLIBUSY /\
  wout (wrun toy_expand toy_join toy_join toy_sorted (world0 toy_conf) wevs) 1 = [] /\
  wout (wrun toy_expand toy_join toy_join toy_sorted (world0 toy_conf) wevs) 2 = bslit "001 2.4" ++ CP_EOL ++ CP_PROMPT
     ++ bslit "302 on:      n1," ++ CP_EOL ++ bslit "302 off:     " ++ CP_EOL ++ bslit "302 unknown: n2," ++ CP_EOL ++ CP_RSP_QRY_COMPLETE ++ CP_PROMPT /\
  (match wrun toy_expand toy_join toy_join toy_sorted (world0 toy_conf) wevs with Ok w => w_queue w | _ => [mkQentry 0 [] (mkQact 0 None) 0] end) = [].
Proof. exact ex_world. Qed.
Print Assumptions C11_result_scope.
Print Assumptions C11_reachable_inv.
