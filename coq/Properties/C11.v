(* C11 -- clients are isolated from one another (client.c: client_id carried by every Action, _find_client in the three
   callbacks, one Command per client, _destroy_client).
   Theorems about the multi-client world of PM.Model.CliWorld over PM.Model.Client. *)
From Coq Require Import List NArith ZArith Bool.
From PM Require Import Base.Bytes Base.Outcome Gen.GenConsts Gen.GenClient Model.ScriptAst Model.Enqueue Model.Script Model.Client Model.CliWorld
                       Proofs.ClientProofs Proofs.ClientStream Proofs.ClientIsolation Proofs.ClientExamples.
Import ListNotations.
Local Open Scope Z_scope.

(* an event that talks to client `id` (a line of it, a completion / telemetry / diagnostic of an action tagged with it,
   its disconnect), or to nobody (connect of a new client, Arg writes), leaves the record of every OTHER client - its
   output stream, flags and command - exactly as it was *)
Theorem C11_others_untouched : forall expand_str ranged_sorted ranged_plain sorted w e w' j,
  wstep expand_str ranged_sorted ranged_plain sorted w e = Ok w' ->
  target w e <> Some j -> In j (map cl_id (w_clients w)) ->
  find_client (w_clients w') j = find_client (w_clients w) j.
Proof. exact other_clients_untouched. Qed.
Print Assumptions C11_others_untouched.

(* what a line of client `id` can add to the shared state: actions tagged with ITS id and the store slot allocated
   for THIS command (a fresh arglist appended to the store); and while its command is in progress a further line of
   length < CP_LINEMAX is answered 208, queues nothing, allocates nothing, changes no configuration *)
Theorem C11_line_effects : forall expand_str ranged_sorted ranged_plain sorted w id l w' c,
  wstep expand_str ranged_sorted ranged_plain sorted w (WLine id l) = Ok w' -> find_client (w_clients w) id = Some c ->
  exists q, w_queue w' = w_queue w ++ tag_actions id (length (w_store w)) q
    /\ (forall e, In e (tag_actions id (length (w_store w)) q) -> qe_client e = id /\ qe_slot e = length (w_store w))
    /\ (w_store w' = w_store w \/ exists k, w_store w' = w_store w ++ [new_arglist (k_targets k)])
    /\ (busy c = true -> Z.of_nat (length (strip (cstr l))) < CP_LINEMAX ->
        q = [] /\ w_store w' = w_store w /\ w_cf w' = w_cf w /\ find_client (w_clients w') id = Some (emit CP_ERR_CLIBUSY c)).
Proof. exact line_effects. Qed.
Print Assumptions C11_line_effects.

(* a client that goes away: queued actions, arglists and configuration stay; the completion of an orphaned action
   is discarded without touching any client *)
Theorem C11_vanish : forall expand_str ranged_sorted ranged_plain sorted w,
  (forall id w', wstep expand_str ranged_sorted ranged_plain sorted w (WDrop id) = Ok w' ->
     w_queue w' = w_queue w /\ w_store w' = w_store w /\ w_cf w' = w_cf w)
  /\ (forall i err msg e, nth_error (w_queue w) i = Some e -> find_client (w_clients w) (qe_client e) = None ->
     wstep expand_str ranged_sorted ranged_plain sorted w (WComplete i err msg)
     = Ok (mkWorld (w_cf w) (w_store w) (w_clients w) (remove_nth i (w_queue w)) (w_next w))).
Proof.
  exact (fun es rs rp so w => conj (fun id w' => drop_keeps_actions es rs rp so w id w') (fun i err msg e => orphan_completion_discarded es rs rp so w i err msg e)).
Qed.
Print Assumptions C11_vanish.

(* in every reachable world: live clients have pairwise distinct ids, no queued action carries an id that a later
   client could get (ids below the counter; hypothesis: the counter has not wrapped), and the arglist slot a client's
   reply reads is written only by actions tagged with that client's id *)
Theorem C11_result_scope : forall w c k e,
  winv w -> In c (w_clients w) -> cl_cmd c = Some k -> In e (w_queue w) -> qe_slot e = k_args k -> qe_client e = cl_id c.
Proof. exact result_scope. Qed.
Theorem C11_reachable_inv : forall expand_str ranged_sorted ranged_plain sorted evs w,
  winv w -> w_next w + Z.of_nat (connects evs) <= CLI_ID_MAX ->
  exists w', wrun expand_str ranged_sorted ranged_plain sorted w evs = Ok w' /\ winv w'.
Proof. exact world_total. Qed.
Example C11_nonvacuous :
  wout (wrun toy_expand toy_join toy_join toy_sorted (world0 toy_conf) (firstn 5 wevs)) 1 = bslit "001 2.4" ++ CP_EOL ++ CP_PROMPT ++ CP_ERR_CLIBUSY /\
  wout (wrun toy_expand toy_join toy_join toy_sorted (world0 toy_conf) wevs) 1 = [] /\
  wout (wrun toy_expand toy_join toy_join toy_sorted (world0 toy_conf) wevs) 2 = bslit "001 2.4" ++ CP_EOL ++ CP_PROMPT
     ++ bslit "302 on:      n1," ++ CP_EOL ++ bslit "302 off:     " ++ CP_EOL ++ bslit "302 unknown: n2," ++ CP_EOL ++ CP_RSP_QRY_COMPLETE ++ CP_PROMPT /\
  (match wrun toy_expand toy_join toy_join toy_sorted (world0 toy_conf) wevs with Ok w => w_queue w | _ => [mkQentry 0 [] (mkQact 0 None) 0] end) = [].
Proof. exact ex_world. Qed.
Print Assumptions C11_result_scope.
Print Assumptions C11_reachable_inv.

(* ------------------------------------------------------------------------------------------------------------------
   The same isolation for the WHOLE daemon (Model/Daemon.v: cli_post_poll with accept, read, write, _handle_input,
   _destroy_client; dev_post_poll of the real device layer with its completion / telemetry / diagnostic callbacks
   routed by client id), over every state that any history of passes can reach, for every transport and every
   descriptor behaviour (no hypothesis on the devices at all: this is a frame property). *)
From PM Require Import Model.Device Model.Daemon Proofs.DaemonLedger Proofs.DaemonFrame.

(* one pass of the select loop leaves a client record bit for bit as it was (protocol state, command, pending
   count, unread input, unsent output, flags) whenever that client's own descriptor reported nothing and no device
   callback of the pass carried its id - whatever the other clients sent, whichever of them connected, hung up or
   stopped reading, whatever completed, failed or timed out for them, on the same devices and nodes or others.
   The only alternative: the record had already finished (quit seen, no command, nothing left to send) and the pass
   closed it. *)
Theorem C11_pass_isolation : forall expand_str ranged_sorted ranged_plain sorted rmatch compress short_circuit st r st' o p x,
  dstep expand_str ranged_sorted ranged_plain sorted rmatch compress short_circuit st r = Ok (st', o) ->
  nth_error (dm_clients st) p = Some x -> nth p (r_cli r) cin0 = cin0 -> no_line x ->
  existsb (sys_for (cid x)) (do_evs o) = false ->
  In x (dm_clients st') \/ (finishedb x = true /\ In (SysCloseCli (cid x)) (do_evs o)).
Proof. exact dstep_isolation. Qed.
Print Assumptions C11_pass_isolation.

(* its hypothesis `no_line` holds of every client of every reachable state: _handle_input drains the input buffer *)
Theorem C11_no_line_between_passes : forall expand_str ranged_sorted ranged_plain sorted rmatch compress short_circuit rs st acc st' outs,
  (forall p x, nth_error (dm_clients st) p = Some x -> no_line x) ->
  drun expand_str ranged_sorted ranged_plain sorted rmatch compress short_circuit st rs acc = Ok (st', outs) ->
  forall p x, nth_error (dm_clients st') p = Some x -> no_line x.
Proof. intros. eapply drun_nl; eauto. Qed.
Print Assumptions C11_no_line_between_passes.

(* a callback of the device layer reaches the record with ITS id only, and there it changes protocol state and
   queued output only (never the unread input or the position in the list) *)
Theorem C11_callback_delivery : forall ranged_sorted st e st',
  route ranged_sorted st e = Ok st' ->
  forall p x, nth_error (dm_clients st) p = Some x ->
    (ev_for (cid x) e = false -> nth_error (dm_clients st') p = Some x) /\
    exists x', nth_error (dm_clients st') p = Some x' /\ cid x' = cid x /\ dc_from x' = dc_from x /\
               dc_nl x' = dc_nl x /\ dc_lines x' = dc_lines x.
Proof. intros rs st e st' H p x Hn. split; [intros He; eapply route_frame; eauto|eapply route_deliver; eauto]. Qed.
Print Assumptions C11_callback_delivery.

(* serving client number i (read, write, its request lines) changes no other client record; the bytes written in
   that visit go to ITS descriptor; a hang-up destroys the record and nothing else - no device, no queued action *)
Theorem C11_visit_frame : forall expand_str ranged_sorted ranged_plain sorted st i ci st' evs dead,
  cli_one expand_str ranged_sorted ranged_plain sorted st i ci = Ok (st', evs, dead) ->
  (forall j, j <> i -> nth_error (dm_clients st') j = nth_error (dm_clients st) j) /\
  (forall x, nth_error (dm_clients st) i = Some x -> evs = [] \/ exists w, evs = [SysCliWrote (cid x) w]) /\
  (forall x, nth_error (dm_clients st) i = Some x -> ci_bad ci = true -> st' = st /\ dead = true).
Proof.
  intros es rs rp so st i ci st' evs dead H. split; [|split].
  - eapply cli_one_frame; eauto.
  - intros x Hx. eapply cli_one_events; eauto.
  - intros x Hx Hb. rewrite (cli_one_hangup es rs rp so st i ci x Hx Hb) in H. inversion H; auto.
Qed.
Print Assumptions C11_visit_frame.

(* non-vacuity: two clients connect; in the third pass client 1 sends a request line (answered at once) while client 2
   is idle: client 2's record is the same object before and after, and it satisfies every hypothesis of the theorem *)
Example C11_pass_nonvacuous :
  let st0 := mkDaemon [bslit "n0"] [] [] [] [] [] 1 [] (bslit "2.4") [] in
  let nolist := fun _ : list text => @nil N in
  let step := dstep (fun _ => None) nolist nolist (fun l => l) (fun _ _ => None) nolist false in
  match step st0 (mkRound 0 true [] []) with
  | Ok (st1, _) =>
    match step st1 (mkRound 1 true [] []) with
    | Ok (st2, _) =>
      match step st2 (mkRound 2 false [mkCin false true false (Some (bslit "nodes" ++ [LF])) None] []) with
      | Ok (st3, o3) =>
          ids st2 = [1; 2] /\
          match nth_error (dm_clients st2) 1, nth_error (dm_clients st2) 0, nth_error (dm_clients st3) 0 with
          | Some x, Some y, Some y' =>
              nth 1 (r_cli (mkRound 2 false [mkCin false true false (Some (bslit "nodes" ++ [LF])) None] [])) cin0 = cin0 /\
              take_line [] (dc_from x) = None /\ existsb (sys_for (cid x)) (do_evs o3) = false /\ finishedb x = false /\
              nth_error (dm_clients st3) 1 = Some x /\ dc_to y' <> dc_to y
          | _, _, _ => False
          end
      | _ => False
      end
    | _ => False
    end
  | _ => False
  end.
Proof. vm_compute. repeat split; try reflexivity; discriminate. Qed.

(* ------------------------------------------------------------------------------------------------------------------
   The shared result lists (arglist.c: the reference-counted per-request list, shared by the request and all its
   actions) across the layers of the whole daemon.  A list is a slot of dm_store; an action refers to it by index. *)
From PM Require Import Proofs.DeviceInv Proofs.DeviceInvG Proofs.DeviceSlots Proofs.DaemonSlots Proofs.DaemonPending.
From PM Require Properties.C04 Properties.C07.

(* from start-up, after ANY list of passes, the run returns Ok (never Exit / Abort / MemErr, and never Hang: `boot` carries
   the Hang-free device invariant DInvH, i.e. additionally the static hypothesis nest_ok - blocks nested at most DMAX = 7 deep;
   no shipped script nests deeper than 1, SpecBridge.shipped_max_depth - C04_shipped_boot), and in the reached state:
     - an action queued on any device that carries a result list also carries a completion callback (it is counted by
       its client's pending counter), and the list exists;
     - if the client with that action's id is still connected, the list is the one of THAT client's command in progress
       (so when a command completes - pending = 0 = queued actions, C04 - no queued action refers to its list any more:
       the list is unreferenced exactly then; and if the client vanished first, the list stays referenced by its
       orphaned actions until they complete);
     - the list of a command in progress exists, and no two connected clients share one. *)
Theorem C11_result_lists : forall expand_str ranged_sorted ranged_plain sorted rmatch compress short_circuit st now plans rs,
  boot compress st -> Z.of_nat (length rs) < INT_MAX - 1 ->
  exists st1 o, dinit st now plans = Ok (st1, o) /\
    match drun expand_str ranged_sorted ranged_plain sorted rmatch compress short_circuit st1 rs [] with
    | Ok (st', _) =>
        Forall ArgsCb (dm_devs st') /\
        (forall c s, In (c, s) (aslots (dm_devs st')) ->
           (s < length (dm_store st'))%nat /\ forall x, In x (dm_clients st') -> cid x = c -> cmd_slot x = Some s) /\
        (forall x s, In x (dm_clients st') -> cmd_slot x = Some s -> (s < length (dm_store st'))%nat) /\
        (forall x y s, In x (dm_clients st') -> In y (dm_clients st') -> cmd_slot x = Some s -> cmd_slot y = Some s -> cid x = cid y)
    | _ => False
    end.
Proof.
  intros es rs0 rp so rm cp sc st now plans rs Hb Hn.
  destruct (daemon_result_lists es rs0 rp so rm cp sc st now plans rs Hb Hn) as (st1 & o & E & H). exists st1, o. split; [exact E|].
  destruct (drun es rs0 rp so rm cp sc st1 rs []) as [[st' outs]| | | |]; try contradiction.
  destruct H as [A B C D]. split; [exact A|]. split; [exact B|]. split; [exact C|exact D].
Qed.
Print Assumptions C11_result_lists.

(* one device's share of dev_post_poll - whatever the device sends, however the connection behaves - never makes the
   device refer to a list it did not refer to before, and writes only lists its own queue refers to (in fact the list
   of the action at the head): every other request's result list is left exactly as it was *)
Theorem C11_result_list_writes : forall rmatch compress sc now d store tmo pin,
  DInvG compress d -> ArgsCb d -> tmo_pos tmo -> 0 <= dv_retry_count d ->
  match post_poll_one rmatch compress sc now d store tmo pin with
  | Ok (d', store', _, _) =>
      incl (dslots d') (dslots d) /\ length store' = length store /\
      forall j, (forall c, ~ In (c, j) (dslots d)) -> nth_error store' j = nth_error store j
  | _ => True
  end.
Proof.
  intros rm cp sc now d store tmo pin I Hcb Hp Hrc. pose proof (post_poll_one_slots rm cp sc now d store tmo pin I Hcb Hp Hrc) as H.
  destruct (post_poll_one rm cp sc now d store tmo pin) as [[[[d' store'] t'] e']| | | |]; auto.
  destruct H as [A _ B C]. auto.
Qed.
Print Assumptions C11_result_list_writes.

(* non-vacuity: C04's example daemon after the client sent `on n1`: one action queued on the device, carrying the
   client's id 1 and list 0, which is the list of the client's command in progress *)
Example C11_result_lists_nonvacuous :
  match dinit C04.ex_st 1000000 [[ConnNow; ConnNow; ConnNow]] with
  | Ok (st1, _) =>
    match drun C04.ex_expand C04.ex_join C04.ex_join (fun l => l) C07.ex_rmatch C07.ex_compress false st1 (firstn 2 C04.ex_rounds) [] with
    | Ok (st', _) => aslots (dm_devs st') = [(1, 0%nat)] /\ map cmd_slot (dm_clients st') = [Some 0%nat] /\ length (dm_store st') = 1%nat
    | _ => False
    end
  | _ => False
  end.
Proof. vm_compute. repeat split. Qed.
