(* C01 - a command never touches a plug the user did not name.
   ONLY statements; proofs are in Proofs/EnqueueProofs.v. *)
From Coq Require Import List NArith ZArith Bool.
From PM Require Import Base.Bytes Base.Outcome Gen.GenConsts Model.ScriptAst Model.Enqueue Model.Script Spec.ScriptSem Proofs.EnqueueProofs.
From PM Require Proofs.ScriptSim Proofs.ScriptRun Proofs.ScriptScope.
Import ListNotations.
Local Open Scope Z_scope.

(* every queued action addresses only plugs of ITS device that are mapped to a node in the target list *)
Theorem C01_plugs_targeted : forall d com tgts a ps,
  In a (enqueue_dev d com tgts) -> qa_plugs a = Some ps ->
  forall p, In p ps -> In p (ed_plugs d) /\ exists n, pl_node p = Some n /\ In n tgts.
Proof. exact p_C01_plugs_targeted. Qed.

(* a whole-device ('_all') POWER script is queued only when every plug of the device is mapped to a targeted node *)
Theorem C01_all_needs_every_plug : forall d com tgts a,
  In com power_coms -> In a (enqueue_dev d com tgts) -> qa_plugs a = None ->
  forall p, In p (ed_plugs d) -> exists n, pl_node p = Some n /\ In n tgts.
Proof. exact p_C01_all_needs_every_plug. Qed.

(* the script that runs is the singlet, _all or _ranged variant of the requested command (tables regenerated
   from _get_all_script/_get_ranged_script of the current device.c) and the device defines it *)
Theorem C01_same_command : forall d com tgts a,
  In a (enqueue_dev d com tgts) ->
  has d (qa_com a) = true /\
  (qa_com a = com \/ lookup all_table com = Some (qa_com a) \/ lookup ranged_table com = Some (qa_com a)).
Proof. exact p_C01_same_command. Qed.

Theorem C01_variant_tables :
  lookup all_table PM_POWER_ON = Some PM_POWER_ON_ALL /\ lookup all_table PM_POWER_OFF = Some PM_POWER_OFF_ALL /\
  lookup all_table PM_POWER_CYCLE = Some PM_POWER_CYCLE_ALL /\ lookup all_table PM_RESET = Some PM_RESET_ALL /\
  lookup all_table PM_BEACON_ON = None /\ lookup all_table PM_BEACON_OFF = None /\
  lookup ranged_table PM_POWER_ON = Some PM_POWER_ON_RANGED /\ lookup ranged_table PM_POWER_OFF = Some PM_POWER_OFF_RANGED /\
  lookup ranged_table PM_POWER_CYCLE = Some PM_POWER_CYCLE_RANGED /\ lookup ranged_table PM_RESET = Some PM_RESET_RANGED /\
  lookup ranged_table PM_BEACON_ON = Some PM_BEACON_ON_RANGED /\ lookup ranged_table PM_BEACON_OFF = Some PM_BEACON_OFF_RANGED /\
  NoDup (power_coms ++ query_coms ++ map snd all_table ++ map snd ranged_table ++ [PM_LOG_IN; PM_LOG_OUT; PM_PING]).
Proof. exact p_C01_variant_tables. Qed.

(* devices none of whose nodes were named receive no action on behalf of the request *)
Theorem C01_uninvolved_device : forall d com tgts,
  (forall p n, In p (ed_plugs d) -> pl_node p = Some n -> ~ In n tgts) -> enqueue_dev d com tgts = [].
Proof. exact p_C01_uninvolved_device. Qed.

(* the ranged variant carries exactly the targeted plugs of the device, in device order; the singlet variant one plug *)
Theorem C01_plug_argument : forall d com tgts a,
  In a (enqueue_dev d com tgts) ->
  (qa_com a = com /\ exists p, qa_plugs a = Some [p] /\ In p (targeted d tgts))
  \/ (lookup all_table com = Some (qa_com a) /\ qa_plugs a = None)
  \/ (lookup ranged_table com = Some (qa_com a) /\ qa_plugs a = Some (targeted d tgts)).
Proof. exact p_C01_plug_argument. Qed.

(* non-vacuity: a device with one unused plug; `on n0,n1` uses the ranged script on exactly the two mapped plugs
   and not the _all script *)
Example C01_example :
  let d := mkEdev (bs "d"%string)
             [mkPlug (bs "1"%string) (Some (bs "n0"%string)); mkPlug (bs "2"%string) (Some (bs "n1"%string)); mkPlug (bs "3"%string) None]
             [PM_LOG_IN; PM_POWER_ON_RANGED; PM_POWER_ON_ALL] in
  enqueue_dev d PM_POWER_ON [bs "n0"%string; bs "n1"%string] =
    [mkQact PM_POWER_ON_RANGED (Some [mkPlug (bs "1"%string) (Some (bs "n0"%string)); mkPlug (bs "2"%string) (Some (bs "n1"%string))])].
Proof. exact p_C01_example. Qed.

Print Assumptions C01_plugs_targeted.
Print Assumptions C01_all_needs_every_plug.
Print Assumptions C01_same_command.
Print Assumptions C01_variant_tables.
Print Assumptions C01_uninvolved_device.
Print Assumptions C01_plug_argument.

(* ---------------------------------------------------------------------------------------------------------------
   C01 down to the bytes.  For an action that dev_enqueue_actions selected for request (com, tgts) on device d and that
   carries a plug list ps (the singlet and *_ranged variants), every run of the interpreter model - any script of at most 8
   nesting levels, any schedule of device bytes, segmentations and clock steps, any oracle - queues for the device exactly
   the send strings of a trace of the script's semantics (C08_refines), and in that trace `%s` is only ever replaced by the
   name (or the range-compressed names) of plugs that belong to d AND are wired to a node the client named - provided the
   script is one of the *_ranged ones or contains no foreach (which is what C17 establishes for the single-plug scripts of
   every shipped specification; a foreach in any other script walks all plugs of the device by definition).
   --------------------------------------------------------------------------------------------------------------- *)
Theorem C01_bytes_name_only_targeted_plugs :
  forall (rmatch : text -> text -> option pmatch) (compress : list text -> text) (sc : bool)
         (d : edev) com tgts (q : qact) ps script client hascb tele hasdiag args d0 store0 ins,
  In q (enqueue_dev d com tgts) -> qa_plugs q = Some ps ->
  ScriptSim.bwf script -> (block_levels script <= 8)%nat -> (args <> None -> hasdiag = true) ->
  sd_plugs d0 = ed_plugs d ->
  (is_ranged_com (qa_com q) = true \/ ScriptScope.nofor script = true) ->
  let a0 := create_action script (qa_com q) (Some ps) client hascb tele hasdiag args in
  exists st dd a store tr raw,
    ScriptSim.run rmatch compress sc ins d0 a0 store0 [] [] = Ok (st, dd, a, store, tr, raw) /\
    sent_of tr = ScriptSim.raw_sent raw /\
    Forall (fun o => match o with
                     | OSend b => exists fmt qs, b = subst fmt (sem_arg compress qs) /\
                                    forall p, In p (ScriptScope.plist qs) ->
                                      In p (ed_plugs d) /\ exists n, pl_node p = Some n /\ In n tgts
                     | _ => True
                     end) tr.
Proof.
  intros rmatch compress sc d com tgts q ps script client hascb tele hasdiag args d0 store0 ins Hq Hps Hb Hl Ha Hd Hscope a0.
  destruct (ScriptRun.script_refines rmatch compress sc script (Some ps) (qa_com q) client hascb tele hasdiag args d0 store0 ins Hb Hl
              ltac:(intros _; discriminate) Ha) as (st & dd & a & store & tr & raw & Hrun & (s' & Hex & _) & Hsent).
  exists st, dd, a, store, tr, raw. split; [exact Hrun|]. split; [exact Hsent|].
  assert (Hown : Forall (ScriptScope.obs_in compress (ScriptScope.plist (Some ps))) tr).
  { destruct Hscope as [Hr|Hn].
    - rewrite Hr in Hex. exact (ScriptScope.script_names_own_plugs rmatch compress sc true (sd_plugs d0) script (Some ps) _ tr s' _ eq_refl Hex).
    - exact (ScriptScope.script_names_own_plugs_nofor rmatch compress sc _ (sd_plugs d0) script (Some ps) _ tr s' _ Hn Hex). }
  eapply Forall_impl; [|exact Hown]. intros o Ho. destruct o; try exact I.
  destruct Ho as (fmt & qs & -> & Hin). exists fmt, qs. split; [reflexivity|].
  intros p Hp. apply (p_C01_plugs_targeted d com tgts q ps Hq Hps p). apply Hin. exact Hp.
Qed.
Print Assumptions C01_bytes_name_only_targeted_plugs.
