(* Property C13 -- accepted configurations define an unambiguous node-to-plug map.
   Model: Model/Lexer.v (the recursive-descent load of parse_tab.y with makeNode -> pluglist_map -> conf_addnodes,
   makeDevice, makeAlias, _validate_config, shared with C18).  Spec: Spec/ConfSpec.v (map_of, the zip / next-free /
   same-name rules over expansions).  hostlist expansion is the oracle [hl_expand] (hostlist.c: property C14); the
   theorems hold for EVERY oracle, i.e. they assume nothing about it.
   Every theorem is stated for all token lists / all parser states, not for generated cases. *)
From Coq Require Import List NArith ZArith Bool Permutation.
From PM Require Import Base.Bytes Base.Outcome Gen.GenLex Model.Lexer Spec.ConfSpec Proofs.LexerLoad Proofs.ConfMap
  Proofs.ConfMapLoad Proofs.ConfMapThm Proofs.ConfMapText.
Import ListNotations.

(* ---- example used for non-vacuity: two devices (one hard-wired, one not), plug list, next-free, same-name, alias *)
Definition ex_hl (s : text) : option (list text) := Some (split_on 44%N s []).       (* "a,b,c" *)
Definition ex_conf : text := bs "specification ""h"" { timeout 1 plug name { ""1"" ""2"" ""3"" } script login { send ""x"" } }
specification ""f"" { timeout 1 script login { send ""x"" } }
device ""d1"" ""h"" ""/bin/cat |&""
device ""d2"" ""f"" ""/bin/cat |&""
node ""a,b"" ""d1"" ""3,1""
node ""c"" ""d1""
node ""x,y"" ""d2""
node ""z"" ""d2"" ""p9""
alias ""all"" ""a,z"""%string.
Definition ex_load (conf : text) : outcome cfg :=
  conf_init ex_hl (fun _ _ => true) (fun _ _ => true) (fun _ => false) (fun _ => false) (fun _ => None) conf.
Definition t (s : String.string) : text := bs s.
Arguments t s%string.

Example C13_example_map :
  match ex_load ex_conf with
  | Ok c => map_of c = [ (t"b", t"d1", t"1"); (t"c", t"d1", t"2"); (t"a", t"d1", t"3");
                         (t"z", t"d2", t"p9"); (t"y", t"d2", t"y"); (t"x", t"d2", t"x") ] /\
            c_nodes c = [t"a"; t"b"; t"c"; t"x"; t"y"; t"z"] /\ c_aliases c = [(t"all", [t"a"; t"z"])] /\ map_ok c = true
  | _ => False
  end.
Proof. vm_compute. repeat split. Qed.

(* ---- every node name maps to exactly one plug of exactly one device: the node column of the map has no repetition
   and is, up to order, conf_nodes (what `nodes` lists and what every command is resolved against) *)
Theorem C13_functional : forall hl_expand regcomp_ok resolves is_chardev stale_erange (toks : list token) c,
  load hl_expand regcomp_ok resolves is_chardev stale_erange toks = Ok c ->
  NoDup (map e_node (map_of c)) /\ Permutation (map e_node (map_of c)) (c_nodes c) /\ NoDup (c_nodes c).
Proof. exact map_functional. Qed.
Print Assumptions C13_functional.

(* ---- no plug carries two nodes: no (device, plug) pair occurs twice in the map.  The proof uses a fact gen_lex.py reads
   from the CURRENT source: a specification that names a plug twice is refused (GenLex.plugnames_checked = true, fix
   F34 "refuse a specification that lists a plug name twice"; before that fix this statement was false of the faithful
   model: `plug name { "1" "1" }` + `node "a,b" "d"` put a and b on plug "1") *)
Theorem C13_injective : forall hl_expand regcomp_ok resolves is_chardev stale_erange (toks : list token) c,
  load hl_expand regcomp_ok resolves is_chardev stale_erange toks = Ok c ->
  NoDup (map devplug (map_of c)).
Proof. exact map_injective. Qed.
Print Assumptions C13_injective.

Theorem C13_plug_names_distinct : forall hl_expand regcomp_ok resolves is_chardev stale_erange (toks : list token) c,
  load hl_expand regcomp_ok resolves is_chardev stale_erange toks = Ok c ->
  forall sp l, In sp (c_specs c) -> ss_plugs sp = Some l -> NoDup l.
Proof. exact spec_plugs_nodup. Qed.
Print Assumptions C13_plug_names_distinct.

Definition dup_conf : text := bs "specification ""h"" { timeout 1 plug name { ""1"" ""1"" } script login { send ""x"" } }
device ""d"" ""h"" ""/bin/cat |&""
node ""a,b"" ""d"""%string.

Example C13_injective_nonvacuous :
  match ex_load ex_conf with
  | Ok c => length (map_of c) = 6%nat /\ nodup_pair (map devplug (map_of c)) = true
  | _ => False
  end /\ ex_load dup_conf = Exit 1 S_DUP_PLUGNAME /\ site_hasline S_DUP_PLUGNAME = true.
Proof. vm_compute. repeat split. Qed.

(* ---- hard-wired plug names are respected: a hard-wired device has exactly the plug names of its specification, in
   specification order (no plug is ever added, renamed or reordered); a device without hard-wired plugs has only
   plugs that carry a node, with pairwise distinct names *)
Theorem C13_hardwired : forall hl_expand regcomp_ok resolves is_chardev stale_erange (toks : list token) c,
  load hl_expand regcomp_ok resolves is_chardev stale_erange toks = Ok c -> forall d, In d (c_devs c) ->
  (d_hardwired d = true -> exists sp, find_spec (d_spec d) (c_specs c) = Some sp /\ ss_plugs sp = Some (map fst (d_plugs d))) /\
  (d_hardwired d = false -> all_assigned (d_plugs d) /\ NoDup (map fst (d_plugs d))).
Proof. exact map_hardwired. Qed.
Print Assumptions C13_hardwired.

(* ---- THE rule of a node line, in any parser state [c]: if makeNode accepts `node a b [p]` then, with d the FIRST
   device named b, the line's rule (zip with a plug list; next free hard-wired plug in specification order, or a plug
   named like the node, without) yields [pairs], one per node and in node order, and the new map is the old map plus
   exactly those pairs; conf_nodes grows by exactly the nodes of the line, which are new and pairwise distinct *)
Theorem C13_line : forall hl_expand c a b p c', make_node hl_expand c a b p = Ok c' ->
  exists l1 d l2 nodes plugs pairs,
    c_devs c = l1 ++ d :: l2 /\ d_name d = b /\ (forall x, In x l1 -> d_name x <> b) /\
    hl_expand a = Some nodes /\ expand_opt hl_expand p = Some plugs /\
    line_rule (d_hardwired d) (d_plugs d) nodes plugs = Some pairs /\ map fst pairs = nodes /\
    Permutation (map_of c') (map (tag b) pairs ++ map_of c) /\
    c_nodes c' = c_nodes c ++ nodes /\ NoDup nodes /\ (forall n, In n nodes -> ~ In n (c_nodes c)).
Proof. exact make_node_rule. Qed.
Print Assumptions C13_line.

(* the three rules spelled out with indices *)
Theorem C13_zip : forall hard pl nodes plugs pl' d, map_nodes_plugs hard pl nodes plugs = inr pl' ->
  length nodes = length plugs /\ forall i, (i < length nodes)%nat -> In (nth i plugs d, Some (nth i nodes d)) pl'.
Proof. exact rule_zip. Qed.
Print Assumptions C13_zip.

Theorem C13_next_free : forall pl nodes,
  map_nodes_noplugs true pl nodes = (if Nat.leb (length nodes) (length (free_names pl)) then inr (fill pl nodes) else inl S_NOPLUGS) /\
  ((length nodes <= length (free_names pl))%nat ->
     map fst (fill pl nodes) = map fst pl /\
     forall d i, (i < length nodes)%nat -> In (nth i (free_names pl) d, Some (nth i nodes d)) (fill pl nodes)).
Proof. exact rule_next_free. Qed.
Print Assumptions C13_next_free.

Theorem C13_same_name : forall pl nodes pl', map_nodes_noplugs false pl nodes = inr pl' ->
  forall n, In n nodes -> In (n, Some n) pl'.
Proof. exact rule_same_name. Qed.
Print Assumptions C13_same_name.

Example C13_rules_nonvacuous :
  map_nodes_plugs true [(t"1", None); (t"2", None); (t"3", None)] [t"a"; t"b"] [t"3"; t"1"]
    = inr [(t"1", Some (t"b")); (t"2", None); (t"3", Some (t"a"))] /\
  map_nodes_noplugs true [(t"1", Some (t"b")); (t"2", None); (t"3", None)] [t"c"; t"d"]
    = inr [(t"1", Some (t"b")); (t"2", Some (t"c")); (t"3", Some (t"d"))] /\
  map_nodes_noplugs false [] [t"x"; t"y"] = inr [(t"y", Some (t"y")); (t"x", Some (t"x"))].
Proof. vm_compute. repeat split. Qed.

(* ---- a node line met in any parser state, with anything after it: if the configuration is finally accepted then
   makeNode accepted the line and everything it put into the map is in the final map *)
Theorem C13_line_final : forall hl_expand regcomp_ok resolves is_chardev stale_erange lend n c a b q r cf,
  lend_ok lend ->
  parse_items hl_expand regcomp_ok resolves is_chardev stale_erange lend (S n) c (node_toks a b (Some q) ++ r) = Ok cf ->
  (length r < n)%nat ->
  exists c', make_node hl_expand c a b (Some q) = Ok c' /\ incl (map_of c') (map_of cf).
Proof. exact node_line_final. Qed.
Print Assumptions C13_line_final.

(* ---- every alias expands only to existing nodes; there is at least one node *)
Theorem C13_alias : forall hl_expand regcomp_ok resolves is_chardev stale_erange (toks : list token) c,
  load hl_expand regcomp_ok resolves is_chardev stale_erange toks = Ok c -> aliases_ok c /\ c_nodes c <> [].
Proof. exact map_aliases. Qed.
Print Assumptions C13_alias.

(* ---- refusals.  Every refusal of a node line is exit status 1 with a diagnostic naming file and line *)
Theorem C13_refuse_line_status : forall hl_expand c a b p,
  (exists c', make_node hl_expand c a b p = Ok c') \/
  (exists s, make_node hl_expand c a b p = Exit 1 s /\ site_hasline s = true).
Proof. exact make_node_total. Qed.
Print Assumptions C13_refuse_line_status.

Theorem C13_refuse_propagates : forall hl_expand regcomp_ok resolves is_chardev stale_erange lend n c a b q r s,
  make_node hl_expand c a b (Some q) = Exit 1 s ->
  parse_items hl_expand regcomp_ok resolves is_chardev stale_erange lend (S n) c (node_toks a b (Some q) ++ r) = Exit 1 s.
Proof. exact refuse_propagates. Qed.

Theorem C13_refuse_unknown_device : forall hl_expand c a b p, (forall x, In x (c_devs c) -> d_name x <> b) ->
  make_node hl_expand c a b p = fail c S_NO_DEVICE.
Proof. exact refuse_unknown_device. Qed.

Theorem C13_refuse_unknown_spec : forall regcomp_ok resolves is_chardev stale_erange c name spec host flags,
  find_spec spec (c_specs c) = None ->
  make_device regcomp_ok resolves is_chardev stale_erange c name spec host flags = fail c S_NO_SPEC.
Proof. exact refuse_unknown_spec. Qed.

Theorem C13_refuse_dup_node : forall hl_expand c a b p nodes, hl_expand a = Some nodes ->
  (~ NoDup nodes \/ exists n, In n nodes /\ In n (c_nodes c)) -> forall c', make_node hl_expand c a b p <> Ok c'.
Proof. exact refuse_dup_node. Qed.

Theorem C13_refuse_length : forall hl_expand c a b q nodes plugs, hl_expand a = Some nodes -> hl_expand q = Some plugs ->
  length nodes <> length plugs -> forall c', make_node hl_expand c a b (Some q) <> Ok c'.
Proof. exact refuse_length. Qed.

Theorem C13_refuse_unknown_plug : forall hl_expand c a b q d plugs x, first_dev c b d -> d_hardwired d = true ->
  hl_expand q = Some plugs -> In x plugs -> ~ In x (map fst (d_plugs d)) -> forall c', make_node hl_expand c a b (Some q) <> Ok c'.
Proof. exact refuse_unknown_plug. Qed.

Theorem C13_refuse_taken_plug : forall hl_expand c a b q d plugs, first_dev c b d -> NoDup (map fst (d_plugs d)) ->
  hl_expand q = Some plugs -> (~ NoDup plugs \/ exists x n, In x plugs /\ In (x, Some n) (d_plugs d)) ->
  forall c', make_node hl_expand c a b (Some q) <> Ok c'.
Proof. exact refuse_taken_plug. Qed.

Theorem C13_refuse_no_free_plug : forall hl_expand c a b d nodes, first_dev c b d -> d_hardwired d = true ->
  hl_expand a = Some nodes -> (length (free_names (d_plugs d)) < length nodes)%nat ->
  forall c', make_node hl_expand c a b None <> Ok c'.
Proof. exact refuse_no_free_plug. Qed.

Theorem C13_refuse_same_name_taken : forall hl_expand c a b d nodes n, first_dev c b d -> d_hardwired d = false ->
  all_assigned (d_plugs d) -> NoDup (map fst (d_plugs d)) -> hl_expand a = Some nodes -> In n nodes ->
  In n (map fst (d_plugs d)) -> forall c', make_node hl_expand c a b None <> Ok c'.
Proof. exact refuse_same_name_taken. Qed.

(* alias to a missing node / no nodes at all: refused by _validate_config (diagnostic without file::line: the error
   is not tied to one configuration line) *)
Theorem C13_refuse_invalid : forall c, (~ aliases_ok c \/ c_nodes c = []) -> validate c = fail c S_INVALID.
Proof. exact refuse_invalid. Qed.
Print Assumptions C13_refuse_dup_node.
Print Assumptions C13_refuse_taken_plug.
Print Assumptions C13_refuse_invalid.

(* each refusal class on a concrete configuration, with the exact diagnostic site *)
Definition base : text := bs "specification ""h"" { timeout 1 plug name { ""1"" ""2"" } script login { send ""x"" } }
specification ""f"" { timeout 1 script login { send ""x"" } }
device ""d1"" ""h"" ""/bin/cat |&""
device ""d2"" ""f"" ""/bin/cat |&""
"%string.
Definition refused (tail : String.string) (site : nat) : Prop := ex_load (base ++ bs tail) = Exit 1 site.
Arguments refused tail%string site.

Example C13_refuse_nonvacuous :
  refused "node ""a"" ""d1"" node ""a"" ""d2""" S_DUP_NODE /\
  refused "node ""a,a"" ""d1""" S_DUP_NODE /\
  refused "node ""a"" ""d1"" ""9""" S_UNKPLUG /\
  refused "node ""a"" ""d1"" ""1"" node ""b"" ""d1"" ""1""" S_DUPPLUG /\
  refused "node ""a,b"" ""d2"" ""p,p""" S_DUPPLUG /\
  refused "node ""a"" ""d2"" node ""b"" ""d2"" ""a""" S_DUPPLUG /\
  refused "node ""a,b"" ""d1"" ""1""" S_NOPLUGS /\
  refused "node ""a,b,c"" ""d1""" S_NOPLUGS /\
  refused "node ""a"" ""d1"" ""1,2""" S_NONODES /\
  refused "node ""a"" ""nodev""" S_NO_DEVICE /\
  refused "device ""d3"" ""nospec"" ""/bin/cat |&"" node ""a"" ""d3""" S_NO_SPEC /\
  refused "node ""a"" ""d1"" alias ""all"" ""a,zz""" S_INVALID /\
  refused "alias ""all"" ""a""" S_INVALID /\
  refused "" S_INVALID /\
  site_hasline S_DUP_NODE = true /\ site_hasline S_UNKPLUG = true /\ site_hasline S_DUPPLUG = true /\
  site_hasline S_NOPLUGS = true /\ site_hasline S_NONODES = true /\ site_hasline S_NO_DEVICE = true /\
  site_hasline S_NO_SPEC = true /\ site_hasline S_INVALID = false.
Proof. vm_compute. repeat split. Qed.

(* ---- C13_map_of_text: ONE end-to-end statement from the accepted token stream to the final map.  The map of an
   accepted configuration is, up to order, what spec_map (Proofs/ConfMapText.v, statement side) computes from the text:
   it reads the node lines off the tokens with ConfSpec.node_lines (in an accepted stream the keyword `node` can only
   start a node line: Proofs/LexerSeg.v, using the source fact that `node` is not a script name) and folds ConfSpec's
   line rules over them IN ORDER -- zip with a plug list; without one the next plug names of the device's skeleton that
   the map built so far leaves free, or plugs named like the nodes -- each line addressed to the FIRST device of that
   name.  spec_map's only state is the map built so far; of the devices it sees the skeleton skel_of c: name and, for a
   device whose specification has `plug name { .. }`, those names in order (C13_skeleton).  For every token list, every
   hostlist oracle, every environment oracle. *)
Theorem C13_map_of_text : forall hl_expand regcomp_ok resolves is_chardev stale_erange (toks : list token) c,
  load hl_expand regcomp_ok resolves is_chardev stale_erange toks = Ok c ->
  Permutation (map_of c) (spec_map hl_expand (skel_of c) (node_lines toks)).
Proof. exact map_of_text. Qed.
Print Assumptions C13_map_of_text.

(* the same from the bytes of the main file, for every file oracle (include files): conf_init = lexer + load *)
Theorem C13_map_of_file : forall hl_expand regcomp_ok resolves is_chardev stale_erange files main c,
  conf_init hl_expand regcomp_ok resolves is_chardev stale_erange files main = Ok c ->
  Permutation (map_of c) (spec_map hl_expand (skel_of c) (node_lines (fst (lex_all files main)))).
Proof. exact map_of_file. Qed.
Print Assumptions C13_map_of_file.

(* the skeleton is the specification's: a hard-wired device has the plug names of its specification, in that order *)
Theorem C13_skeleton : forall hl_expand regcomp_ok resolves is_chardev stale_erange (toks : list token) c,
  load hl_expand regcomp_ok resolves is_chardev stale_erange toks = Ok c -> forall d, In d (c_devs c) ->
  fst (dev_skel d) = d_name d /\
  (d_hardwired d = true -> exists sp, find_spec (d_spec d) (c_specs c) = Some sp /\ snd (dev_skel d) = ss_plugs sp) /\
  (d_hardwired d = false -> snd (dev_skel d) = None).
Proof. exact skel_from_specs. Qed.
Print Assumptions C13_skeleton.

(* corollaries over the map computed from the TEXT of any accepted configuration: one (device, plug) per node, one node
   per (device, plug) (F34 fact GenLex.plugnames_checked, as C13_injective), its nodes are conf_nodes, every alias
   resolves to nodes of the map, and it is not empty *)
Theorem C13_text_map_unambiguous : forall hl_expand regcomp_ok resolves is_chardev stale_erange (toks : list token) c,
  load hl_expand regcomp_ok resolves is_chardev stale_erange toks = Ok c ->
  let m := spec_map hl_expand (skel_of c) (node_lines toks) in
  NoDup (map e_node m) /\ NoDup (map devplug m) /\ Permutation (map e_node m) (c_nodes c) /\
  (forall name hosts h, In (name, hosts) (c_aliases c) -> In h hosts -> exists d p, In (h, d, p) m) /\ m <> [].
Proof. exact text_map_unambiguous. Qed.
Print Assumptions C13_text_map_unambiguous.

(* non-vacuity: two devices (d1 hard-wired with four plugs, d2 without), a ranged node line zipped with a ranged plug
   list, a next-free line, a same-name line, an alias; the oracle expands the two range expressions used *)
Definition ex_hl2 (s : text) : option (list text) :=
  if text_eqb s (t"n[1-3]") then Some [t"n1"; t"n2"; t"n3"]
  else if text_eqb s (t"[2-4]") then Some [t"2"; t"3"; t"4"] else ex_hl s.
Definition ex_conf2 : text := bs "specification ""h"" { timeout 1 plug name { ""1"" ""2"" ""3"" ""4"" } script login { send ""x"" } }
specification ""f"" { timeout 1 script login { send ""x"" } }
device ""d1"" ""h"" ""/bin/cat |&""
device ""d2"" ""f"" ""/bin/cat |&""
node ""n[1-3]"" ""d1"" ""[2-4]""
node ""c"" ""d1""
node ""x,y"" ""d2""
alias ""all"" ""n1,x"""%string.

Example C13_map_of_text_nonvacuous :
  let toks := fst (lex_all (fun _ => None) ex_conf2) in
  match load ex_hl2 (fun _ _ => true) (fun _ _ => true) (fun _ => false) (fun _ => false) toks with
  | Ok c =>
      node_lines toks = [ (t"n[1-3]", t"d1", Some (t"[2-4]")); (t"c", t"d1", None); (t"x,y", t"d2", None) ] /\
      skel_of c = [ (t"d1", Some [t"1"; t"2"; t"3"; t"4"]); (t"d2", None) ] /\
      spec_map ex_hl2 (skel_of c) (node_lines toks) =
        [ (t"n1", t"d1", t"2"); (t"n2", t"d1", t"3"); (t"n3", t"d1", t"4"); (t"c", t"d1", t"1");
          (t"x", t"d2", t"x"); (t"y", t"d2", t"y") ] /\
      map_of c = [ (t"c", t"d1", t"1"); (t"n1", t"d1", t"2"); (t"n2", t"d1", t"3"); (t"n3", t"d1", t"4");
                   (t"y", t"d2", t"y"); (t"x", t"d2", t"x") ]
  | _ => False
  end.
Proof. vm_compute. repeat split. Qed.

(* ---- the `nodes` / `device` listings: NOT covered here (Model/Client.v reply_nodes / reply_device belong to the
   daemon cluster; the tie for this clause is the check's dump of conf_getnodes() / dev_getdevices(), see
   props/C13.json) *)
