(* C19 -- redfishpower honours the plug hierarchy and always answers (src/redfishpower/redfishpower.c, plugs.c).
   Theorems about the executable model PM.Model.Redfish (tied to the source by Gen/GenRfp.v -- command words, every
   stdout format string, the F17/F20 repair flags -- and by the R-RFP correspondence with the real
   `redfishpower --test-mode`), stated against the documented rules PM.Spec.RedfishSpec.

   [run_line hlc st line sched] = one line typed at the prompt, then shell-loop passes until the three command lists are
   empty again (the next prompt); [sched] = how many delayed status polls are due in each pass (ANY list: the theorems
   quantify over it); [hlc] = hostlist_create on the argument (any function: C14's subject); fuel = [fuel_for], a
   function of the number of queued messages and of the table size.  [Ok (st', false)] with [at_prompt st'] means: no
   exit, no abort, no memory error, no hang, the three lists empty -- the prompt is printed next.

   FULL    : C19_rules (ANY number of targets on a line -- duplicates, unknown names, related targets, several roots, targets
             below failing hosts --, any depth, any release schedule: the TEXT of every result line and the status table
             afterwards are the ones of Spec/RedfishSpec.expected, as a multiset of lines and plug by plug),
             C19_always_answers / C19_wf_power / C19_sequence (termination with the model's own fuel, exactly one result line per
             targeted known plug, one report per unknown name, no lost waiter, prompt and well-formedness restored; composes
             over sessions), C19_rules_single and its corollaries (one target: the line itself, not only the multiset),
             C19_on_parent_and_child_refused (any number of targets), C19_survives_* (error reports), C19_dangling_ancestor.
   OPEN    : nothing of the property text (what the model abstracts is listed at the head of Model/Redfish.v).
   REFUTED : with the F20 repair flags false a waiter is lost (C19_no_lost_waiter_needs_repair). *)
From Coq Require Import List NArith ZArith Bool Permutation.
From PM Require Import Base.Bytes Base.Outcome Gen.GenRfp Model.Redfish Spec.RedfishSpec Model.RedfishView
  Proofs.RedfishBase Proofs.RedfishSteps Proofs.RedfishSingle Proofs.RedfishMgmt Proofs.RedfishRules Proofs.RedfishTheorems
  Proofs.RedfishPhased Proofs.RedfishFaults Proofs.RedfishReach Proofs.RedfishExamples
  Proofs.RedfishInv Proofs.RedfishLive Proofs.RedfishDrain Proofs.RedfishStart Proofs.RedfishMulti Proofs.RedfishSmall
  Proofs.RedfishEff Proofs.RedfishText Proofs.RedfishClosed Proofs.RedfishRulesMulti.
Import ListNotations.

(* ------------------------------------------------------------------------------------------------------------------
   Hierarchy rules, one target at any depth: the helper prints exactly one result line, the one the documented rules
   prescribe; the statuses afterwards are the ones the rules prescribe; it is back at its prompt. *)
Theorem C19_rules_single : forall hlc st ln sched c x,
  at_prompt st -> ts_covers st -> single_power_line hlc st ln c x -> name_valid (s_tab st) x = true ->
  in_domain st c [x] = true -> (c = COff -> closed_tab (s_tab st) = true) ->
  exists st', run_line hlc st ln sched = Ok (st', false) /\ at_prompt st' /\ same_cfg st' st /\
              map fst (results st') = [TResult x] /\
              map snd (results st') = fst (expected_of st c [x]) /\
              same_status (statmap_of (s_tstat st')) (snd (expected_of st c [x])) /\
              spec_line hlc st ln = Some (expected_of st c [x]).
Proof. exact rules_single. Qed.
Example C19_rules_single_nonvacuous :
  (* three levels R -> M -> L, R and M on: `off L` is carried out, with the poll released only in the third pass *)
  at_prompt ex_mid /\ ts_covers ex_mid /\ single_power_line ex_hlc ex_mid (bs "off L"%string) COff (bs "L"%string) /\
  name_valid (s_tab ex_mid) (bs "L"%string) = true /\ in_domain ex_mid COff [bs "L"%string] = true /\ closed_tab (s_tab ex_mid) = true /\
  depth (forest_of (s_tab ex_mid)) (bs "L"%string) = 2%nat /\
  (exists st', run_line ex_hlc ex_mid (bs "off L"%string) [0; 0; 0; 1]%nat = Ok (st', false) /\ out_text st' = [bs "L: ok"%string ++ [LF]]).
Proof.
  split; [apply at_prompt_b; reflexivity|]. split; [apply ts_covers_b; reflexivity|].
  split; [exists (bs "off"%string), (bs "L"%string), []; repeat split|].
  repeat (split; [vm_compute; reflexivity|]). eexists. split; vm_compute; reflexivity.
Qed.
Print Assumptions C19_rules_single.

(* "a descendant of an ancestor that is not on reports that ancestor's off/unknown/error state" *)
Theorem C19_descendant_reports_ancestor : forall hlc st ln sched x a s,
  at_prompt st -> ts_covers st -> single_power_line hlc st ln CStat x -> name_valid (s_tab st) x = true ->
  in_domain st CStat [x] = true ->
  blocker (forest_of (s_tab st)) (s_fail st) (statmap_of (s_tstat st)) x = Some (a, s) ->
  exists st', run_line hlc st ln sched = Ok (st', false) /\ at_prompt st' /\
              map snd (results st') = [line x (word s)] /\ same_status (statmap_of (s_tstat st')) (statmap_of (s_tstat st)).
Proof. exact descendant_reports_ancestor. Qed.
Example C19_descendant_reports_ancestor_nonvacuous :
  (* T sits below S whose host h3 fails: T is reported "error"; L below M below R, all off: L is reported "off" *)
  blocker (forest_of (s_tab ex_mid)) (s_fail ex_mid) (statmap_of (s_tstat ex_mid)) (bs "T"%string) = Some (bs "S"%string, StErr) /\
  in_domain ex_mid CStat [bs "T"%string] = true /\
  blocker (forest_of (s_tab ex_off)) (s_fail ex_off) (statmap_of (s_tstat ex_off)) (bs "L"%string) = Some (bs "R"%string, StOff) /\
  (exists st', run_line ex_hlc ex_mid (bs "stat T"%string) [] = Ok (st', false) /\ out_text st' = [bs "T: error"%string ++ [LF]]).
Proof. repeat (split; [vm_compute; reflexivity|]). eexists. split; vm_compute; reflexivity. Qed.
Print Assumptions C19_descendant_reports_ancestor.

(* "'on' below a non-on ancestor is refused naming the dependency" *)
Theorem C19_on_below_non_on_refused : forall hlc st ln sched x a s,
  at_prompt st -> ts_covers st -> single_power_line hlc st ln COn x -> name_valid (s_tab st) x = true ->
  in_domain st COn [x] = true ->
  blocker (forest_of (s_tab st)) (s_fail st) (statmap_of (s_tstat st)) x = Some (a, s) ->
  exists st', run_line hlc st ln sched = Ok (st', false) /\ at_prompt st' /\
              map snd (results st') = [dependency_line (forest_of (s_tab st)) SpOn x a s] /\
              same_status (statmap_of (s_tstat st')) (statmap_of (s_tstat st)).
Proof. exact on_below_non_on_refused. Qed.
Example C19_on_below_non_on_refused_nonvacuous :
  in_domain ex_off COn [bs "L"%string] = true /\
  blocker (forest_of (s_tab ex_off)) (s_fail ex_off) (statmap_of (s_tstat ex_off)) (bs "L"%string) = Some (bs "R"%string, StOff) /\
  (exists st', run_line ex_hlc ex_off (bs "on L"%string) [] = Ok (st', false) /\
               out_text st' = [bs "L: cannot perform on, dependency off (host=h0 plug=R)"%string ++ [LF]]).
Proof. repeat (split; [vm_compute; reflexivity|]). eexists. split; vm_compute; reflexivity. Qed.
Print Assumptions C19_on_below_non_on_refused.

(* "'off' below an off ancestor is ok" *)
Theorem C19_off_below_off_ok : forall hlc st ln sched x a,
  at_prompt st -> ts_covers st -> single_power_line hlc st ln COff x -> name_valid (s_tab st) x = true ->
  in_domain st COff [x] = true -> closed_tab (s_tab st) = true ->
  blocker (forest_of (s_tab st)) (s_fail st) (statmap_of (s_tstat st)) x = Some (a, StOff) ->
  exists st', run_line hlc st ln sched = Ok (st', false) /\ at_prompt st' /\
              map snd (results st') = [line x (bs "ok"%string)] /\ same_status (statmap_of (s_tstat st')) (statmap_of (s_tstat st)).
Proof. exact off_below_off_ok. Qed.
Example C19_off_below_off_ok_nonvacuous :
  in_domain ex_off COff [bs "L"%string] = true /\ closed_tab (s_tab ex_off) = true /\
  blocker (forest_of (s_tab ex_off)) (s_fail ex_off) (statmap_of (s_tstat ex_off)) (bs "L"%string) = Some (bs "R"%string, StOff) /\
  (exists st', run_line ex_hlc ex_off (bs "off L"%string) [] = Ok (st', false) /\ out_text st' = [bs "L: ok"%string ++ [LF]]).
Proof. repeat (split; [vm_compute; reflexivity|]). eexists. split; vm_compute; reflexivity. Qed.
Print Assumptions C19_off_below_off_ok.

(* "powering a parent off leaves its descendants off" *)
Theorem C19_off_cascade : forall hlc st ln sched x,
  at_prompt st -> ts_covers st -> single_power_line hlc st ln COff x -> name_valid (s_tab st) x = true ->
  in_domain st COff [x] = true -> closed_tab (s_tab st) = true ->
  blocker (forest_of (s_tab st)) (s_fail st) (statmap_of (s_tstat st)) x = None ->
  smem (host_of (forest_of (s_tab st)) x) (s_fail st) = false ->
  exists st', run_line hlc st ln sched = Ok (st', false) /\ at_prompt st' /\
              map snd (results st') = [line x (bs "ok"%string)] /\
              forall n, n = x \/ descendant (forest_of (s_tab st)) n x = true -> st_get (statmap_of (s_tstat st')) n = StOff.
Proof. exact off_cascade. Qed.
Example C19_off_cascade_nonvacuous :
  (* R, M, L on: `off R` takes M and L (two levels below) along *)
  in_domain ex_on COff [bs "R"%string] = true /\ closed_tab (s_tab ex_on) = true /\
  st_get (statmap_of (s_tstat ex_on)) (bs "L"%string) = StOn /\ descendant (forest_of (s_tab ex_on)) (bs "L"%string) (bs "R"%string) = true /\
  (exists st', run_line ex_hlc ex_on (bs "off R"%string) [] = Ok (st', false) /\ st_get (statmap_of (s_tstat st')) (bs "L"%string) = StOff).
Proof. repeat (split; [vm_compute; reflexivity|]). eexists. split; vm_compute; reflexivity. Qed.
Print Assumptions C19_off_cascade.

(* ------------------------------------------------------------------------------------------------------------------
   Error handling: reported, and the helper is back at its prompt. *)
(* any line that is not stat/on/off (management commands with bad indices, malformed ranges, count mismatches, wrong
   usage, unknown words, empty lines) *)
Theorem C19_survives_management : forall hlc st ln sched,
  at_prompt st -> (forall w args, argv ln = w :: args -> cmd_of_word w = None) ->
  exists st' q, run_line hlc st ln sched = Ok (st', q) /\ at_prompt st'.
Proof. exact mgmt_line_returns. Qed.
Example C19_survives_management_nonvacuous :
  exists st', run_line ex_hlc ex_mid (bs "setplugs Qbad 9223372036854775808"%string) [] = Ok (st', false) /\
              out_text st' = [bs "setplugs: invalid hostindex 9223372036854775808 specified"%string ++ [LF]].
Proof. eexists. split; vm_compute; reflexivity. Qed.
Print Assumptions C19_survives_management.

(* malformed range on a stat/on/off line (F1: `stat x[2-1]`; hostlist_create returns NULL after the repair) *)
Theorem C19_survives_malformed_range : forall hlc st ln sched w a rest c,
  at_prompt st -> argv ln = w :: a :: rest -> cmd_of_word w = Some c -> hlc a = None ->
  exists st', run_line hlc st ln sched = Ok (st', false) /\ at_prompt st' /\ same_cfg st' st /\ s_tstat st' = s_tstat st /\
              out_text st' = [bs "illegal hosts input"%string ++ [LF]].
Proof. exact malformed_range_reported. Qed.
Example C19_survives_malformed_range_nonvacuous :
  exists st', run_line (fun _ => None) ex_mid (bs "stat x[2-1]"%string) [] = Ok (st', false) /\ out_text st' = [bs "illegal hosts input"%string ++ [LF]].
Proof. eexists. split; vm_compute; reflexivity. Qed.
Print Assumptions C19_survives_malformed_range.

(* unknown plugs: one line each *)
Theorem C19_survives_unknown_plugs : forall hlc st ln sched w a rest c ts,
  at_prompt st -> argv ln = w :: a :: rest -> cmd_of_word w = Some c -> hlc a = Some ts -> cyclic (s_tab st) = false ->
  forallb (fun p => negb (name_valid (s_tab st) p)) ts = true ->
  exists st', run_line hlc st ln sched = Ok (st', false) /\ at_prompt st' /\ same_cfg st' st /\ s_tstat st' = s_tstat st /\
              s_out st' = map (fun p => (TUnknown p, bs "unknown plug specified: "%string ++ p ++ [LF])) ts.
Proof. exact unknown_plugs_reported. Qed.
Example C19_survives_unknown_plugs_nonvacuous :
  exists st', run_line ex_hlc ex_mid (bs "on nosuch,Z9"%string) [] = Ok (st', false) /\
              out_text st' = [bs "unknown plug specified: nosuch"%string ++ [LF]; bs "unknown plug specified: Z9"%string ++ [LF]].
Proof. eexists. split; vm_compute; reflexivity. Qed.
Print Assumptions C19_survives_unknown_plugs.

(* bad host index in setplugs *)
Theorem C19_survives_bad_index : forall hlc st ln sched a0 a1 rest p ps idx,
  at_prompt st -> argv ln = bs "setplugs"%string :: a0 :: a1 :: rest -> hlc a0 = Some (p :: ps) -> hlc a1 = Some [idx] ->
  bad_index st idx = true ->
  exists st' l, run_line hlc st ln sched = Ok (st', false) /\ at_prompt st' /\
                s_tab st' = s_tab (remove_initial_plugs st) /\ s_tstat st' = s_tstat st /\ out_text st' = [l] /\
                (l = bs "setplugs: invalid hostindex "%string ++ idx ++ bs " specified"%string ++ [LF] \/
                 exists d, l = bs "setplugs: hostindex "%string ++ d ++ bs " out of range"%string ++ [LF]).
Proof. exact bad_index_reported. Qed.
Example C19_survives_bad_index_nonvacuous :
  bad_index ex_mid (bs "99"%string) = true /\ bad_index ex_mid (bs "-1"%string) = true /\ bad_index ex_mid (bs "1x"%string) = true /\
  bad_index ex_mid (bs "3"%string) = false.
Proof. repeat split; vm_compute; reflexivity. Qed.
Print Assumptions C19_survives_bad_index.

(* ------------------------------------------------------------------------------------------------------------------
   "requesting 'on' for an ancestor and its descendant together refuses all targets": any number of targets, any depth;
   one refusal per target (as a multiset: [order] is a permutation of the targets), nothing is switched. *)
Theorem C19_on_parent_and_child_refused : forall hlc st ln sched w a rest ts p q,
  at_prompt st -> argv ln = w :: a :: rest -> cmd_of_word w = Some COn -> hlc a = Some ts -> cyclic (s_tab st) = false ->
  forallb (has_path st COn) ts = true ->
  In p ts -> In q ts -> p <> q -> is_desc (s_tab st) p q = true ->
  exists st' order, run_line hlc st ln sched = Ok (st', false) /\ at_prompt st' /\ same_cfg st' st /\ s_tstat st' = s_tstat st /\ s_log st' = [] /\
    Permutation order ts /\
    results st' = map (fun t => (TResult t, t ++ bs ": cannot turn on parent and child"%string ++ [LF])) order.
Proof. exact RedfishPhased.on_parent_and_child_refused. Qed.
Example C19_on_parent_and_child_refused_nonvacuous :
  (* L is two levels below R; S is unrelated and sits on the failing host: all three are refused *)
  is_desc (s_tab ex_mid) (bs "L"%string) (bs "R"%string) = true /\
  forallb (has_path ex_mid COn) [bs "S"%string; bs "L"%string; bs "R"%string] = true /\
  (exists st', run_line ex_hlc ex_mid (bs "on S,L,R"%string) [] = Ok (st', false) /\ s_tstat st' = s_tstat ex_mid /\
     out_text st' = [bs "S: cannot turn on parent and child"%string ++ [LF]; bs "R: cannot turn on parent and child"%string ++ [LF];
                     bs "L: cannot turn on parent and child"%string ++ [LF]]).
Proof.
  repeat (split; [vm_compute; reflexivity|]). eexists.
  split; [vm_compute; reflexivity|]. split; vm_compute; reflexivity.
Qed.
Print Assumptions C19_on_parent_and_child_refused.

(* ------------------------------------------------------------------------------------------------------------------
   Outside the domain of the rules the target is still answered and the prompt returns. *)
(* F17 (repaired by b631ee2): an ancestor named in setplugs was never defined.  The proof unfolds Gen.GenRfp.f_dangling_parent:
   on the unrepaired source the generator emits None, the model aborts at site_root_assert and this proof fails. *)
Theorem C19_dangling_ancestor : forall hlc st ln sched w a rest c x,
  at_prompt st -> argv ln = w :: a :: rest -> cmd_of_word w = Some c -> hlc a = Some [x] -> cyclic (s_tab st) = false ->
  has_path st c x = true -> (forall r, find_root (s_tab st) x <> WFound r) ->
  exists st', run_line hlc st ln sched = Ok (st', false) /\ at_prompt st' /\ same_cfg st' st /\ s_tstat st' = s_tstat st /\ s_log st' = [] /\
              results st' = [(TResult x, x ++ bs ": ancestor plug not defined"%string ++ [LF])].
Proof. exact RedfishFaults.dangling_ancestor_reported. Qed.
Example C19_dangling_ancestor_nonvacuous :
  has_path ex_dangling CStat (bs "a"%string) = true /\ find_root (s_tab ex_dangling) (bs "a"%string) = WNone /\
  (exists st', run_line ex_hlc ex_dangling (bs "stat a"%string) [] = Ok (st', false) /\ out_text st' = [bs "a: ancestor plug not defined"%string ++ [LF]]).
Proof. repeat (split; [vm_compute; reflexivity|]). eexists. split; vm_compute; reflexivity. Qed.
Print Assumptions C19_dangling_ancestor.

(* F20, the no-lost-waiter clause (repaired by 3d1e749): the root above the target (at ANY depth) cannot be queried because
   it has no stat path.  The target is failed at once ("error" / "cannot perform ..., dependency error") and the prompt
   returns.  The proof goes through Gen.GenRfp.fail_waiters_initial = true (`change ... with true`).
   REFUTED for the unrepaired source: there the generator emits fail_waiters_initial = false, this proof does not check,
   and the model run of the example below ends in Hang site_lost_waiter (waitcmds = [Leaf], nothing active, nothing
   delayed: select() without descriptors, forever) -- corpus/C19/F20-*.json replays it on the C. *)
Theorem C19_no_lost_waiter_unqueryable_root : forall hlc st ln sched w a rest c x root,
  at_prompt st -> argv ln = w :: a :: rest -> cmd_of_word w = Some c -> hlc a = Some [x] -> cyclic (s_tab st) = false ->
  has_path st c x = true -> find_root (s_tab st) x = WFound root -> root <> x -> has_path st CStat root = false ->
  exists st' pdx pdr, lookup (s_tab st) x = Some pdx /\ lookup (s_tab st) root = Some pdr /\
    run_line hlc st ln sched = Ok (st', false) /\ at_prompt st' /\ same_cfg st' st /\ s_tstat st' = s_tstat st /\ s_log st' = [] /\
    results st' = [(TResult x, RedfishSteps.blocked_line (RedfishSingle.tmsg c x pdx) pdr SErr)] /\
    In (TDiag, root ++ bs ": stat path not set"%string ++ [LF]) (s_out st').
Proof. exact RedfishFaults.unqueryable_root_fails_waiter. Qed.
Example C19_no_lost_waiter_unqueryable_root_nonvacuous :
  has_path ex_nopath CStat (bs "Leaf"%string) = true /\ find_root (s_tab ex_nopath) (bs "Leaf"%string) = WFound (bs "Root"%string) /\
  has_path ex_nopath CStat (bs "Root"%string) = false /\ fail_waiters_initial = true /\
  (exists st', run_line ex_hlc ex_nopath (bs "stat Leaf"%string) [] = Ok (st', false) /\
               out_text st' = [bs "Root: stat path not set"%string ++ [LF]; bs "Leaf: error"%string ++ [LF]]).
Proof. repeat (split; [vm_compute; reflexivity|]). eexists. split; vm_compute; reflexivity. Qed.
Print Assumptions C19_no_lost_waiter_unqueryable_root.

(* ------------------------------------------------------------------------------------------------------------------
   Where the hypotheses [at_prompt] and [ts_covers] come from: they hold when the helper starts and are kept by every
   line that is not stat/on/off and by every single-target stat/on/off line inside the domain of the rules.
   (Kept by several-target lines as well: C19_wf_power below.) *)
Theorem C19_wf_init : forall hosts fail v, ts_covers (init hosts fail v) /\ at_prompt (init hosts fail v).
Proof. exact RedfishReach.ts_covers_init. Qed.
Print Assumptions C19_wf_init.
Theorem C19_wf_management : forall hlc st ln sched st' q,
  at_prompt st -> ts_covers st -> (forall w args, argv ln = w :: args -> cmd_of_word w = None) ->
  run_line hlc st ln sched = Ok (st', q) -> ts_covers st'.
Proof. exact RedfishReach.ts_covers_management. Qed.
Print Assumptions C19_wf_management.
Theorem C19_wf_single : forall hlc st ln sched w a rest c x st' q,
  at_prompt st -> ts_covers st -> argv ln = w :: a :: rest -> cmd_of_word w = Some c -> hlc a = Some [x] ->
  name_valid (s_tab st) x = true -> in_domain st c [x] = true ->
  run_line hlc st ln sched = Ok (st', q) -> ts_covers st' /\ at_prompt st'.
Proof. exact RedfishReach.ts_covers_single. Qed.
Example C19_wf_nonvacuous : ts_covers ex_on /\ at_prompt ex_on /\ length (s_tab ex_on) = 5%nat.
Proof. split; [apply ts_covers_b; reflexivity|]. split; [apply at_prompt_b; reflexivity | reflexivity]. Qed.
Print Assumptions C19_wf_single.

(* ------------------------------------------------------------------------------------------------------------------
   Liveness and "one answer each" for ANY number of targets on one line (duplicates, unknown names, related targets, several
   roots, targets below failing hosts), any depth, ANY release schedule [sched] of the delayed status polls:
   run_line returns Ok with the model's own fuel [fuel_for] (no Hang -- in particular not site_lost_waiter --, no Abort, no
   Exit, no MemErr), the helper is back at its prompt, the plug names of the result lines are a permutation of the targeted
   known plugs (exactly one line each, duplicates counted), every unknown name is reported once, in order, and the
   configuration is untouched; a stat line leaves the status table as it was, and the only power operations carried out
   ([s_log]: one EvOp per simulated on/off) are operations of the command typed, on plugs that were targeted.
   ([answered st'] = plug names of the lines tagged TResult, [reported_unknown st'] = names in the "unknown plug specified"
   lines.)
   Proof: Proofs/RedfishLive.v (invariant: activecmds = stale ++ todo ++ new during a pass; the loop is synchronous in the
   depth of the plugs, so a stale entry of the pass copy is never mistaken for a live handler; every waiter has a live
   handler on an ancestor), Proofs/RedfishDrain.v (measure: table size - current depth + sum of message weights, decreasing
   in every shell-loop iteration under any schedule), Proofs/RedfishStart.v (the command part establishes the invariant). *)
Theorem C19_always_answers : forall hlc st ln sched c ts,
  at_prompt st -> ts_covers st -> power_line hlc st ln = Some (c, ts) -> in_domain st c ts = true ->
  exists st', run_line hlc st ln sched = Ok (st', false) /\ at_prompt st' /\ ts_covers st' /\ same_cfg st' st /\
              Permutation (answered st') (known_targets st ts) /\ reported_unknown st' = unknown_targets st ts /\
              (c = CStat -> s_tstat st' = s_tstat st) /\
              (forall c' p, In (EvOp c' p) (s_log st') -> c' = c /\ c <> CStat /\ In p (known_targets st ts)).
Proof. exact always_answers. Qed.
Example C19_always_answers_nonvacuous :
  (* three levels; L twice, its ancestor R, T below the failing host's S, an unknown name; polls released one per pass *)
  at_prompt ex_on /\ ts_covers ex_on /\
  power_line ex_hlc ex_on (bs "off L,R,T,nosuch,L"%string) = Some (COff, [bs "L"; bs "R"; bs "T"; bs "nosuch"; bs "L"]%string) /\
  in_domain ex_on COff [bs "L"; bs "R"; bs "T"; bs "nosuch"; bs "L"]%string = true /\
  known_targets ex_on [bs "L"; bs "R"; bs "T"; bs "nosuch"; bs "L"]%string = [bs "L"; bs "R"; bs "T"; bs "L"]%string /\
  (exists st', run_line ex_hlc ex_on (bs "off L,R,T,nosuch,L"%string) [0; 1; 0; 1]%nat = Ok (st', false) /\
               answered st' = [bs "T"; bs "R"; bs "L"; bs "L"]%string /\ reported_unknown st' = [bs "nosuch"%string] /\
               s_log st' = [EvOp COff (bs "R"%string)]).
Proof.
  split; [apply at_prompt_b; reflexivity|]. split; [apply ts_covers_b; reflexivity|].
  repeat (split; [vm_compute; reflexivity|]). eexists. split; [vm_compute; reflexivity|]. split; [vm_compute; reflexivity|]. split; vm_compute; reflexivity.
Qed.
Print Assumptions C19_always_answers.

(* preservation: whatever an in-domain stat/on/off line returns, the hypotheses of all theorems hold again *)
Theorem C19_wf_power : forall hlc st ln sched c ts st' q,
  at_prompt st -> ts_covers st -> power_line hlc st ln = Some (c, ts) -> in_domain st c ts = true ->
  run_line hlc st ln sched = Ok (st', q) -> at_prompt st' /\ ts_covers st' /\ same_cfg st' st /\ q = false.
Proof. exact wf_power. Qed.
Print Assumptions C19_wf_power.

(* sessions: from any well-formed state (C19_wf_init: the start state is one), over ANY list of lines with ANY schedules,
   every line is answered and leaves a well-formed state, as long as the lines so far were admissible in the states
   reached (admissible = not stat/on/off at all, or stat/on/off inside the domain of the rules) *)
Theorem C19_sequence : forall hlc ls st, at_prompt st -> ts_covers st -> session_ok hlc st ls.
Proof. exact sequence. Qed.
Example C19_sequence_nonvacuous :
  admissible ex_hlc ex_on (bs "stat L,R,M,T"%string) /\ admissible ex_hlc ex_on (bs "setplugs X 9"%string) /\
  (session_ok ex_hlc ex_on [(bs "stat L,R"%string, [])] ->
   exists st', run_line ex_hlc ex_on (bs "stat L,R"%string) [] = Ok (st', false) /\ at_prompt st').
Proof.
  split; [right; eexists; eexists; split; vm_compute; reflexivity|].
  split; [left; intros w args H; vm_compute in H; inversion H; subst; vm_compute; reflexivity|].
  cbn [session_ok]. intros H. destruct H as (st' & q & RL & (AP & _) & _).
  - right. eexists. eexists. split; vm_compute; reflexivity.
  - exists st'. pose proof (C19_wf_power ex_hlc ex_on (bs "stat L,R"%string) [] CStat [bs "L"; bs "R"]%string st' q) as W.
    destruct W as (_ & _ & _ & ->); [apply at_prompt_b; reflexivity | apply ts_covers_b; reflexivity | vm_compute; reflexivity | vm_compute; reflexivity | exact RL|].
    split; [exact RL | exact AP].
Qed.
Print Assumptions C19_sequence.

(* ------------------------------------------------------------------------------------------------------------------
   The refinement for SEVERAL targets on one line (the last statement of DESIGN.md section 5 C19 to be proved): for ANY target
   list (duplicates, unknown names, ancestors together with their descendants, several roots, targets below failing hosts),
   any depth, ANY release schedule of the delayed polls, the helper returns to its prompt with the configuration untouched,
   the result lines it printed ARE the lines of Spec/RedfishSpec.expected (as a multiset: the helper answers level by level,
   the specification target by target) and the status of every plug afterwards is the one of RedfishSpec.expected.
   This covers, for several targets at once, every sentence of the property text: a descendant of an ancestor that is not on
   reports that ancestor's state; `on` below a non-on ancestor is refused naming the dependency; `off` below an off ancestor
   is ok; `on` for an ancestor and its descendant together refuses all targets; powering a parent off leaves its descendants
   off -- and a target below a targeted ancestor of the same `off` line is answered "ok" through that ancestor's own result.
   Proof: Proofs/RedfishEff.v (closed form of the rules for a whole target list: [seff a] = what a handler on plug a reports
   to the waiters below it -- error for a failing host, the state the command puts a targeted plug in, the status before the
   command otherwise; [sline] = the line of a target; [sfinal] = the final status), Proofs/RedfishText.v (the loop invariant of
   RedfishLive.v refined: every live message sits below ancestors that all report on; a silent ancestor query never sits on a
   targeted plug of an on/off line -- for `on` because no pending message is above a waiter, for `off` because
   plugname_active() finds the operation on that plug; the status table differs from the one before the command exactly at
   the operations carried out and, for off, their descendants; every printed line is [sline] of its plug),
   Proofs/RedfishClosed.v (RedfishSpec.expected = the closed form: the depth order of the specification makes the cascade of
   a targeted ancestor visible to the targets below it), Proofs/RedfishRulesMulti.v. *)
Theorem C19_rules : forall hlc st ln sched c ts,
  at_prompt st -> ts_covers st -> power_line hlc st ln = Some (c, ts) -> in_domain st c ts = true -> closed_tab (s_tab st) = true ->
  exists st', run_line hlc st ln sched = Ok (st', false) /\ at_prompt st' /\ same_cfg st' st /\
              Permutation (map snd (results st')) (fst (expected_of st c ts)) /\
              same_status (statmap_of (s_tstat st')) (snd (expected_of st c ts)).
Proof. exact rules_multi. Qed.
Example C19_rules_nonvacuous :
  (* three levels, R, M, L on; `off L,R,T,nosuch,L`: L (twice) below its targeted ancestor R, T below the failing host's S, an
     unknown name; polls released one per pass.  And `on T,M` with everything off: two unrelated targets, both refused for
     different reasons. *)
  at_prompt ex_on /\ ts_covers ex_on /\ closed_tab (s_tab ex_on) = true /\
  power_line ex_hlc ex_on (bs "off L,R,T,nosuch,L"%string) = Some (COff, [bs "L"; bs "R"; bs "T"; bs "nosuch"; bs "L"]%string) /\
  in_domain ex_on COff [bs "L"; bs "R"; bs "T"; bs "nosuch"; bs "L"]%string = true /\
  fst (expected_of ex_on COff [bs "L"; bs "R"; bs "T"; bs "nosuch"; bs "L"]%string) =
    [bs "unknown plug specified: nosuch"%string ++ [LF]; bs "R: ok"%string ++ [LF];
     bs "T: cannot perform off, dependency error (host=h3 plug=S)"%string ++ [LF]; bs "L: ok"%string ++ [LF]; bs "L: ok"%string ++ [LF]] /\
  (exists st', run_line ex_hlc ex_on (bs "off L,R,T,nosuch,L"%string) [0; 1; 0; 1]%nat = Ok (st', false) /\
     out_text st' = [bs "unknown plug specified: nosuch"%string ++ [LF]; bs "T: cannot perform off, dependency error (host=h3 plug=S)"%string ++ [LF];
                     bs "R: ok"%string ++ [LF]; bs "L: ok"%string ++ [LF]; bs "L: ok"%string ++ [LF]] /\
     st_get (statmap_of (s_tstat st')) (bs "M"%string) = StOff) /\
  in_domain ex_off COn [bs "T"; bs "M"]%string = true /\
  fst (expected_of ex_off COn [bs "T"; bs "M"]%string) =
    [bs "T: cannot perform on, dependency error (host=h3 plug=S)"%string ++ [LF]; bs "M: cannot perform on, dependency off (host=h0 plug=R)"%string ++ [LF]].
Proof.
  split; [apply at_prompt_b; reflexivity|]. split; [apply ts_covers_b; reflexivity|].
  repeat (split; [vm_compute; reflexivity|]).
  split; [eexists; split; [vm_compute; reflexivity|]; split; vm_compute; reflexivity|].
  split; vm_compute; reflexivity.
Qed.
Print Assumptions C19_rules.

(* C19_rules_partial: the statement of C19_rules decided, before it was proved, by computation inside Coq (vm_compute over the model and Spec/RedfishSpec.v) on a
   small scope: the three example states (three levels R -> M -> L, second root S -> T below a failing host; all off / R,M on /
   R,M,L on) x stat/on/off x EVERY target list of length 1-2 over the five plugs and one unknown name and every list of length 3
   over R,M,L,T (all orders, repetitions), under a slow release schedule: Ok, prompt, the printed lines are a permutation of
   RedfishSpec.expected, the status of every plug is the expected one.  Kept as an independent cross-check of C19_rules on
   concrete runs (a computation, where C19_rules is a proof). *)
Theorem C19_rules_partial : forall st c ts sched,
  In st scope_states -> In c scope_cmds -> In ts scope_lists -> In sched scope_scheds ->
  in_domain st c ts = true /\
  exists st', run_line ex_hlc st (line_of c ts) sched = Ok (st', false) /\ idle st' = true /\
              Permutation (out_text st') (fst (expected_of st c ts)) /\
              forall p, In p (s_tab st) -> st_get (statmap_of (s_tstat st')) (p_name p) = st_get (snd (expected_of st c ts)) (p_name p).
Proof. exact rules_small_scope. Qed.
Example C19_rules_partial_nonvacuous :
  length scope_lists = 106%nat /\ In [bs "L"; bs "R"; bs "T"]%string scope_lists /\ In [bs "nosuch"; bs "M"]%string scope_lists /\
  line_of COff [bs "L"; bs "R"; bs "T"]%string = bs "off L,R,T"%string.
Proof. split; [vm_compute; reflexivity|]. split; [vm_compute; tauto|]. split; [vm_compute; tauto | vm_compute; reflexivity]. Qed.
Print Assumptions C19_rules_partial.

Example C19_rules_several_targets_computed :
  (* three levels, mixed failing hosts, `off R,L,T` with R, M, L on and a slow release schedule: L is answered through
     R's own off (ok), T is refused because S's host fails, R is switched off and takes M and L along *)
  (exists st', run_line ex_hlc ex_on (bs "off R,L,T"%string) [0; 0; 1; 0; 1]%nat = Ok (st', false) /\ idle st' = true /\
     spec_line ex_hlc ex_on (bs "off R,L,T"%string) =
       Some ([bs "R: ok"%string ++ [LF]; bs "T: cannot perform off, dependency error (host=h3 plug=S)"%string ++ [LF]; bs "L: ok"%string ++ [LF]],
             statmap_of (s_tstat st')) /\
     out_text st' = [bs "T: cannot perform off, dependency error (host=h3 plug=S)"%string ++ [LF]; bs "R: ok"%string ++ [LF]; bs "L: ok"%string ++ [LF]]).
Proof.
  eexists. split; [vm_compute; reflexivity|]. split; [vm_compute; reflexivity|]. split; vm_compute; reflexivity.
Qed.
