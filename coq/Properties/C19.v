(* placeholder while the pipeline is brought up *)
From PM Require Import Base.Bytes Gen.GenRfp Model.Redfish Spec.RedfishSpec Model.RedfishView.
Theorem C19_placeholder : fail_waiters_initial = true. Proof. reflexivity. Qed.
