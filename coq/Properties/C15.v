(* C15 -- server output always obeys the line protocol (client.c _client_printf and its callers, client_proto.h).
   Theorems about the executable model PM.Model.Client driven by PM.Model.CliWorld (tied to the source by Gen/GenConsts.v,
   Gen/GenClient.v and the R-CLIENT correspondence), stated against the independent recogniser PM.Spec.Proto. *)
From Coq Require Import List NArith ZArith Bool.
From PM Require Import Base.Bytes Base.Outcome Gen.GenConsts Gen.GenClient Model.ScriptAst Model.Enqueue Model.Script Model.Client Model.CliWorld
                       Spec.Proto Proofs.ClientProto Proofs.ClientStream Proofs.ClientTotal Proofs.ClientExamples.
Import ListNotations.

(* For EVERY list of events reaching one client (arbitrary input lines; completions, telemetry, diagnostics and Arg
   writes arriving only while its command is pending): the model never fails, everything written to the client is a
   sequence of whole tokens (lines `NNN text CRLF`, prompts) accepted by the recogniser: banner and prompt first,
   documented codes only, 3xx lines only before a terminal line, prompt only after the banner or a terminal line,
   none after 208 / 101; when no command is pending no reply is left open; the number of terminal lines plus the
   pending command equals the number of input lines.  If moreover the names in the configuration, the version
   string, the host-list oracle and the texts passed by the device layer hold no CR / LF, no line does
   (device-captured VALUES need no hypothesis: after the repair of F19 they are cut at CR / LF), and then the byte
   stream itself is accepted by the executable recogniser Proto.ok. *)
Theorem C15_stream : forall expand_str ranged_sorted ranged_plain sorted cf id version evs,
  events_ok expand_str ranged_sorted ranged_plain sorted (mkCstate cf [] (new_client id version)) evs = true ->
  exists s' toks st,
    run1 expand_str ranged_sorted ranged_plain sorted (mkCstate cf [] (new_client id version)) evs = Ok s'
    /\ cl_out (s_cl s') = render toks /\ run PStart toks = Some st
    /\ (busy (s_cl s') = false -> at_rest st = true)
    /\ (terminals toks + b2n (busy (s_cl s')) = lines_of evs)%nat
    /\ (oracle_ok expand_str ranged_sorted ranged_plain sorted -> conf_clean cf -> clean version -> Forall ev_clean evs ->
        Forall wf_tok toks /\ ok (cl_out (s_cl s')) = true /\ (busy (s_cl s') = false -> ok_rest (cl_out (s_cl s')) = true)).
Proof. exact client_stream. Qed.
Example C15_stream_nonvacuous :
  events_ok toy_expand toy_join toy_join toy_sorted toy_s0 evs_on_fail = true
  /\ oracle_ok toy_expand toy_join toy_join toy_sorted /\ conf_clean toy_conf /\ Forall ev_clean evs_on_fail
  /\ ok_rest (out_of (run1 toy_expand toy_join toy_join toy_sorted toy_s0 evs_on_fail)) = true.
Proof.
  split; [exact (proj1 ex_on_fail)|]. split; [exact toy_oracle_ok|]. split; [exact toy_conf_clean|].
  split; [repeat constructor|vm_compute; reflexivity].
Qed.
Print Assumptions C15_stream.

(* The same for the host-list library AS VERIFIED in C14: the four oracles are the functions Proofs/HLOracles.v defines from the
   model of hostlist.c (Model/HL.v, tied to the source by R-HL; the definitions themselves by the R-HLO stage of props/C14.py):
     hl_expand_str a      hostlist_create a, then hostlist_next until NULL (None = NULL)
     hl_ranged_sorted l   hostlist_push_host of every name, hostlist_sort, ranged string  (hl_ranged_sorted_expr: hostlist_push, as
                          client.c spells it; the same text for names free of list syntax, C14_reply_push_is_push_host)
     hl_ranged_plain l    hostlist_push_host of every name, ranged string
     hl_sorted l          hostlist_push_host of every name, hostlist_sort, hostlist_next until NULL
   and the hypothesis oracle_ok of C15_stream is GONE: C14_services_clean proves it (the library never invents a CR or LF).  So a
   configuration with clean names and clean device texts yields a stream accepted by the executable recogniser Proto.ok,
   the node sets inside 302 / 303 / 306 / 209 lines included. *)
From PM Require Import Proofs.HLOraclesClient.
Theorem C15_stream_hl : forall cf id version evs,
  events_ok hl_expand_str hl_ranged_sorted hl_ranged_plain hl_sorted (mkCstate cf [] (new_client id version)) evs = true ->
  exists s' toks st,
    run1 hl_expand_str hl_ranged_sorted hl_ranged_plain hl_sorted (mkCstate cf [] (new_client id version)) evs = Ok s'
    /\ cl_out (s_cl s') = render toks /\ run PStart toks = Some st
    /\ (busy (s_cl s') = false -> at_rest st = true)
    /\ (terminals toks + b2n (busy (s_cl s')) = lines_of evs)%nat
    /\ (conf_clean cf -> clean version -> Forall ev_clean evs ->
        Forall wf_tok toks /\ ok (cl_out (s_cl s')) = true /\ (busy (s_cl s') = false -> ok_rest (cl_out (s_cl s')) = true)).
Proof. exact client_stream_hl. Qed.
Theorem C15_stream_hl_expr : forall cf id version evs,
  events_ok hl_expand_str hl_ranged_sorted_expr hl_ranged_plain hl_sorted (mkCstate cf [] (new_client id version)) evs = true ->
  exists s' toks st,
    run1 hl_expand_str hl_ranged_sorted_expr hl_ranged_plain hl_sorted (mkCstate cf [] (new_client id version)) evs = Ok s'
    /\ cl_out (s_cl s') = render toks /\ run PStart toks = Some st
    /\ (busy (s_cl s') = false -> at_rest st = true)
    /\ (terminals toks + b2n (busy (s_cl s')) = lines_of evs)%nat
    /\ (conf_clean cf -> clean version -> Forall ev_clean evs ->
        Forall wf_tok toks /\ ok (cl_out (s_cl s')) = true /\ (busy (s_cl s') = false -> ok_rest (cl_out (s_cl s')) = true)).
Proof. exact client_stream_hl_expr. Qed.
(* non-vacuity: the oracles compute (n[1-3],x expands to four names; n3 n1 n2 x compresses to n[1-3],x); the toy configuration
   answers `status n[1-2]`, `nodes`, `on n[2-3],zz` (unknown nodes), `on n[2-` (refused expression) with well-formed lines *)
Example C15_stream_hl_nonvacuous :
  hl_expand_str (bslit "n[1-3],x") = Some [bslit "n1"; bslit "n2"; bslit "n3"; bslit "x"]
  /\ hl_ranged_sorted [bslit "n3"; bslit "n1"; bslit "n2"; bslit "x"] = bslit "n[1-3],x"
  /\ events_ok hl_expand_str hl_ranged_sorted hl_ranged_plain hl_sorted toy_s0 evs_status_hl = true
  /\ conf_clean toy_conf /\ Forall ev_clean evs_status_hl
  /\ out_of (run1 hl_expand_str hl_ranged_sorted hl_ranged_plain hl_sorted toy_s0 evs_status_hl)
     = bslit "001 2.4" ++ CP_EOL ++ CP_PROMPT
       ++ bslit "302 on:      n[1-2]" ++ CP_EOL ++ bslit "302 off:     " ++ CP_EOL ++ bslit "302 unknown: " ++ CP_EOL ++ CP_RSP_QRY_COMPLETE ++ CP_PROMPT
       ++ bslit "306 n[1-2]" ++ CP_EOL ++ CP_RSP_QRY_COMPLETE ++ CP_PROMPT
       ++ bslit "209 No such nodes: n3,zz" ++ CP_EOL ++ CP_PROMPT
       ++ bslit "205 Hostlist error: invalid range" ++ CP_EOL ++ CP_PROMPT
  /\ ok_rest (out_of (run1 hl_expand_str hl_ranged_sorted hl_ranged_plain hl_sorted toy_s0 evs_status_hl)) = true.
Proof.
  split; [vm_compute; reflexivity|]. split; [vm_compute; reflexivity|]. split; [exact (proj1 ex_status_hl)|].
  split; [exact toy_conf_clean|]. split; [repeat constructor|]. split; [exact (proj1 (proj2 ex_status_hl))|exact (proj2 (proj2 (proj2 ex_status_hl)))].
Qed.
Print Assumptions C15_stream_hl.
Print Assumptions C15_stream_hl_expr.

(* the recogniser is meaningful: tokenising is the inverse of rendering on well-formed tokens, in both directions *)
Theorem C15_tokens_inverse : forall ts s,
  (Forall wf_tok ts -> tokens (render ts) = Some ts) /\ (tokens s = Some ts -> s = render ts /\ Forall wf_tok ts).
Proof. intros ts s. split; [exact (tokens_render ts)|exact (tokens_sound s ts)]. Qed.
Example C15_tokens_nonvacuous :
  tokens (bslit "001 2.4" ++ CP_EOL ++ CP_PROMPT ++ bslit "103 Query complete" ++ CP_EOL ++ CP_PROMPT)
  = Some [TLine 1 (bslit "2.4"); TPrompt; TLine 103 (bslit "Query complete"); TPrompt]
  /\ ok (bslit "001 2.4" ++ CP_EOL ++ CP_PROMPT ++ bslit "305 x" ++ CP_EOL ++ CP_PROMPT) = false      (* prompt after a 3xx line *)
  /\ ok (bslit "001 2.4" ++ CP_EOL ++ CP_PROMPT ++ bslit "208 Command in progress" ++ CP_EOL ++ CP_PROMPT) = false   (* prompt after 208 *)
  /\ ok (bslit "001 2.4" ++ CP_EOL ++ CP_PROMPT ++ bslit "299 what" ++ CP_EOL ++ CP_PROMPT) = false.   (* undocumented code *)
Proof. vm_compute. repeat split; reflexivity. Qed.
Print Assumptions C15_tokens_inverse.

(* the response codes of the CURRENT client_proto.h (regenerated), and the ones the recogniser treats specially *)
Theorem C15_documented_codes :
  documented_codes = [1; 101; 102; 103; 104; 105; 201; 202; 203; 204; 205; 208; 209; 210; 211; 213;
                      301; 301; 301; 301; 301; 301; 301; 301; 301; 301; 301; 301; 301; 301; 301;
                      302; 302; 302; 303; 304; 305; 306; 307; 308; 309]%N
  /\ code_banner = 1%N /\ code_busy = 208%N /\ code_quit = 101%N.
Proof. exact (conj documented_codes_now special_codes). Qed.
Print Assumptions C15_documented_codes.

(* the device layer's side of the cleanliness hypotheses of C15_stream: telemetry goes through dbg_memstr (printable
   ASCII only, after the repair of F6), a 309 text is cut at CR / LF by _process_setresult *)
Theorem C15_device_texts_clean : forall d t node v,
  (clean (sd_name d) -> clean (msg_recv d (memstr t)) /\ clean (msg_send d (memstr t)))
  /\ (clean node -> clean (node ++ bslit ": " ++ cut_crlf v)).
Proof. intros d t node v. split; [exact (telemetry_texts_clean d t)|exact (diag_text_clean node v)]. Qed.
Example C15_device_texts_nonvacuous : memstr [13; 10; 200; 65]%N = bslit "\r\n\310A" /\ cut_crlf (bslit "ERR" ++ [13; 10]%N ++ bslit "102 x") = bslit "ERR".
Proof. vm_compute. split; reflexivity. Qed.
Print Assumptions C15_device_texts_clean.

(* F19 (repaired in /repo by fixes/F19-temp-value-crlf): the temperature reply as the code stood printed the raw
   value; a device could thereby forge a terminal line.  The statement "one terminal line per reply" is FALSE of that code. *)
Theorem C15_raw_values_refuted : exists rs c al ts,
  tokens (reply_nointerp_unrepaired rs c al false) = Some ts /\ terminals ts = 2%nat.
Proof. exists toy_join, f19_client, f19_al. eexists. split; [exact f19_unrepaired|vm_compute; reflexivity]. Qed.
(* ... and true of the repaired code on the same input *)
Example C15_values_repaired : exists ts, tokens (reply_nointerp toy_join f19_client f19_al false) = Some ts /\ terminals ts = 1%nat.
Proof. eexists. split; [exact f19_repaired|vm_compute; reflexivity]. Qed.
Print Assumptions C15_raw_values_refuted.

(* ------------------------------------------------------------------------------------------------------------------
   The same for the WHOLE daemon (Model/Daemon.v: every client of every reachable state, every transport, every
   interleaving of clients, device bytes, faults and clock steps; tied to the unmodified powermand by the per-pass replay
   R-SIM).  What C15_stream assumes - callbacks only while the command is pending - is established here from the device
   layer (completions: pending = queued actions; telemetry / diagnostics: Proofs/DeviceInvG.tg_live). *)
From PM Require Import Model.Device Model.Daemon Proofs.DaemonLedger Proofs.DaemonFrame Proofs.DaemonPending.
From PM Require Properties.C04 Properties.C07.
Local Open Scope Z_scope.

(* from start-up, after any list of passes (the run always returns Ok - Hang, the model's loop fuel running out, is impossible:
   `boot` carries the device invariant DInvH with the static hypothesis nest_ok, blocks nested at most DMAX = 7 deep; no shipped
   script nests deeper than 1, SpecBridge.shipped_max_depth): for every live client whose descriptor has not failed (no write error, no
   bytes after end-of-file), the bytes written to it so far followed by the bytes still queued are the rendering of a
   token list accepted by the recogniser (001 banner + prompt first, documented codes only, 3xx lines only inside a
   reply, a prompt only after the banner or a terminal line, nothing after 101 but unprompted replies), at rest unless a
   command is in progress, with exactly one terminal line per request line (the outstanding one = the command in
   progress).  A client that half-closed its connection is included: it still gets its replies. *)
Theorem C15_daemon_streams : forall expand_str ranged_sorted ranged_plain sorted rmatch compress short_circuit st now plans rs,
  boot compress st -> Z.of_nat (length rs) < INT_MAX - 1 ->
  exists st1 o, dinit st now plans = Ok (st1, o) /\
    match drun expand_str ranged_sorted ranged_plain sorted rmatch compress short_circuit st1 rs [] with
    | Ok (st', outs) =>
        Forall (fun x => dc_bad x = false ->
                  exists toks pst, dc_sent x ++ dc_to x = render toks /\ run PStart toks = Some pst /\
                    (busy (dc x) = false -> at_rest pst = true) /\ (terminals toks + b2n (busy (dc x)) = dc_lines x)%nat)
               (dm_clients st')
    | _ => False
    end.
Proof. exact daemon_streams. Qed.
Print Assumptions C15_daemon_streams.

(* dc_sent is the ledger of written bytes: serving client i appends exactly the bytes of that visit's write event *)
Theorem C15_sent_ledger : forall expand_str ranged_sorted ranged_plain sorted st i ci st' evs dead x x',
  cli_one expand_str ranged_sorted ranged_plain sorted st i ci = Ok (st', evs, dead) ->
  nth_error (dm_clients st) i = Some x -> nth_error (dm_clients st') i = Some x' ->
  dc_sent x' = dc_sent x ++ wrote_in evs.
Proof. exact cli_one_sent. Qed.
Print Assumptions C15_sent_ledger.

(* non-vacuity: the daemon of C04's example; the client connects, asks `on n1`, half-closes; the device stays silent and
   the action times out; the descriptor is writable throughout: the client is still there (reply owed), its descriptor
   never failed, and everything written is banner, prompt, 308 line, 210 reply, prompt *)
Example C15_daemon_nonvacuous :
  let rounds := [ mkRound 1000000 true [] [];
                  mkRound 1100000 false [mkCin false true true (Some (bslit "on n1" ++ [LF])) (Some 1000%nat)] [];
                  mkRound 1200000 false [mkCin false true false (Some []) None] [];
                  mkRound 7000000 false [] [];
                  mkRound 7000001 false [mkCin false false true None (Some 20%nat)] [] ] in
  match dinit C04.ex_st 1000000 [[ConnNow; ConnNow; ConnNow]] with
  | Ok (st1, _) =>
    match drun C04.ex_expand C04.ex_join C04.ex_join (fun l => l) C07.ex_rmatch C07.ex_compress false st1 rounds [] with
    | Ok (st', _) =>
        match dm_clients st' with
        | [x] => dc_bad x = false /\ dc_eof x = true /\ busy (dc x) = false /\
                 firstn 20 (dc_sent x) = firstn 20 (cl_out (dc x)) /\ (length (dc_sent x) = 39)%nat /\ Nat.ltb 20 (length (dc_to x)) = true
        | _ => False
        end
    | _ => False
    end
  | _ => False
  end.
Proof. vm_compute. repeat split; try reflexivity. Qed.

(* when the exception `dc_bad` of C15_daemon_streams is raised by the formatting side: exactly when the bytes owed to the
   client (unsent output + the new reply) exceed MAX_CLIENT_BUF - the "1 MiB" of the property text; cbuf_write then
   overwrites the oldest unsent bytes (Daemon.cbuf_put, replayed against the real daemon in C04's thorough tier).  The
   other two causes are on the descriptor side (cli_one): a failed write, bytes after end-of-file. *)
Theorem C15_overflow_only_beyond_buffer : forall c x,
  dc_bad (set_dc c x) = dc_bad x || (MAX_CLIENT_BUF <? Z.of_nat (length (dc_to x ++ skipn (length (cl_out (dc x))) (cl_out c)))).
Proof.
  intros c x. unfold set_dc, cbuf_put. cbn [dc_bad].
  destruct (MAX_CLIENT_BUF <? Z.of_nat (length (dc_to x ++ skipn (length (cl_out (dc x))) (cl_out c)))); reflexivity.
Qed.
Print Assumptions C15_overflow_only_beyond_buffer.
