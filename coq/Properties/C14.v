(* C14 -- host-range notation round-trips without changing any name (src/liblsd/hostlist.c).
   Theorems about the executable model PM.Model.HL (tied to the source by Gen/GenHL.v and the R-HL
   correspondence), stated against the reference expansion PM.Spec.HLSpec.expand.

   Vocabulary (Spec/HLSpec.v):  expand h = the list of names a range array denotes;  wf h = every numbered range is
   non-empty and stays below ULONG_MAX (what every public operation produces);  small h = fewer than 2^31 names
   (hostlist.c counts in int);  short h = every name fits hostlist_nth's 80-byte buffer;  suffix_small n = the trailing
   digit run of n, read as a number, is at most MAX_HOST_SUFFIX (2^25).
   Status of each clause of the property:   full = proved as stated;  refuted = false of the faithful model, witness
   replayed on the C code (finding);  partial = proved for the stated sub-case, the missing part is spelled out. *)
From Coq Require Import List NArith ZArith Bool Permutation.
From PM Require Proofs.ReplyRanges Proofs.HLOracles Spec.Proto.
From PM Require Import Base.Bytes Base.Outcome Gen.GenHL Model.HL Spec.HLSpec Proofs.HLArith Proofs.HLProofs
  Proofs.HLIndex Proofs.HLFind Proofs.HLCor Proofs.HLRound Proofs.HLSort Proofs.HLSortTerm Proofs.HLSortOrder Proofs.HLIter
  Proofs.HLClosure.
Import ListNotations.
Local Open Scope N_scope.

(* ================================================================ arithmetic of zero padding *)
(* _width_equiv: when it answers 1 the two widths are equal afterwards and no number at or above the one it was
   tested on changes its spelling (so rewriting a range's width on the evidence of its `lo` is safe) *)
Theorem width_equiv_sound : forall n wn m wm wn' wm',
  width_equiv n wn m wm = Some (wn', wm') ->
  wn' = wm' /\ pad wn' n = pad wn n /\ pad wm' m = pad wm m
  /\ (forall k, n <= k -> k < W64 -> pad wn' k = pad wn k)
  /\ (forall k, m <= k -> k < W64 -> pad wm' k = pad wm k).
Proof. exact HLArith.width_equiv_sound. Qed.
Example width_equiv_sound_nonvacuous : width_equiv 9 1 10 2 = Some (1%nat, 1%nat) /\ width_equiv 9 1 10 3 = None.
Proof. split; reflexivity. Qed.
Print Assumptions width_equiv_sound.

(* ================================================================ building lists *)
(* hostlist_push_host: the list denotes exactly one more name, the one pushed, whatever its spelling  [full] *)
Theorem C14_push : forall h n, wf h -> expand (push_host h n) = expand h ++ [n] /\ wf (push_host h n).
Proof. exact HLProofs.push_host_sound. Qed.
Example C14_push_nonvacuous :
  expand t09_10_foo = [bs "t09"%string; bs "t10"%string; bs "foo"%string] /\ length t09_10_foo = 2%nat.
Proof. split; vm_compute; reflexivity. Qed.
Print Assumptions C14_push.

(* hostlist_push_list / hostlist_copy  [full] *)
Theorem C14_push_list : forall a b, wf a -> wf b -> expand (push_list a b) = expand a ++ expand b /\ wf (push_list a b).
Proof. exact HLProofs.push_list_sound. Qed.
Example C14_push_list_nonvacuous :
  expand (push_list (push_host [] (bs "t1"%string)) (push_host (push_host [] (bs "t2"%string)) (bs "t3"%string))) = [bs "t1"%string; bs "t2"%string; bs "t3"%string]
  /\ length (push_list (push_host [] (bs "t1"%string)) (push_host (push_host [] (bs "t2"%string)) (bs "t3"%string))) = 1%nat.
Proof. split; vm_compute; reflexivity. Qed.
Print Assumptions C14_push_list.

Theorem C14_copy : forall h, expand (copy h) = expand h.
Proof. reflexivity. Qed.
Print Assumptions C14_copy.

(* hostlist_push(hl, "expression") = hostlist_create + hostlist_push_list  [full, given a well-formed parse] *)
Theorem C14_push_expr : forall h s n, wf h -> create s = Ok (Some n) -> wf n ->
  exists h', push h s = Ok (Some h') /\ expand h' = expand h ++ expand n /\ wf h'.
Proof. exact HLCor.push_expr_sound. Qed.
Example C14_push_expr_nonvacuous :
  omap (option_map expand) (push t09_10_foo (bs "n[1-2],x"%string))
  = Ok (Some [bs "t09"%string; bs "t10"%string; bs "foo"%string; bs "n1"%string; bs "n2"%string; bs "x"%string]).
Proof. vm_compute. reflexivity. Qed.
Print Assumptions C14_push_expr.

(* ================================================================ count, nth *)
(* hostlist_count  [full] *)
Theorem C14_count : forall h, wf h -> small h -> count h = Z.of_nat (length (expand h)).
Proof. exact HLIndex.count_sound. Qed.
Example C14_count_nonvacuous : wf t09_10_foo /\ small t09_10_foo /\ count t09_10_foo = 3%Z.
Proof.
  split; [apply (fold_push_host [bs "t09"%string; bs "t10"%string; bs "foo"%string] []); constructor|].
  split; vm_compute; reflexivity.
Qed.
Print Assumptions C14_count.

(* hostlist_nth: the i-th name of the expansion, NULL past the end  [full; `short`: the name fits the 80-byte buffer,
   HRSTR_LIMIT from GenHL] *)
Theorem C14_nth : forall h i, wf h -> short h -> small h -> nth h (Z.of_nat i) = Ok (nth_error (expand h) i).
Proof. exact HLIndex.nth_sound. Qed.
Theorem C14_nth_past_end : forall h i, wf h -> short h -> small h -> (length (expand h) <= i)%nat -> nth h (Z.of_nat i) = Ok None.
Proof. exact HLCor.nth_past_end. Qed.
Example C14_nth_nonvacuous : nth t09_10_foo 1 = Ok (Some (bs "t10"%string)) /\ nth t09_10_foo 3 = Ok None
  /\ Forall short_range t09_10_foo.
Proof. split; [vm_compute; reflexivity|]. split; [vm_compute; reflexivity|]. repeat constructor; vm_compute; discriminate. Qed.
Print Assumptions C14_nth.
Print Assumptions C14_nth_past_end.

(* ================================================================ membership and index lookups *)
(* the half that needs NO hypothesis on the name (what C01 relies on): a non-negative answer of hostlist_find is a
   position of the expansion that holds exactly that name; the answer is -1 or in range; the list hostlist_find leaves
   behind (it may rewrite width fields through _width_equiv) denotes the same names  [full] *)
Theorem C14_find_sound : forall h n, wf h -> small h -> (0 <= find h n)%Z ->
  nth_error (expand h) (Z.to_nat (find h n)) = Some n /\ In n (expand h).
Proof. exact HLCor.find_sound_nth. Qed.
Theorem C14_find_answer : forall h n, wf h -> small h ->
  (find h n = -1 \/ 0 <= find h n < Z.of_nat (length (expand h)))%Z
  /\ expand (snd (find_mut h n)) = expand h /\ wf (snd (find_mut h n)).
Proof. exact HLCor.find_answer_range. Qed.
Print Assumptions C14_find_sound.
Print Assumptions C14_find_answer.

(* hostlist_find = position of the first occurrence of exactly this name, -1 if absent  [full under suffix_small;
   MAX_HOST_SUFFIX from GenHL] *)
Theorem C14_find : forall h n, wf h -> small h -> suffix_small n -> find h n = index_of n (expand h).
Proof. exact HLFind.find_complete. Qed.
Theorem C14_member : forall h n, wf h -> small h -> suffix_small n -> ((0 <= find h n)%Z <-> In n (expand h)).
Proof. exact HLCor.find_member_iff. Qed.
(* ... where index_of is what it should be *)
Theorem C14_index_of_meaning : forall n l,
  (In n l -> exists i, index_of n l = Z.of_nat i /\ nth_error l i = Some n /\ forall j, (j < i)%nat -> nth_error l j <> Some n)
  /\ (~ In n l -> index_of n l = (-1)%Z).
Proof. exact HLCor.index_of_spec. Qed.
(* a member that hostlist_find misses has a trailing digit run above MAX_HOST_SUFFIX: F11 is the only way to miss *)
Theorem C14_find_miss_only_large_suffix : forall h n, wf h -> small h -> In n (expand h) -> find h n = (-1)%Z -> ~ suffix_small n.
Proof. exact HLCor.find_miss_only_large_suffix. Qed.
Print Assumptions C14_find_miss_only_large_suffix.
(* zero padding is significant: foo01 is not foo1 *)
Example C14_padding :
  let h := push_host (push_host [] (bs "foo01"%string)) (bs "foo02"%string) in
  suffix_small (bs "foo1"%string) /\ suffix_small (bs "foo01"%string) /\ length h = 1%nat
  /\ In (bs "foo01"%string) (expand h) /\ find h (bs "foo1"%string) = (-1)%Z /\ find h (bs "foo01"%string) = 0%Z
  /\ find h (bs "foo02"%string) = 1%Z /\ find h (bs "foo2"%string) = (-1)%Z /\ find h (bs "foo002"%string) = (-1)%Z.
Proof. cbv zeta. repeat split; try (vm_compute; (reflexivity || discriminate)). vm_compute. now left. Qed.
Print Assumptions C14_find.
Print Assumptions C14_member.

(* (* REFUTED *)  the hypothesis-free statement
     Theorem C14_find_full : forall h n, wf h -> small h -> find h n = index_of n (expand h).
   is false of the faithful model (finding F11): hostname_create declares a numeric suffix above MAX_HOST_SUFFIX invalid
   while the bracket parser accepts it, so a member of a bracket range whose trailing digit run exceeds 2^25 is not
   found.  Both witnesses are replayed on the C code on every run (corpus/C14/f11-*.case).  Effect: membership is
   under-approximated (`no such nodes`), never a wrong node (C14_find_sound needs no hypothesis). *)
Theorem C14_find_complete_refuted : exists h n, wf h /\ small h /\ In n (expand h) /\ find h n = (-1)%Z.
Proof. exact HLFind.find_refuted. Qed.
Theorem C14_find_complete_refuted_parsed : exists h n, create (bs "n[99999998-99999999]"%string) = Ok (Some h) /\
  wf h /\ small h /\ In n (expand h) /\ find h n = (-1)%Z.
Proof. exact HLCor.find_refuted_create. Qed.
Theorem C14_find_complete_refuted_digit_prefix : exists h n, create (bs "n1[33554430-33554432]"%string) = Ok (Some h) /\
  wf h /\ small h /\ In n (expand h) /\ find h n = (-1)%Z.
Proof. exact HLCor.find_refuted_prefix_digit. Qed.
Print Assumptions C14_find_complete_refuted.
Print Assumptions C14_find_complete_refuted_parsed.
Print Assumptions C14_find_complete_refuted_digit_prefix.

(* ================================================================ deleting never adds, drops or renames any OTHER node *)
(* hostlist_delete_nth  [full] *)
Theorem C14_delete_nth : forall h i, wf h -> small h -> (i < length (expand h))%nat ->
  exists h', delete_nth h (Z.of_nat i) = Ok h' /\ expand h' = remove_at i (expand h) /\ wf h'.
Proof. exact HLIndex.delete_nth_sound. Qed.
Theorem C14_delete_nth_others : forall h i, wf h -> small h -> (i < length (expand h))%nat ->
  exists h' x, delete_nth h (Z.of_nat i) = Ok h' /\ wf h' /\ nth_error (expand h) i = Some x
    /\ expand h = firstn i (expand h) ++ x :: skipn (S i) (expand h)
    /\ expand h' = firstn i (expand h) ++ skipn (S i) (expand h).
Proof. exact HLCor.delete_nth_others. Qed.
Example C14_delete_nth_nonvacuous :
  omap expand (delete_nth (push_host (push_host (push_host [] (bs "t1"%string)) (bs "t2"%string)) (bs "t3"%string)) 1)
  = Ok [bs "t1"%string; bs "t3"%string].
Proof. vm_compute. reflexivity. Qed.
Print Assumptions C14_delete_nth.
Print Assumptions C14_delete_nth_others.

(* hostlist_delete_host: the first occurrence of exactly this name disappears (answer 1), or the name is absent and
   nothing changes (answer 0)  [full under suffix_small, cf. F11] *)
Theorem C14_delete_host : forall h n, wf h -> small h -> suffix_small n ->
  exists r h', delete_host h n = Ok (r, h') /\ wf h' /\
    ((In n (expand h) /\ r = 1%Z /\ expand h' = remove_at (Z.to_nat (index_of n (expand h))) (expand h))
     \/ (~ In n (expand h) /\ r = 0%Z /\ expand h' = expand h)).
Proof. exact HLFind.delete_host_sound. Qed.
Theorem C14_delete_host_others : forall h n, wf h -> small h -> suffix_small n ->
  exists r h', delete_host h n = Ok (r, h') /\ wf h' /\
    ((r = 1%Z /\ exists a b, expand h = a ++ n :: b /\ ~ In n a /\ expand h' = a ++ b)
     \/ (r = 0%Z /\ ~ In n (expand h) /\ expand h' = expand h)).
Proof. exact HLCor.delete_host_others. Qed.
Example C14_delete_host_nonvacuous :
  let h := push_host (push_host (push_host [] (bs "t1"%string)) (bs "t2"%string)) (bs "t3"%string) in
  omap (fun p => (fst p, expand (snd p))) (delete_host h (bs "t2"%string)) = Ok (1%Z, [bs "t1"%string; bs "t3"%string])
  /\ omap (fun p => (fst p, expand (snd p))) (delete_host h (bs "t02"%string)) = Ok (0%Z, [bs "t1"%string; bs "t2"%string; bs "t3"%string])
  /\ suffix_small (bs "t2"%string).
Proof. cbv zeta. repeat split; vm_compute; (reflexivity || discriminate). Qed.
Print Assumptions C14_delete_host.
Print Assumptions C14_delete_host_others.

(* ================================================================ compress, then expand *)
(* hostlist_create (hostlist_ranged_string h) succeeds and denotes the same names in the same order  [full under the
   boolean guard HLRound.printable: prefixes free of the separators GenHL.separators and of '[' ']'; plain names non-empty
   and shorter than CUR_TOK_COPY; numbered ranges non-empty, below ULONG_MAX, spanning fewer than MAX_RANGE numbers,
   first name shorter than CUR_TOK_COPY; at most RANGES_LEN_ARG ranges.  ranged_string = the text
   _xhostlist_ranged_string returns (buffer large enough); text contains no NUL] *)
Theorem C14_roundtrip : forall h, printable h = true ->
  exists h', create (ranged_string h) = Ok (Some h') /\ expand h' = expand h /\ wf h'.
Proof. exact HLRound.roundtrip. Qed.
Example C14_roundtrip_nonvacuous :
  printable t09_10_foo = true /\ ranged_string t09_10_foo = bs "t[09-10],foo"%string
  /\ omap (option_map expand) (create (ranged_string t09_10_foo)) = Ok (Some [bs "t09"%string; bs "t10"%string; bs "foo"%string]).
Proof. repeat split; vm_compute; reflexivity. Qed.
Print Assumptions C14_roundtrip.

(* the same with the guard stated on the NAMES alone, for any well-formed list however it was built *)
Theorem C14_roundtrip_names : forall h, wf h -> Forall (fun n => legal n = true) (expand h) ->
  N.of_nat (length (expand h)) <= GenHL.MAX_RANGE -> N.of_nat (length (expand h)) <= GenHL.RANGES_LEN_ARG ->
  exists h', create (ranged_string h) = Ok (Some h') /\ expand h' = expand h /\ wf h'.
Proof. exact HLRound.roundtrip_names. Qed.
Print Assumptions C14_roundtrip_names.

(* "for any list of node names, compressing it into host-range notation and expanding the result yields the same
   names in the same order"  [full for at most min(MAX_RANGE, RANGES_LEN_ARG) = 10240 legal names] *)
Theorem C14_compress_expand : forall ns, Forall (fun n => legal n = true) ns ->
  N.of_nat (length ns) <= GenHL.MAX_RANGE -> N.of_nat (length ns) <= GenHL.RANGES_LEN_ARG ->
  exists h', create (ranged_string (fold_left push_host ns [])) = Ok (Some h') /\ expand h' = ns /\ wf h'.
Proof. exact HLRound.compress_expand. Qed.
Example C14_compress_expand_nonvacuous :
  let ns := [bs "t09"%string; bs "t10"%string; bs "t11"%string; bs "foo"%string; bs "n1"%string; bs "n3"%string; bs "a1b2"%string] in
  Forall (fun n => legal n = true) ns /\ ranged_string (fold_left push_host ns []) = bs "t[09-11],foo,n[1,3],a1b2"%string.
Proof. cbv zeta. split; [repeat constructor|vm_compute; reflexivity]. Qed.
Print Assumptions C14_compress_expand.

(* expanded notation a,b,c (no brackets) denotes exactly the names written *)
Theorem C14_expanded_notation : forall ns, Forall (fun n => legal n = true) ns ->
  exists h', create (join_commas ns) = Ok (Some h') /\ expand h' = ns /\ wf h'.
Proof. exact HLRound.create_plain_list. Qed.
Example C14_expanded_notation_nonvacuous :
  omap (option_map expand) (create (bs "t2,t1,foo01"%string)) = Ok (Some [bs "t2"%string; bs "t1"%string; bs "foo01"%string]).
Proof. vm_compute. reflexivity. Qed.
Print Assumptions C14_expanded_notation.

(* "hence the targets typed at the CLI, the targets the daemon acts on and the node sets printed in replies always
   denote the same nodes": client compresses the typed names, daemon expands and acts, daemon compresses the reply,
   reader expands it -- every hop denotes the same names in the same order  [full for <= 10240 legal names] *)
Theorem C14_three_hops : forall ns, Forall (fun n => legal n = true) ns ->
  N.of_nat (length ns) <= GenHL.MAX_RANGE -> N.of_nat (length ns) <= GenHL.RANGES_LEN_ARG ->
  exists cli daemon reply,
    create (join_commas ns) = Ok (Some cli) /\ expand cli = ns /\
    create (ranged_string cli) = Ok (Some daemon) /\ expand daemon = ns /\
    create (ranged_string daemon) = Ok (Some reply) /\ expand reply = ns.
Proof. exact HLRound.three_hops. Qed.
Print Assumptions C14_three_hops.

(* (* REFUTED *)  without the bound on the number of names the statement
     Theorem C14_roundtrip_full : forall h, wf h -> Forall (fun n => legal n = true) (expand h) ->
       exists h', create (ranged_string h) = Ok (Some h') /\ expand h' = expand h.
   is false of the faithful model (finding F35): pushes join a run of more than MAX_RANGE consecutively numbered names into one range,
   which prints as prefix[lo-hi] and is refused by _parse_single_range (hi - lo >= MAX_RANGE).  Replayed on the C code
   (corpus/C14/roundtrip-run-above-max-range.case).  Effect: refusal (NULL), never a different name. *)
Theorem C14_roundtrip_refuted_long_run : exists h h0,
  create (bs "t[1-16384]"%string) = Ok (Some h0) /\ h = push_host h0 (bs "t16385"%string) /\
  wf h /\ small h /\ length h = 1%nat /\ N.of_nat (length (expand h)) = GenHL.MAX_RANGE + 1 /\
  create (ranged_string h) = Ok None.
Proof. exact HLRound.roundtrip_refuted_long_run. Qed.
Print Assumptions C14_roundtrip_refuted_long_run.

(* ================================================================ sorting never adds, drops or renames a node *)
(* hostlist_sort = qsort(hostrange_cmp) + hostlist_coalesce + hostlist_collapse; qsort modelled as the insertion sort the
   harness substitutes for libc's (the comparator rewrites width fields).
   [full, C14_sort_returns]  for every well-formed list whose numbers are below 2^31 and that denotes at most
     SORT_MAX_NAMES = 10240 names, sort returns Ok (no Abort / MemErr / Hang) and the names are a permutation of the names before.
   [full, C14_sort_sorted]  if moreover every prefix is written in one zero-padding format (fmt_ok W), the result denotes
     render W k for a list of keys k = (prefix, numbered?, number) sorted by prefix (strcmp), plain name first, number; the range
     array itself is sorted and no two neighbours of one prefix overlap.
   [refuted, C14_sort_order_refuted]  sortedness without the format hypothesis.
   [partial, C14_sort_partial]  any list: whenever the model's sort returns, the names are a permutation of the names before.
   also proved: sort never aborts (F36, fixed: the assert of hostrange_intersect fired on t01,t[9-10],t[9-10]).
   (* OPEN *)  Theorem C14_sort : forall h, wf h -> small h -> (all numbers <= MAX_HOST_SUFFIX) -> exists h', sort h = Ok h'
                                   /\ Permutation (expand h') (expand h) /\ name_sorted (expand h').
     as stated (any number of names below 2^31, any mix of widths) this stays open / is false:
     (a) `sort h = Ok h'` is proved for at most 10240 names only: the proof bounds the trips of the coalesce restart loop by
         (number of names)^3 and the model calls more than 2^40 trips a Hang; beyond that bound nothing is proved;
     (b) sortedness is false for mixed zero-padding widths under one prefix (C14_sort_order_refuted: hostrange_cmp compares
         widths when _width_equiv refuses, which is not a consistent order; the property text does not promise an order);
     (c) numbers 2^31 or more apart reach the use-after-free site of hostlist_coalesce (hostrange_cmp's int result wraps, e.g.
         n[3000000000,1], corpus/C14/uaf-sort-above-2p31.case): outside the property's quantifier (at most 9 digits). *)
Theorem C14_sort_partial : forall h h', wf h -> sort h = Ok h' -> Permutation (expand h') (expand h) /\ wf h'.
Proof. exact HLSort.sort_permutation. Qed.
Example C14_sort_nonvacuous :
  let h := fold_left push_host [bs "t3"%string; bs "t1"%string; bs "foo"%string; bs "t2"%string; bs "t1"%string] [] in
  omap expand (sort h) = Ok [bs "foo"%string; bs "t1"%string; bs "t1"%string; bs "t2"%string; bs "t3"%string].
Proof. vm_compute. reflexivity. Qed.
Print Assumptions C14_sort_partial.
(* F36 (fixed in /repo 5823278): the order check of hostrange_intersect is an `if`, no longer an assert
   (GenHL.INTERSECT_ORDER_CHECK = 1): sorting never aborts; the former witness (a name listed twice next to a zero-padded
   name of another width) now sorts to the same multiset of names *)
Theorem C14_sort_no_abort : forall h site, sort h <> Abort site.
Proof. exact HLSort.sort_no_abort. Qed.
Example C14_sort_former_abort_witness :
  bind (create (bs "t01,t[9-10],t[9-10]"%string)) (fun o => match o with Some h => omap expand (sort h) | None => Ok [] end)
  = Ok [bs "t9"%string; bs "t9"%string; bs "t10"%string; bs "t10"%string; bs "t01"%string].
Proof. exact HLSort.sort_former_abort_witness. Qed.
Print Assumptions C14_sort_no_abort.

(* hostlist_sort returns: the use-after-free site of hostlist_coalesce is unreachable for numbers below 2^31 (hostrange_cmp's int
   result keeps its sign) and the restart loop of hostlist_coalesce ends (measure: (names - ranges) * names + number of ordered pairs
   (x before y) with lo y < hi x drops at every split, the loop index at every other trip)  [full; hypotheses boolean: sortable] *)
Theorem C14_sort_returns : forall h, wf h -> nums31 h -> nnames h <= SORT_MAX_NAMES ->
  exists h', sort h = Ok h' /\ Permutation (expand h') (expand h) /\ wf h'.
Proof. exact HLSortTerm.sort_returns. Qed.
Theorem C14_sort_returns_b : forall h, sortable h = true ->
  exists h', sort h = Ok h' /\ Permutation (expand h') (expand h) /\ wf h'.
Proof. exact HLSortTerm.sort_returns_b. Qed.
Example C14_sort_returns_nonvacuous :
  bind (create (bs "t[1-10],foo,t[2-8],t[5-6],t01,a7"%string))
       (fun o => match o with Some h => omap (fun h' => (sortable h, ranged_string h')) (sort h) | None => Ok (false, []) end)
  = Ok (true, bs "a7,foo,t[1-2,2-3,3-4,4-5,5,5-6,6,6-7,7-8,8-10,01]"%string).
Proof. vm_compute. reflexivity. Qed.
Print Assumptions C14_sort_returns.
Print Assumptions C14_sort_returns_b.

(* hostlist_sort sorts  [full under fmt_ok W: every numbered range prints the numbers it holds as width W(prefix) would (one
   zero-padding format per prefix; W = fun _ => 0 is "no padding"), a plain name carries width 0].  kle = prefix in strcmp order,
   then plain name before numbered names, then number;  render W (p, true, n) = p ++ pad (W p) n, render W (p, false, _) = p;
   ksorted / adjsep: the range array is sorted by (prefix, numbered?, lo) and neighbours of one prefix satisfy hi <= lo
   (nothing left that hostlist_coalesce would split) *)
Theorem C14_sort_sorted : forall W h, wf h -> nums31 h -> nnames h <= SORT_MAX_NAMES -> Forall (fmt_ok W) h ->
  exists h', sort h = Ok h' /\ Permutation (expand h') (expand h) /\ wf h' /\
    (exists ks, expand h' = map (render W) ks /\ Sorted.StronglySorted kle ks) /\ ksorted h' /\ adjsep h'.
Proof. exact HLSortOrder.sort_sorted. Qed.
Theorem C14_sort_sorted_b : forall W h, sortable h = true -> forallb (fmt_okb W) h = true ->
  exists h', sort h = Ok h' /\ Permutation (expand h') (expand h) /\ wf h' /\
    (exists ks, expand h' = map (render W) ks /\ Sorted.StronglySorted kle ks) /\ ksorted h' /\ adjsep h'.
Proof. exact HLSortOrder.sort_sorted_b. Qed.
Example C14_sort_sorted_nonvacuous :
  bind (create (bs "t[08-12],t[01-10],foo,t05,t100,foo,s03"%string))
       (fun o => match o with
                 | Some h => omap (fun h' => (sortable h, forallb (fmt_okb (fun _ => 2%nat)) h, ranged_string h')) (sort h)
                 | None => Ok (false, false, [])
                 end)
  = Ok (true, true, bs "foo,foo,s03,t[01-05,05-08,08-09,09-10,10-12,100]"%string).
Proof. vm_compute. reflexivity. Qed.
Print Assumptions C14_sort_sorted.
Print Assumptions C14_sort_sorted_b.

(* (* REFUTED *)  sortedness without the format hypothesis
     Theorem C14_sort_sorted_full : forall h, wf h -> nums31 h -> nnames h <= SORT_MAX_NAMES -> exists h', sort h = Ok h' /\ sorted h'.
   is false of the faithful model whatever `sorted` is taken to be, even "no neighbour pair that hostrange_cmp itself calls out of
   order": in the result of sorting t01,t[9-10],t[9-10] the range t10 (printed with width 2) stands before t01.  The C code agrees
   (corpus/C14/sort-abort-duplicate-mixed-width.case, R-HL).  Not a defect under the property text (no order is promised; the
   names are a permutation by C14_sort_returns), reported as an observation. *)
Theorem C14_sort_order_refuted : exists h h' pre x y post,
  create (bs "t01,t[9-10],t[9-10]"%string) = Ok (Some h) /\ wf h /\ nums31 h /\ nnames h <= SORT_MAX_NAMES /\
  sort h = Ok h' /\ h' = pre ++ x :: y :: post /\
  names x = [bs "t10"%string] /\ names y = [bs "t01"%string] /\ (0 < fst (fst (hostrange_cmp x y)))%Z.
Proof. exact HLSortOrder.sort_order_refuted. Qed.
Print Assumptions C14_sort_order_refuted.

(* ================================================================ iterators (how the daemon walks a list) *)
(* hostlist_iterator_create / _reset + hostlist_next until NULL yields exactly the expansion, in order  [full; iter_ok:
   the printed number of every numbered range has at most NEXT_SUFFIX_LIMIT - 1 = 14 characters (wider is silently
   truncated by the snprintf into suffix[16] -- modelled, excluded here)] *)
Theorem C14_iterate : forall h, wf h -> Forall iter_ok h -> iterate h = Ok (expand h).
Proof. exact HLIter.iterate_sound. Qed.
Example C14_iterate_nonvacuous :
  iterate t09_10_foo = Ok [bs "t09"%string; bs "t10"%string; bs "foo"%string] /\ Forall iter_ok t09_10_foo.
Proof. split; [vm_compute; reflexivity|]. repeat constructor; intros _; vm_compute; repeat constructor. Qed.
Print Assumptions C14_iterate.

(* the pattern of conf_exp_aliases -- iterate; on a match hostlist_delete_host; hostlist_iterator_reset; iterate again:
   after the deletion the iterator yields exactly the remaining names, in order (the side condition iter_ok survives
   hostlist_find's width rewriting and the range splitting of hostlist_delete_nth)  [full under suffix_small] *)
Theorem C14_delete_host_then_iterate : forall h n, wf h -> small h -> suffix_small n -> Forall iter_ok h ->
  exists r h', delete_host h n = Ok (r, h') /\ iterate h' = Ok (expand h') /\
    ((In n (expand h) /\ r = 1%Z /\ expand h' = remove_at (Z.to_nat (index_of n (expand h))) (expand h))
     \/ (~ In n (expand h) /\ r = 0%Z /\ expand h' = expand h)).
Proof. exact HLClosure.delete_host_then_iterate. Qed.
Theorem C14_delete_nth_then_nth : forall h i j, wf h -> small h -> short h -> (i < length (expand h))%nat ->
  exists h', delete_nth h (Z.of_nat i) = Ok h' /\ nth h' (Z.of_nat j) = Ok (nth_error (remove_at i (expand h)) j).
Proof. exact HLClosure.delete_nth_then_nth. Qed.
Example C14_delete_host_then_iterate_nonvacuous :
  let h := fold_left push_host [bs "t1"%string; bs "t2"%string; bs "t3"%string; bs "foo"%string] [] in
  bind (delete_host h (bs "t2"%string)) (fun p => iterate (snd p)) = Ok [bs "t1"%string; bs "t3"%string; bs "foo"%string].
Proof. vm_compute. reflexivity. Qed.
Print Assumptions C14_delete_host_then_iterate.
Print Assumptions C14_delete_nth_then_nth.

(* ================================================================ hostlist_create never hangs (F33, fixed) *)
Theorem C14_create_no_hang : forall s site, create s <> Hang site.
Proof. exact HLSort.create_no_hang. Qed.
Example C14_create_saturated_bound :
  omap (option_map expand) (create (bs "t[18446744073709551615]x"%string)) = Ok (Some [bs "t18446744073709551615x"%string])
  /\ omap (option_map expand) (create (bs "t[99999999999999999999]-ib"%string)) = Ok (Some [bs "t18446744073709551615-ib"%string]).
Proof. split; vm_compute; reflexivity. Qed.
Print Assumptions C14_create_no_hang.

(* "Hence the targets typed at the CLI, the targets the daemon acts on and the node sets printed in replies always denote the
   same nodes": the node set of a reply line (every name pushed, hostlist_sort, ranged string - what client.c prints in
   302 / 303-unknown / 304 / 306 lines), re-read with hostlist_create, is exactly the multiset of names it was built from.
   (Used by C03 "-x and compressed output agree" and C15 "node sets inside replies are well-formed host ranges".) *)
Theorem C14_reply_sets : forall l txt, Forall (fun n => legal n = true) l ->
  (N.of_nat (length l) <= GenHL.MAX_RANGE)%N -> (N.of_nat (length l) <= GenHL.RANGES_LEN_ARG)%N ->
  ReplyRanges.hl_ranged_sorted l = Ok txt ->
  exists h', create txt = Ok (Some h') /\ Permutation (expand h') l /\ wf h'.
Proof. exact ReplyRanges.reply_set_denotes. Qed.
Example C14_reply_sets_nonvacuous :
  ReplyRanges.hl_ranged_sorted [bs "t3"%string; bs "t1"%string; bs "foo"%string; bs "t2"%string] = Ok (bs "foo,t[1-3]"%string).
Proof. vm_compute. reflexivity. Qed.
Print Assumptions C14_reply_sets.

(* ================================================================ the services the client layer uses (C02 C03 C06 C11 C15) *)
(* The client theorems quantify over four host-list ORACLES; Proofs/HLOracles.v defines them from this model:
     hl_expand_str a      = create a, then iterate (None = NULL)          hl_ranged_plain l = ranged_string (fold push_host l)
     hl_ranged_sorted l   = ranged_string (sort (fold push_host l))       hl_sorted l       = iterate (sort (fold push_host l))
     hl_ranged_sorted_expr l = the same with hostlist_push(hl, name), the expression parser, as client.c spells it.
   C14_services_defined: what a non-Ok outcome of the model is mapped to hides nothing - create and iterate are always Ok (the
   MemErr / Hang sites are unreachable with the constants of the current source), sort is Ok for at most SORT_MAX_NAMES = 10240
   pushed names (a pushed name carries a number <= MAX_HOST_SUFFIX < 2^31: C14_sort_returns applies); a non-Ok sort is mapped to
   the empty text / the unsorted input.  [full; beyond 10240 names: C14's open item] *)
Theorem C14_services_defined :
  (forall a, (create a = Ok None /\ HLOracles.hl_expand_str a = None)
             \/ (exists h l, create a = Ok (Some h) /\ iterate h = Ok l /\ HLOracles.hl_expand_str a = Some l))
  /\ (forall a h, create a = Ok (Some h) -> wf h -> Forall iter_ok h -> HLOracles.hl_expand_str a = Some (expand h))
  /\ (forall l, expand (fold_left push_host l []) = l /\ wf (fold_left push_host l [])
                /\ HLOracles.hl_ranged_plain l = ranged_string (fold_left push_host l []))
  /\ (forall l, N.of_nat (length l) <= SORT_MAX_NAMES ->
        exists h, sort (fold_left push_host l []) = Ok h /\ Permutation (expand h) l /\ wf h
                  /\ ReplyRanges.hl_ranged_sorted l = Ok (ranged_string h) /\ HLOracles.hl_ranged_sorted l = ranged_string h)
  /\ (forall l, N.of_nat (length l) <= SORT_MAX_NAMES ->
        exists h l', sort (fold_left push_host l []) = Ok h /\ Permutation (expand h) l /\ wf h /\ iterate h = Ok l'
                     /\ HLOracles.hl_sorted l = l' /\ (Forall iter_ok h -> l' = expand h)).
Proof. exact HLOracles.services_defined. Qed.
Print Assumptions C14_services_defined.

(* the library never invents a byte: every byte of an expanded name occurs in the argument text or is a decimal digit; every
   byte of a ranged string occurs in one of the names or is a digit or one of [ ] , - ; every byte of a sorted name occurs in
   one of the names or is a digit  [full, no hypothesis] *)
Theorem C14_services_provenance :
  (forall a l, HLOracles.hl_expand_str a = Some l -> Forall (Forall (fun b => In b a \/ HLOracles.is_dec b)) l)
  /\ (forall l, Forall (fun b => In b (concat l) \/ HLOracles.is_dec b \/ HLOracles.is_punct b) (HLOracles.hl_ranged_sorted l))
  /\ (forall l, Forall (fun b => In b (concat l) \/ HLOracles.is_dec b \/ HLOracles.is_punct b) (HLOracles.hl_ranged_plain l))
  /\ (forall l, Forall (Forall (fun b => In b (concat l) \/ HLOracles.is_dec b)) (HLOracles.hl_sorted l)).
Proof. exact HLOracles.services_provenance. Qed.
Print Assumptions C14_services_provenance.

(* hence the contract the client theorems assumed of the oracles (Proofs/ClientStream.oracle_ok, the hypothesis of C15_stream):
   no service invents a CR or LF (Proto.eol_free t = true: no byte 13 or 10 in t)  [full, no hypothesis] *)
Theorem C14_services_clean :
  (forall a l, HLOracles.hl_expand_str a = Some l -> Proto.eol_free a = true -> Forall (fun n => Proto.eol_free n = true) l)
  /\ (forall l, Forall (fun n => Proto.eol_free n = true) l -> Proto.eol_free (HLOracles.hl_ranged_sorted l) = true)
  /\ (forall l, Forall (fun n => Proto.eol_free n = true) l -> Proto.eol_free (HLOracles.hl_ranged_sorted_expr l) = true)
  /\ (forall l, Forall (fun n => Proto.eol_free n = true) l -> Proto.eol_free (HLOracles.hl_ranged_plain l) = true)
  /\ (forall l, Forall (fun n => Proto.eol_free n = true) l -> Forall (fun n => Proto.eol_free n = true) (HLOracles.hl_sorted l)).
Proof. exact HLOracles.services_clean. Qed.
Example C14_services_nonvacuous :
  HLOracles.hl_expand_str (bs "n[1-3],x"%string) = Some [bs "n1"%string; bs "n2"%string; bs "n3"%string; bs "x"%string]
  /\ HLOracles.hl_ranged_sorted [bs "n3"%string; bs "n1"%string; bs "n2"%string; bs "x"%string] = bs "n[1-3],x"%string
  /\ HLOracles.hl_ranged_plain [bs "n3"%string; bs "n1"%string; bs "n2"%string; bs "x"%string] = bs "n[3,1-2],x"%string
  /\ HLOracles.hl_sorted [bs "n3"%string; bs "n1"%string; bs "n2"%string; bs "x"%string] = [bs "n1"%string; bs "n2"%string; bs "n3"%string; bs "x"%string]
  /\ HLOracles.hl_expand_str (bs "n[1-"%string) = None.
Proof. repeat split; vm_compute; reflexivity. Qed.
Print Assumptions C14_services_clean.

(* client.c pushes the names of a reply's node set with hostlist_push (the expression parser): for names free of list syntax
   (HLRound.legal: no separator, no bracket, non-empty, shorter than the token buffer) that is hostlist_push_host  [full];
   for a node name that carries list syntax it is not (observation, the C agrees: the node t1a[2], one name of t[1]a[2], is
   printed as t1a2 in a 302 line; outside the property's quantifier "punctuation legal in node names") *)
Theorem C14_reply_push_is_push_host : forall l, Forall (fun n => legal n = true) l ->
  HLOracles.hl_ranged_sorted_expr l = HLOracles.hl_ranged_sorted l.
Proof. exact HLOracles.hl_ranged_sorted_expr_legal. Qed.
Example C14_reply_push_differs :
  HLOracles.hl_expand_str (bs "t[1]a[2]"%string) = Some [bs "t1a[2]"%string]
  /\ HLOracles.hl_ranged_sorted [bs "t1a[2]"%string] = bs "t1a[2]"%string
  /\ HLOracles.hl_ranged_sorted_expr [bs "t1a[2]"%string] = bs "t1a2"%string.
Proof. exact HLOracles.push_expr_differs. Qed.
Print Assumptions C14_reply_push_is_push_host.
