(* C14 -- host-range notation round-trips without changing any name (src/liblsd/hostlist.c).
   Theorems about the executable model PM.Model.HL (tied to the source by Gen/GenHL.v and the R-HL
   correspondence), stated against the reference expansion PM.Spec.HLSpec.expand. *)
From Coq Require Import List NArith ZArith Bool.
From PM Require Import Base.Bytes Base.Outcome Gen.GenHL Model.HL Spec.HLSpec Proofs.HLArith Proofs.HLProofs.
Import ListNotations.
Local Open Scope N_scope.

(* _width_equiv: when it answers 1 the two widths are equal afterwards and no number at or above the one it was
   tested on changes its spelling (so rewriting a range's width on the evidence of its `lo` is safe) *)
Theorem width_equiv_sound : forall n wn m wm wn' wm',
  width_equiv n wn m wm = Some (wn', wm') ->
  wn' = wm' /\ pad wn' n = pad wn n /\ pad wm' m = pad wm m
  /\ (forall k, n <= k -> k < W64 -> pad wn' k = pad wn k)
  /\ (forall k, m <= k -> k < W64 -> pad wm' k = pad wm k).
Proof. exact HLArith.width_equiv_sound. Qed.
Example width_equiv_sound_nonvacuous : width_equiv 9 1 10 2 = Some (1%nat, 1%nat) /\ width_equiv 9 1 10 3 = None.
Proof. split; reflexivity. Qed.
Print Assumptions width_equiv_sound.

(* hostlist_push_host: the list denotes exactly one more name, the one pushed, whatever its spelling *)
Theorem C14_push : forall h n, wf h -> expand (push_host h n) = expand h ++ [n] /\ wf (push_host h n).
Proof. exact HLProofs.push_host_sound. Qed.
Example C14_push_nonvacuous :
  expand (push_host (push_host (push_host [] (bs "t09"%string)) (bs "t10"%string)) (bs "foo"%string)) = [bs "t09"%string; bs "t10"%string; bs "foo"%string]
  /\ length (push_host (push_host [] (bs "t09"%string)) (bs "t10"%string)) = 1%nat.
Proof. split; vm_compute; reflexivity. Qed.
Print Assumptions C14_push.

(* hostlist_push_list / hostlist_copy *)
Theorem C14_push_list : forall a b, wf a -> wf b -> expand (push_list a b) = expand a ++ expand b /\ wf (push_list a b).
Proof. exact HLProofs.push_list_sound. Qed.
Example C14_push_list_nonvacuous :
  expand (push_list (push_host [] (bs "t1"%string)) (push_host (push_host [] (bs "t2"%string)) (bs "t3"%string))) = [bs "t1"%string; bs "t2"%string; bs "t3"%string]
  /\ length (push_list (push_host [] (bs "t1"%string)) (push_host (push_host [] (bs "t2"%string)) (bs "t3"%string))) = 1%nat.
Proof. split; vm_compute; reflexivity. Qed.
Print Assumptions C14_push_list.

Theorem C14_copy : forall h, expand (copy h) = expand h.
Proof. reflexivity. Qed.
Print Assumptions C14_copy.
