(* C05 - a sick device only affects requests that target its own nodes (device layer).
   Model: Model/Device.v (per-device state machine of device.c: _process_action, _act_completion, _enqueue_actions(login/ping/client),
   _rewind_action, _disconnect, _connect, _reconnect, _time_to_reconnect, _enqueue_ping, _handle_ready_device, dev_post_poll's loop body) and
   Model/DevHarness.v (several devices with stub transports, op lists), tied to the real device.c after EVERY pass by the exact differential
   R-DEV (props/C08.py + props/devlib.py).  glibc regexec and host-range compression are Section variables (any oracle).  Statements only;
   proofs in Proofs/Device*.v.  `valid_op` = client commands are the nine targeted ones, dev_initial_connect happens once (HInit);
   `cfg_ok` = what the parser guarantees (login script exists: F14; blocks non-empty; formats %s/%%-only) + formatted send strings fit 64 KiB. *)

(* C05_noninterference is proved (second pass) from the two lemmas that were missing: C05_tmo_independent (a device only ever LOWERS the
   time-out handed in; its own result never depends on it), C05_store_local_reads / _writes (a device reads and writes only Args of nodes
   mapped to its own plugs), C05_pass_tmo_is_min (the coupling that remains: the requested time-out is the minimum of the per-device wishes). *)
(* OPEN *) (* C05_mixed (per-node results of a request spanning a healthy and a sick device) and C05_concurrent are consequences at the client
   layer (Model/Client.v, Model/Daemon.v) of C05_noninterference + C02/C03 and are not stated here; the pmsim monitors `mixed` and the
   time-stamp differential of props/C05.py search for counter-examples on the implementation. *)
From Coq Require Import List NArith ZArith Bool Lia.
From PM Require Import Base.Bytes Base.Outcome Base.Dec Gen.GenConsts Gen.GenCbuf Model.ScriptAst Model.Enqueue Model.Script Model.Device
  Model.DevHarness Proofs.DeviceProofs Proofs.DeviceStmt Proofs.DeviceStmtG Proofs.DeviceInv Proofs.DeviceInvG Proofs.DeviceRun Proofs.DeviceRunG Proofs.DeviceTimer
  Proofs.DeviceLocal Proofs.DeviceThms Proofs.DeviceNI Proofs.DeviceMask Proofs.DeviceNonint.
Import ListNotations.
Local Open Scope Z_scope.

(* feeding, closing, re-planning device j leaves every other device (state and far end) exactly as it was *)
Theorem C05_other_device_untouched : forall (rmatch : text -> text -> option pmatch) (compress : list text -> text) (sc : bool) (h : hstate) (op : hop) (j i : nat),
  i <> j ->
  match op with HPlan x _ | HFinish x _ | HFeed x _ | HPeerClose x => x = j | _ => False end ->
  exists h', hstep rmatch compress sc h op = Ok (h', out0) /\ nth_error (h_devs h') i = nth_error (h_devs h) i /\
             h_now h' = h_now h /\ h_store h' = h_store h.
Proof.
  exact other_device_untouched.
Qed.
Print Assumptions C05_other_device_untouched.

(* dev_post_poll treats the devices one after another and independently: device i's new state, its events and what its far end sees are
   post_poll_one applied to ITS OWN state and far end, the clock, and the arg store / time-out threaded through the devices before it *)
Theorem C05_dev_local : forall (rmatch : text -> text -> option pmatch) (compress : list text -> text) (sc : bool) now i d p r store tmo,
  pass_devs rmatch compress sc now i ((d, p) :: r) store tmo =
    match post_poll_one rmatch compress sc now d store tmo (passin_of d p) with
    | Ok (d', store', tmo', evs) =>
      match pass_devs rmatch compress sc now (S i) r store' tmo' with
      | Ok (r', store'', tmo'', evs') => Ok ((d', apply_evs p evs) :: r', store'', tmo'', map (fun e => (i, e)) evs ++ evs')
      | Exit c s => Exit c s | Abort s => Abort s | MemErr s => MemErr s | Hang s => Hang s
      end
    | Exit c s => Exit c s | Abort s => Abort s | MemErr s => MemErr s | Hang s => Hang s
    end.
Proof.
  exact p_C05_dev_local.
Qed.
Print Assumptions C05_dev_local.


(* (1) the time-out accumulated by the devices visited earlier in the pass is only ever LOWERED: one device's share of dev_post_poll, run with
   time-out t, is its run with NO time-out with the resulting wish w replaced by min(t, w) (tmin).  New device state, arg store, events,
   outcome: all independent of t. *)
Theorem C05_tmo_independent : forall (rmatch : text -> text -> option pmatch) (compress : list text -> text) (sc : bool) now d store t pin,
  post_poll_one rmatch compress sc now d store t pin = lift_pp t (post_poll_one rmatch compress sc now d store None pin).
Proof.
  exact post_poll_one_tmo_indep.
Qed.
Print Assumptions C05_tmo_independent.

(* the time-out a pass requests is the minimum (fold of tmin, None = infinity) of the per-device wishes, each computed by the device from its
   own state, far end, the clock and the store handed on by the devices before it *)
Theorem C05_pass_tmo_is_min : forall (rmatch : text -> text -> option pmatch) (compress : list text -> text) (sc : bool) l now i store t l' store' t' evs,
  pass_devs rmatch compress sc now i l store t = Ok (l', store', t', evs) -> t' = fold_left tmin (wishes rmatch compress sc now l store) t.
Proof.
  exact pass_tmo_min.
Qed.
Print Assumptions C05_pass_tmo_is_min.

(* (2) the shared ArgLists cannot couple devices with disjoint node sets.  [hid] marks node names; mask_store resets every Arg of a marked
   node to its initial value.  A device NONE of whose nodes is marked commutes with masking (it neither reads nor writes marked Args) ... *)
Theorem C05_store_local_reads : forall (hid : text -> bool) (rmatch : text -> text -> option pmatch) (compress : list text -> text) (sc : bool) now d st t pin,
  visible hid (sd_plugs (dv d)) -> DInvG compress d -> tmo_pos t -> 0 <= dv_retry_count d ->
  post_poll_one rmatch compress sc now d (mask_store hid st) t pin = map_pp (mask_store hid) (post_poll_one rmatch compress sc now d st t pin).
Proof.
  exact post_poll_one_vis.
Qed.
Print Assumptions C05_store_local_reads.

(* ... and a device ALL of whose nodes are marked is invisible under masking (it writes marked Args only) *)
Theorem C05_store_local_writes : forall (hid : text -> bool) (rmatch : text -> text -> option pmatch) (compress : list text -> text) (sc : bool) now d st t pin d' st' t' evs,
  hidden hid (sd_plugs (dv d)) -> DInvG compress d -> tmo_pos t -> 0 <= dv_retry_count d ->
  post_poll_one rmatch compress sc now d st t pin = Ok (d', st', t', evs) -> mask_store hid st' = mask_store hid st.
Proof.
  exact post_poll_one_hid.
Qed.
Print Assumptions C05_store_local_writes.

(* NONINTERFERENCE over op lists.  j = the sick device, hid = its nodes.  orel: the two op lists are equal except for operations on device j's
   far end (HFeed j / HPeerClose j / HPlan j / HFinish j: what the device sends, when it closes, how it answers connects) inserted anywhere in
   either list.  hrel: same clock, every device other than j IDENTICAL (state and far end: queue, buffers, connect state, retry fields, bytes
   written so far, pending input), device j with the same static configuration, stores equal on every Arg of a node that is not j's.
   hok: every device satisfies the invariant, j's nodes are marked and no other device has a marked node (C13: the node-to-plug map is
   injective).  Then after the two runs the states are again related (so: after EVERY op, by prefix closure) and every device other than j
   produced exactly the same events (completions with codes and texts, telemetry, diagnostics, bytes sent / written / read, connects).
   The only coupling is the requested time-out (C05_pass_tmo_is_min; pass_devs_sim: the wishes of the devices other than j are equal). *)
Theorem C05_noninterference : forall (rmatch : text -> text -> option pmatch) (compress : list text -> text) (sc : bool) (j : nat) (hid : text -> bool)
    (ops1 ops2 : list hop), orel j ops1 ops2 -> forall h1 h2 h1' outs1 h2' outs2,
  hrel j hid h1 h2 -> hok compress j hid h1 -> hok compress j hid h2 ->
  run rmatch compress sc h1 ops1 = Ok (h1', outs1) -> run rmatch compress sc h2 ops2 = Ok (h2', outs2) ->
  hrel j hid h1' h2' /\ hok compress j hid h1' /\ hok compress j hid h2' /\ forall k, k <> j -> all_evs k outs1 = all_evs k outs2.
Proof.
  exact noninterference.
Qed.
Print Assumptions C05_noninterference.

(* one pass, with the wishes exposed: related device lists and stores give related results, identical events and identical wishes for every
   device other than j *)
Theorem C05_pass_noninterference : forall (rmatch : text -> text -> option pmatch) (compress : list text -> text) (sc : bool) (j : nat) (hid : text -> bool)
    l1 l2 now i st1 st2 t1 t2 l1' st1' t1' e1 l2' st2' t2' e2,
  lrel j i l1 l2 -> lok compress j hid i l1 -> lok compress j hid i l2 -> mask_store hid st1 = mask_store hid st2 -> tmo_pos t1 -> tmo_pos t2 ->
  pass_devs rmatch compress sc now i l1 st1 t1 = Ok (l1', st1', t1', e1) ->
  pass_devs rmatch compress sc now i l2 st2 t2 = Ok (l2', st2', t2', e2) ->
  lrel j i l1' l2' /\ lok compress j hid i l1' /\ lok compress j hid i l2' /\ mask_store hid st1' = mask_store hid st2' /\
  (forall k, k <> j -> evs_of k e1 = evs_of k e2) /\
  (forall k, (i + k)%nat <> j -> nth_error (wishes rmatch compress sc now l1 st1) k = nth_error (wishes rmatch compress sc now l2 st2) k).
Proof.
  exact pass_devs_sim.
Qed.
Print Assumptions C05_pass_noninterference.

(* non-vacuity: a device with a login and an `on` script, run through a history with a time-out *)
Definition ex_rmatch : text -> text -> option pmatch := fun _ _ => None.
Definition ex_compress : list text -> text := fun l => concat (map (fun t => t ++ [44%N]) l).     (* grows with its input: names joined by commas *)
Definition ex_dev : device :=
  mk_device (bslit "d0") [mkPlug (bslit "p1") (Some (bslit "n1"))]
            [(PM_LOG_IN, [Send (bslit "login\n"); Expect (bslit "ok")]); (PM_POWER_ON, [Send (bslit "on %s\n"); Expect (bslit "done")])] 5000000 0.
Definition ex_h0 : hstate := mkH 0 [(ex_dev, peer0)] [].
Definition ex_ops : list hop :=
  [HNow 1000000; HPlan 0 [ConnNow; ConnNow]; HInit; HPass; HNewArgs [bslit "n1"]; HEnq PM_POWER_ON 7 false 0 [bslit "n1"]; HPass; HFeed 0 (bslit "\000\255junk");
   HPass; HNow 7000000; HPass; HNow 9000000; HPass].

Example C05_example :
  exists h', hstep ex_rmatch ex_compress false (mkH 0 [(ex_dev, peer0); (ex_dev, peer0)] []) (HFeed 1 (bslit "x")) = Ok (h', out0) /\
    nth_error (h_devs h') 0 = Some (ex_dev, peer0).
Proof. vm_compute. eexists. split; reflexivity. Qed.

(* non-vacuity of C05_noninterference: two devices with disjoint nodes (n1 / n2), device 1 sick: the start state satisfies hok and hrel,
   and two histories that differ in what device 1's far end does give device 0 the same (non-empty) events *)
Definition ex_dev1 : device :=
  mk_device (bslit "d1") [mkPlug (bslit "p1") (Some (bslit "n2"))]
            [(PM_LOG_IN, [Send (bslit "login\n"); Expect (bslit "ok")]); (PM_POWER_ON, [Send (bslit "on %s\n"); Expect (bslit "done")])] 5000000 0.
Definition ex_hid : text -> bool := fun n => text_eqb n (bslit "n2").
Definition ex_h2 : hstate := mkH 0 [(ex_dev, peer0); (ex_dev1, peer0)] [].
Lemma ex_cfg_ok : forall d, d = ex_dev \/ d = ex_dev1 -> cfg_ok ex_compress d.
Proof.
  intros d Hd. split; [destruct Hd as [-> | ->]; eexists; reflexivity|]. intros i s H.
  assert (Hs : s = [Send (bslit "login\n"); Expect (bslit "ok")] \/ s = [Send (bslit "on %s\n"); Expect (bslit "done")]).
  { destruct Hd as [-> | ->]; cbn [dv_scripts ex_dev ex_dev1 mk_device assoc_script] in H;
      (destruct (Z.eqb i PM_LOG_IN); [injection H as <-; now left|destruct (Z.eqb i PM_POWER_ON); [injection H as <-; now right|discriminate H]]). }
  destruct Hs as [-> | ->]; (split; [discriminate|]); (constructor; [|constructor; [exact Logic.I|constructor]]); cbn [wf_stmt]; intros ps _; eexists; vm_compute; reflexivity.
Qed.
Example C05_noninterference_hyps : hok ex_compress 1 ex_hid ex_h2 /\ hrel 1 ex_hid ex_h2 ex_h2.
Proof.
  split.
  - unfold hok, ex_h2. cbn [h_devs]. constructor; [apply (mk_device_invG ex_compress), ex_cfg_ok; now left| |constructor; [apply (mk_device_invG ex_compress), ex_cfg_ok; now right| |constructor]].
    + intros p n [<-|[]] Hn. injection Hn as <-. reflexivity.
    + intros p n [<-|[]] Hn. injection Hn as <-. reflexivity.
  - split; [reflexivity|]. split; [apply lrel_refl|reflexivity].
Qed.
Definition ex_ops_a : list hop :=
  [HNow 1000000; HPlan 0 [ConnNow; ConnNow]; HPlan 1 [ConnNow]; HPass; HNewArgs [bslit "n1"; bslit "n2"]; HEnq PM_POWER_ON 7 true 0 [bslit "n1"; bslit "n2"]; HPass;
   HNow 7000000; HPass].
Definition ex_ops_b : list hop :=
  [HNow 1000000; HPlan 0 [ConnNow; ConnNow]; HPlan 1 [ConnFail; ConnFail]; HPass; HFeed 1 (bslit "\000junk"); HNewArgs [bslit "n1"; bslit "n2"]; HEnq PM_POWER_ON 7 true 0 [bslit "n1"; bslit "n2"]; HPeerClose 1; HPass;
   HNow 7000000; HPass].
Example C05_noninterference_example :
  orel 1 ex_ops_a ex_ops_b /\
  exists ha oa hb ob, run ex_rmatch ex_compress false ex_h2 ex_ops_a = Ok (ha, oa) /\ run ex_rmatch ex_compress false ex_h2 ex_ops_b = Ok (hb, ob) /\
    all_evs 0 oa = all_evs 0 ob /\ completions (all_evs 0 oa) = [7] /\ all_evs 1 oa <> all_evs 1 ob.
Proof.
  split.
  - unfold ex_ops_a, ex_ops_b. repeat first [ apply orel_nil | apply orel_both; [first [exact Logic.I | (vm_compute; auto 20)]|] | (apply orel_left; [reflexivity|]) | (apply orel_right; [reflexivity|]) ].
  - vm_compute. eexists _, _, _, _. repeat split. discriminate.
Qed.

(* ------------------------------------------------------------------------------------------------------------------
   The same at the level of the whole daemon, frame form (Proofs/DaemonDevFrame.v over Model/Daemon.v): one device's
   share of a pass - whatever the device does - produces callbacks only for clients that have an action queued on THAT
   device, so inside dev_post_poll the record of every other client is left exactly as it was by that device's step.
   (The other devices are not touched by construction of the loop; result lists: C11_result_list_writes; the shared poll
   time-out: C05_tmo_independent / C05_pass_tmo_is_min.) *)
From PM Require Import Model.Client Model.Daemon Proofs.DaemonLedger Proofs.DaemonFrame Proofs.DaemonDevFrame.
From PM Require Proofs.DeviceDeadlineEx.
Theorem C05_callbacks_only_own_clients : forall rmatch compress sc now d store tmo pin d' store' tmo' evs id,
  DInvG compress d -> tmo_pos tmo -> 0 <= dv_retry_count d ->
  post_poll_one rmatch compress sc now d store tmo pin = Ok (d', store', tmo', evs) ->
  ~ In id (queued d) -> existsb (ev_for id) evs = false.
Proof. exact step_events_ids. Qed.
Print Assumptions C05_callbacks_only_own_clients.
Theorem C05_daemon_device_frame : forall ranged_sorted rmatch compress sc now st i d pin tmo d' store' tmo' evs st1 st2 p x,
  nth_error (dm_devs st) i = Some d -> DInvG compress d -> tmo_pos tmo -> 0 <= dv_retry_count d ->
  post_poll_one rmatch compress sc now d (dm_store st) tmo pin = Ok (d', store', tmo', evs) ->
  dm_clients st1 = dm_clients st -> route_all ranged_sorted st1 evs = Ok st2 ->
  nth_error (dm_clients st) p = Some x -> ~ In (cid x) (queued d) ->
  nth_error (dm_clients st2) p = Some x.
Proof. exact dev_step_client_frame. Qed.
Print Assumptions C05_daemon_device_frame.
(* non-vacuity: the silent device of the deadline examples, at the pass that fails its queue: the callbacks are for client 7
   (the only one with an action queued there) and for nobody else *)
Example C05_daemon_frame_nonvacuous :
  exists d' st' t' evs, post_poll_one DeviceDeadlineEx.rm DeviceDeadlineEx.cp false 6000000 DeviceDeadlineEx.d5 [] None DeviceDeadlineEx.silent = Ok (d', st', t', evs) /\
    queued DeviceDeadlineEx.d5 = [7] /\ existsb (ev_for 7) evs = true /\ existsb (ev_for 8) evs = false.
Proof. eexists _, _, _, _. vm_compute. repeat split. Qed.
