(* C05 - a sick device only affects requests that target its own nodes (device layer).
   Model: Model/Device.v (per-device state machine of device.c: _process_action, _act_completion, _enqueue_actions(login/ping/client),
   _rewind_action, _disconnect, _connect, _reconnect, _time_to_reconnect, _enqueue_ping, _handle_ready_device, dev_post_poll's loop body) and
   Model/DevHarness.v (several devices with stub transports, op lists), tied to the real device.c after EVERY pass by the exact differential
   R-DEV (props/C08.py + props/devlib.py).  glibc regexec and host-range compression are Section variables (any oracle).  Statements only;
   proofs in Proofs/Device*.v.  `valid_op` = client commands are the nine targeted ones, dev_initial_connect happens once (HInit);
   `cfg_ok` = what the parser guarantees (login script exists: F14; blocks non-empty; formats %s/%%-only) + formatted send strings fit 64 KiB. *)

(* OPEN *) (* C05_noninterference: "over ANY op list, feeding / closing / re-planning device j changes nothing about device i's trajectory and
   events (i <> j)".  PARTIAL: proved are C05_other_device_untouched (operations on j's far end do not touch i), C05_dev_local (a pass is a
   fold of post_poll_one over the devices, each on its own state) and, from C07/C10, that each device's invariant and FIFO equation hold
   whatever the other devices do.  Missing: (1) post_poll_one's result does not depend on the time-out accumulated by earlier devices
   (it only takes minima), (2) the statements of device i read and write only Args of nodes mapped to i's plugs, so the shared ArgList
   cannot carry information between devices with disjoint nodes.  Both are visible in the code (upd_tmo; arg_find / arg_update by node name)
   but the relational proof over the nine statement handlers is not done.  The differential pmsim monitor (same history with device d
   healthy vs sick) searches for a counter-example on the implementation. *)
From Coq Require Import List NArith ZArith Bool Lia.
From PM Require Import Base.Bytes Base.Outcome Base.Dec Gen.GenConsts Gen.GenCbuf Model.ScriptAst Model.Enqueue Model.Script Model.Device
  Model.DevHarness Proofs.DeviceProofs Proofs.DeviceStmt Proofs.DeviceInv Proofs.DeviceRun Proofs.DeviceTimer Proofs.DeviceLocal Proofs.DeviceThms.
Import ListNotations.
Local Open Scope Z_scope.

(* feeding, closing, re-planning device j leaves every other device (state and far end) exactly as it was *)
Theorem C05_other_device_untouched : forall (rmatch : text -> text -> option pmatch) (compress : list text -> text) (sc : bool) (h : hstate) (op : hop) (j i : nat),
  i <> j ->
  match op with HPlan x _ | HFinish x _ | HFeed x _ | HPeerClose x => x = j | _ => False end ->
  exists h', hstep rmatch compress sc h op = Ok (h', out0) /\ nth_error (h_devs h') i = nth_error (h_devs h) i /\
             h_now h' = h_now h /\ h_store h' = h_store h.
Proof.
  exact other_device_untouched.
Qed.
Print Assumptions C05_other_device_untouched.

(* dev_post_poll treats the devices one after another and independently: device i's new state, its events and what its far end sees are
   post_poll_one applied to ITS OWN state and far end, the clock, and the arg store / time-out threaded through the devices before it *)
Theorem C05_dev_local : forall (rmatch : text -> text -> option pmatch) (compress : list text -> text) (sc : bool) now i d p r store tmo,
  pass_devs rmatch compress sc now i ((d, p) :: r) store tmo =
    match post_poll_one rmatch compress sc now d store tmo (passin_of d p) with
    | Ok (d', store', tmo', evs) =>
      match pass_devs rmatch compress sc now (S i) r store' tmo' with
      | Ok (r', store'', tmo'', evs') => Ok ((d', apply_evs p evs) :: r', store'', tmo'', map (fun e => (i, e)) evs ++ evs')
      | Exit c s => Exit c s | Abort s => Abort s | MemErr s => MemErr s | Hang s => Hang s
      end
    | Exit c s => Exit c s | Abort s => Abort s | MemErr s => MemErr s | Hang s => Hang s
    end.
Proof.
  exact p_C05_dev_local.
Qed.
Print Assumptions C05_dev_local.


(* non-vacuity: a device with a login and an `on` script, run through a history with a time-out *)
Definition ex_rmatch : text -> text -> option pmatch := fun _ _ => None.
Definition ex_compress : list text -> text := fun _ => [].
Definition ex_dev : device :=
  mk_device (bslit "d0") [mkPlug (bslit "p1") (Some (bslit "n1"))]
            [(PM_LOG_IN, [Send (bslit "login\n"); Expect (bslit "ok")]); (PM_POWER_ON, [Send (bslit "on %s\n"); Expect (bslit "done")])] 5000000 0.
Definition ex_h0 : hstate := mkH 0 [(ex_dev, peer0)] [].
Definition ex_ops : list hop :=
  [HNow 1000000; HPlan 0 [ConnNow; ConnNow]; HInit; HPass; HNewArgs [bslit "n1"]; HEnq PM_POWER_ON 7 false 0 [bslit "n1"]; HPass; HFeed 0 (bslit "\000\255junk");
   HPass; HNow 7000000; HPass; HNow 9000000; HPass].

Example C05_example :
  exists h', hstep ex_rmatch ex_compress false (mkH 0 [(ex_dev, peer0); (ex_dev, peer0)] []) (HFeed 1 (bslit "x")) = Ok (h', out0) /\
    nth_error (h_devs h') 0 = Some (ex_dev, peer0).
Proof. vm_compute. eexists. split; reflexivity. Qed.
