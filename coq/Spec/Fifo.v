(* The independent statement C09 compares cbuf.c with: a bounded FIFO on plain lists.  No indices, no wrap,
   no growth: a queue is the list of unread bytes, oldest first.  These functions are extracted and used by the
   run-time monitor on the IMPLEMENTATION's outputs (driver/cbuf_drv.ml, mode "monitor"), and are the right-hand
   sides of the theorems in Properties/C09.v. *)
From Coq Require Import List ZArith Bool Lia.
From PM Require Import Base.Bytes.
(* from the model ONLY the interface types are used below (op, out, fdres and the projection fd_bytes of a
   descriptor script): the abstract machine [fifo_step] is written with the list functions of this file alone *)
From PM Require Import Model.Cbuf.
Import ListNotations.
Local Open Scope Z_scope.

Definition qlen (q : list byte) : Z := Z.of_nat (length q).
Definition qtake (n : Z) (q : list byte) : list byte := firstn (Z.to_nat n) q.
Definition qskip (n : Z) (q : list byte) : list byte := skipn (Z.to_nat n) q.
(* the last n elements *)
Definition qlast (n : Z) (q : list byte) : list byte := qskip (qlen q - n) q.

(* appending bs to a queue of capacity cap: the oldest bytes fall out *)
Definition fifo_write (cap : Z) (q bs : list byte) : list byte := qlast cap (q ++ bs).
Definition fifo_dropped (cap : Z) (q bs : list byte) : Z := Z.max 0 (qlen q + qlen bs - cap).

Definition fifo_peek (q : list byte) (n : Z) : list byte := qtake n q.
Definition fifo_drop (q : list byte) (n : Z) : list byte := qskip n q.

(* number of bytes up to and including the k-th newline (k >= 1); 0 when there are fewer than k newlines *)
Fixpoint lines_end (q : list byte) (k : Z) (pos : Z) : Z :=
  match q with
  | [] => 0
  | b :: r => if N.eqb b 10 then (if k <=? 1 then pos + 1 else lines_end r (k - 1) (pos + 1))
              else lines_end r k (pos + 1)
  end.

(* number of bytes up to and including the last newline of q; 0 when there is none *)
Fixpoint last_line_end (q : list byte) (pos best : Z) : Z :=
  match q with
  | [] => best
  | b :: r => last_line_end r (pos + 1) (if N.eqb b 10 then pos + 1 else best)
  end.

(* what cbuf_read_line (cb, buf, len, lines) must consume: [lines] complete lines (all or none) when
   lines > 0; as many complete lines as fit in len-1 bytes when lines = -1 *)
Definition fifo_line_count (q : list byte) (len lines : Z) : Z :=
  if 0 <? lines then lines_end q lines 0
  else if lines =? -1 then last_line_end (qtake (len - 1) q) 0 0
  else 0.
(* ... and what it must place in the caller's buffer of len bytes (NUL terminator not included) *)
Definition fifo_line_text (q : list byte) (len lines : Z) : list byte :=
  qtake (Z.min (fifo_line_count q len lines) (len - 1)) q.

(* what an expect pattern is matched against (device.c:_getregex_buf): the unread bytes with NUL shown as 0xFF *)
Definition nul_to_ff (q : list byte) : list byte := map (fun b => if N.eqb b 0 then 255%N else b) q.

(* ---- the abstract machine: a queue of capacity [cap] under the operations of the cbuf API --------------------
   [fifo_step cap q o r q'] : operation [o] on queue [q] may show the caller [r] and leave [q'].
   The two descriptor operations are non-deterministic in HOW MANY bytes move (the descriptor decides: short
   reads, EAGAIN, EOF, short writes, errors), never in WHICH bytes or in their order:
     - write_from_fd moves some prefix w of what the descriptor holds to the tail of the queue,
     - read_to_fd moves some prefix of the queue to the descriptor.                                          *)
Definition fifo_step (cap : Z) (q : list byte) (o : op) (r : out) (q' : list byte) : Prop :=
  match o with
  | OWrite bs =>
      q' = fifo_write cap q bs /\ o_ret r = qlen bs /\ o_dropped r = fifo_dropped cap q bs
  | OWriteFd fd len =>
      exists w, fd_bytes fd = w ++ fd_bytes (o_fd r)
        /\ q' = fifo_write cap q w /\ o_dropped r = fifo_dropped cap q w
        /\ (0 < qlen w -> o_ret r = qlen w) /\ (qlen w = 0 -> o_ret r <= 0)
  | OPeek len =>
      q' = q /\ (if len <? 0 then o_ret r = -1 /\ o_bytes r = []
                else o_ret r = Z.min len (qlen q) /\ o_bytes r = fifo_peek q len)
  | ODrop len =>
      if len <? -1 then q' = q /\ o_ret r = -1
      else o_ret r = (if len =? -1 then qlen q else Z.min len (qlen q)) /\ q' = fifo_drop q (o_ret r)
  | ORead len =>
      if len <? 0 then q' = q /\ o_ret r = -1 /\ o_bytes r = []
      else o_ret r = Z.min len (qlen q) /\ o_bytes r = fifo_peek q len /\ q' = fifo_drop q len
  | OPeekLine len lines =>
      q' = q /\ (if (len <? 0) || (lines <? -1) then o_ret r = -1 /\ o_bytes r = []
                else o_ret r = fifo_line_count q len lines /\ o_bytes r = fifo_line_text q len lines)
  | OReadLine len lines =>
      if (len <? 0) || (lines <? -1) then q' = q /\ o_ret r = -1 /\ o_bytes r = []
      else o_ret r = fifo_line_count q len lines /\ o_bytes r = fifo_line_text q len lines
           /\ q' = fifo_drop q (o_ret r)
  | OReadFd script len =>
      let k := Z.max 0 (o_ret r) in
      k <= qlen q /\ (0 <= len -> k <= len) /\ (len < -1 -> o_ret r = -1)
      /\ o_bytes r = fifo_peek q k /\ q' = fifo_drop q k
  | OFlush => q' = []
  | OUsed => q' = q /\ o_ret r = qlen q
  end.

(* a whole history *)
Fixpoint fifo_run (cap : Z) (q : list byte) (ops : list op) (outs : list out) (q' : list byte) : Prop :=
  match ops, outs with
  | [], [] => q' = q
  | o :: ops', r :: outs' => exists q1, fifo_step cap q o r q1 /\ fifo_run cap q1 ops' outs' q'
  | _, _ => False
  end.
