(* The independent statement C09 compares cbuf.c with: a bounded FIFO on plain lists.  No indices, no wrap,
   no growth: a queue is the list of unread bytes, oldest first.  These functions are extracted and used by the
   run-time monitor on the IMPLEMENTATION's outputs (driver/cbuf_drv.ml, mode "monitor"), and are the right-hand
   sides of the theorems in Properties/C09.v. *)
From Coq Require Import List ZArith Bool Lia.
From PM Require Import Base.Bytes.
Import ListNotations.
Local Open Scope Z_scope.

Definition qlen (q : list byte) : Z := Z.of_nat (length q).
Definition qtake (n : Z) (q : list byte) : list byte := firstn (Z.to_nat n) q.
Definition qskip (n : Z) (q : list byte) : list byte := skipn (Z.to_nat n) q.
(* the last n elements *)
Definition qlast (n : Z) (q : list byte) : list byte := qskip (qlen q - n) q.

(* appending bs to a queue of capacity cap: the oldest bytes fall out *)
Definition fifo_write (cap : Z) (q bs : list byte) : list byte := qlast cap (q ++ bs).
Definition fifo_dropped (cap : Z) (q bs : list byte) : Z := Z.max 0 (qlen q + qlen bs - cap).

Definition fifo_peek (q : list byte) (n : Z) : list byte := qtake n q.
Definition fifo_drop (q : list byte) (n : Z) : list byte := qskip n q.

(* number of bytes up to and including the k-th newline (k >= 1); 0 when there are fewer than k newlines *)
Fixpoint lines_end (q : list byte) (k : Z) (pos : Z) : Z :=
  match q with
  | [] => 0
  | b :: r => if N.eqb b 10 then (if k <=? 1 then pos + 1 else lines_end r (k - 1) (pos + 1))
              else lines_end r k (pos + 1)
  end.

(* number of bytes up to and including the last newline of q; 0 when there is none *)
Fixpoint last_line_end (q : list byte) (pos best : Z) : Z :=
  match q with
  | [] => best
  | b :: r => last_line_end r (pos + 1) (if N.eqb b 10 then pos + 1 else best)
  end.

(* what cbuf_read_line (cb, buf, len, lines) must consume: [lines] complete lines (all or none) when
   lines > 0; as many complete lines as fit in len-1 bytes when lines = -1 *)
Definition fifo_line_count (q : list byte) (len lines : Z) : Z :=
  if 0 <? lines then lines_end q lines 0
  else if lines =? -1 then last_line_end (qtake (len - 1) q) 0 0
  else 0.
(* ... and what it must place in the caller's buffer of len bytes (NUL terminator not included) *)
Definition fifo_line_text (q : list byte) (len lines : Z) : list byte :=
  qtake (Z.min (fifo_line_count q len lines) (len - 1)) q.

(* what an expect pattern is matched against (device.c:_getregex_buf): the unread bytes with NUL shown as 0xFF *)
Definition nul_to_ff (q : list byte) : list byte := map (fun b => if N.eqb b 0 then 255%N else b) q.
