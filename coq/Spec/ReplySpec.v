(* What a conforming powermand reply is, and what a faithful client must make of it (client_proto.h read as a
   specification).  Independent of Model/LibPm.v: only the protocol strings and class intervals of GenConsts. *)
From Coq Require Import List NArith ZArith Bool Lia.
From PM Require Import Base.Bytes Gen.GenConsts.
Import ListNotations.
Local Open Scope Z_scope.

Definition ends_with (s p : text) : Prop := exists a, s = a ++ p.

(* no CR immediately followed by LF inside l *)
Definition no_crlf (l : text) : Prop := forall a b, l <> a ++ CR :: LF :: b.
Definition no_nul (l : text) : Prop := ~ In NUL l.

(* bytes a conforming server puts into the text of a line *)
Definition clean_byte (c : byte) : Prop := c <> CR /\ c <> LF /\ c <> NUL.
Definition clean (l : text) : Prop := Forall clean_byte l.

(* the hypothesis of C16_segmentation: "powerman> " occurs in the stream only as its end *)
Definition prompt_only_at_end (s : text) : Prop :=
  forall p q, s = p ++ q -> q <> [] -> ~ ends_with p CP_PROMPT.

(* boolean form, for examples *)
Fixpoint poe_go (pre_rev s : text) : bool :=
  match s with
  | [] => true
  | c :: s' => negb (is_prefix (rev CP_PROMPT) pre_rev) && poe_go (c :: pre_rev) s'
  end.
Definition prompt_only_at_end_b (s : text) : bool := poe_go [] s.

(* ------------------------------------------------------------------ lines *)
Definition digit (d : Z) : byte := Z.to_N (48 + d).
Definition dec3 (k : Z) : text := [digit (k / 100); digit ((k / 10) mod 10); digit (k mod 10)].

Record rline := { rl_code : Z; rl_text : text }.
(* "NNN text", without the line terminator *)
Definition render_line (l : rline) : text := dec3 (rl_code l) ++ SP :: rl_text l.
Definition wf_line (l : rline) : Prop := 0 <= rl_code l <= 999 /\ clean (rl_text l).

(* a reply as the bytes on the wire: every line terminated by CRLF, then the prompt *)
Definition reply_bytes (ls : list text) : text := concat (map (fun l => l ++ CP_EOL) ls) ++ CP_PROMPT.

(* response classes of client_proto.h; 001 is the banner *)
Definition success_code (k : Z) : Prop := k = 1 \/ cp_success_lo <= k <= cp_success_hi.
Definition success_codeb (k : Z) : bool := (k =? 1) || ((cp_success_lo <=? k) && (k <=? cp_success_hi)).
Definition failure_code (k : Z) : Prop := cp_failure_lo <= k <= cp_failure_hi.
Definition terminal_code (k : Z) : Prop := success_code k \/ failure_code k.
Definition info_code (k : Z) : Prop := 300 <= k <= 399.

(* a conforming reply: informational lines, then exactly one terminal line *)
Record reply := { rp_info : list rline; rp_term : rline }.
Definition conforming (r : reply) : Prop :=
  Forall (fun l => wf_line l /\ info_code (rl_code l)) (rp_info r) /\ wf_line (rp_term r) /\ terminal_code (rl_code (rp_term r)).
Definition reply_lines (r : reply) : list text := map render_line (rp_info r) ++ [render_line (rp_term r)].
Definition reply_stream (r : reply) : text := reply_bytes (reply_lines r).

(* what the library must return for it: PM_ESUCCESS (0) for a success code, else the code itself *)
Definition spec_rc (k : Z) : Z := if success_codeb k then 0 else k.

(* node state: 1 = off, 2 = on, 0 = unknown (libpowerman.h); "off" is looked for first *)
Definition status_line (node st : text) : text := bs "303 "%string ++ node ++ bs ": "%string ++ st.
Definition spec_status (off on unknown : Z) (node : text) (lines : list text) : Z :=
  if existsb (fun l => text_eqb l (status_line node (bs "off"%string))) lines then off
  else if existsb (fun l => text_eqb l (status_line node (bs "on"%string))) lines then on
  else unknown.

(* node list: the names of the "307 name" lines, in order *)
Definition node_line (name : text) : text := bs "307 "%string ++ name.
Definition wf_name (n : text) : Prop := n <> [] /\ Forall (fun c => is_space c = false /\ c <> NUL) n.

(* ------------------------------------------------------------------ CLI *)
(* text the CLI shows for a reply: the part after "NNN " of every line, each followed by a newline, except the
   suppressed completion lines; 309 lines go to stderr *)
Definition shown (suppress to_stderr : list Z) (stderr : bool) (l : rline) : text :=
  if existsb (Z.eqb (rl_code l)) suppress then []
  else if Bool.eqb (existsb (Z.eqb (rl_code l)) to_stderr) stderr then rl_text l ++ [LF] else [].
Definition spec_output (suppress to_stderr : list Z) (stderr : bool) (rs : list reply) : text :=
  concat (map (fun r => concat (map (shown suppress to_stderr stderr) (rp_info r ++ [rp_term r]))) rs).

(* a whole CLI session on the wire: banner, prompt, one reply + prompt per request, goodbye *)
Definition session_stream (version : text) (rs : list reply) : text :=
  (bs "001 "%string ++ version ++ CP_EOL) ++ CP_PROMPT ++ concat (map reply_stream rs) ++ CP_RSP_QUIT.

(* the node names a reply lists: the texts of its 307 lines, in order *)
Definition spec_nodes (ls : list rline) : list text := map rl_text (filter (fun l => rl_code l =? 307) ls).
