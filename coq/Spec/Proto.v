(* The line protocol of powermand as a client sees it (client_proto.h), written down independently of
   client.c: a tokeniser (CRLF-terminated lines `NNN text`, the prompt) and a recogniser for

       banner prompt ( 3xx-line* terminal-line [prompt] )*

   with: documented codes only (table regenerated from client_proto.h), the banner code only first, the prompt
   only after the banner or a terminal line, NO prompt after 208 (the request in progress goes on) and 101
   (the session ends); after 101 the daemon still answers lines that were already pipelined, and then the
   prompt is optional.  No proofs in this file (executable, extracted as the monitor of C15/C06/C04). *)
From Coq Require Import List NArith ZArith Bool.
From PM Require Import Base.Bytes Gen.GenConsts Gen.GenClient.
Import ListNotations.
Local Open Scope N_scope.

Inductive tok : Type :=
| TLine (code : N) (payload : text)       (* `NNN ` payload CR LF ; the payload holds neither CR nor LF *)
| TPrompt.

Definition eol_byte (c : byte) : bool := N.eqb c 13 || N.eqb c 10.
Definition eol_free (t : text) : bool := forallb (fun c => negb (eol_byte c)) t.

(* ---------- meaning of a token list ---------- *)
Definition digits3 (c : N) : text := [48 + c / 100; 48 + (c / 10) mod 10; 48 + c mod 10].
Definition render1 (t : tok) : text :=
  match t with
  | TLine c p => digits3 c ++ 32 :: p ++ [13; 10]
  | TPrompt => CP_PROMPT
  end.
Definition render (ts : list tok) : text := flat_map render1 ts.

(* ---------- tokeniser ---------- *)
(* the text up to the first CR or LF, which must be the pair CR LF *)
Fixpoint split_eol (s : text) : option (text * text) :=
  match s with
  | [] => None
  | c :: r =>
      if N.eqb c 13 then match r with d :: r' => if N.eqb d 10 then Some ([], r') else None | [] => None end
      else if N.eqb c 10 then None
      else match split_eol r with Some (l, r') => Some (c :: l, r') | None => None end
  end.

Definition code3 (a b c : byte) : N := 100 * (a - 48) + 10 * (b - 48) + (c - 48).
Definition parse_line (l : text) : option (N * text) :=
  match l with
  | a :: b :: c :: s :: p =>
      if is_digit a && is_digit b && is_digit c && N.eqb s 32
      then Some (code3 a b c, p) else None
  | _ => None
  end.

Definition next_tok (s : text) : option (tok * text) :=
  if is_prefix CP_PROMPT s then Some (TPrompt, skipn (length CP_PROMPT) s)
  else match split_eol s with
       | Some (l, r) => match parse_line l with Some (c, p) => Some (TLine c p, r) | None => None end
       | None => None
       end.

Fixpoint lex (fuel : nat) (s : text) : option (list tok) :=
  match fuel with
  | O => None
  | S f =>
    match s with
    | [] => Some []
    | _ => match next_tok s with
           | Some (t, r) => match lex f r with Some ts => Some (t :: ts) | None => None end
           | None => None
           end
    end
  end.
Definition tokens (s : text) : option (list tok) := lex (S (length s)) s.

(* as far as whole tokens go; the rest is returned *)
Fixpoint lex_prefix (fuel : nat) (s : text) : list tok * text :=
  match fuel with
  | O => ([], s)
  | S f =>
    match s with
    | [] => ([], [])
    | _ => match next_tok s with
           | Some (t, r) => let (ts, rest) := lex_prefix f r in (t :: ts, rest)
           | None => ([], s)
           end
    end
  end.

(* ---------- code classes ---------- *)
Definition codes_of (fmt : text) : list N :=
  match tokens fmt with Some ts => flat_map (fun t => match t with TLine c _ => [c] | TPrompt => [] end) ts | None => [] end.
Definition first_code (fmt : text) : N := hd 0 (codes_of fmt).

(* every code that occurs in a response macro of the CURRENT client_proto.h *)
Definition documented_codes : list N := flat_map (fun nf => codes_of (snd nf)) cp_responses.
Definition documented (c : N) : bool := existsb (N.eqb c) documented_codes.

Definition code_banner : N := first_code CP_VERSION.
Definition code_busy : N := first_code CP_ERR_CLIBUSY.
Definition code_quit : N := first_code CP_RSP_QUIT.
Definition is_terminal (c : N) : bool := (Z.to_N cp_success_lo <=? c) && (c <=? Z.to_N cp_failure_hi).   (* CP_IS_ALLDONE *)
Definition is_info (c : N) : bool := (300 <=? c) && (c <=? 399).                                     (* "3XX's are informational" *)

(* ---------- recogniser ---------- *)
Inductive pstate : Type :=
| PStart                 (* nothing received *)
| PBanner                (* banner received, prompt due *)
| PReady (quit : bool)   (* no reply under way *)
| PIn (quit : bool)      (* informational lines received, terminal line due *)
| PNeedPrompt            (* terminal line received, prompt due *)
| PTermQ.                (* terminal line received after 101: prompt optional *)

Definition line_step (q : bool) (s : pstate) (c : N) : option pstate :=
  if negb (documented c) then None
  else if is_info c then Some (PIn q)
  else if is_terminal c then
    if N.eqb c code_busy then Some s                 (* 208: the request in progress goes on; no prompt *)
    else if N.eqb c code_quit then Some (PReady true)  (* 101: no prompt *)
    else if q then Some PTermQ else Some PNeedPrompt
  else None.

Definition step (s : pstate) (t : tok) : option pstate :=
  match s, t with
  | PStart, TLine c _ => if N.eqb c code_banner then Some PBanner else None
  | PBanner, TPrompt => Some (PReady false)
  | PReady q, TLine c _ => line_step q s c
  | PIn q, TLine c _ => line_step q s c
  | PTermQ, TLine c _ => line_step true (PReady true) c
  | PTermQ, TPrompt => Some (PReady true)
  | PNeedPrompt, TPrompt => Some (PReady false)
  | _, _ => None
  end.

Fixpoint run (s : pstate) (ts : list tok) : option pstate :=
  match ts with
  | [] => Some s
  | t :: r => match step s t with Some s' => run s' r | None => None end
  end.

(* no reply is under way (nothing informational without its terminal line, no prompt owed) *)
Definition at_rest (s : pstate) : bool := match s with PReady _ | PTermQ => true | _ => false end.

(* a complete stream (everything the daemon wrote so far consists of whole lines / prompts) *)
Definition ok (s : text) : bool :=
  match tokens s with
  | Some ts => match run PStart ts with Some _ => true | None => false end
  | None => false
  end.
(* ... which in addition is not in the middle of a reply *)
Definition ok_rest (s : text) : bool :=
  match tokens s with
  | Some ts => match run PStart ts with Some st => at_rest st | None => false end
  | None => false
  end.

(* a stream cut anywhere (client dropped, output beyond the 1 MiB buffer lost at the end): the whole tokens obey
   the grammar and the rest can still become a line or a prompt *)
Definition partial_tok (r : text) : bool :=
  is_prefix r CP_PROMPT
  || (forallb (fun c => negb (N.eqb c 10)) r
      && eol_free (removelast r)
      && match r with
         | a :: b :: c :: s :: _ => is_digit a && is_digit b && is_digit c && N.eqb s 32
         | l => forallb is_digit l
         end).
Definition ok_prefix (s : text) : bool :=
  let (ts, rest) := lex_prefix (S (length s)) s in
  match run PStart ts with Some _ => partial_tok rest | None => false end.

(* the number of terminal lines (answers) in a token list *)
Definition is_term_tok (t : tok) : bool := match t with TLine c _ => is_terminal c | TPrompt => false end.
Definition terminals (ts : list tok) : nat := length (filter is_term_tok ts).
