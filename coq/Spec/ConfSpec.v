(* Property C13 -- what the node-to-plug map of a configuration IS, and the three assignment rules, stated directly
   over expansions (lists of names), independently of how pluglist.c / parse_tab.y compute them.

   The configuration record [cfg] (Model/Lexer.v) mirrors the C data: per device the plug list in List order, each
   plug with its name and the node it carries (or none); conf_nodes; the aliases.  [map_of] reads the map off that
   record; the rules below say which map a node line must produce.  No proofs in this file. *)
From Coq Require Import List NArith ZArith Bool.
From PM Require Import Base.Bytes Base.Outcome Gen.GenLex Model.Lexer.
Import ListNotations.

Definition plugtab : Type := list (text * option text).       (* (plug name, node carried) in list order *)

(* (node, plug) pairs a plug list holds *)
Definition assigned (pl : plugtab) : list (text * text) :=
  flat_map (fun e => match snd e with Some n => [(n, fst e)] | None => [] end) pl.

(* one line of the map: node, device, plug *)
Definition entry : Type := (text * text * text)%type.
Definition e_node (e : entry) : text := fst (fst e).
Definition e_dev (e : entry) : text := snd (fst e).
Definition e_plug (e : entry) : text := snd e.

Definition dev_entries (d : dev_s) : list entry :=
  map (fun np => (fst np, d_name d, snd np)) (assigned (d_plugs d)).

(* THE node-to-plug map of a configuration *)
Definition map_of (c : cfg) : list entry := flat_map dev_entries (c_devs c).

(* ---- the three rules of a node line `node "<nodes>" "<dev>" ["<plugs>"]`, over the expansions *)

(* with a plug list: the i-th node goes to the i-th plug; the two lists have the same length *)
Definition zip_rule (nodes plugs : list text) : option (list (text * text)) :=
  if Nat.eqb (length nodes) (length plugs) then Some (combine nodes plugs) else None.

(* without a plug list, device without hard-wired plugs: a plug named like the node *)
Definition same_name_rule (nodes : list text) : list (text * text) := map (fun n => (n, n)) nodes.

(* without a plug list, hard-wired device: ONE pass over the plug list in specification order handing the nodes,
   in order, to the plugs that carry no node yet (pluglist.c rescans the list from its head for every node) *)
Definition is_free (e : text * option text) : bool := match snd e with None => true | Some _ => false end.
Definition free_names (pl : plugtab) : list text := map fst (filter is_free pl).

Fixpoint fill (pl : plugtab) (nodes : list text) : plugtab :=
  match pl with
  | [] => []
  | (p, Some x) :: r => (p, Some x) :: fill r nodes
  | (p, None) :: r => match nodes with
                      | [] => (p, None) :: r
                      | n :: ns => (p, Some n) :: fill r ns
                      end
  end.

Definition next_free_rule (pl : plugtab) (nodes : list text) : option (list (text * text)) :=
  if Nat.leb (length nodes) (length (free_names pl)) then Some (combine nodes (free_names pl)) else None.

(* ---- the node lines of a token stream.  In an accepted stream the keyword `node` can only start a node line (it
   is a parse error everywhere else), so the lines can be read off the tokens without parsing anything else *)
Fixpoint node_lines (toks : list token) : list (text * text * option text) :=
  match toks with
  | TKw TOK_NODE :: r =>
      match r with
      | TStr a :: TStr b :: TStr p :: _ => (a, b, Some p) :: node_lines r
      | TStr a :: TStr b :: _ => (a, b, None) :: node_lines r
      | _ => node_lines r
      end
  | _ :: r => node_lines r
  | [] => []
  end.

(* ---- aliases *)
Definition aliases_ok (c : cfg) : Prop :=
  forall name hosts h, In (name, hosts) (c_aliases c) -> In h hosts -> In h (c_nodes c).

(* ---- boolean form of the per-configuration clauses, for the check's monitor (evaluated on the dump of the REAL
   data structures): nodes of the map = conf_nodes without repetition, no (device, plug) pair twice, aliases inside
   the node set, at least one node *)
Fixpoint nodup_text (l : list text) : bool :=
  match l with [] => true | x :: r => negb (mem_text x r) && nodup_text r end.

Fixpoint mem_pair (x : text * text) (l : list (text * text)) : bool :=
  match l with [] => false | y :: r => (text_eqb (fst x) (fst y) && text_eqb (snd x) (snd y)) || mem_pair x r end.

Fixpoint nodup_pair (l : list (text * text)) : bool :=
  match l with [] => true | x :: r => negb (mem_pair x r) && nodup_pair r end.

Definition map_ok (c : cfg) : bool :=
  let m := map_of c in
  nodup_text (map e_node m) &&
  forallb (fun n => mem_text n (c_nodes c)) (map e_node m) &&
  forallb (fun n => mem_text n (map e_node m)) (c_nodes c) &&
  nodup_text (c_nodes c) &&
  nodup_pair (map (fun e => (e_dev e, e_plug e)) m) &&
  forallb (fun a => forallb (fun h => mem_text h (c_nodes c)) (snd a)) (c_aliases c) &&
  match c_nodes c with [] => false | _ => true end.
