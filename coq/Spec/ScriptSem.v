(* What a device script MEANS for one action: the independent trace semantics C08 compares the interpreter
   model (Model/Script.v: exec-context stack, per-statement `processing` flags, plug iterators, do..while,
   advance) with.

   The meaning of a script is the set of observation sequences it allows, given in big-step style by
   structural recursion on the statement tree -- no stack, no program counter, no flags:
     * the statements of a block happen in program order, each exactly once, a statement only after every
       earlier one has finished;
     * `send` emits the format with `%s` replaced by the argument of the block (the single plug's name, or
       the range-compressed list of the block's plugs, or "(null)" when the block has no plug), `%%` -> `%`;
     * `expect` consumes a prefix of the unread device bytes that ends where the regular expression matched
       (it needs at least one unread byte), and remembers the sub-matches;
     * `delay` lasts at least its stated time (unless the daemon runs with -Y, [sc]);
     * `foreachplug` runs its body once per plug, in plug order, with that single plug as the argument:
       over the plugs the action targets in a ranged script, over all plugs of the device otherwise;
       `foreachnode` the same over the plugs that are mapped to a node;
     * `ifon` / `ifoff` run their body (same argument) when the state recorded for the block's first plug in the
       request's argument table is on / off AT THAT MOMENT, skip it when it is the opposite, and fail the
       action when it is unknown;
     * `setplugstate` / `setresult` record the captured text, classified by the FIRST matching pattern, for
       the plug named by the literal, else by the capture, else by the block's argument; nothing happens
       when the name, the text or the plug-to-node mapping is missing.
   A trace can stop anywhere (status [Cut]): that is what an action that is still running, or that timed
   out inside an `expect`, has produced so far.

   Only data types are shared with the model (plug, Arg, regmatch array); every function that decides
   something (argument of %s, substitution, capture, plug lookup, first interpretation, iteration list) is
   written here a second time, in the most direct way. *)
From Coq Require Import List NArith ZArith Bool.
From PM Require Import Base.Bytes Gen.GenConsts Model.ScriptAst Model.Enqueue Model.Script.
Import ListNotations.
Local Open Scope Z_scope.

(* ---------- observations ---------- *)
Inductive obs : Type :=
| OSend (bytes : text)                          (* these bytes were queued for the device *)
| OExpect (re : text) (consumed : text)         (* the expect of pattern [re] matched and consumed these device bytes *)
| ODelay (usec : Z) (t_start t_end : Z)         (* a delay of [usec] began at t_start and was over at t_end *)
| OSetState (table : option arglist)            (* a setplugstate ran; the request's argument table afterwards *)
| OSetResult (table : option arglist).          (* a setresult ran; the request's argument table afterwards *)

Inductive status : Type :=
| Done          (* ran to the end *)
| Fail          (* the script failed the action (ifon/ifoff on a plug of unknown state) *)
| Cut.          (* not finished (yet): the trace is a prefix *)

(* what a script can see besides the device bytes: the request's argument table (None for login / ping, which
   have none) and the sub-matches of the last successful expect on this device *)
Record sst : Type := mkSst { ss_args : option arglist; ss_xm : option (text * pmatch) }.

(* ---------- the deciding functions, written directly ---------- *)

(* printf with exactly the conversions %s and %% *)
Fixpoint subst (fmt : text) (a : text) : text :=
  match fmt with
  | 37%N :: 115%N :: r => a ++ subst r a
  | 37%N :: 37%N :: r => 37%N :: subst r a
  | c :: r => c :: subst r a
  | [] => []
  end.

Definition mapped (p : plug) : bool := match pl_node p with Some _ => true | None => false end.

(* $N of the last match: bytes [so, eo) of the subject *)
Definition capture (xm : option (text * pmatch)) (i : Z) : option text :=
  match xm with
  | None => None
  | Some (subj, pm) =>
      if (0 <=? i) && (i <=? MAX_MATCH_POS) then
        match nth_error pm (Z.to_nat i) with
        | Some (Some (so, eo)) => Some (firstn (eo - so) (skipn so subj))
        | _ => None
        end
      else None
  end.

Section Sem.
  Variable rmatch : text -> text -> option pmatch.     (* regcomp + regexec: pattern text, subject *)
  Variable compress : list text -> text.               (* sorted, range-compressed host list (C14) *)
  Variable sc : bool.                                  (* powermand -Y: delays are skipped *)
  Variable ranged : bool.                              (* the action runs one of the *_ranged scripts *)
  Variable devplugs : list plug.                       (* the device's plug table, in order *)

  Definition matches (re s : text) : bool := match rmatch re s with Some _ => true | None => false end.

  (* the argument of a block: what %s stands for *)
  Definition sem_arg (ps : option (list plug)) : text :=
    match ps with
    | Some [p] => pl_name p
    | Some (p :: q :: r) => compress (map pl_name (p :: q :: r))
    | _ => null_text
    end.

  (* the plugs a foreach in a block with plugs [ps] runs over *)
  Definition sem_list (ps : option (list plug)) : list plug :=
    if ranged then match ps with Some l => l | None => [] end else devplugs.

  (* the node a plug name of this device is wired to *)
  Definition node_of (name : text) : option text :=
    match find (fun p => text_eqb (pl_name p) name) devplugs with
    | Some p => pl_node p
    | None => None
    end.

  (* the first pattern that matches decides *)
  Definition interp (ints : list (Z * text)) (str : text) (dflt : Z) : Z :=
    match find (fun cr => matches (snd cr) str) ints with
    | Some (code, _) => code
    | None => dflt
    end.

  Definition first_name (ps : option (list plug)) : option text :=
    match ps with Some (p :: _) => Some (pl_name p) | _ => None end.

  (* the state the request's table holds for the block's (first) plug *)
  Definition known_state (ps : option (list plug)) (al : option arglist) : Z :=
    match ps, al with
    | Some (p :: _), Some al =>
        match pl_node p with
        | Some n => match arg_find al n with Some x => ar_state x | None => ST_UNKNOWN end
        | None => ST_UNKNOWN
        end
    | _, _ => ST_UNKNOWN
    end.

  (* setplugstate: (node, state, text) to record, if any *)
  Definition state_effect (ps : option (list plug)) (lit : option text) (plug_mp stat_mp : Z) (ints : list (Z * text)) (s : sst)
    : option (text * Z * text) :=
    let name := match lit with
                | Some l => Some l
                | None => match capture (ss_xm s) plug_mp with Some n => Some n | None => first_name ps end
                end in
    match name with
    | None => None
    | Some pn =>
        match capture (ss_xm s) stat_mp, node_of pn with
        | Some str, Some node => Some (node, interp ints str ST_UNKNOWN, str)
        | _, _ => None
        end
    end.

  (* setresult: the plug name comes from the capture only; the node must be one of the request's *)
  Definition result_effect (plug_mp stat_mp : Z) (ints : list (Z * text)) (s : sst) : option (text * Z * text) :=
    match capture (ss_xm s) plug_mp with
    | None => None
    | Some pn =>
        match capture (ss_xm s) stat_mp, node_of pn with
        | Some str, Some node => Some (node, interp ints str RT_UNKNOWN, str)
        | _, _ => None
        end
    end.

  Definition record_state (eff : option (text * Z * text)) (s : sst) : sst :=
    match eff, ss_args s with
    | Some (node, st, str), Some al =>
        mkSst (Some (arg_update al node (fun x => mkArg (ar_node x) st (ar_result x) (Some str)))) (ss_xm s)
    | _, _ => s
    end.
  Definition record_result (eff : option (text * Z * text)) (s : sst) : sst :=
    match eff, ss_args s with
    | Some (node, res, str), Some al =>
        mkSst (Some (arg_update al node (fun x => mkArg (ar_node x) (ar_state x) res (Some str)))) (ss_xm s)
    | _, _ => s
    end.

  Definition same_plugs (ps : option (list plug)) : option (list plug) :=
    Some (match ps with Some l => l | None => [] end).

  (* ---------- the semantics ----------
     exec_stmt x ps s tr s' st : statement x, in a block whose plugs are ps, started in state s, allows the
     observations tr, ending in state s' with status st *)
  Inductive exec_stmt : stmt -> option (list plug) -> sst -> list obs -> sst -> status -> Prop :=
  | X_cut x ps s :                                  (* not started yet: nothing observed *)
      exec_stmt x ps s [] s Cut
  | X_send fmt ps s :
      exec_stmt (Send fmt) ps s [OSend (subst fmt (sem_arg ps))] s Done
  | X_expect re ps s buf pm so eo :
      buf <> [] -> rmatch re (nul_to_ff buf) = Some pm -> nth_error pm 0 = Some (Some (so, eo)) ->
      exec_stmt (Expect re) ps s [OExpect re (firstn eo buf)] (mkSst (ss_args s) (Some (nul_to_ff buf, pm))) Done
  | X_delay us ps s t0 t1 :
      sc = true \/ t0 + us <= t1 ->
      exec_stmt (Delay us) ps s [ODelay us t0 t1] s Done
  | X_setplugstate lit pmp smp ints ps s s' :
      s' = record_state (state_effect ps lit pmp smp ints s) s ->
      exec_stmt (SetPlugState lit pmp smp ints) ps s [OSetState (ss_args s')] s' Done
  | X_setresult pmp smp ints ps s s' :
      s' = record_result (result_effect pmp smp ints s) s ->
      exec_stmt (SetResult pmp smp ints) ps s [OSetResult (ss_args s')] s' Done
  | X_foreachplug body ps s tr s' st :
      exec_iter body (sem_list ps) s tr s' st ->
      exec_stmt (ForeachPlug body) ps s tr s' st
  | X_foreachnode body ps s tr s' st :
      exec_iter body (filter mapped (sem_list ps)) s tr s' st ->
      exec_stmt (ForeachNode body) ps s tr s' st
  | X_ifon_run body ps s tr s' st :
      known_state ps (ss_args s) = ST_ON -> exec_block body (same_plugs ps) s tr s' st ->
      exec_stmt (IfOn body) ps s tr s' st
  | X_ifon_skip body ps s :                       (* off (the table holds no other value than on / off / unknown) *)
      known_state ps (ss_args s) <> ST_ON -> known_state ps (ss_args s) <> ST_UNKNOWN ->
      exec_stmt (IfOn body) ps s [] s Done
  | X_ifon_fail body ps s :
      known_state ps (ss_args s) = ST_UNKNOWN ->
      exec_stmt (IfOn body) ps s [] s Fail
  | X_ifoff_run body ps s tr s' st :
      known_state ps (ss_args s) = ST_OFF -> exec_block body (same_plugs ps) s tr s' st ->
      exec_stmt (IfOff body) ps s tr s' st
  | X_ifoff_skip body ps s :                      (* on *)
      known_state ps (ss_args s) <> ST_OFF -> known_state ps (ss_args s) <> ST_UNKNOWN ->
      exec_stmt (IfOff body) ps s [] s Done
  | X_ifoff_fail body ps s :
      known_state ps (ss_args s) = ST_UNKNOWN ->
      exec_stmt (IfOff body) ps s [] s Fail

  (* a block: its statements in order; a statement starts only when the previous one is Done *)
  with exec_block : list stmt -> option (list plug) -> sst -> list obs -> sst -> status -> Prop :=
  | B_nil ps s :
      exec_block [] ps s [] s Done
  | B_cut b ps s :
      exec_block b ps s [] s Cut
  | B_cons x r ps s tr1 s1 tr2 s2 st :
      exec_stmt x ps s tr1 s1 Done -> exec_block r ps s1 tr2 s2 st ->
      exec_block (x :: r) ps s (tr1 ++ tr2) s2 st
  | B_stop x r ps s tr s' st :
      st <> Done -> exec_stmt x ps s tr s' st ->
      exec_block (x :: r) ps s tr s' st

  (* a foreach: the body once per plug of the list, in list order, the plug being the body's only argument *)
  with exec_iter : list stmt -> list plug -> sst -> list obs -> sst -> status -> Prop :=
  | I_nil body s :
      exec_iter body [] s [] s Done
  | I_cons body p r s tr1 s1 tr2 s2 st :
      exec_block body (Some [p]) s tr1 s1 Done -> exec_iter body r s1 tr2 s2 st ->
      exec_iter body (p :: r) s (tr1 ++ tr2) s2 st
  | I_stop body p r s tr s' st :
      st <> Done -> exec_block body (Some [p]) s tr s' st ->
      exec_iter body (p :: r) s tr s' st.

  (* the meaning of a whole script for an action whose plug argument is [ps] *)
  Definition exec_script (script : list stmt) (ps : option (list plug)) (s0 : sst) (tr : list obs) (s' : sst) (st : status) : Prop :=
    exec_block script ps s0 tr s' st.
End Sem.

(* ---------- views of a trace ---------- *)
Definition sent_of (tr : list obs) : text := flat_map (fun o => match o with OSend b => b | _ => [] end) tr.
Definition consumed_of (tr : list obs) : text := flat_map (fun o => match o with OExpect _ b => b | _ => [] end) tr.
Definition delays_ok (sc : bool) (tr : list obs) : Prop :=
  Forall (fun o => match o with ODelay us t0 t1 => sc = true \/ t0 + us <= t1 | _ => True end) tr.

(* nesting levels of a block: 1 for a block without inner blocks *)
Fixpoint stmt_levels (s : stmt) : nat :=
  match s with
  | ForeachPlug b | ForeachNode b | IfOn b | IfOff b =>
      S ((fix go (l : list stmt) : nat := match l with [] => O | x :: r => Nat.max (stmt_levels x) (go r) end) b)
  | _ => O
  end.
Definition block_levels (b : list stmt) : nat :=
  S ((fix go (l : list stmt) : nat := match l with [] => O | x :: r => Nat.max (stmt_levels x) (go r) end) b).
