(* What the C17 rules are FOR: the calls a script execution makes into the two unsafe primitives of device.c,
   hsprintf(fmt, arg) and xregex_match_sub_strdup(dev->xmatch, i), stated independently of the checker.

   [run arg block trace]: [trace] is the sequence of primitive calls of one complete execution of [block] by
   device.c:_process_action / _process_stmt, started with a plug argument present ([arg] = true) or absent:
     send fmt            -> hsprintf(fmt, plug name | compressed plug list | NULL)          (_process_send)
     expect re           -> a successful match of re; dev->xmatch now belongs to re          (_process_expect)
     setplugstate        -> sub_strdup(plug_mp) unless a literal plug is given, then sub_strdup(stat_mp)
     setresult           -> sub_strdup(plug_mp), sub_strdup(stat_mp), then possibly act->dpf_fun(...)
     delay               -> nothing
     foreachplug/node    -> the body any number of times (once per plug), each time with ONE plug as argument
     ifon / ifoff        -> skipped, or (only when a plug context exists: _process_ifonoff looks the state up
                            through e->plugs) the body once with the enclosing plugs
   Every real execution -- including one cut short by a failed expect, a time-out or a disconnect -- is a
   PREFIX of such a trace, which is why the safety statements below speak about every decomposition
   trace = pre ++ event :: post.  The over-approximations (any iteration count, both branches, sub_strdup(stat)
   even when the plug did not resolve) only add traces. *)
From Coq Require Import List NArith ZArith Bool.
From PM Require Import Base.Bytes Gen.GenConsts Model.ScriptAst Model.RegexSyn Model.Fmt Model.SpecCheck.
Import ListNotations.

Inductive event : Type :=
| EvSend (fmt : text) (arg : bool)         (* hsprintf(fmt, arg); arg = false: NULL *)
| EvExpect (re : text)                     (* successful expect *)
| EvSub (n : Z) (optional : bool)          (* xregex_match_sub_strdup(xmatch, n); optional: the omitted-plug slot *)
| EvDiag.                                  (* act->dpf_fun may be called *)

Definition loop_body (s : stmt) : option (list stmt) :=
  match s with ForeachPlug b | ForeachNode b => Some b | _ => None end.
Definition if_body (s : stmt) : option (list stmt) :=
  match s with IfOn b | IfOff b => Some b | _ => None end.

Inductive run : bool -> list stmt -> list event -> Prop :=
| run_nil a : run a [] []
| run_send a f r tr : run a r tr -> run a (Send f :: r) (EvSend f a :: tr)
| run_expect a re r tr : run a r tr -> run a (Expect re :: r) (EvExpect re :: tr)
| run_sps_lit a name p q il r tr :
    run a r tr -> run a (SetPlugState (Some name) p q il :: r) (EvSub q false :: tr)
| run_sps a p q il r tr :
    run a r tr -> run a (SetPlugState None p q il :: r) (EvSub p true :: EvSub q false :: tr)
| run_sr a p q il r tr :
    run a r tr -> run a (SetResult p q il :: r) (EvSub p false :: EvSub q false :: EvDiag :: tr)
| run_delay a d r tr : run a r tr -> run a (Delay d :: r) tr
| run_loop_done a s b r tr : loop_body s = Some b -> run a r tr -> run a (s :: r) tr
| run_loop_iter a s b r t1 t2 :
    loop_body s = Some b -> run true b t1 -> run a (s :: r) t2 -> run a (s :: r) (t1 ++ t2)
| run_if_skip a s b r tr : if_body s = Some b -> run a r tr -> run a (s :: r) tr
| run_if_take s b r t1 t2 :
    if_body s = Some b -> run true b t1 -> run true r t2 -> run true (s :: r) (t1 ++ t2).

(* hsprintf(fmt, arg) = vsnprintf with ONE variadic argument: safe iff every argument the format fetches is a
   string, it fetches at most one, and the argument is there when it does *)
Definition fmt_safe (arg : bool) (fmt : text) : Prop :=
  (forall t, In t (fmt_args fmt) -> t = AStr) /\
  (length (fmt_args fmt) <= 1)%nat /\
  (fmt_args fmt <> [] -> arg = true).

(* the expect whose match dev->xmatch holds after the calls [pre] *)
Fixpoint last_expect_from (acc : option text) (tr : list event) : option text :=
  match tr with
  | [] => acc
  | EvExpect re :: r => last_expect_from (Some re) r
  | _ :: r => last_expect_from acc r
  end.
Definition last_expect (tr : list event) : option text := last_expect_from None tr.

(* sub_strdup(n) after the calls [pre]: an expect has run (else assert(xm->xm_used) aborts the daemon), its pattern
   compiles, and n names one of ITS groups within the match array -- or it is the omitted plug slot *)
Definition sub_safe (pre : list event) (n : Z) (optional : bool) : Prop :=
  exists re g, last_expect pre = Some re /\ ngroups re = Some g /\
    ((optional = true /\ n = (-1)%Z) \/ (0 <= n <= Z.of_nat g /\ n <= MAX_MATCH_POS)%Z).

(* scoping (feeds C01): foreach only in script kinds that may iterate over the device's plugs, ifon/ifoff only
   where a plug context exists, setresult only where a diagnostic callback exists, no block is empty *)
Inductive scoped_block (idx : Z) : bool -> list stmt -> Prop :=
| sb_nil a : scoped_block idx a []
| sb_loop a s b r : loop_body s = Some b -> b <> [] -> foreach_allowed idx = true ->
    scoped_block idx true b -> scoped_block idx a r -> scoped_block idx a (s :: r)
| sb_if a s b r : if_body s = Some b -> b <> [] -> a = true ->
    scoped_block idx true b -> scoped_block idx a r -> scoped_block idx a (s :: r)
| sb_other a s r : loop_body s = None -> if_body s = None ->
    (forall p q il, s = SetResult p q il -> no_diag idx = false) ->
    scoped_block idx a r -> scoped_block idx a (s :: r).

Definition scoped_script (sc : Z * list stmt) : Prop :=
  snd sc <> [] /\ scoped_block (fst sc) (top_arg (kind_of (fst sc))) (snd sc).
