(* Reference semantics of a range array: the list of names it denotes.  Independent of every hostlist.c
   algorithm; shares only the vocabulary (hrange, and pad = printf "%0*lu") with the model. *)
From Coq Require Import List NArith ZArith Bool.
From PM Require Import Base.Bytes Model.HL.
Import ListNotations.
Local Open Scope N_scope.

Definition names (r : hrange) : list text :=
  if hr_single r then [hr_prefix r]
  else map (fun k => hr_prefix r ++ pad (hr_width r) k) (nseq (hr_lo r) (N.to_nat (hr_hi r + 1 - hr_lo r))).

Definition expand (h : hostlist) : list text := flat_map names h.

(* position of the first occurrence, -1 if absent (what hostlist_find should answer) *)
Fixpoint index_of (n : text) (l : list text) : Z :=
  match l with
  | [] => (-1)%Z
  | x :: l' => if text_eqb x n then 0%Z else let r := index_of n l' in if (r <? 0)%Z then (-1)%Z else (r + 1)%Z
  end.

(* well-formed range arrays: what every public operation of hostlist.c produces from legal input.
   A plain name has lo = hi = 0 (hostrange_create_single); a numbered range is non-empty and stays below
   ULONG_MAX (hostrange_empty reads hi == ULONG_MAX as "empty"). *)
Definition wf_range (r : hrange) : Prop :=
  if hr_single r then hr_lo r = 0 /\ hr_hi r = 0 else hr_lo r <= hr_hi r /\ hr_hi r < ULONG_MAX.
Definition wf (h : hostlist) : Prop := Forall wf_range h.

(* the trailing digit run of a name, read as a number, is at most MAX_HOST_SUFFIX (F11) *)
Definition suffix_small (n : text) : Prop :=
  digit_val (rev (fst (span is_digit (rev n)))) <= PM.Gen.GenHL.MAX_HOST_SUFFIX.

Fixpoint remove_at {A} (i : nat) (l : list A) : list A :=
  match l, i with
  | [], _ => []
  | _ :: l', O => l'
  | x :: l', S i' => x :: remove_at i' l'
  end.

(* the list holds fewer than 2^31 names (hostlist.c counts in `int`) *)
Definition small (h : hostlist) : Prop := (Z.of_nat (length (expand h)) < 2147483648)%Z.

(* every name fits hostlist_nth's buffer: prefix + printed number at most HRSTR_LIMIT - 1 = 78 bytes
   (the property's quantifier has 63) *)
Definition short_range (r : hrange) : Prop :=
  (length (hr_prefix r) + (if hr_single r then 0 else Nat.max (hr_width r) (ndigits (hr_hi r))) <= N.to_nat PM.Gen.GenHL.HRSTR_LIMIT - 1)%nat.
Definition short (h : hostlist) : Prop := Forall short_range h.
