(* C19: the documented plug-hierarchy rules of redfishpower(8) ("HIERARCHY CONFIGURATION"), written
   top-down per target from its ancestor chain.  Independent of Model/Redfish.v's list machinery: no
   activecmds / waitcmds / delayedcmds here, no passes, no de-duplication -- one target after the other,
   shallowest first, each looking at the status of its ancestors root-first.

     stat: the first ancestor that is not "on" (off / error) defines the target's status; all on -> own status
     on  : an ancestor that is not on -> refused, naming the dependency; all on -> carried out
     off : an ancestor that is off -> ok (nothing to do); an ancestor in error -> refused; all on -> carried out,
           and every descendant of the target is off afterwards
     on over two or more targets among which one is an ancestor of another: every target is refused
     a failing host answers "error" to every query / operation on its plugs
     unknown plug names are reported, one line each

   All message texts are spelled out here by hand (they are what powerman's redfishpower-*.dev scripts and
   the man page show); the model prints through the format strings of the current source. *)
From Coq Require Import List NArith Bool.
From PM Require Import Base.Bytes.
Import ListNotations.

Inductive scmd := SpStat | SpOn | SpOff.
Inductive sstat := StOn | StOff | StErr.

Record node := mkNode { n_name : text; n_host : text; n_parent : option text }.
Definition forest := list node.

Definition node_of (f : forest) (p : text) : option node := find (fun n => text_eqb (n_name n) p) f.
Definition known (f : forest) (p : text) : bool := existsb (fun n => text_eqb (n_name n) p) f.
Definition smem (x : text) (l : list text) : bool := existsb (text_eqb x) l.

(* proper ancestors of p, nearest first; fuel = number of plugs is enough in a forest *)
Fixpoint ancestors_go (fuel : nat) (f : forest) (p : text) : list text :=
  match fuel with
  | O => []
  | S k => match node_of f p with
           | Some n => match n_parent n with
                       | Some q => q :: ancestors_go k f q
                       | None => []
                       end
           | None => []
           end
  end.
Definition ancestors (f : forest) (p : text) : list text := ancestors_go (length f) f p.
Definition chain (f : forest) (p : text) : list text := rev (ancestors f p).     (* root first *)
Definition depth (f : forest) (p : text) : nat := length (ancestors f p).
Definition descendant (f : forest) (x a : text) : bool := smem a (ancestors f x).

Definition statmap := list (text * sstat).
Definition st_get (m : statmap) (p : text) : sstat :=
  match find (fun e => text_eqb (fst e) p) m with Some e => snd e | None => StOff end.
Fixpoint st_set (m : statmap) (p : text) (s : sstat) : statmap :=
  match m with
  | [] => [(p, s)]
  | e :: r => if text_eqb (fst e) p then (p, s) :: r else e :: st_set r p s
  end.

Definition host_of (f : forest) (p : text) : text :=
  match node_of f p with Some n => n_host n | None => [] end.

(* what a query of plug p answers now *)
Definition qstat (f : forest) (fail : list text) (m : statmap) (p : text) : sstat :=
  if smem (host_of f p) fail then StErr else st_get m p.

Definition is_on (s : sstat) : bool := match s with StOn => true | _ => false end.

(* the first ancestor, root first, that is not on *)
Definition blocker (f : forest) (fail : list text) (m : statmap) (p : text) : option (text * sstat) :=
  match find (fun a => negb (is_on (qstat f fail m a))) (chain f p) with
  | Some a => Some (a, qstat f fail m a)
  | None => None
  end.

Definition word (s : sstat) : text :=
  match s with StOn => bs "on"%string | StOff => bs "off"%string | StErr => bs "error"%string end.
Definition cword (c : scmd) : text :=
  match c with SpStat => bs "stat"%string | SpOn => bs "on"%string | SpOff => bs "off"%string end.

Definition line (p res : text) : text := p ++ bs ": "%string ++ res ++ [LF].
Definition dependency_line (f : forest) (c : scmd) (p a : text) (s : sstat) : text :=
  line p (bs "cannot perform "%string ++ cword c ++ bs ", dependency "%string ++ word s ++
          bs " (host="%string ++ host_of f a ++ bs " plug="%string ++ a ++ bs ")"%string).

(* all descendants of p go off with it *)
Definition cascade_off (f : forest) (m : statmap) (p : text) : statmap :=
  fold_left (fun m' n => if descendant f (n_name n) p then st_set m' (n_name n) StOff else m') f (st_set m p StOff).

(* one target: its line and the status map afterwards *)
Definition answer (f : forest) (fail : list text) (c : scmd) (m : statmap) (p : text) : text * statmap :=
  match blocker f fail m p with
  | Some (a, s) =>
    match c, s with
    | SpStat, _ => (line p (word s), m)
    | SpOff, StOff => (line p (bs "ok"%string), m)
    | _, _ => (dependency_line f c p a s, m)
    end
  | None =>
    if smem (host_of f p) fail then (line p (bs "error"%string), m)
    else match c with
         | SpStat => (line p (word (st_get m p)), m)
         | SpOn => (line p (bs "ok"%string), st_set m p StOn)
         | SpOff => (line p (bs "ok"%string), cascade_off f m p)
         end
  end.

(* shallowest first, otherwise in the order given (stable insertion sort on depth) *)
Fixpoint insert_by_depth (f : forest) (p : text) (l : list text) : list text :=
  match l with
  | [] => [p]
  | q :: r => if Nat.ltb (depth f p) (depth f q) then p :: l else q :: insert_by_depth f p r
  end.
Definition by_depth (f : forest) (l : list text) : list text :=
  fold_left (fun acc p => insert_by_depth f p acc) l [].

Fixpoint related_pair (f : forest) (l : list text) : bool :=
  match l with
  | [] => false
  | p :: r => existsb (fun q => descendant f p q || descendant f q p) r || related_pair f r
  end.

Fixpoint answers (f : forest) (fail : list text) (c : scmd) (m : statmap) (ps : list text) : list text * statmap :=
  match ps with
  | [] => ([], m)
  | p :: r => let (l, m1) := answer f fail c m p in
              let (ls, m2) := answers f fail c m1 r in (l :: ls, m2)
  end.

(* the expected stdout (as a multiset of lines) and status map of `c targets` *)
Definition expected (f : forest) (fail : list text) (m : statmap) (c : scmd) (targets : list text)
  : list text * statmap :=
  let unknown := map (fun p => bs "unknown plug specified: "%string ++ p ++ [LF]) (filter (fun p => negb (known f p)) targets) in
  let ts := filter (known f) targets in
  match c with
  | SpOn =>
    if related_pair f ts
    then (unknown ++ map (fun p => line p (bs "cannot turn on parent and child"%string)) ts, m)
    else let (ls, m') := answers f fail c m (by_depth f ts) in (unknown ++ ls, m')
  | _ => let (ls, m') := answers f fail c m (by_depth f ts) in (unknown ++ ls, m')
  end.
