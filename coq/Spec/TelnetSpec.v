(* The independent statement C09 compares the telnet filter with: a decoder of the WHOLE byte stream a device
   sent on one connection, written as a grammar-directed recursive descent with look-ahead.  It knows nothing
   about reads, buffers or carried state, so "independent of how the stream was split into reads" is true of it
   by construction; the theorem C09_telnet says the incremental filter + circular buffer computes the same thing
   for every split and every interleaved consumption.

     stream ::= item*
     item   ::= IAC IAC              -> the data byte 0xFF
              | IAC (DO|DONT|WILL|WONT) opt   -> option negotiation, removed; DO opt is answered
              | IAC c                -> any other command byte c: removed
              | b   (b <> IAC)       -> data byte b
   A stream that ends inside an item leaves that item pending (nothing emitted for it).

   Subnegotiation (IAC SB ... IAC SE) is NOT interpreted, exactly as in device_tcp.c: IAC SB and IAC SE are
   removed as single commands and the parameter bytes in between pass as data.  powerman refuses (WONT) every
   option whose use would involve subnegotiation, so a conforming peer never sends one. *)
From Coq Require Import List NArith ZArith Bool.
From PM Require Import Base.Bytes Gen.GenCbuf.
Import ListNotations.

Definition is_optcmd (c : byte) : bool :=
  N.eqb c T_DO || N.eqb c T_DONT || N.eqb c T_WILL || N.eqb c T_WONT.

(* the answer powerman gives to IAC cmd opt, as the three bytes queued for the device; [] = no answer *)
Definition will_opts : list byte := [TELOPT_SGA; TELOPT_TM].
Definition wont_opts : list byte :=
  [TELOPT_TTYPE; TELOPT_NAWS; TELOPT_NEW_ENVIRON; TELOPT_XDISPLOC; TELOPT_TSPEED; TELOPT_ECHO; TELOPT_LFLOW; TELOPT_BINARY].
Definition mem (b : byte) (l : list byte) : bool := existsb (N.eqb b) l.

Definition answer (cmd opt : byte) : list byte :=
  if N.eqb cmd T_DO then
    if mem opt will_opts then [T_IAC; T_WILL; opt]
    else if mem opt wont_opts then [T_IAC; T_WONT; opt]
    else []
  else [].

(* (data bytes, answers) of a whole stream *)
Fixpoint parse (s : list byte) : list byte * list byte :=
  match s with
  | [] => ([], [])
  | b :: r =>
      if N.eqb b T_IAC then
        match r with
        | [] => ([], [])                                             (* pending IAC *)
        | c :: r' =>
            if N.eqb c T_IAC then let (d, a) := parse r' in (255%N :: d, a)
            else if is_optcmd c then
              match r' with
              | [] => ([], [])                                       (* pending IAC cmd *)
              | o :: r'' => let (d, a) := parse r'' in (d, answer c o ++ a)
              end
            else parse r'
        end
      else let (d, a) := parse r in (b :: d, a)
  end.

Definition data (s : list byte) : list byte := fst (parse s).
Definition replies (s : list byte) : list byte := snd (parse s).

(* the same decoder with its position inside an item made explicit, one byte at a time (used to state
   compositionality: decode st (a ++ b) = decode (state after a) b) *)
Inductive dstate := DNone | DCmd | DOpt (cmd : byte).

Definition dstep (st : dstate) (b : byte) : dstate * list byte * list byte :=
  match st with
  | DNone => if N.eqb b T_IAC then (DCmd, [], []) else (DNone, [b], [])
  | DCmd => if N.eqb b T_IAC then (DNone, [255%N], [])
            else if is_optcmd b then (DOpt b, [], [])
            else (DNone, [], [])
  | DOpt c => (DNone, [], answer c b)
  end.

Fixpoint decode (st : dstate) (s : list byte) : dstate * list byte * list byte :=
  match s with
  | [] => (st, [], [])
  | b :: r =>
      match dstep st b with
      | (st1, d1, a1) => match decode st1 r with (st2, d2, a2) => (st2, d1 ++ d2, a1 ++ a2) end
      end
  end.
