(* C04, daemon level: "... in bounded time" for the whole select loop, WITHOUT assuming that the devices stay steady.

   The link from pass times to requested time-outs:
     dtimely sigma lim t0 rs outs   the clocks of the rounds never go back, and every round comes no later than sigma after the
                                    wake-up the previous round asked poll for (its do_tmo, when there is one; lim = the wake-up
                                    requested before the first round).  xpoll hands poll the time-out rounded DOWN to a millisecond
                                    (Model/Xpoll.ms_of) and never asks for more than what is left (C04_xpoll_within_deadline:
                                    elapsed + ms * 1000 <= max tv elapsed): the daemon's own arithmetic adds no lateness, sigma
                                    stands for the latency of the operating system (poll's wake-up, scheduling) alone.
     dev_loop_dev / dstep_dev       one round, projected on a device: the device at index j of the state the client pass leaves makes
                                    exactly one pass (Device.post_poll_one, with SOME store and incoming time-out, on the round's transport answer
                                    for it after the transport's preprocess method: DaemonDeadline.dev_pin),
                                    ends up at index j again, and the time-out the round requests is no later than the one this
                                    device asked for
     quiet_for id rs st             in every round of the run, every device that holds an action of client `id` after the client
                                    pass is the device that was at the same index before it: the client pass appends nothing to the
                                    devices working for `id` and queues nothing new for `id` (no further request line of that client
                                    is executed, no other client's command lands on those devices)
     no_input_quiet                 sufficient: a round in which no client descriptor reports anything (NL: no complete line is
                                    buffered between rounds) leaves all devices as they are
     steady_for id S rs st          in every round, the devices with index in S that work for `id` keep their queue in the front part
                                    of their pass (DeviceDeadline.steady), whatever time-out they are handed
     drun_bounded                   the invariant carried through `drun`: before each round every device working for `id` is either
                                    in S, steady, with DeviceDeadline.bound <= B, or satisfies the hypotheses of
                                    DeviceDeadlineBackoff.pot_pass with potential <= B; hence a round whose clock has reached B
                                    leaves no action of `id` queued
     daemon_bounded_time            DPInv st, timely rounds, quiet_for id, every device working for `id` has time-out + sigma below
                                    the largest back-off step and potential <= B at the first round: if the clock of the last round
                                    has reached B then no device holds an action of `id`, the client has no command in progress and
                                    its output holds one terminal reply per request line (DaemonDeadline.answered) - whatever the
                                    peers of the devices did (silence, garbage, refusals, hang-ups, flapping)
     daemon_bounded_time_explicit   the same with B in closed form (DeviceDeadlineBackoff.pot_le)
     daemon_bounded_time_steady     every device working for `id` stays steady: any time-out, no timeliness needed (clocks that do
                                    not go back suffice), B = the largest DeviceDeadline.bound = head stamp + span * time-out
     daemon_bounded_time_mixed      both kinds of devices at once

   OPEN (not proved here): that the real poll wakes the daemon within sigma of the requested time-out is an assumption about the
   operating system (dtimely is a hypothesis on the recorded rounds; C04_xpoll_within_deadline only says xpoll does not sleep
   LONGER than asked as far as its own arithmetic goes); and quiet_for is a hypothesis on the run: a theorem deriving it from
   "the client sends no further line and no other client names a plug of these devices" is not proved (no_input_quiet_for
   covers runs without any client input). *)
From Coq Require Import List NArith ZArith Bool Lia Permutation.
From PM Require Import Base.Bytes Base.Outcome Gen.GenConsts Model.ScriptAst Model.Enqueue Model.Script Model.Device Model.DevHarness
                       Model.Client Model.CliWorld Model.Daemon Spec.Proto
                       Proofs.ClientProofs Proofs.ClientProto Proofs.ClientStream Proofs.ClientStreamQ Proofs.DeviceInv Proofs.DeviceRun Proofs.DeviceInvG Proofs.DeviceRunG Proofs.DeviceHang
                       Proofs.DeviceSlots Proofs.DaemonLedger Proofs.DaemonFrame Proofs.DaemonSlots Proofs.DaemonPending Proofs.DeviceMask Proofs.DeviceDeadline
                       Proofs.DaemonDeadline Proofs.DeviceDeadlineBackoff.
Import ListNotations.
Local Open Scope Z_scope.

Fixpoint last_rclock (t : Z) (rs : list round) : Z := match rs with [] => t | r :: rest => last_rclock (r_now r) rest end.

Lemma tmo_le_wake_covers now t t' d : tmo_le t t' -> lim_covers (wake now t') d -> lim_covers (wake now t) d.
Proof.
  intros Hle Hc a r s Ea Es. destruct (Hc a r s Ea Es) as (x & Ex & Hx).
  destruct t' as [x'|]; [|discriminate Ex]. cbn [wake] in Ex. injection Ex as <-.
  destruct (Hle x' eq_refl) as (y & -> & Hy). exists (now + y). split; [reflexivity|lia].
Qed.
Lemma incl_nil_eq {A} (l : list A) : incl l [] -> l = [].
Proof. destruct l as [|a l]; [reflexivity|]. intros H. destruct (H a (or_introl eq_refl)). Qed.
Lemma pad_cins_nil n : pad_cins n [] = repeat cin0 n.
Proof. induction n as [|n IH]; [reflexivity|]. cbn [pad_cins repeat]. now rewrite IH. Qed.

Section DP.
  Variable expand_str : text -> option (list text).
  Variable ranged_sorted : list text -> text.
  Variable ranged_plain : list text -> text.
  Variable sorted : list text -> list text.
  Variable rmatch : text -> text -> option pmatch.
  Variable compress : list text -> text.
  Variable short_circuit : bool.
  Variable sigma : Z.
  Hypothesis Hsigma : 0 <= sigma.

  Notation cli_post_poll := (cli_post_poll expand_str ranged_sorted ranged_plain sorted).
  Notation cli_loop := (cli_loop expand_str ranged_sorted ranged_plain sorted).
  Notation dev_loop := (dev_loop ranged_sorted rmatch compress short_circuit).
  Notation dstep := (dstep expand_str ranged_sorted ranged_plain sorted rmatch compress short_circuit).
  Notation drun := (drun expand_str ranged_sorted ranged_plain sorted rmatch compress short_circuit).
  Notation ppo := (post_poll_one rmatch compress short_circuit).
  Notation DPInv := (DPInv compress).

  (* ---------- one device pass of the round, projected on a device ---------- *)
  Lemma dev_loop_dev n : forall now st i pins tmo acc st' tmof evs, DPInv st -> tmo_pos tmo ->
    (length (dm_devs st) <= n + i)%nat ->
    dev_loop n now st i pins tmo acc = Ok (st', tmof, evs) ->
    tmo_le tmof tmo /\
    (forall j, (j < i)%nat -> nth_error (dm_devs st') j = nth_error (dm_devs st) j) /\
    (forall j d, (i <= j)%nat -> nth_error (dm_devs st) j = Some d ->
       exists store tmoj d' store' tmo' ev', tmo_pos tmoj /\
         ppo now d store tmoj (dev_pin st j (nth (j - i) pins passin0)) = Ok (d', store', tmo', ev') /\
         nth_error (dm_devs st') j = Some d' /\ tmo_le tmof tmo').
  Proof.
    induction n as [|n IH]; intros now st i pins tmo acc st' tmof evs I Hp Hlen.
    - cbn [Daemon.dev_loop]. intros H; inversion H; subst. split; [apply tmo_le_refl|]. split; [reflexivity|].
      intros j d Hj Hn. exfalso. assert (nth_error (dm_devs st') j = None) by (apply nth_error_None; lia). congruence.
    - pose proof (dev_loop_inv expand_str ranged_sorted ranged_plain sorted rmatch compress short_circuit 1 now st i pins tmo acc I Hp) as H1.
      cbn [Daemon.dev_loop] in H1 |- *.
      destruct (nth_error (dm_devs st) i) as [d|] eqn:En.
      2:{ intros H; inversion H; subst. split; [apply tmo_le_refl|]. split; [reflexivity|].
          intros j d Hj Hn. exfalso. apply nth_error_None in En.
          assert (nth_error (dm_devs st') j = None) by (apply nth_error_None; lia). congruence. }
      destruct (with_pre (nth i (dm_pipe st) true) (nth i (dm_tel st) Telnet.telnet_init) (hd passin0 pins)) as [pin t1] eqn:Ew.
      assert (Hd : DInvRG compress d) by (pose proof (dp_devs _ _ I) as H; rewrite Forall_forall in H; apply DInvH_RG, H; eapply nth_error_In; exact En).
      destruct Hd as [Hd Hrc].
      pose proof (post_poll_one_inv_pre rmatch compress short_circuit now d (dm_store st) tmo pin Hd Hp Hrc) as HG.
      destruct (ppo now d (dm_store st) tmo pin) as [[[[d' store'] tmo'] evs1]| | | |] eqn:EP; try discriminate.
      match goal with |- context [route_all ranged_sorted ?s evs1] => set (st1 := s) in * end.
      destruct (route_all ranged_sorted st1 evs1) as [st2| | | |] eqn:ER; try discriminate.
      destruct H1 as (I2 & P2 & _).
      destruct (route_all_static ranged_sorted _ _ _ ER) as (A1 & A2 & A3). unfold st1 in A1, A2, A3. cbn [dm_devs dm_pipe dm_tel] in A1, A2, A3.
      assert (Hlen2 : (length (dm_devs st2) <= n + S i)%nat) by (rewrite A1, length_upd_nth; lia).
      intros EL. destruct (IH now st2 (S i) (tl pins) tmo' (acc ++ map (SysDev i) evs1) st' tmof evs I2 P2 Hlen2 EL) as (B0 & B1 & B2).
      destruct HG as [SP _].
      split; [eapply tmo_le_trans; [exact B0|exact (tg_le _ _ _ _ _ _ _ _ _ SP)]|].
      split.
      + intros j Hj. rewrite (B1 j ltac:(lia)), A1. apply nth_error_upd_nth_ne. lia.
      + intros j dj Hj Hnj. destruct (Nat.eq_dec j i) as [->|Hne].
        * rewrite En in Hnj. injection Hnj as <-.
          exists (dm_store st), tmo, d', store', tmo', evs1. split; [exact Hp|].
          split; [unfold dev_pin; rewrite Nat.sub_diag, nth_0_hd, Ew; exact EP|]. split; [|exact B0].
          rewrite (B1 i ltac:(lia)), A1. apply (nth_error_upd_nth_eq _ _ _ _ En).
        * destruct (B2 j dj ltac:(lia)) as (store & tmoj & d2 & store2 & tmo2 & ev2 & K1 & K2 & K3 & K4).
          { rewrite A1, nth_error_upd_nth_ne by lia. exact Hnj. }
          exists store, tmoj, d2, store2, tmo2, ev2. split; [exact K1|]. split; [|split; assumption].
          unfold dev_pin in *. rewrite A2, A3, nth_tl in K2.
          replace (S (j - S i)) with (j - i)%nat in K2 by lia.
          assert (Et : nth j (if Nat.ltb i (length (dm_tel st)) then upd_nth (dm_tel st) i (fun _ => if connected d' && (negb (connected d) || did_connect evs1) then Telnet.telnet_init else if did_read evs1 then t1 else nth i (dm_tel st) Telnet.telnet_init) else dm_tel st) Telnet.telnet_init
                       = nth j (dm_tel st) Telnet.telnet_init).
          { destruct (Nat.ltb i (length (dm_tel st))); [|reflexivity]. apply nth_upd_nth_ne. lia. }
          rewrite Et in K2. exact K2.
  Qed.

  (* a whole round *)
  Lemma dstep_dev st r st' o : DPInv st -> NL st -> 1 <= dm_seq st < INT_MAX ->
    dstep st r = Ok (st', o) ->
    exists st1 e1, cli_post_poll st r = Ok (st1, e1) /\ DPInv st1 /\
      length (dm_devs st') = length (dm_devs st1) /\
      forall j d, nth_error (dm_devs st1) j = Some d ->
        exists store tmoj d' store' tmo' ev', tmo_pos tmoj /\
          ppo (r_now r) d store tmoj (dev_pin st1 j (nth j (r_dev r) passin0)) = Ok (d', store', tmo', ev') /\
          nth_error (dm_devs st') j = Some d' /\ tmo_le (do_tmo o) tmo'.
  Proof.
    intros I Hnl Hseq. unfold Daemon.dstep.
    destruct (cli_post_poll_inv expand_str ranged_sorted ranged_plain sorted rmatch compress st r I Hnl Hseq) as (st1 & e1 & E & I1 & N1). rewrite E.
    assert (Hn : tmo_pos None) by (intros x Hx; discriminate).
    pose proof (dev_loop_inv expand_str ranged_sorted ranged_plain sorted rmatch compress short_circuit (length (dm_devs st1)) (r_now r) st1 0 (r_dev r) None [] I1 Hn) as HL.
    destruct (dev_loop (length (dm_devs st1)) (r_now r) st1 0 (r_dev r) None []) as [[[st2 tmo] e2]| | | |] eqn:EL; try discriminate.
    destruct (dev_loop_dev (length (dm_devs st1)) (r_now r) st1 O (r_dev r) None [] st2 tmo e2 I1 Hn ltac:(lia) EL) as (_ & _ & B).
    intros H; inversion H; subst. exists st1, e1. split; [reflexivity|]. split; [exact I1|].
    destruct HL as (_ & _ & _ & _ & HL & _). split; [exact HL|].
    intros j d Hj. cbn [do_tmo]. destruct (B j d ltac:(lia) Hj) as (store & tmoj & d2 & store2 & tmo2 & ev2 & K). rewrite Nat.sub_0_r in K. eauto 10.
  Qed.

  (* ---------- the hypotheses on the run ---------- *)
  Fixpoint dtimely (lim : option Z) (t0 : Z) (rs : list round) (outs : list dout) : Prop :=
    match rs, outs with
    | r :: rs', o :: outs' =>
        t0 <= r_now r /\ (forall x, lim = Some x -> r_now r <= x + sigma) /\ dtimely (wake (r_now r) (do_tmo o)) (r_now r) rs' outs'
    | _, _ => True
    end.
  Fixpoint dtimely_b (lim : option Z) (t0 : Z) (rs : list round) (outs : list dout) : bool :=
    match rs, outs with
    | r :: rs', o :: outs' =>
        (t0 <=? r_now r) && (match lim with Some x => r_now r <=? x + sigma | None => true end) && dtimely_b (wake (r_now r) (do_tmo o)) (r_now r) rs' outs'
    | _, _ => true
    end.
  Lemma dtimely_b_ok : forall rs outs lim t0, dtimely_b lim t0 rs outs = true -> dtimely lim t0 rs outs.
  Proof.
    induction rs as [|r rs IH]; intros [|o outs] lim t0 H; cbn [dtimely dtimely_b] in *; try exact Logic.I.
    apply andb_true_iff in H as [H H3]. apply andb_true_iff in H as [H1 H2].
    split; [apply Z.leb_le; exact H1|]. split; [intros x ->; apply Z.leb_le; exact H2|]. apply IH. exact H3.
  Qed.

  (* the client pass leaves alone the devices that work for client id, and queues nothing for id *)
  Definition quiet_round (id : Z) (st : daemon) (r : round) : Prop :=
    forall st1 e1, cli_post_poll st r = Ok (st1, e1) ->
      forall j d1, nth_error (dm_devs st1) j = Some d1 -> In id (queued d1) -> nth_error (dm_devs st) j = Some d1.
  Fixpoint quiet_for (id : Z) (rs : list round) (st : daemon) : Prop :=
    match rs with
    | [] => True
    | r :: rs' => quiet_round id st r /\ forall st2 o, dstep st r = Ok (st2, o) -> quiet_for id rs' st2
    end.

  (* sufficient: no client descriptor reports anything in this round *)
  Lemma cli_loop_idle_devs : forall n st i acc st' evs, NL st ->
    cli_loop st i (repeat cin0 n) acc = Ok (st', evs) -> dm_devs st' = dm_devs st.
  Proof.
    induction n as [|n IH]; intros st i acc st' evs Hnl; cbn [repeat Daemon.cli_loop]; [intros H; now inversion H|].
    destruct (nth_error (dm_clients st) i) as [x|] eqn:En.
    - rewrite (cli_one_idle expand_str ranged_sorted ranged_plain sorted st i x En (Hnl i x En)).
      destruct (finishedb x).
      + intros H. apply IH in H; [exact H|]. apply (remove_nth_nl st i Hnl).
      + intros H. apply IH in H; [exact H|exact Hnl].
    - unfold Daemon.cli_one. rewrite En. intros H. apply IH in H; [exact H|exact Hnl].
  Qed.
  Lemma no_input_quiet id st r : NL st -> r_accept r = false -> r_cli r = [] -> quiet_round id st r.
  Proof.
    intros Hnl Ha Hc st1 e1. unfold Daemon.cli_post_poll. rewrite Ha, Hc, pad_cins_nil. intros H.
    rewrite (cli_loop_idle_devs _ _ _ _ _ _ Hnl H). auto.
  Qed.

  Lemma drun_acc : forall rs st acc st' outs, drun st rs acc = Ok (st', outs) -> exists new, outs = acc ++ new /\ length new = length rs.
  Proof.
    induction rs as [|r rs IH]; intros st acc st' outs; cbn [Daemon.drun].
    - intros H; inversion H; subst. exists []. split; [now rewrite app_nil_r|reflexivity].
    - destruct (dstep st r) as [[st1 o]| | | |]; try discriminate. intros H. destruct (IH _ _ _ _ H) as (new & -> & Hl).
      exists (o :: new). split; [now rewrite <- app_assoc|cbn [length]; lia].
  Qed.

  (* the devices of the index set S that work for client id keep their queue in the front part of every pass
     (DeviceDeadline.steady: no login dropped by a disconnect, no connection established), whatever time-out they are handed *)
  Definition steady_round (id : Z) (S : nat -> bool) (st : daemon) (r : round) : Prop :=
    forall st1 e1, cli_post_poll st r = Ok (st1, e1) ->
      forall j d1, S j = true -> nth_error (dm_devs st1) j = Some d1 -> In id (queued d1) ->
        forall t, tmo_pos t -> steady (r_now r) d1 t (dev_pin st1 j (nth j (r_dev r) passin0)).
  Fixpoint steady_for (id : Z) (S : nat -> bool) (rs : list round) (st : daemon) : Prop :=
    match rs with
    | [] => True
    | r :: rs' => steady_round id S st r /\ forall st2 o, dstep st r = Ok (st2, o) -> steady_for id S rs' st2
    end.
  Lemma steady_for_none id : forall rs st, steady_for id (fun _ => false) rs st.
  Proof. induction rs as [|r rs IH]; intros st; cbn [steady_for]; [exact Logic.I|]. split; [intros st1 e1 _ j d1 H; discriminate H|intros; apply IH]. Qed.

  Fixpoint dclocks (t0 : Z) (rs : list round) : Prop :=
    match rs with [] => True | r :: rs' => t0 <= r_now r /\ dclocks (r_now r) rs' end.
  Lemma dtimely_clocks : forall rs outs lim t0, length outs = length rs -> dtimely lim t0 rs outs -> dclocks t0 rs.
  Proof.
    induction rs as [|r rs IH]; intros [|o outs] lim t0 Hl H; cbn [dtimely dclocks length] in *; try exact Logic.I; try discriminate Hl.
    destruct H as (H1 & _ & H3). split; [exact H1|]. eapply IH; [|exact H3]. lia.
  Qed.

  (* ---------- the invariant through the run ---------- *)
  Definition dev_ready (lim : option Z) (t0 : Z) (d : device) : Prop :=
    0 < dv_timeout d /\ dv_timeout d + sigma < last backoff_table 0 /\ stamps_le t0 (dv_acts d) /\ lim_covers lim d.
  (* what is asked of a device working for the client, before the round whose clock is nxt: a device of S (steady) is measured
     by DeviceDeadline.bound, the others by the back-off potential - and only for those must the rounds be timely (tm) *)
  Definition dev_cond (tm : bool) (S : nat -> bool) (B : Z) (lim : option Z) (t0 nxt : Z) (j : nat) (d : device) : Prop :=
    if S j then 0 < dv_timeout d /\ stamps_le t0 (dv_acts d) /\ bound nxt d <= B
    else tm = true /\ dev_ready lim t0 d /\ pot sigma nxt d <= B.

  Lemma drun_bounded id B S tm : forall rs st acc st' outs new lim t0,
    DPInv st -> NL st -> 1 <= dm_seq st -> dm_seq st + Z.of_nat (length rs) <= INT_MAX ->
    quiet_for id rs st -> steady_for id S rs st ->
    drun st rs acc = Ok (st', outs) -> outs = acc ++ new -> dclocks t0 rs -> (tm = true -> dtimely lim t0 rs new) ->
    (forall j d, nth_error (dm_devs st) j = Some d -> In id (queued d) ->
       match rs with r :: _ => dev_cond tm S B lim t0 (r_now r) j d | [] => True end) ->
    match rs with
    | [] => True
    | _ :: _ => forall j d', nth_error (dm_devs st') j = Some d' -> In id (queued d') -> last_rclock t0 rs < B
    end.
  Proof.
    induction rs as [|r rs IH]; intros st acc st' outs new lim t0 I Hnl Hs1 Hs2 Hq Hsf E Eo Hc Ht Hdev; [exact Logic.I|].
    cbn [Daemon.drun] in E. cbn [length] in Hs2.
    pose proof (dstep_inv expand_str ranged_sorted ranged_plain sorted rmatch compress short_circuit st r I Hnl ltac:(lia)) as HI.
    destruct (dstep st r) as [[st2 o]| | | |] eqn:ES; try discriminate.
    destruct HI as (I2 & N2 & _ & L2 & S2).
    destruct (dstep_dev st r st2 o I Hnl ltac:(lia) ES) as (st1 & e1 & EC & I1 & L21 & HD).
    destruct Hq as [Hq0 Hq]. specialize (Hq st2 o ES).
    destruct Hsf as [Hsf0 Hsf]. specialize (Hsf st2 o ES).
    destruct (drun_acc _ _ _ _ _ E) as (new' & Eo' & _). rewrite Eo in Eo'. rewrite <- app_assoc in Eo'. apply app_inv_head in Eo'. cbn [app] in Eo'. subst new.
    cbn [dclocks] in Hc. destruct Hc as (Ht0 & Hc).
    assert (Ht' : tm = true -> (forall x, lim = Some x -> r_now r <= x + sigma) /\ dtimely (wake (r_now r) (do_tmo o)) (r_now r) rs new').
    { intros Htm. specialize (Ht Htm). cbn [dtimely] in Ht. destruct Ht as (_ & A & B0). auto. }
    (* what the round does to a device that still works for id afterwards *)
    assert (Step : forall j d2, nth_error (dm_devs st2) j = Some d2 -> In id (queued d2) ->
              (forall nxt, dev_cond tm S B (wake (r_now r) (do_tmo o)) (r_now r) nxt j d2) /\ r_now r < B).
    { intros j d2 Hn2 Hin2.
      assert (Hj : (j < length (dm_devs st1))%nat) by (rewrite <- L21; apply nth_error_Some; congruence).
      destruct (nth_error (dm_devs st1) j) as [d1|] eqn:Hn1; [|apply nth_error_None in Hn1; lia].
      destruct (HD j d1 Hn1) as (store & tmoj & d2' & store' & tmo' & ev' & Hpj & EP & Hn2' & Hle).
      rewrite Hn2 in Hn2'. injection Hn2' as <-.
      set (pin := dev_pin st1 j (nth j (r_dev r) passin0)) in *.
      assert (Hd1 : DInvRG compress d1) by (pose proof (dp_devs _ _ I1) as H; rewrite Forall_forall in H; apply DInvH_RG, H; eapply nth_error_In; exact Hn1).
      destruct Hd1 as [Hd1 Hrc1].
      pose proof (post_poll_one_inv_pre rmatch compress short_circuit (r_now r) d1 store tmoj pin Hd1 Hpj Hrc1) as HG. rewrite EP in HG. destruct HG as [SP TK].
      assert (Hin1 : In id (queued d1)) by (rewrite <- (tg_fifo _ _ _ _ _ _ _ _ _ SP); apply in_or_app; right; exact Hin2).
      pose proof (Hq0 st1 e1 EC j d1 Hn1 Hin1) as Hn0.
      pose proof (Hdev j d1 Hn0 Hin1) as HC. unfold dev_cond in HC |- *.
      destruct (tg_cfg _ _ _ _ _ _ _ _ _ SP) as (_ & ET & _).
      destruct (S j) eqn:ESj.
      - (* a steady device: DeviceDeadline.pass_bound *)
        destruct HC as (HT & Hst & HB).
        pose proof (pass_bound rmatch compress short_circuit (r_now r) d1 store tmoj pin Hd1 Hpj Hrc1 HT (stamps_le_mono t0 (r_now r) _ Ht0 Hst)) as HP.
        rewrite EP in HP. destruct HP as (Hst2 & _ & [Q|(HL & _ & HS)]); [rewrite Q in Hin2; destruct Hin2|].
        destruct (HS (Hsf0 st1 e1 EC j d1 ESj Hn1 Hin1 tmoj Hpj)) as (HS1 & HS2).
        split; [|lia]. intros nxt. split; [lia|]. split; [exact Hst2|]. rewrite (bound_stamped (r_now r) nxt d2 HL). lia.
      - (* any other device: DeviceDeadlineBackoff.pot_pass, the round being on time *)
        destruct HC as (Htm & (HT & HW & Hst & Hcov) & HB). destruct (Ht' Htm) as (Ht1 & _).
        pose proof (pot_pass rmatch compress short_circuit sigma Hsigma (r_now r) d1 store tmoj pin Hd1 Hpj Hrc1 HT HW
                      (stamps_le_mono t0 (r_now r) _ Ht0 Hst) (covers_ontime sigma lim (r_now r) d1 Hcov Ht1)) as HP.
        rewrite EP in HP. destruct HP as (Hst2 & _ & [Q|(_ & HP1 & HP2)]); [rewrite Q in Hin2; destruct Hin2|].
        split; [|specialize (HP1 (r_now r)); lia]. intros nxt. split; [exact Htm|]. split; [|specialize (HP1 nxt); lia].
        split; [lia|]. split; [rewrite ET; exact HW|]. split; [exact Hst2|].
        eapply tmo_le_wake_covers; [exact Hle|]. apply timer_ok_covers. exact TK. }
    destruct rs as [|r2 rs'].
    - cbn [Daemon.drun] in E. inversion E; subst. cbn [last_rclock]. intros j d' Hn Hin. apply (Step j d' Hn Hin).
    - cbn [last_rclock]. change (last_rclock (r_now r2) rs') with (last_rclock (r_now r) (r2 :: rs')).
      apply (IH st2 (acc ++ [o]) st' outs new' (wake (r_now r) (do_tmo o)) (r_now r) I2 N2 ltac:(lia) ltac:(cbn [length] in *; lia) Hq Hsf E ltac:(now rewrite <- app_assoc) Hc).
      + intros Htm. apply (Ht' Htm).
      + intros j d2 Hn2 Hin2. destruct (Step j d2 Hn2 Hin2) as (R & _). apply R.
  Qed.

  Lemma not_queued_answered st id : DPInv st -> ~ In id (qall (dm_devs st)) -> answered st id.
  Proof.
    intros I Hno y Hy Hid.
    pose proof (dp_cinv _ _ I) as C. unfold CInv in C. rewrite Forall_forall in C. destruct (C y Hy) as [K P]. cbn [app] in P.
    rewrite Hid, (cnt_notin _ _ Hno) in P.
    assert (Hb : busy (dc y) = false).
    { destruct (busy (dc y)) eqn:Eb; [|reflexivity]. pose proof (pend_busy (dc y) (proj1 K) Eb). lia. }
    split; [exact Hb|]. destruct K as (_ & toks & Eo & Et & _). exists toks. split; [exact Eo|]. rewrite Hb in Et. cbn [b2n] in Et. lia.
  Qed.

  (* ---------- (B2) bounded time for the whole daemon ---------- *)
  (* the general form: the devices working for the client are either steady (index set S: any time-out, measured by
     DeviceDeadline.bound) or have a time-out below the largest back-off step (measured by the potential) *)
  Theorem daemon_bounded_time_mixed id B S r rs st st' outs lim t0 :
    DPInv st -> NL st -> 1 <= dm_seq st -> dm_seq st + Z.of_nat (length (r :: rs)) <= INT_MAX ->
    quiet_for id (r :: rs) st -> steady_for id S (r :: rs) st ->
    drun st (r :: rs) [] = Ok (st', outs) ->
    dtimely lim t0 (r :: rs) outs ->
    (forall j d, nth_error (dm_devs st) j = Some d -> In id (queued d) ->
       if S j then 0 < dv_timeout d /\ stamps_le t0 (dv_acts d) /\ bound (r_now r) d <= B
       else dev_ready lim t0 d /\ pot sigma (r_now r) d <= B) ->
    B <= last_rclock t0 (r :: rs) ->
    DPInv st' /\ ~ In id (qall (dm_devs st')) /\ answered st' id.
  Proof.
    intros I Hnl Hs1 Hs2 Hq Hsf E Ht Hdev HB.
    pose proof (drun_inv expand_str ranged_sorted ranged_plain sorted rmatch compress short_circuit (r :: rs) st [] I Hnl Hs1 Hs2) as HI.
    rewrite E in HI. destruct HI as (I' & _).
    destruct (drun_acc _ _ _ _ _ E) as (new & En & Hl). cbn [app] in En. subst new.
    pose proof (drun_bounded id B S true (r :: rs) st [] st' outs outs lim t0 I Hnl Hs1 Hs2 Hq Hsf E eq_refl (dtimely_clocks _ _ _ _ Hl Ht) (fun _ => Ht)) as HP.
    cbv beta iota in HP.
    assert (Hno : ~ In id (qall (dm_devs st'))).
    { unfold qall. intros Hin. apply in_flat_map in Hin as (d & Hd & Hin). apply In_nth_error in Hd as (j & Hj).
      assert (last_rclock t0 (r :: rs) < B); [|lia]. apply (HP) with (j := j) (d' := d); [|exact Hj|exact Hin].
      intros j0 d0 Hn0 Hin0. specialize (Hdev j0 d0 Hn0 Hin0). unfold dev_cond. destruct (S j0); [exact Hdev|split; [reflexivity|exact Hdev]]. }
    split; [exact I'|]. split; [exact Hno|]. apply not_queued_answered; assumption.
  Qed.

  (* every device working for the client has a time-out below the largest back-off step: no hypothesis on the peers at all *)
  Theorem daemon_bounded_time id B r rs st st' outs lim t0 :
    DPInv st -> NL st -> 1 <= dm_seq st -> dm_seq st + Z.of_nat (length (r :: rs)) <= INT_MAX ->
    quiet_for id (r :: rs) st ->
    drun st (r :: rs) [] = Ok (st', outs) ->
    dtimely lim t0 (r :: rs) outs ->
    (forall j d, nth_error (dm_devs st) j = Some d -> In id (queued d) -> dev_ready lim t0 d /\ pot sigma (r_now r) d <= B) ->
    B <= last_rclock t0 (r :: rs) ->
    DPInv st' /\ ~ In id (qall (dm_devs st')) /\ answered st' id.
  Proof.
    intros I Hnl Hs1 Hs2 Hq E Ht Hdev HB.
    apply (daemon_bounded_time_mixed id B (fun _ => false) r rs st st' outs lim t0 I Hnl Hs1 Hs2 Hq (steady_for_none id _ _) E Ht); [|exact HB].
    intros j d Hn Hin. exact (Hdev j d Hn Hin).
  Qed.

  (* every device working for the client stays steady (DeviceDeadline.deadline_reached through the select loop): any time-out,
     and the rounds need not be timely - it is enough that a round runs with its clock at or beyond the bound *)
  Theorem daemon_bounded_time_steady id B r rs st st' outs t0 :
    DPInv st -> NL st -> 1 <= dm_seq st -> dm_seq st + Z.of_nat (length (r :: rs)) <= INT_MAX ->
    quiet_for id (r :: rs) st -> steady_for id (fun _ => true) (r :: rs) st ->
    drun st (r :: rs) [] = Ok (st', outs) ->
    dclocks t0 (r :: rs) ->
    (forall j d, nth_error (dm_devs st) j = Some d -> In id (queued d) ->
       0 < dv_timeout d /\ stamps_le t0 (dv_acts d) /\ bound (r_now r) d <= B) ->
    B <= last_rclock t0 (r :: rs) ->
    DPInv st' /\ ~ In id (qall (dm_devs st')) /\ answered st' id.
  Proof.
    intros I Hnl Hs1 Hs2 Hq Hsf E Hc Hdev HB.
    pose proof (drun_inv expand_str ranged_sorted ranged_plain sorted rmatch compress short_circuit (r :: rs) st [] I Hnl Hs1 Hs2) as HI.
    rewrite E in HI. destruct HI as (I' & _).
    pose proof (drun_bounded id B (fun _ => true) false (r :: rs) st [] st' outs outs None t0 I Hnl Hs1 Hs2 Hq Hsf E eq_refl Hc ltac:(discriminate)) as HP.
    cbv beta iota in HP.
    assert (Hno : ~ In id (qall (dm_devs st'))).
    { unfold qall. intros Hin. apply in_flat_map in Hin as (d & Hd & Hin). apply In_nth_error in Hd as (j & Hj).
      assert (last_rclock t0 (r :: rs) < B); [|lia]. apply (HP) with (j := j) (d' := d); [|exact Hj|exact Hin].
      intros j0 d0 Hn0 Hin0. exact (Hdev j0 d0 Hn0 Hin0). }
    split; [exact I'|]. split; [exact Hno|]. apply not_queued_answered; assumption.
  Qed.

  (* daemon_bounded_time with the potential in closed form (DeviceDeadlineBackoff.pot_le): B = the clock of the first round plus
     (cheap back-off steps left + queue span + 4) * (time-out + sigma), the largest over the devices working for id *)
  Corollary daemon_bounded_time_explicit id B r rs st st' outs lim t0 :
    DPInv st -> NL st -> 1 <= dm_seq st -> dm_seq st + Z.of_nat (length (r :: rs)) <= INT_MAX ->
    quiet_for id (r :: rs) st ->
    drun st (r :: rs) [] = Ok (st', outs) ->
    dtimely lim t0 (r :: rs) outs ->
    (forall j d, nth_error (dm_devs st) j = Some d -> In id (queued d) ->
       dev_ready lim t0 d /\
       r_now r + (ncheap (dv_timeout d + sigma) (dv_retry_count d + 1) + Z.of_nat (span (dv_acts d)) + 4) * (dv_timeout d + sigma) <= B) ->
    B <= last_rclock t0 (r :: rs) ->
    DPInv st' /\ ~ In id (qall (dm_devs st')) /\ answered st' id.
  Proof.
    intros I Hnl Hs1 Hs2 Hq E Ht Hdev HB.
    apply (daemon_bounded_time id B r rs st st' outs lim t0 I Hnl Hs1 Hs2 Hq E Ht); [|exact HB].
    intros j d Hn Hin. destruct (Hdev j d Hn Hin) as (R & Hb). split; [exact R|].
    destruct R as (HT & _ & Hst & _).
    assert (Hd : DInvRG compress d) by (pose proof (dp_devs _ _ I) as H; rewrite Forall_forall in H; apply DInvH_RG, H; eapply nth_error_In; exact Hn).
    destruct outs as [|o outs]; [apply drun_acc in E as (new & E1 & E2); cbn [app] in E1; subst new; discriminate E2|].
    cbn [dtimely] in Ht. destruct Ht as (Ht0 & _).
    pose proof (pot_le sigma Hsigma (r_now r) d (proj2 Hd) HT (stamps_le_mono t0 (r_now r) _ Ht0 Hst)). lia.
  Qed.

  (* rounds without client input are quiet for every client *)
  Lemma no_input_quiet_for id : forall rs st, NL st -> Forall (fun r => r_accept r = false /\ r_cli r = []) rs -> quiet_for id rs st.
  Proof.
    induction rs as [|r rs IH]; intros st Hnl Hf; cbn [quiet_for]; [exact Logic.I|].
    inversion Hf as [|? ? [Ha Hc] Hf']; subst. split; [apply no_input_quiet; assumption|].
    intros st2 o ES. apply IH; [|exact Hf']. exact (dstep_nl expand_str ranged_sorted ranged_plain sorted rmatch compress short_circuit st r st2 o Hnl ES).
  Qed.
End DP.
