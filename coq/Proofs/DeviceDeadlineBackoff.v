(* C04 / C12, device layer: the deadline bound WITHOUT the hypothesis `steady_run` (Proofs/DeviceDeadline.v), for devices whose
   time-out is below the largest back-off step.

   Setting.  One device, any number of passes of dev_post_poll (DeviceDeadline.passes), non-decreasing clocks, nothing appended to
   the queue between the passes; the peer may do anything (accept, stay silent, hang up, refuse, complete a pending connect ...).
   Finding F41 (DeviceDeadlineEx.deadline_unsteady_refuted) shows that a peer which accepts, never answers the login and hangs up
   before the login's deadline gets a FRESH login each time, so that for dev->timeout > 60 s a client action is never answered.

   What is TRUE of the model (and proved here), with T = dv_timeout d, sigma = the lateness allowed to a pass, W = T + sigma:

     retry_count_never_reset   a pass never lowers dv_retry_count: it is unchanged, or incremented by one by the single connect
                               attempt the back-off gate allowed (not reset by a successful connect, nor by a completed login;
                               only `expedite`, i.e. a client request queued on a not-connected device, resets it - and nothing
                               is appended here)
     ncheap W rc               the number of back-off steps k >= rc that are "cheap": k <= 0 (no gate before the first attempt) or
                               backoff k <= W.  Finite iff  W < last backoff_table  (the table's last entry repeats for ever)
     pot sigma now d           the potential: an absolute time, a function of the state alone (head stamp, stamp of the first
                               action behind a login, queue span, retry_count, last_retry)
     pot_pass                  a pass that is ON TIME (clock <= head stamp + T + sigma) either leaves nothing queued for a client
                               or leaves  pot' <= pot  (for every later clock) with the clock still below pot'
     deadline_backoff_run      over any run of on-time passes: conservation, and nothing left queued or last clock < pot
     deadline_backoff_reached  hence: once a pass has run with clock >= pot (taken at the first pass) every client action queued
                               at the start has been completed - whatever the peer did
     pot_le                    pot now d <= now + (ncheap W (rc + 1) + span + 4) * W
     timely_ontime             the passes are on time when each comes no later than sigma after the time-out requested by the
                               previous pass (DeviceInv.timer_ok: that request covers the head's deadline)

     timely_b_ok               ... and that hypothesis is decidable on a concrete run (used by the examples)
     retry_count_never_reset / passes_retry_count   over any run: retry_count' = retry_count + number of connect attempts

   The condition  T + sigma < last backoff_table  (= 60 s) is sharp: DeviceDeadlineBackoffEx.deadline_60s_refuted (time-out 60 s,
   the peer hangs up in the very pass the login's deadline wakes the daemon for: same trace on the real device.c).
   The statement "after ncheap connection establishments the run is steady" is FALSE (connections go on being established every
   60 s for ever; what ends is the starvation of the queue): DeviceDeadlineBackoffEx.steady_after_cheap_steps_refuted.

   Why the potential works.  After every pass the head of the queue carries a stamp.  The first client-side action H can be kept
   from the head only by a CHAIN of logins, each created in the pass that dropped its predecessor (hang-up + connect() succeeding
   at once).  In a chain of on-time passes login k+1 is created no later than W after login k, but the gate lets it through only
   backoff(retry_count) after the attempt that created login k: every link after the second uses up a cheap step, so a chain lasts
   at most (ncheap + 2) * W.  When the chain ends H is the head again, gets its stamp (if it had none) and is examined: expired ->
   the whole queue is reported; otherwise it is served, or the next chain starts - with fewer cheap steps left.

   OPEN.  (1) The bound is not tight: for d5 it is 36 s, the worst history found ends at 28.6 s.  (2) A pass that is LATE (beyond
   sigma): no per-pass increment is proved; pot_le bounds the potential of whatever state it leaves.  (3) Hang (the model's loop
   fuel) is excluded by the hypothesis `passes .. = Ok`, as in DeviceDeadline (DeviceFuel.post_poll_one_no_hang gives it under its
   own potential bound).  (4) For T + sigma >= 60 s there is no bound at all (F41). *)
From Coq Require Import List NArith ZArith Bool Lia.
From PM Require Import Base.Bytes Base.Outcome Base.Dec Gen.GenConsts Gen.GenCbuf Model.ScriptAst Model.Enqueue Model.Script Model.Device
  Proofs.DeviceProofs Proofs.DeviceStmt Proofs.DeviceStmtG Proofs.DeviceInv Proofs.DeviceInvG Proofs.DeviceMask Proofs.DeviceDeadline.
Import ListNotations.
Local Open Scope Z_scope.

(* ---------- the back-off steps that are not longer than w ---------- *)
Definition cheapb (w rc : Z) : bool := (rc <=? 0) || (backoff rc <=? w).
Fixpoint ncheap_from (fuel : nat) (w rc : Z) : Z :=
  match fuel with O => 0 | S f => (if cheapb w rc then 1 else 0) + ncheap_from f w (rc + 1) end.
Definition ncheap (w rc : Z) : Z := ncheap_from (Z.to_nat (Z.of_nat (length backoff_table) + 1 - rc)) w rc.

Lemma backoff_beyond rc : Z.of_nat (length backoff_table) < rc -> backoff rc = last backoff_table 0.
Proof. intros H. unfold backoff. apply nth_overflow. lia. Qed.
Lemma ncheap_from_nonneg f : forall w rc, 0 <= ncheap_from f w rc.
Proof. induction f as [|f IH]; intros w rc; cbn [ncheap_from]; [lia|]. specialize (IH w (rc + 1)). destruct (cheapb w rc); lia. Qed.
Lemma ncheap_nonneg w rc : 0 <= ncheap w rc.
Proof. apply ncheap_from_nonneg. Qed.
Lemma ncheap_step w rc : 0 <= rc -> w < last backoff_table 0 ->
  ncheap w rc = (if cheapb w rc then 1 else 0) + ncheap w (rc + 1).
Proof.
  intros Hrc Hw. unfold ncheap. set (L := Z.of_nat (length backoff_table)).
  destruct (Z_le_gt_dec rc L) as [H|H].
  - replace (Z.to_nat (L + 1 - rc)) with (S (Z.to_nat (L + 1 - (rc + 1)))) by lia. reflexivity.
  - replace (Z.to_nat (L + 1 - rc)) with O by lia. replace (Z.to_nat (L + 1 - (rc + 1))) with O by lia. cbn [ncheap_from].
    unfold cheapb. rewrite (backoff_beyond rc) by (fold L; lia).
    destruct (rc <=? 0) eqn:E1; [apply Z.leb_le in E1; lia|]. destruct (last backoff_table 0 <=? w) eqn:E2; [apply Z.leb_le in E2; lia|]. reflexivity.
Qed.
Lemma ncheap_succ_le w rc : 0 <= rc -> w < last backoff_table 0 -> ncheap w (rc + 1) <= ncheap w rc.
Proof. intros H1 H2. rewrite (ncheap_step w rc H1 H2). destruct (cheapb w rc); lia. Qed.

(* ---------- the potential ---------- *)
(* a login stamped l is at the head: 1 if the gate can open while this login is in progress (so that a hang-up can be answered
   by a fresh login at once), plus the cheap steps after the next attempt *)
Definition extraL (w : Z) (d : device) (l : Z) : Z :=
  (if (dv_retry_count d <=? 0) || (dv_last_retry d + backoff (dv_retry_count d) <=? l + w) then 1 else 0)
  + ncheap w (dv_retry_count d + 1).

Definition potm (sigma now : Z) (d : device) : Z :=
  let w := dv_timeout d + sigma in
  let n1 := ncheap w (dv_retry_count d + 1) in
  match dv_acts d with
  | [] => now
  | a :: r =>
    if is_login a then
      let l := hstamp now a in
      match r with
      | [] => l
      | h :: _ =>
        match a_stamp h with
        | Some s => Z.max (s + (n1 + 3) * w) (l + (1 + extraL w d l) * w)
        | None => l + (extraL w d l + 4) * w
        end + (Z.of_nat (span r) - 1) * w
      end
    else hstamp now a + (n1 + 3) * w + (Z.of_nat (span (a :: r)) - 1) * w
  end.
(* at the start of a pass: an action that has never been at the head of the queue may still get a login put in front of it *)
Definition pot (sigma now : Z) (d : device) : Z :=
  potm sigma now d +
  match dv_acts d with
  | a :: _ => if negb (is_login a) && (match a_stamp a with None => true | Some _ => false end) then 2 * (dv_timeout d + sigma) else 0
  | [] => 0
  end.
(* the pass comes no later than sigma after the head's deadline *)
Definition ontime (sigma now : Z) (d : device) : Prop :=
  forall a r s, dv_acts d = a :: r -> a_stamp a = Some s -> now <= s + dv_timeout d + sigma.

Definition same_retry (d d' : device) : Prop := dv_retry_count d' = dv_retry_count d /\ dv_last_retry d' = dv_last_retry d.
(* no connect attempt, or one that the gate allowed *)
Definition retry_rel (now : Z) (d d' : device) : Prop :=
  same_retry d d' \/
  ((dv_retry_count d <= 0 \/ dv_last_retry d + backoff (dv_retry_count d) <= now) /\
   dv_last_retry d' = now /\ dv_retry_count d' = dv_retry_count d + 1).
Lemma conn_rel_retry now d d' evs : conn_rel now d d' evs -> retry_rel now d d'.
Proof. intros [(_ & L & R)|(_ & G & L & R)]; [left; split; assumption|right; auto]. Qed.
Lemma same_retry_refl d : same_retry d d.
Proof. split; reflexivity. Qed.
Lemma same_retry_trans a b c : same_retry a b -> same_retry b c -> same_retry a c.
Proof. unfold same_retry. intuition congruence. Qed.
Lemma retry_rel_same_l now a b c : same_retry a b -> retry_rel now b c -> retry_rel now a c.
Proof. intros [R L] [H|(G & L2 & R2)]; [left; eapply same_retry_trans; [split|]; eassumption|right]. rewrite <- R, <- L. auto. Qed.
Lemma retry_rel_same_r now a b c : retry_rel now a b -> same_retry b c -> retry_rel now a c.
Proof. intros [H|(G & L2 & R2)] [R L]; [left; eapply same_retry_trans; [|split]; eassumption|right]. rewrite R, L. auto. Qed.

Section Backoff.
  Variable rmatch : text -> text -> option pmatch.
  Variable compress : list text -> text.
  Variable sc : bool.
  Variable sigma : Z.
  Hypothesis Hsigma : 0 <= sigma.

  Notation DInvG := (DInvG compress).
  Notation wf_action := (wf_action compress).
  Notation potm := (potm sigma).
  Notation pot := (pot sigma).

  (* ---------- one iteration of _process_action's loop (DeviceDeadline.pa_step_shape with the command and the retry bookkeeping) ---------- *)
  Definition kept2 (now : Z) (act0 : action) (rest l' : list action) : Prop :=
    exists a', l' = a' :: rest /\ a_stamp a' = Some (hstamp now act0) /\ a_hascb a' = a_hascb act0 /\ a_client a' = a_client act0 /\
               a_com a' = a_com act0.

  Lemma pa_step_shape2 now d store tmo plans act0 rest : DInvG d -> tmo_pos tmo -> dv_acts d = act0 :: rest ->
    match pa_step rmatch compress sc now d store tmo plans with
    | Ok (PaDone d' _ _ _ evs) =>
        (now < hstamp now act0 + dv_timeout d /\ kept2 now act0 rest (dv_acts d') /\ same_retry d d') \/ queued d' = []
    | Ok (PaNext d' _ _ evs) =>
        now < hstamp now act0 + dv_timeout d /\ (kept2 now act0 rest (dv_acts d') \/ dv_acts d' = rest) /\ same_retry d d'
    | Hang _ => True
    | _ => False
    end.
  Proof.
    intros I Hp Ea. unfold pa_step. rewrite Ea.
    pose proof (dg_acts _ d I) as Hw. rewrite Ea in Hw. inversion Hw as [|? ? Hw0 Hwr]; subst.
    destruct (a_exec act0) as [|e0 er] eqn:Eex; [destruct Hw0 as (H & _); congruence|].
    change (match a_stamp act0 with Some t => t | None => now end) with (hstamp now act0).
    set (stamp := hstamp now act0).
    set (act := set_stamp (Some stamp) act0).
    assert (Hwa : wf_action (sd_plugs (dv d)) act) by exact Hw0.
    pose proof (DInvG_QInvG _ d I) as Q.
    destruct (stamp + dv_timeout d <=? now) eqn:El.
    - (* timed out *)
      assert (Hcbt : Forall (cb_of act0) (timeout_tele d act)).
      { unfold timeout_tele. destruct (a_tele act) eqn:Et; constructor; [split; [reflexivity|exact Et]|constructor]. }
      destruct (fail_and_reconnect_invG compress now d act0 (set_err (timeout_err d) act) rest store tmo plans (timeout_tele d act) Q (fun _ => I) (dg_state _ d I) Ea)
        as (d2 & tmo2 & pl & evs & E & I2 & S2 & P2 & L2 & C2 & Q2 & _); auto.
      + unfold timeout_tele. destruct (a_tele act); reflexivity.
      + unfold timeout_tele. destruct (a_tele act); reflexivity.
      + rewrite E. right. exact Q2.
    - apply Z.leb_gt in El.
      destruct (connected d) eqn:Ec; cbn [negb].
      2:{ left. split; [lia|]. split; [|split; reflexivity]. exists act. repeat split. }
      pose proof (do_while_propsG rmatch compress sc 8 now (dv d) act store [] None Hwa) as Hdw.
      destruct (do_while rmatch compress sc 8 now (dv d) act store [] None) as [[[[[[fin sd'] act'] store'] evs] dt]| | | |]; try contradiction; [|exact Logic.I].
      destruct Hdw as (evs1 & t1 & Eevs & Edt & SP). cbn [app] in Eevs. subst evs1. cbn [min_tmo] in Edt. subst t1.
      destruct SP as [w1 p1 n1 i1 v1 m1 [l1 q1] cb1].
      destruct i1 as (J1 & J2 & J3 & J4 & J5 & J6 & J7).
      set (d1 := upd_sdev (fun _ => sd') d).
      set (tmo1 := match dt with Some v => upd_tmo tmo v | None => tmo end).
      assert (Ht1 : tmo_pos tmo1).
      { unfold tmo1. destruct dt as [v|]; [|exact Hp]. destruct (upd_tmo_props tmo v (m1 v eq_refl) Hp) as (U1 & _). exact U1. }
      assert (Hcs : dv_cstate d = DEV_CONNECTED) by (apply connected_iff; exact Ec).
      assert (Hce : completions evs = []) by (apply completions_script; exact v1).
      assert (Hne : nconn evs = O) by (apply nconn_script; exact v1).
      destruct fin; cbn [negb].
      2:{ left. split; [lia|]. split; [|split; reflexivity]. exists act'. split; [reflexivity|]. rewrite J6, J3, J2, J1. repeat split. }
      destruct (Z.eqb (a_err act') ACT_ESUCCESS) eqn:Eerr.
      + destruct (advance_props compress _ act' w1) as (A1 & A2 & A3).
        destruct A1 as (K1 & K2 & K3 & K4 & K5 & K6 & K7).
        destruct (a_exec (advance act')) as [|e2 r2] eqn:Eadv.
        * split; [lia|]. split; [right; destruct (Z.eqb (a_com (advance act')) PM_LOG_IN); reflexivity|].
          destruct (Z.eqb (a_com (advance act')) PM_LOG_IN); split; reflexivity.
        * split; [lia|]. split; [|split; reflexivity]. left. exists (advance act'). split; [reflexivity|]. rewrite K6, K3, K2, K1, J6, J3, J2, J1. repeat split.
      + apply Z.eqb_neq in Eerr.
        pose proof (dg_flags _ d I) as Hfl. unfold Flags in Hfl. rewrite Ea in Hfl. inversion Hfl as [|? ? Hfl0 Hflr]; subst.
        assert (Hcfg1 : same_cfg d d1) by (unfold d1; repeat split; dsimpl; auto).
        assert (Q1 : QInvG compress (set_acts (act0 :: rest) d1)).
        { split; [|unfold Flags, d1; cbn [dv_acts set_acts upd_sdev]; constructor; assumption].
          split; [apply (cfg_ok_same compress d d1); [exact Hcfg1|exact (dg_cfg _ d I)]|]. unfold d1. cbn [dv_acts set_acts upd_sdev dv sd_plugs]. rewrite p1.
          split; [constructor; assumption|]. pose proof (dg_tail _ d I) as Ht. pose proof (dg_cb _ d I) as Hcb. rewrite Ea in Ht, Hcb. auto. }
        assert (Ed1 : set_acts (act0 :: rest) d1 = d1) by (unfold d1; destruct d; cbn in Ea |- *; subst; reflexivity).
        rewrite Ed1 in Q1.
        assert (F1 : dv_cstate d1 <> DEV_CONNECTED -> DInvG d1) by (intros Hc; exfalso; apply Hc; exact Hcs).
        assert (F2 : dv_cstate d1 = DEV_NOT_CONNECTED \/ dv_cstate d1 = DEV_CONNECTING \/ dv_cstate d1 = DEV_CONNECTED) by (exact (dg_state _ d I)).
        assert (F3 : dv_acts d1 = act0 :: rest) by (exact Ea).
        assert (F4 : a_hascb act' = a_hascb act0) by (rewrite J3; reflexivity).
        assert (F5 : a_client act' = a_client act0) by (rewrite J2; reflexivity).
        assert (cb1' : Forall (cb_of act0) evs) by (eapply cb_of_stamp; exact cb1).
        destruct (fail_and_reconnect_invG compress now d1 act0 act' rest store' tmo1 plans evs Q1 F1 F2 F3 F4 F5 Hce Hne Ht1 cb1')
          as (d2 & tmo2 & pl & evs2 & E & I2 & S2 & P2 & L2 & C2 & Q2 & _).
        rewrite E. right. exact Q2.
  Qed.

  (* ---------- the potential over _process_action's loop ---------- *)
  Lemma is_login_com a a' : a_com a' = a_com a -> is_login a' = is_login a.
  Proof. unfold is_login. now intros ->. Qed.

  Lemma potm_kept now d d' act0 rest : dv_acts d = act0 :: rest -> kept2 now act0 rest (dv_acts d') -> same_retry d d' ->
    dv_timeout d' = dv_timeout d -> potm now d' = potm now d.
  Proof.
    intros Ea (a' & Ea' & Es & Eh & _ & Ec) [R L] ET. unfold potm, extraL. rewrite Ea, Ea', ET, R, L.
    rewrite (is_login_com _ _ Ec), (span_cons_flag act0 a' rest Eh).
    assert (Hh : hstamp now a' = hstamp now act0) by (unfold hstamp at 1; now rewrite Es).
    rewrite Hh. reflexivity.
  Qed.

  Lemma potm_next now d d' act0 rest : dv_acts d = act0 :: rest -> dv_acts d' = rest -> same_retry d d' -> dv_timeout d' = dv_timeout d ->
    0 < dv_timeout d -> now < hstamp now act0 + dv_timeout d -> stamps_le now (act0 :: rest) ->
    Forall (fun a => is_login a = false) rest ->
    lqueued rest = [] \/ potm now d' <= potm now d.
  Proof.
    intros Ea Ea' [R L] ET HT Hlt Hs Hnl.
    destruct rest as [|h2 r2]; [left; reflexivity|].
    inversion Hnl as [|? ? Hl2 _]; subst.
    inversion Hs as [|? ? _ Hs']; subst. pose proof (hstamp_le now h2 r2 Hs') as Hh2.
    unfold potm. rewrite Ea, Ea', ET, R, Hl2.
    set (w := dv_timeout d + sigma). set (n1 := ncheap w (dv_retry_count d + 1)).
    pose proof (ncheap_nonneg w (dv_retry_count d + 1)) as Hn1. fold n1 in Hn1.
    assert (Hw : dv_timeout d <= w) by (unfold w; lia).
    destruct (is_login act0) eqn:El0.
    - right. unfold hstamp at 1. destruct (a_stamp h2) as [s|] eqn:Es2.
      + pose proof (Z.le_max_l (s + (n1 + 3) * w) (hstamp now act0 + (1 + extraL w d (hstamp now act0)) * w)). lia.
      + unfold extraL. fold n1.
        destruct ((dv_retry_count d <=? 0) || (dv_last_retry d + backoff (dv_retry_count d) <=? hstamp now act0 + w)); lia.
    - destruct (span (h2 :: r2)) as [|n] eqn:Esp; [left; apply span_zero; exact Esp|right].
      rewrite (span_cons_pos act0 (h2 :: r2) n Esp). rewrite !Nat2Z.inj_succ. lia.
  Qed.

  Lemma process_action_pot : forall fuel now d store tmo plans acc, DInvG d -> tmo_pos tmo -> 0 <= dv_retry_count d -> 0 < dv_timeout d ->
    stamps_le now (dv_acts d) ->
    match process_action rmatch compress sc fuel now d store tmo plans acc with
    | Ok (d', _, _, _, _) => queued d' = [] \/ potm now d' <= potm now d
    | Hang _ => True
    | _ => False
    end.
  Proof.
    induction fuel as [|f IH]; intros now d store tmo plans acc I Hp Hrc HT Hs; cbn [process_action]; [exact Logic.I|].
    pose proof (pa_step_invG rmatch compress sc now d store tmo plans I Hp) as HI.
    destruct (dv_acts d) as [|act0 rest] eqn:Ea.
    { unfold pa_step in *. rewrite Ea in *. right. lia. }
    pose proof (pa_step_shape2 now d store tmo plans act0 rest I Hp Ea) as HS.
    destruct (pa_step rmatch compress sc now d store tmo plans) as [[d1 st1 tmo1 pl1 e1|d1 st1 tmo1 e1]| | | |]; try contradiction; [| |exact Logic.I].
    - destruct HI as [SP _]. destruct (tg_cfg _ _ _ _ _ _ _ _ _ SP) as (_ & ET & _).
      destruct HS as [(Hlt & HK & HR)|Q]; [right|left; exact Q].
      rewrite (potm_kept now d d1 act0 rest Ea HK HR ET). lia.
    - destruct HS as (Hlt & HK & HR).
      pose proof (tg_inv _ _ _ _ _ _ _ _ _ HI) as I1. pose proof (tg_pos _ _ _ _ _ _ _ _ _ HI) as P1.
      pose proof (conn_rel_rc _ _ _ _ (tg_conn _ _ _ _ _ _ _ _ _ HI) Hrc) as Hrc1.
      destruct (tg_cfg _ _ _ _ _ _ _ _ _ HI) as (_ & ET & _).
      assert (Hs1 : stamps_le now (dv_acts d1)).
      { inversion Hs; subst. destruct HK as [(a' & Ea' & Es & _)| ->]; [|assumption]. rewrite Ea'. constructor; [|assumption].
        intros t Et. rewrite Es in Et. injection Et as <-. eapply hstamp_le. exact Hs. }
      specialize (IH now d1 st1 tmo1 plans (acc ++ e1) I1 P1 Hrc1 ltac:(lia) Hs1).
      pose proof (process_action_invG rmatch compress sc f now d1 st1 tmo1 plans (acc ++ e1) I1 P1 Hrc1) as HG.
      destruct (process_action rmatch compress sc f now d1 st1 tmo1 plans (acc ++ e1)) as [[[[[d2 st2] tmo2] pl2] e2]| | | |]; try contradiction; [|exact Logic.I].
      destruct HG as (e3 & _ & SP & _). pose proof (tg_fifo _ _ _ _ _ _ _ _ _ SP) as FF.
      destruct IH as [Q2|B2]; [left; exact Q2|].
      destruct HK as [HK|Er].
      + right. rewrite <- (potm_kept now d d1 act0 rest Ea HK HR ET). exact B2.
      + pose proof (dg_tail _ d I) as Ht. rewrite Ea in Ht. cbn [tl] in Ht.
        destruct (potm_next now d d1 act0 rest Ea Er HR ET HT Hlt Hs Ht) as [Q1|B1].
        * left. rewrite (queued_lqueued d1), Er, Q1 in FF. apply app_eq_nil in FF. apply FF.
        * right. lia.
  Qed.

  (* ---------- the part of the pass that runs before _process_action (DeviceDeadline.pp_front_shape with the retry bookkeeping) ---------- *)
  Lemma ping_stage2 now d2 t2 d3 t3 : DInvG d2 -> tmo_pos t2 -> (if connected d2 then enqueue_ping now d2 t2 else (d2, t2)) = (d3, t3) ->
    exists new, pings new /\ dv_acts d3 = dv_acts d2 ++ new /\ dv_cstate d3 = dv_cstate d2 /\ same_retry d2 d3.
  Proof.
    intros I Hp. destruct (connected d2).
    - intros E. destruct (enqueue_ping_invG compress now d2 t2 d3 t3 I Hp E) as (_ & _ & _ & _ & _ & C3 & R3 & L3 & (new & En & Hn & Hl)).
      exists new. split; [split; assumption|]. repeat split; auto.
    - intros E; inversion E; subst. exists []. split; [apply pings_nil|]. rewrite app_nil_r. repeat split.
  Qed.

  Inductive front_shape2 (now : Z) (d d3 : device) : Prop :=
  | F2Keep new : pings new -> dv_acts d3 = dv_acts d ++ new -> retry_rel now d d3 -> front_shape2 now d d3
  | F2Drop L r : dv_acts d = L :: r -> is_login L = true -> dv_acts d3 = r -> retry_rel now d d3 -> front_shape2 now d d3
  | F2Fin Lf new : dv_cstate d = DEV_CONNECTING -> fresh_login Lf -> pings new -> dv_acts d3 = Lf :: rw (dv_acts d) ++ new ->
      same_retry d d3 -> front_shape2 now d d3
  | F2Now Lf new : fresh_login Lf -> pings new -> dv_acts d3 = Lf :: rw (nolog (dv_acts d)) ++ new ->
      (dv_retry_count d <= 0 \/ dv_last_retry d + backoff (dv_retry_count d) <= now) ->
      dv_last_retry d3 = now -> dv_retry_count d3 = dv_retry_count d + 1 -> front_shape2 now d d3.

  Lemma pp_front_shape2 now d t pin d3 t3 pl e12 : DInvG d -> tmo_pos t ->
    pp_front now d t pin = Ok (d3, t3, pl, e12) -> front_shape2 now d d3.
  Proof.
    intros I Hp. unfold pp_front.
    assert (H0 : exists io d1 e1, (if dv_has_fd d && any_flag pin then handle_ready d pin else Ok (false, d, [])) = Ok (io, d1, e1) /\ DInvG d1 /\
                 same_retry d d1 /\
                 (dv_acts d1 = dv_acts d \/
                  (io = false /\ dv_cstate d = DEV_CONNECTING /\ dv_cstate d1 = DEV_CONNECTED /\ exists Lf, fresh_login Lf /\ dv_acts d1 = Lf :: rw (dv_acts d)))).
    { destruct (dv_has_fd d) eqn:Efd; cbn [andb]; [|exists false, d, []; split; [reflexivity|split; [exact I|split; [apply same_retry_refl|left; reflexivity]]]].
      destruct (any_flag pin); [|exists false, d, []; split; [reflexivity|split; [exact I|split; [apply same_retry_refl|left; reflexivity]]]].
      destruct (handle_ready_invG compress d pin I Efd) as (io & d1 & e1 & E & I1 & _ & _ & _ & _ & R1 & L1 & _).
      exists io, d1, e1. split; [exact E|]. split; [exact I1|]. split; [split; assumption|]. eapply handle_ready_shape. exact E. }
    destruct H0 as (io & d1 & e1 & -> & I1 & SR1 & HS).
    destruct (io || Z.eqb (dv_cstate d1) DEV_NOT_CONNECTED) eqn:Er.
    - assert (Ea1 : dv_acts d1 = dv_acts d).
      { destruct HS as [HS|(-> & _ & Hc & _)]; [exact HS|]. rewrite Hc in Er. discriminate Er. }
      destruct (reconnect_invG compress now d1 t (pi_plans pin) (DInvG_QInvG compress d1 I1) (fun _ => I1) Hp)
        as (d2 & e2 & t2 & pl' & E & I2 & S2 & Q2 & C2 & P2 & L2 & LP2 & A2 & A2' & NC2).
      pose proof (conn_rel_retry _ _ _ _ (reconnect_conn _ _ _ _ _ _ _ _ E)) as RR.
      pose proof E as E'.
      rewrite E. rewrite (after_disc_nolog compress d1 I1), Ea1 in A2, A2'.
      destruct (if connected d2 then enqueue_ping now d2 t2 else (d2, t2)) as [d3' t3'] eqn:Epg.
      destruct (ping_stage2 now d2 t2 d3' t3' I2 P2 Epg) as (new & Hn & En & Ec & SR3).
      intros H; inversion H; subst.
      pose proof (retry_rel_same_r _ _ _ _ (retry_rel_same_l _ _ _ _ SR1 RR) SR3) as RR3.
      destruct (Z.eq_dec (dv_cstate d2) DEV_CONNECTED) as [Hc|Hc].
      + destruct (A2' Hc) as (s & _ & Ea2).
        assert (Hat : dv_retry_count d2 = dv_retry_count d1 + 1).
        { unfold reconnect in E'.
          destruct (if Z.eqb (dv_cstate d1) DEV_NOT_CONNECTED then (d1, []) else disconnect d1) as [dd ed] eqn:Ed.
          assert (Hdd : DInvG dd /\ dv_cstate dd = DEV_NOT_CONNECTED /\ dv_retry_count dd = dv_retry_count d1).
          { destruct (Z.eqb (dv_cstate d1) DEV_NOT_CONNECTED) eqn:E0.
            - inversion Ed; subst. split; [exact I1|split; [apply Z.eqb_eq; exact E0|reflexivity]].
            - destruct (disconnect_invG compress d1 dd ed (DInvG_QInvG compress d1 I1) Ed) as (A1 & _ & A3 & _ & _ & _ & A7 & _). auto. }
          destruct Hdd as (Idd & Cdd & Rdd).
          destruct (time_to_reconnect now dd t) as [go tm]. destruct go.
          - destruct (connect_invG compress now dd (pi_plans pin) Idd Cdd) as (d2' & pl2 & Ecn & _ & _ & _ & _ & _ & Rc & _).
            rewrite Ecn in E'. injection E' as <- _ _ _. lia.
          - injection E' as <- _ _ _. rewrite Cdd in Hc. discriminate Hc. }
        destruct SR1 as [R1 L1]. destruct SR3 as [R3 L3].
        destruct RR3 as [[R _]|(G & L & R)]; [exfalso; lia|].
        apply (F2Now now d d3 (create_action s PM_LOG_IN None 0 false false false None) new); auto; [exists s; reflexivity|].
        rewrite En, Ea2. reflexivity.
      + assert (new = []).
        { apply connected_false_iff in Hc. rewrite Hc in Epg. inversion Epg; subst. rewrite <- (app_nil_r (dv_acts d3)) in En at 1.
          apply app_inv_head in En. auto. }
        subst new. rewrite app_nil_r in En. rewrite (A2 Hc) in En.
        destruct (dv_acts d) as [|h r] eqn:Ea; cbn [nolog] in En.
        * apply (F2Keep now d d3 []); [apply pings_nil| |exact RR3]. rewrite Ea, En. reflexivity.
        * destruct (is_login h) eqn:Eh.
          -- apply (F2Drop now d d3 h r); auto.
          -- apply (F2Keep now d d3 []); [apply pings_nil| |exact RR3]. rewrite Ea, En, app_nil_r. reflexivity.
    - destruct (if connected d1 then enqueue_ping now d1 t else (d1, t)) as [d3' t3'] eqn:Epg.
      destruct (ping_stage2 now d1 t d3' t3' I1 Hp Epg) as (new & Hn & En & Ec & SR3).
      intros H; inversion H; subst.
      pose proof (same_retry_trans _ _ _ SR1 SR3) as SR.
      destruct HS as [HS|(_ & Hc & Hc1 & Lf & HLf & Ea1)].
      + apply (F2Keep now d d3 new); [exact Hn| |left; exact SR]. rewrite En, HS. reflexivity.
      + apply (F2Fin now d d3 Lf new); auto. rewrite En, Ea1. reflexivity.
  Qed.

  (* ---------- the potential over the front part ---------- *)
  Lemma potm_S2 now d a r : dv_acts d = a :: r -> is_login a = false ->
    potm now d = hstamp now a + (ncheap (dv_timeout d + sigma) (dv_retry_count d + 1) + 3) * (dv_timeout d + sigma)
                 + (Z.of_nat (span (a :: r)) - 1) * (dv_timeout d + sigma).
  Proof. intros Ea El. unfold potm. rewrite Ea, El. reflexivity. Qed.
  Lemma potm_S1 now d a h r : dv_acts d = a :: h :: r -> is_login a = true ->
    potm now d = match a_stamp h with
                 | Some s => Z.max (s + (ncheap (dv_timeout d + sigma) (dv_retry_count d + 1) + 3) * (dv_timeout d + sigma))
                                   (hstamp now a + (1 + extraL (dv_timeout d + sigma) d (hstamp now a)) * (dv_timeout d + sigma))
                 | None => hstamp now a + (extraL (dv_timeout d + sigma) d (hstamp now a) + 4) * (dv_timeout d + sigma)
                 end + (Z.of_nat (span (h :: r)) - 1) * (dv_timeout d + sigma).
  Proof. intros Ea El. unfold potm. rewrite Ea, El. reflexivity. Qed.

  Lemma mul_le_r a b w : 0 <= w -> a <= b -> a * w <= b * w.
  Proof. intros. apply Z.mul_le_mono_nonneg_r; assumption. Qed.
  Lemma leb_add_l a b c : (a + b <=? a + c) = (b <=? c).
  Proof. destruct (b <=? c) eqn:E; [apply Z.leb_le in E; apply Z.leb_le; lia|apply Z.leb_gt in E; apply Z.leb_gt; lia]. Qed.

  Section Front.
    Variable d : device.
    Hypothesis Hrc : 0 <= dv_retry_count d.
    Hypothesis HW : dv_timeout d + sigma < last backoff_table 0.
    Let w := dv_timeout d + sigma.
    Let rc := dv_retry_count d.

    Lemma extraL_ub d' l : extraL w d' l <= 1 + ncheap w (dv_retry_count d' + 1).
    Proof. unfold extraL. destruct (_ || _); lia. Qed.
    Lemma extraL_lb d' l : ncheap w (dv_retry_count d' + 1) <= extraL w d' l.
    Proof. unfold extraL. destruct (_ || _); lia. Qed.
    Lemma extraL_gate l now : (rc <= 0 \/ dv_last_retry d + backoff rc <= now) -> now <= l + w -> extraL w d l = 1 + ncheap w (rc + 1).
    Proof.
      intros G H. unfold extraL. fold rc.
      destruct ((rc <=? 0) || (dv_last_retry d + backoff rc <=? l + w)) eqn:E; [reflexivity|exfalso].
      apply orb_false_iff in E as [E1 E2]. apply Z.leb_gt in E1. apply Z.leb_gt in E2. lia.
    Qed.
    (* the login of a connect() that succeeded at once: stamped at the time of the attempt *)
    Lemma extraL_fresh d3 now : dv_last_retry d3 = now -> dv_retry_count d3 = rc + 1 -> extraL w d3 now = ncheap w (rc + 1).
    Proof.
      intros L R. unfold extraL. rewrite L, R, leb_add_l. fold (cheapb w (rc + 1)).
      rewrite (ncheap_step w (rc + 1)) by (unfold rc, w; lia). reflexivity.
    Qed.
    Lemma retry_rel_ncheap now d3 : retry_rel now d d3 -> ncheap w (dv_retry_count d3 + 1) <= ncheap w (rc + 1).
    Proof.
      intros [[R _]|(_ & _ & R)]; rewrite R; fold rc; [lia|]. apply ncheap_succ_le; unfold rc, w; lia.
    Qed.
    Lemma retry_rel_extraL now d3 l : retry_rel now d d3 -> now <= l + w -> extraL w d3 l <= extraL w d l.
    Proof.
      intros [[R L]|(G & L & R)] H.
      - unfold extraL. rewrite R, L. lia.
      - rewrite (extraL_gate l now G H). pose proof (extraL_ub d3 l) as H1. rewrite R in H1. fold rc in H1.
        pose proof (ncheap_succ_le w (rc + 1) ltac:(unfold rc; lia) HW) as H2. replace (rc + 1 + 1) with (rc + 1 + 1) in H2 by lia. lia.
    Qed.

    Hypothesis I : DInvG d.
    Hypothesis HT : 0 < dv_timeout d.

    Lemma front_pot now d3 : front_shape2 now d d3 -> dv_timeout d3 = dv_timeout d -> stamps_le now (dv_acts d) -> ontime sigma now d ->
      queued d <> [] -> potm now d3 <= pot now d.
    Proof.
      intros FS ET Hs Hon Hq.
      assert (Hw0 : 0 <= w) by (unfold w; lia).
      assert (HTw : dv_timeout d <= w) by (unfold w; lia).
      pose proof (ncheap_nonneg w (rc + 1)) as Hn1.
      pose proof (ncheap_nonneg w (rc + 2)) as Hn2.
      pose proof (ncheap_succ_le w (rc + 1) ltac:(unfold rc; lia) HW) as Hn21. replace (rc + 1 + 1) with (rc + 2) in Hn21 by lia.
      unfold ontime in Hon.
      destruct (dv_acts d) as [|a r] eqn:Ea; [exfalso; apply Hq; unfold queued; rewrite Ea; reflexivity|].
      assert (Hl : hstamp now a <= now) by (eapply hstamp_le; exact Hs).
      assert (Hon' : now <= hstamp now a + w).
      { unfold hstamp. destruct (a_stamp a) as [s|] eqn:Es; [specialize (Hon a r s eq_refl Es); unfold w; lia|lia]. }
      pose proof (dg_tail _ d I) as Htl. rewrite Ea in Htl. cbn [tl] in Htl.
      destruct (is_login a) eqn:Ela.
      - (* a login is at the head *)
        assert (Hcb : a_hascb a = false).
        { pose proof (dg_cb _ d I) as Hcb. rewrite Ea in Hcb. inversion Hcb as [|? ? Hh _]; subst.
          destruct (a_hascb a); [|reflexivity]. rewrite (Hh eq_refl) in Ela. discriminate Ela. }
        destruct r as [|h r']; [exfalso; apply Hq; unfold queued; rewrite Ea; cbn [filter]; rewrite Hcb; reflexivity|].
        inversion Htl as [|? ? Elh _]; subst.
        unfold pot. rewrite Ea, Ela. cbn [negb andb]. rewrite Z.add_0_r. rewrite (potm_S1 now d a h r' Ea Ela). fold w rc.
        set (l := hstamp now a) in *.
        inversion Hs as [|? ? _ Hs']; subst. pose proof (hstamp_le now h r' Hs') as Hh.
        destruct FS as [new Hn Ea3 RR|L r0 Ea0 El Ea3 RR|Lf new Hc HLf Hn Ea3 SR|Lf new HLf Hn Ea3 G L R].
        + (* the queue is kept *)
          rewrite Ea in Ea3. cbn [app] in Ea3. rewrite (potm_S1 now d3 a h (r' ++ new) Ea3 Ela), ET. fold w. fold l.
          change (h :: r' ++ new) with ((h :: r') ++ new). rewrite (span_app_nocb _ _ (pings_nocb _ Hn)).
          pose proof (retry_rel_ncheap now d3 RR) as M1. pose proof (retry_rel_extraL now d3 l RR Hon') as M2.
          pose proof (mul_le_r _ _ w Hw0 M1) as P1. pose proof (mul_le_r _ _ w Hw0 M2) as P2.
          destruct (a_stamp h) as [s|]; lia.
        + (* the login is dropped, no connection comes back *)
          rewrite Ea in Ea0. injection Ea0 as <- <-. rewrite (potm_S2 now d3 h r' Ea3 Elh), ET. fold w.
          pose proof (retry_rel_ncheap now d3 RR) as M1. pose proof (mul_le_r _ _ w Hw0 M1) as P1.
          pose proof (extraL_lb d l) as M2. fold rc in M2. pose proof (mul_le_r _ _ w Hw0 M2) as P2.
          unfold hstamp at 1. destruct (a_stamp h) as [s|]; lia.
        + (* a pending connect completes: impossible while a login is in progress *)
          exfalso. assert (Hx : dv_cstate d = DEV_CONNECTED /\ dv_logged_in d = false) by (apply (dg_head _ d I); exists a, (h :: r'); auto).
          destruct Hx as [Hx _]. rewrite Hc in Hx. discriminate Hx.
        + (* hang-up and connect() succeeds at once: a fresh login replaces the one in progress *)
          rewrite Ea in Ea3. cbn [nolog] in Ea3. rewrite Ela in Ea3. cbn [rw app] in Ea3.
          destruct (fresh_login_props Lf HLf) as (F1 & F2 & F3).
          destruct (rewind_flags h) as (W1 & W2 & W3).
          rewrite (potm_S1 now d3 Lf (rewind_action h) (r' ++ new) Ea3 F3), ET. fold w.
          change (rewind_action h :: r' ++ new) with ((rewind_action h :: r') ++ new). rewrite (span_app_nocb _ _ (pings_nocb _ Hn)).
          rewrite (span_cons_flag h (rewind_action h) r' W1), W3.
          assert (Hf : hstamp now Lf = now) by (unfold hstamp; now rewrite F1). rewrite Hf.
          rewrite (extraL_fresh d3 now L R), R. fold rc. replace (rc + 1 + 1) with (rc + 2) by lia.
          rewrite (extraL_gate l now G Hon').
          pose proof (mul_le_r _ _ w Hw0 Hn21) as P1.
          destruct (a_stamp h) as [s|]; lia.
      - (* the head is not a login *)
        unfold pot. rewrite Ea, Ela. cbn [negb andb]. rewrite (potm_S2 now d a r Ea Ela). fold w rc.
        fold (hstamp now a) in *. set (l := hstamp now a) in *.
        destruct (span (a :: r)) as [|n] eqn:Esp; [exfalso; apply Hq; rewrite (queued_lqueued d), Ea; apply span_zero; exact Esp|].
        assert (Hpot : l + (ncheap w (rc + 1) + 3) * w + (Z.of_nat (S n) - 1) * w <=
                       l + (ncheap w (rc + 1) + 3) * w + (Z.of_nat (S n) - 1) * w +
                       (if match a_stamp a with Some _ => false | None => true end then 2 * w else 0)).
        { destruct (a_stamp a); lia. }
        destruct FS as [new Hn Ea3 RR|L r0 Ea0 El Ea3 RR|Lf new Hc HLf Hn Ea3 SR|Lf new HLf Hn Ea3 G L R].
        + rewrite Ea in Ea3. cbn [app] in Ea3. rewrite (potm_S2 now d3 a (r ++ new) Ea3 Ela), ET. fold w. fold l.
          change (a :: r ++ new) with ((a :: r) ++ new). rewrite (span_app_nocb _ _ (pings_nocb _ Hn)), Esp.
          pose proof (retry_rel_ncheap now d3 RR) as M1. pose proof (mul_le_r _ _ w Hw0 M1) as P1. lia.
        + exfalso. rewrite Ea in Ea0. injection Ea0 as <- <-. rewrite Ela in El. discriminate El.
        + rewrite Ea in Ea3. cbn [rw app] in Ea3.
          destruct (fresh_login_props Lf HLf) as (F1 & F2 & F3).
          destruct (rewind_flags a) as (W1 & W2 & W3).
          rewrite (potm_S1 now d3 Lf (rewind_action a) (r ++ new) Ea3 F3), ET. fold w.
          change (rewind_action a :: r ++ new) with ((rewind_action a :: r) ++ new). rewrite (span_app_nocb _ _ (pings_nocb _ Hn)).
          rewrite (span_cons_flag a (rewind_action a) r W1), W3, Esp.
          assert (Hf : hstamp now Lf = now) by (unfold hstamp; now rewrite F1). rewrite Hf.
          destruct SR as [R3 L3].
          pose proof (extraL_ub d3 now) as M2. rewrite R3 in *. fold rc in M2 |- *. pose proof (mul_le_r _ _ w Hw0 M2) as P2.
          unfold l, hstamp in *. destruct (a_stamp a) as [s|]; lia.
        + rewrite Ea in Ea3. cbn [nolog] in Ea3. rewrite Ela in Ea3. cbn [rw app] in Ea3.
          destruct (fresh_login_props Lf HLf) as (F1 & F2 & F3).
          destruct (rewind_flags a) as (W1 & W2 & W3).
          rewrite (potm_S1 now d3 Lf (rewind_action a) (r ++ new) Ea3 F3), ET. fold w.
          change (rewind_action a :: r ++ new) with ((rewind_action a :: r) ++ new). rewrite (span_app_nocb _ _ (pings_nocb _ Hn)).
          rewrite (span_cons_flag a (rewind_action a) r W1), W3, Esp.
          assert (Hf : hstamp now Lf = now) by (unfold hstamp; now rewrite F1). rewrite Hf.
          rewrite (extraL_fresh d3 now L R), R. fold rc. replace (rc + 1 + 1) with (rc + 2) by lia.
          pose proof (mul_le_r _ _ w Hw0 Hn21) as P1.
          unfold l, hstamp in *. destruct (a_stamp a) as [s|]; lia.
    Qed.
  End Front.

  (* ---------- the potential of a state whose head carries a stamp does not depend on the clock ---------- *)
  Lemma pot_stamped now now' d a r s : dv_acts d = a :: r -> a_stamp a = Some s -> pot now' d = potm now d.
  Proof.
    intros Ea Es. unfold pot, DeviceDeadlineBackoff.potm. rewrite Ea, Es.
    assert (H : forall n, hstamp n a = s) by (intros n; unfold hstamp; now rewrite Es).
    rewrite !H. destruct (negb (is_login a)); cbn [andb]; lia.
  Qed.
  Lemma potm_ge now d a r s : DInvG d -> 0 < dv_timeout d -> dv_acts d = a :: r -> a_stamp a = Some s -> queued d <> [] ->
    s + dv_timeout d <= potm now d.
  Proof.
    intros I HT Ea Es Hq.
    set (w := dv_timeout d + sigma). assert (Hw : dv_timeout d <= w) by (unfold w; lia).
    pose proof (ncheap_nonneg w (dv_retry_count d + 1)) as Hn1.
    assert (Hh : hstamp now a = s) by (unfold hstamp; now rewrite Es).
    destruct (is_login a) eqn:Ela.
    - assert (Hcb : a_hascb a = false).
      { pose proof (dg_cb _ d I) as Hcb. rewrite Ea in Hcb. inversion Hcb as [|? ? Hx _]; subst.
        destruct (a_hascb a); [|reflexivity]. rewrite (Hx eq_refl) in Ela. discriminate Ela. }
      destruct r as [|h r']; [exfalso; apply Hq; unfold queued; rewrite Ea; cbn [filter]; rewrite Hcb; reflexivity|].
      rewrite (potm_S1 now d a h r' Ea Ela), Hh. fold w.
      destruct (span (h :: r')) as [|n] eqn:Esp.
      { exfalso. apply Hq. apply span_zero in Esp. unfold queued. rewrite Ea. cbn [filter]. rewrite Hcb. exact Esp. }
      pose proof (extraL_lb d d s) as M. cbv zeta in M. fold w in M. pose proof (mul_le_r _ _ w ltac:(lia) M) as P. pose proof (mul_le_r _ _ w ltac:(lia) Hn1) as P0.
      rewrite Nat2Z.inj_succ. destruct (a_stamp h) as [s2|]; nia.
    - rewrite (potm_S2 now d a r Ea Ela), Hh. fold w.
      destruct (span (a :: r)) as [|n] eqn:Esp; [exfalso; apply Hq; rewrite (queued_lqueued d), Ea; apply span_zero; exact Esp|].
      rewrite Nat2Z.inj_succ. nia.
  Qed.

  (* ---------- (B1) one pass ---------- *)
  Theorem pot_pass now d store tmo pin : DInvG d -> tmo_pos tmo -> 0 <= dv_retry_count d -> 0 < dv_timeout d ->
    dv_timeout d + sigma < last backoff_table 0 ->
    stamps_le now (dv_acts d) -> ontime sigma now d ->
    match post_poll_one rmatch compress sc now d store tmo pin with
    | Ok (d', _, tmo', evs) =>
        stamps_le now (dv_acts d') /\
        completions evs ++ queued d' = queued d /\
        (queued d' = [] \/
         (head_live now d' /\ (forall now', pot now' d' <= pot now d) /\ now < pot now d'))
    | Hang _ => True
    | _ => False
    end.
  Proof.
    intros I Hp Hrc HT HW Hs Hon.
    pose proof (post_poll_one_inv_pre rmatch compress sc now d store tmo pin I Hp Hrc) as HG.
    rewrite pp_split in *.
    destruct (pp_front_inv compress now d tmo pin I Hp Hrc) as (d3 & t3 & pl & e12 & E & I3 & S3 & P3 & R3).
    rewrite E in *. pose proof (pp_front_shape compress now d tmo pin d3 t3 pl e12 I Hp E) as FS.
    pose proof (pp_front_shape2 now d tmo pin d3 t3 pl e12 I Hp E) as FS2.
    destruct S3 as (_ & ET & _).
    destruct (front_bound now d d3 FS ET HT Hs) as (Hs3 & _).
    pose proof (process_action_bound rmatch compress sc (pa_fuel d3) now d3 store t3 pl e12 I3 P3 R3 ltac:(lia) Hs3) as HB.
    pose proof (process_action_pot (pa_fuel d3) now d3 store t3 pl e12 I3 P3 R3 ltac:(lia) Hs3) as HP.
    destruct (process_action rmatch compress sc (pa_fuel d3) now d3 store t3 pl e12) as [[[[[d4 st4] t4] pl4] e4]| | | |]; try contradiction; [|exact Logic.I].
    destruct HG as [SP _]. destruct HB as (S4 & HB). split; [exact S4|].
    pose proof (tg_fifo _ _ _ _ _ _ _ _ _ SP) as FF. split; [exact FF|].
    destruct (queued d4) as [|c0 cs] eqn:Q4; [left; reflexivity|right].
    destruct HB as [Q|(HL & _)]; [discriminate Q|]. split; [exact HL|].
    destruct HP as [Q|HP]; [discriminate Q|].
    assert (Hq : queued d <> []) by (rewrite <- FF; intros H; apply app_eq_nil in H; destruct H as [_ H]; discriminate H).
    pose proof (front_pot d Hrc HW I HT now d3 FS2 ET Hs Hon Hq) as HF.
    destruct HL as (h & r & s & Ea4 & Es4 & Hl4).
    destruct (tg_cfg _ _ _ _ _ _ _ _ _ SP) as (_ & ET4 & _).
    split.
    - intros now'. rewrite (pot_stamped now now' d4 h r s Ea4 Es4). lia.
    - rewrite (pot_stamped now now d4 h r s Ea4 Es4).
      pose proof (potm_ge now d4 h r s (tg_inv _ _ _ _ _ _ _ _ _ SP) ltac:(lia) Ea4 Es4 ltac:(rewrite Q4; discriminate)). lia.
  Qed.

  (* ---------- (B1) any number of passes ---------- *)
  (* every pass of the run is on time for the state it starts from *)
  Fixpoint ontime_run (ps : list pass) (d : device) : Prop :=
    match ps with
    | [] => True
    | p :: r => ontime sigma (p_now p) d /\
                forall d1 st1 t1 e1, post_poll_one rmatch compress sc (p_now p) d (p_store p) (p_tmo p) (p_pin p) = Ok (d1, st1, t1, e1) -> ontime_run r d1
    end.

  Theorem deadline_backoff_run : forall ps d t0 d' evs,
    DInvG d -> 0 <= dv_retry_count d -> 0 < dv_timeout d -> dv_timeout d + sigma < last backoff_table 0 ->
    stamps_le t0 (dv_acts d) ->
    clocks_from t0 ps -> Forall (fun p => tmo_pos (p_tmo p)) ps -> ontime_run ps d ->
    passes rmatch compress sc ps d = Ok (d', evs) ->
    DInvG d' /\ 0 <= dv_retry_count d' /\ dv_timeout d' = dv_timeout d /\ stamps_le (last_clock t0 ps) (dv_acts d') /\
    completions evs ++ queued d' = queued d /\
    match ps with
    | [] => True
    | p :: _ => queued d' = [] \/
                (head_live (last_clock t0 ps) d' /\ (forall now', pot now' d' <= pot (p_now p) d) /\ last_clock t0 ps < pot (p_now p) d)
    end.
  Proof.
    induction ps as [|p r IH]; intros d t0 d' evs I Hrc HT HW Hs Hc Hp Hot; cbn [passes].
    - intros H; inversion H; subst. cbn [last_clock]. split; [exact I|]. split; [exact Hrc|]. split; [reflexivity|]. split; [exact Hs|]. split; [reflexivity|exact Logic.I].
    - destruct Hc as [Hc0 Hc]. inversion Hp as [|? ? Hp0 Hpr]; subst. destruct Hot as [Hot0 Hot].
      pose proof (stamps_le_mono t0 (p_now p) _ Hc0 Hs) as Hs0.
      pose proof (pot_pass (p_now p) d (p_store p) (p_tmo p) (p_pin p) I Hp0 Hrc HT HW Hs0 Hot0) as HB.
      pose proof (post_poll_one_inv_pre rmatch compress sc (p_now p) d (p_store p) (p_tmo p) (p_pin p) I Hp0 Hrc) as HG.
      destruct (post_poll_one rmatch compress sc (p_now p) d (p_store p) (p_tmo p) (p_pin p)) as [[[[d1 st1] t1] e1]| | | |] eqn:E1; try discriminate.
      destruct HG as [SP _]. pose proof (tg_inv _ _ _ _ _ _ _ _ _ SP) as I1.
      pose proof (conn_rel_rc _ _ _ _ (tg_conn _ _ _ _ _ _ _ _ _ SP) Hrc) as Hrc1.
      destruct (tg_cfg _ _ _ _ _ _ _ _ _ SP) as (_ & ET & _).
      destruct HB as (Hs1 & FF1 & HB).
      specialize (Hot d1 st1 t1 e1 eq_refl).
      specialize (IH d1 (p_now p)).
      destruct (passes rmatch compress sc r d1) as [[d2 e2]| | | |] eqn:E2; try discriminate.
      intros H; inversion H; subst d2 evs.
      destruct (IH d' e2 I1 Hrc1 ltac:(lia) ltac:(rewrite ET; exact HW) Hs1 Hc Hpr Hot eq_refl) as (I2 & Hrc2 & ET2 & Hs2 & FF2 & HB2).
      cbn [last_clock]. split; [exact I2|]. split; [exact Hrc2|]. split; [congruence|]. split; [exact Hs2|].
      split; [rewrite completions_app, <- app_assoc, FF2; exact FF1|].
      destruct r as [|p2 r'].
      + cbn [passes] in E2. inversion E2; subst. cbn [last_clock].
        destruct HB as [Q|(HL & B1 & B2)]; [left; exact Q|right]. split; [exact HL|]. split; [exact B1|]. specialize (B1 (p_now p)). lia.
      + destruct HB2 as [Q|(HL2 & B2 & L2)]; [left; exact Q|].
        destruct HB as [Q|(HL & B1 & L1)].
        * left. rewrite Q in FF2. apply app_eq_nil in FF2. apply FF2.
        * right. split; [exact HL2|]. split.
          -- intros now'. specialize (B2 now'). specialize (B1 (p_now p2)). lia.
          -- specialize (B1 (p_now p2)). lia.
  Qed.

  (* the bound is met, whatever the peer did: a run of on-time passes whose last clock has reached the potential of the initial
     state (taken at the clock of the first pass) has completed every client action that was queued at the start, in queue order,
     and nothing else *)
  Corollary deadline_backoff_reached p r d t0 d' evs :
    DInvG d -> 0 <= dv_retry_count d -> 0 < dv_timeout d -> dv_timeout d + sigma < last backoff_table 0 ->
    stamps_le t0 (dv_acts d) ->
    clocks_from t0 (p :: r) -> Forall (fun p => tmo_pos (p_tmo p)) (p :: r) -> ontime_run (p :: r) d ->
    passes rmatch compress sc (p :: r) d = Ok (d', evs) ->
    pot (p_now p) d <= last_clock t0 (p :: r) ->
    completions evs = queued d /\ queued d' = [].
  Proof.
    intros I Hrc HT HW Hs Hc Hp Hot E Hb.
    destruct (deadline_backoff_run (p :: r) d t0 d' evs I Hrc HT HW Hs Hc Hp Hot E) as (_ & _ & _ & _ & FF & [Q|(_ & _ & L)]); [|lia].
    rewrite Q, app_nil_r in FF. auto.
  Qed.

  (* ---------- the passes are on time when poll honours the time-out it was given ----------
     lim = the absolute time of the wake-up requested by the previous pass (None: poll may sleep for ever) *)
  Definition wake (now : Z) (t : option Z) : option Z := match t with Some x => Some (now + x) | None => None end.
  Fixpoint timely_run (lim : option Z) (ps : list pass) (d : device) : Prop :=
    match ps with
    | [] => True
    | p :: r => (forall x, lim = Some x -> p_now p <= x + sigma) /\
                forall d1 st1 t1 e1, post_poll_one rmatch compress sc (p_now p) d (p_store p) (p_tmo p) (p_pin p) = Ok (d1, st1, t1, e1) ->
                                     timely_run (wake (p_now p) t1) r d1
    end.
  (* the wake-up requested covers the deadline of a stamped head action *)
  Definition lim_covers (lim : option Z) (d : device) : Prop :=
    forall a r s, dv_acts d = a :: r -> a_stamp a = Some s -> exists x, lim = Some x /\ x <= s + dv_timeout d.
  Lemma timer_ok_covers now d t : timer_ok now d t -> lim_covers (wake now t) d.
  Proof.
    unfold timer_ok, lim_covers. intros H a r s Ea Es. rewrite Ea in H.
    destruct H as [(s' & x & Es' & -> & Hx)|(Es' & _)]; [|congruence].
    rewrite Es in Es'. injection Es' as <-. exists (now + x). split; [reflexivity|lia].
  Qed.
  Lemma covers_ontime lim now d : lim_covers lim d -> (forall x, lim = Some x -> now <= x + sigma) -> ontime sigma now d.
  Proof. intros Hc Hl a r s Ea Es. destruct (Hc a r s Ea Es) as (x & -> & Hx). specialize (Hl x eq_refl). lia. Qed.

  Theorem timely_ontime : forall ps d lim, DInvG d -> 0 <= dv_retry_count d ->
    Forall (fun p => tmo_pos (p_tmo p)) ps -> lim_covers lim d -> timely_run lim ps d -> ontime_run ps d.
  Proof.
    induction ps as [|p r IH]; intros d lim I Hrc Hp Hc Ht; cbn [ontime_run]; [exact Logic.I|].
    destruct Ht as [Ht0 Ht]. inversion Hp as [|? ? Hp0 Hpr]; subst.
    split; [eapply covers_ontime; eassumption|].
    intros d1 st1 t1 e1 E.
    pose proof (post_poll_one_inv_pre rmatch compress sc (p_now p) d (p_store p) (p_tmo p) (p_pin p) I Hp0 Hrc) as HG.
    rewrite E in HG. destruct HG as [SP TK].
    apply (IH d1 (wake (p_now p) t1)).
    - exact (tg_inv _ _ _ _ _ _ _ _ _ SP).
    - exact (conn_rel_rc _ _ _ _ (tg_conn _ _ _ _ _ _ _ _ _ SP) Hrc).
    - exact Hpr.
    - apply timer_ok_covers. exact TK.
    - exact (Ht d1 st1 t1 e1 E).
  Qed.

  (* the theorem in terms of requested time-outs *)
  Corollary deadline_backoff_timely p r d t0 lim d' evs :
    DInvG d -> 0 <= dv_retry_count d -> 0 < dv_timeout d -> dv_timeout d + sigma < last backoff_table 0 ->
    stamps_le t0 (dv_acts d) ->
    clocks_from t0 (p :: r) -> Forall (fun p => tmo_pos (p_tmo p)) (p :: r) ->
    lim_covers lim d -> timely_run lim (p :: r) d ->
    passes rmatch compress sc (p :: r) d = Ok (d', evs) ->
    pot (p_now p) d <= last_clock t0 (p :: r) ->
    completions evs = queued d /\ queued d' = [].
  Proof.
    intros I Hrc HT HW Hs Hc Hp Hl Ht E Hb.
    eapply deadline_backoff_reached; try eassumption. eapply timely_ontime; eassumption.
  Qed.

  (* ---------- what is true of retry_count ---------- *)
  (* a pass never resets the count: no attempt and the bookkeeping is unchanged, or exactly one attempt, allowed by the gate
     (no earlier than last_retry + backoff(retry_count)), which counts itself - whether or not it succeeds, and whatever the
     login does afterwards *)
  Theorem retry_count_never_reset now d store tmo pin d' st' tmo' evs : DInvG d -> tmo_pos tmo -> 0 <= dv_retry_count d ->
    post_poll_one rmatch compress sc now d store tmo pin = Ok (d', st', tmo', evs) ->
    (nconn evs = O /\ dv_retry_count d' = dv_retry_count d /\ dv_last_retry d' = dv_last_retry d) \/
    (nconn evs = 1%nat /\ dv_retry_count d' = dv_retry_count d + 1 /\ dv_last_retry d' = now /\
     (dv_retry_count d <= 0 \/ dv_last_retry d + backoff (dv_retry_count d) <= now)).
  Proof.
    intros I Hp Hrc E.
    pose proof (post_poll_one_inv_pre rmatch compress sc now d store tmo pin I Hp Hrc) as HG. rewrite E in HG. destruct HG as [SP _].
    destruct (tg_conn _ _ _ _ _ _ _ _ _ SP) as [(N & L & R)|(N & G & L & R)]; [left|right]; auto.
  Qed.
  Theorem passes_retry_count : forall ps d d' evs, DInvG d -> 0 <= dv_retry_count d -> Forall (fun p => tmo_pos (p_tmo p)) ps ->
    passes rmatch compress sc ps d = Ok (d', evs) -> dv_retry_count d' = dv_retry_count d + Z.of_nat (nconn evs).
  Proof.
    induction ps as [|p r IH]; intros d d' evs I Hrc Hp; cbn [passes].
    - intros H; inversion H; subst. cbn. lia.
    - inversion Hp as [|? ? Hp0 Hpr]; subst.
      pose proof (post_poll_one_inv_pre rmatch compress sc (p_now p) d (p_store p) (p_tmo p) (p_pin p) I Hp0 Hrc) as HG.
      destruct (post_poll_one rmatch compress sc (p_now p) d (p_store p) (p_tmo p) (p_pin p)) as [[[[d1 st1] t1] e1]| | | |] eqn:E1; try discriminate.
      destruct HG as [SP _]. pose proof (tg_inv _ _ _ _ _ _ _ _ _ SP) as I1.
      pose proof (conn_rel_rc _ _ _ _ (tg_conn _ _ _ _ _ _ _ _ _ SP) Hrc) as Hrc1.
      destruct (passes rmatch compress sc r d1) as [[d2 e2]| | | |] eqn:E2; try discriminate.
      intros H; inversion H; subst d2 evs. rewrite (IH d1 d' e2 I1 Hrc1 Hpr E2), nconn_app.
      destruct (tg_conn _ _ _ _ _ _ _ _ _ SP) as [(N & _ & R)|(N & _ & _ & R)]; rewrite N, R; lia.
  Qed.

  (* ---------- the potential in closed form ---------- *)
  Lemma span_tail_le a r : (span r <= span (a :: r))%nat.
  Proof. apply span_cons_le. Qed.
  Theorem pot_le now d : 0 <= dv_retry_count d -> 0 < dv_timeout d -> stamps_le now (dv_acts d) ->
    pot now d <= now + (ncheap (dv_timeout d + sigma) (dv_retry_count d + 1) + Z.of_nat (span (dv_acts d)) + 4) * (dv_timeout d + sigma).
  Proof.
    intros Hrc HT Hs. unfold pot, DeviceDeadlineBackoff.potm.
    set (w := dv_timeout d + sigma). assert (Hw : 0 < w) by (unfold w; lia).
    pose proof (ncheap_nonneg w (dv_retry_count d + 1)) as Hn1. set (n1 := ncheap w (dv_retry_count d + 1)) in *.
    destruct (dv_acts d) as [|a r] eqn:Ea; [cbn [span]; nia|].
    pose proof (hstamp_le now a r Hs) as Hl.
    pose proof (extraL_ub d d (hstamp now a)) as M. cbv zeta in M. fold w n1 in M.
    pose proof (mul_le_r _ _ w ltac:(lia) M) as P.
    pose proof (Zle_0_nat (span (a :: r))) as Hsp.
    destruct (is_login a) eqn:Ela; cbn [negb andb].
    - destruct r as [|h r']; [nia|].
      inversion Hs as [|? ? _ Hs']; subst. pose proof (hstamp_le now h r' Hs') as Hh.
      pose proof (span_cons_le a (h :: r')) as [Hs1 Hs2].
      destruct (span (h :: r')) as [|n] eqn:Esp.
      + unfold hstamp in Hh. destruct (a_stamp h) as [s|]; nia.
      + rewrite (span_cons_pos a (h :: r') n Esp). rewrite !Nat2Z.inj_succ.
        unfold hstamp in Hh. destruct (a_stamp h) as [s|]; nia.
    - destruct (a_stamp a); nia.
  Qed.

  (* ---------- the hypotheses are decidable on a concrete run ---------- *)
  Fixpoint timely_b (lim : option Z) (ps : list pass) (d : device) : bool :=
    match ps with
    | [] => true
    | p :: r => (match lim with Some x => p_now p <=? x + sigma | None => true end) &&
                match post_poll_one rmatch compress sc (p_now p) d (p_store p) (p_tmo p) (p_pin p) with
                | Ok (d1, _, t1, _) => timely_b (wake (p_now p) t1) r d1
                | _ => true
                end
    end.
  Lemma timely_b_ok : forall ps lim d, timely_b lim ps d = true -> timely_run lim ps d.
  Proof.
    induction ps as [|p r IH]; intros lim d H; cbn [timely_b timely_run] in *; [exact Logic.I|].
    apply andb_true_iff in H as [H1 H2]. split.
    - intros x ->. apply Z.leb_le. exact H1.
    - intros d1 st1 t1 e1 E. rewrite E in H2. apply IH. exact H2.
  Qed.
End Backoff.
