(* The shared result lists (ArgList slots of dm_store) across the layers of the whole-daemon model (C11, C20: "each
   request's result reflects only the actions that request enqueued"; the reference-counted per-request list of arglist.c):

     SInv st :  every action queued on a device that carries a result list carries a completion callback, refers to an
                existing list, and - if its client is still connected - that list is the one of the client's command in
                progress;  commands in progress refer to existing lists, and two clients never share one.

   This file: the definition and the facts about the individual operations; Proofs/DaemonPending.v carries SInv through
   every pass as a field of the cross-layer invariant. *)
From Coq Require Import List NArith ZArith Bool Lia.
From PM Require Import Base.Bytes Base.Outcome Gen.GenConsts Model.ScriptAst Model.Enqueue Model.Script Model.Device Model.Client Model.CliWorld Model.Daemon
                       Proofs.ClientProofs Proofs.DeviceProofs Proofs.DeviceStmt Proofs.DeviceInv Proofs.DeviceSlots Proofs.DaemonLedger Proofs.DaemonFrame.
Import ListNotations.
Local Open Scope Z_scope.

Definition aslots (devs : list device) : list (Z * nat) := flat_map dslots devs.
Definition cmd_slot (x : dcli) : option nat := match cl_cmd (dc x) with Some k => Some (k_args k) | None => None end.

Record SInv (st : daemon) : Prop := {
  si_cb : Forall ArgsCb (dm_devs st);
  si_act : forall c s, In (c, s) (aslots (dm_devs st)) ->
             (s < length (dm_store st))%nat /\ forall x, In x (dm_clients st) -> cid x = c -> cmd_slot x = Some s;
  si_cmd : forall x s, In x (dm_clients st) -> cmd_slot x = Some s -> (s < length (dm_store st))%nat;
  si_excl : forall x y s, In x (dm_clients st) -> In y (dm_clients st) -> cmd_slot x = Some s -> cmd_slot y = Some s -> cid x = cid y
}.

Lemma in_aslots devs p : In p (aslots devs) <-> exists d, In d devs /\ In p (dslots d).
Proof. unfold aslots. rewrite in_flat_map. reflexivity. Qed.

(* an action that carries a list is counted among the queued client actions *)
Lemma slots_queued d c s : ArgsCb d -> In (c, s) (dslots d) -> In c (queued d).
Proof.
  unfold ArgsCb, dslots, slots_of, queued. induction (dv_acts d) as [|a r IH]; intros H Hin; cbn [flat_map] in Hin; [destruct Hin|].
  inversion H as [|? ? Ha Hr]; subst. apply in_app_or in Hin as [Hin|Hin].
  - unfold slot_of in Hin. destruct (a_args a) as [j|] eqn:Ej; [|destruct Hin]. destruct Hin as [Hin|[]]. inversion Hin; subst.
    cbn [filter]. rewrite (Ha ltac:(congruence)). now left.
  - cbn [filter]. destruct (a_hascb a); [right|]; now apply IH.
Qed.

Lemma aslots_queued devs c s : Forall ArgsCb devs -> In (c, s) (aslots devs) -> In c (flat_map queued devs).
Proof.
  intros H Hin. apply in_aslots in Hin as (d & Hd & Hin). apply in_flat_map. exists d. split; [exact Hd|].
  rewrite Forall_forall in H. eapply slots_queued; eauto.
Qed.

Lemma In_upd_nth {A} (l : list A) i y z : In z (upd_nth l i (fun _ => y)) -> z = y \/ In z l.
Proof.
  revert i; induction l as [|a l IH]; intros [|i] H; cbn in *; auto.
  - destruct H as [<-|H]; auto.
  - destruct H as [<-|H]; auto. destruct (IH i H); auto.
Qed.
Lemma aslots_upd devs i d d' : nth_error devs i = Some d -> incl (dslots d') (dslots d) ->
  incl (aslots (upd_nth devs i (fun _ => d'))) (aslots devs).
Proof.
  unfold aslots. revert i; induction devs as [|a r IH]; intros [|i] H Hi; cbn [nth_error upd_nth flat_map] in *; try discriminate.
  - inversion H; subst. apply incl_app; [apply incl_appl; exact Hi|apply incl_appr, incl_refl].
  - apply incl_app; [apply incl_appl, incl_refl|apply incl_appr; eapply IH; eauto].
Qed.
Lemma Forall_upd_nth {A} (P : A -> Prop) (l : list A) i y : Forall P l -> P y -> Forall P (upd_nth l i (fun _ => y)).
Proof. revert i; induction l as [|a l IH]; intros [|i] H Hy; cbn; auto; inversion H; subst; constructor; auto. Qed.

(* replacing a client record by one with the same id and the same list *)
Lemma SInv_upd_client st i x y :
  nth_error (dm_clients st) i = Some x -> cid y = cid x -> cmd_slot y = cmd_slot x -> SInv st ->
  SInv (mkDaemon (dm_nodes st) (dm_aliases st) (dm_specs st) (dm_pipe st) (dm_devs st) (upd_nth (dm_clients st) i (fun _ => y))
                 (dm_seq st) (dm_store st) (dm_version st) (dm_tel st)).
Proof.
  intros En Hc Hs I. assert (Hx : In x (dm_clients st)) by (eapply nth_error_In; exact En).
  constructor; cbn [dm_devs dm_clients dm_store].
  - exact (si_cb _ I).
  - intros c s Hin. destruct (si_act _ I c s Hin) as [A B]. split; [exact A|].
    intros z Hz Hzc. apply In_upd_nth in Hz as [->|Hz]; [rewrite Hs; apply B; [exact Hx|congruence]|now apply B].
  - intros z s Hz Hzs. apply In_upd_nth in Hz as [->|Hz]; [rewrite Hs in Hzs; exact (si_cmd _ I x s Hx Hzs)|exact (si_cmd _ I z s Hz Hzs)].
  - intros z w s Hz Hw Hzs Hws.
    apply In_upd_nth in Hz as [->|Hz]; apply In_upd_nth in Hw as [->|Hw]; try reflexivity.
    + rewrite Hs in Hzs. rewrite Hc. exact (si_excl _ I x w s Hx Hw Hzs Hws).
    + rewrite Hs in Hws. rewrite Hc. exact (si_excl _ I z x s Hz Hx Hzs Hws).
    + exact (si_excl _ I z w s Hz Hw Hzs Hws).
Qed.

Lemma incl_remove_nth_cli {A} : forall (l : list A) i, incl (remove_nth l i) l.
Proof.
  induction l as [|a l IH]; intros [|i]; cbn [remove_nth]; try apply incl_refl.
  - apply incl_tl, incl_refl.
  - apply incl_cons; [now left|apply incl_tl, IH].
Qed.
Lemma SInv_remove st i : SInv st ->
  SInv (mkDaemon (dm_nodes st) (dm_aliases st) (dm_specs st) (dm_pipe st) (dm_devs st) (remove_nth (dm_clients st) i)
                 (dm_seq st) (dm_store st) (dm_version st) (dm_tel st)).
Proof.
  intros I. pose proof (incl_remove_nth_cli (dm_clients st) i) as Hi.
  constructor; cbn [dm_devs dm_clients dm_store].
  - exact (si_cb _ I).
  - intros c s Hin. destruct (si_act _ I c s Hin) as [A B]. split; [exact A|]. intros z Hz. apply B. exact (Hi _ Hz).
  - intros z s Hz. apply (si_cmd _ I). exact (Hi _ Hz).
  - intros z w s Hz Hw. apply (si_excl _ I); [exact (Hi _ Hz)|exact (Hi _ Hw)].
Qed.

(* a new client whose id no queued action carries *)
Lemma SInv_accept st y seq' : SInv st -> cmd_slot y = None -> ~ In (cid y) (flat_map queued (dm_devs st)) ->
  SInv (mkDaemon (dm_nodes st) (dm_aliases st) (dm_specs st) (dm_pipe st) (dm_devs st) (dm_clients st ++ [y])
                 seq' (dm_store st) (dm_version st) (dm_tel st)).
Proof.
  intros I Hn Hf. constructor; cbn [dm_devs dm_clients dm_store].
  - exact (si_cb _ I).
  - intros c s Hin. destruct (si_act _ I c s Hin) as [A B]. split; [exact A|].
    intros z Hz Hzc. apply in_app_or in Hz as [Hz|[<-|[]]]; [now apply B|].
    exfalso. apply Hf. rewrite Hzc. eapply aslots_queued; [exact (si_cb _ I)|exact Hin].
  - intros z s Hz Hzs. apply in_app_or in Hz as [Hz|[<-|[]]]; [exact (si_cmd _ I z s Hz Hzs)|congruence].
  - intros z w s Hz Hw Hzs Hws. apply in_app_or in Hz as [Hz|[<-|[]]]; apply in_app_or in Hw as [Hw|[<-|[]]]; try congruence.
    exact (si_excl _ I z w s Hz Hw Hzs Hws).
Qed.

Lemma SInv_eq st st' : dm_devs st' = dm_devs st -> dm_clients st' = dm_clients st -> dm_store st' = dm_store st -> SInv st -> SInv st'.
Proof. intros A B C [H1 H2 H3 H4]. constructor; rewrite ?A, ?B, ?C; assumption. Qed.

(* one device's share of dev_post_poll followed by the delivery of its callbacks *)
Lemma SInv_dev_step st st' i d d' :
  SInv st -> nth_error (dm_devs st) i = Some d -> SlotRel d (dm_store st) d' (dm_store st') ->
  dm_devs st' = upd_nth (dm_devs st) i (fun _ => d') ->
  length (dm_clients st') = length (dm_clients st) ->
  (forall p x, nth_error (dm_clients st) p = Some x ->
     exists x', nth_error (dm_clients st') p = Some x' /\ cid x' = cid x /\ (cmd_slot x' = cmd_slot x \/ cmd_slot x' = None)) ->
  (forall x', In x' (dm_clients st') -> cmd_slot x' = None -> ~ In (cid x') (flat_map queued (dm_devs st'))) ->
  SInv st'.
Proof.
  intros I En R Hd Hl Hc Hidle.
  assert (Hcb' : Forall ArgsCb (dm_devs st')) by (rewrite Hd; apply Forall_upd_nth; [exact (si_cb _ I)|exact (sr_cb _ _ _ _ R)]).
  assert (Hsl : incl (aslots (dm_devs st')) (aslots (dm_devs st))) by (rewrite Hd; eapply aslots_upd; [exact En|exact (sr_incl _ _ _ _ R)]).
  (* every record of st' has a predecessor at the same position *)
  assert (Hback : forall x', In x' (dm_clients st') -> exists x, In x (dm_clients st) /\ cid x' = cid x /\ (cmd_slot x' = cmd_slot x \/ cmd_slot x' = None)).
  { intros x' Hx'. apply In_nth_error in Hx' as (p & Hp).
    assert (Hlt : (p < length (dm_clients st))%nat) by (rewrite <- Hl; apply nth_error_Some; congruence).
    destruct (nth_error (dm_clients st) p) as [x|] eqn:Ex; [|apply nth_error_None in Ex; lia].
    destruct (Hc p x Ex) as (x'' & Hp'' & A & B). rewrite Hp in Hp''. inversion Hp''; subst x''.
    exists x. split; [eapply nth_error_In; exact Ex|split; assumption]. }
  constructor.
  - exact Hcb'.
  - intros c s Hin. pose proof (Hsl _ Hin) as Hold. destruct (si_act _ I c s Hold) as [A B]. split; [rewrite (sr_len _ _ _ _ R); exact A|].
    intros x' Hx' Hxc. destruct (Hback x' Hx') as (x & Hx & Hcx & [Hs|Hs]).
    + rewrite Hs. apply B; [exact Hx|congruence].
    + exfalso. apply (Hidle x' Hx' Hs). rewrite Hxc. eapply aslots_queued; eauto.
  - intros x' s Hx' Hs. destruct (Hback x' Hx') as (x & Hx & _ & [Hs'|Hs']); [|congruence].
    rewrite (sr_len _ _ _ _ R). apply (si_cmd _ I x s Hx). congruence.
  - intros x' y' s Hx' Hy' Hsx Hsy.
    destruct (Hback x' Hx') as (x & Hx & Hcx & [Hs1|Hs1]); [|congruence].
    destruct (Hback y' Hy') as (y & Hy & Hcy & [Hs2|Hs2]); [|congruence].
    rewrite Hcx, Hcy. apply (si_excl _ I x y s Hx Hy); congruence.
Qed.

(* a request line that queues a command: the new list is the next slot of the store *)
Lemma SInv_enqueue st i x y devs' al :
  SInv st -> NoDup (map cid (dm_clients st)) -> nth_error (dm_clients st) i = Some x -> cid y = cid x -> cmd_slot x = None -> cmd_slot y = Some (length (dm_store st)) ->
  Forall ArgsCb devs' -> incl (aslots devs') ((cid x, length (dm_store st)) :: aslots (dm_devs st)) ->
  forall nodes seq,
  SInv (mkDaemon nodes (dm_aliases st) (dm_specs st) (dm_pipe st) devs' (upd_nth (dm_clients st) i (fun _ => y))
                 seq (dm_store st ++ [al]) (dm_version st) (dm_tel st)).
Proof.
  intros I Hnd En Hc Hx0 Hy Hcb Hin nodes seq. assert (Hx : In x (dm_clients st)) by (eapply nth_error_In; exact En).
  (* x had no command, so no queued action carried its id together with a list *)
  assert (Hno : forall s, ~ In (cid x, s) (aslots (dm_devs st))).
  { intros s H. destruct (si_act _ I _ _ H) as [_ B]. specialize (B x Hx eq_refl). congruence. }
  constructor; cbn [dm_devs dm_clients dm_store]; rewrite ?app_length; cbn [length].
  - exact Hcb.
  - intros c s H. apply Hin in H. destruct H as [H|H].
    + inversion H; subst c s. split; [lia|]. intros z Hz Hzc.
      apply In_nth_error in Hz as (j & Hj). destruct (Nat.eq_dec j i) as [->|Hne].
      * rewrite (nth_error_upd_nth_eq _ _ _ _ En) in Hj. inversion Hj; subst z. exact Hy.
      * exfalso. rewrite nth_error_upd_nth_ne in Hj by auto. apply Hne.
        apply (proj1 (NoDup_nth_error (map cid (dm_clients st))) Hnd).
        -- rewrite map_length. apply nth_error_Some. congruence.
        -- rewrite !nth_error_map, Hj, En. cbn. now rewrite Hzc.
    + destruct (si_act _ I c s H) as [A B]. split; [lia|]. intros z Hz Hzc. apply In_upd_nth in Hz as [->|Hz]; [|now apply B].
      exfalso. apply (Hno s). rewrite <- Hc, Hzc. exact H.
  - intros z s Hz Hzs. apply In_upd_nth in Hz as [->|Hz]; [rewrite Hy in Hzs; inversion Hzs; lia|]. pose proof (si_cmd _ I z s Hz Hzs). lia.
  - intros z w s Hz Hw Hzs Hws. apply In_upd_nth in Hz as [->|Hz]; apply In_upd_nth in Hw as [->|Hw]; try reflexivity.
    + rewrite Hy in Hzs. inversion Hzs; subst s. pose proof (si_cmd _ I w _ Hw Hws). lia.
    + rewrite Hy in Hws. inversion Hws; subst s. pose proof (si_cmd _ I z _ Hz Hzs). lia.
    + exact (si_excl _ I z w s Hz Hw Hzs Hws).
Qed.

(* ---- no stale reference: a result list that nothing refers to any more is never referred to again (the slots of the
   store are handed out once, in order; arglist.c frees a list when its reference count drops to zero) ---- *)
Definition referenced (st : daemon) (s : nat) : Prop :=
  (exists x, In x (dm_clients st) /\ cmd_slot x = Some s) \/ (exists c, In (c, s) (aslots (dm_devs st))).
Definition Ref_mono (st st' : daemon) : Prop :=
  (length (dm_store st) <= length (dm_store st'))%nat /\
  forall s, referenced st' s -> referenced st s \/ (length (dm_store st) <= s)%nat.

Lemma Ref_mono_refl st : Ref_mono st st.
Proof. split; [lia|auto]. Qed.
Lemma Ref_mono_trans a b c : Ref_mono a b -> Ref_mono b c -> Ref_mono a c.
Proof.
  intros [L1 H1] [L2 H2]. split; [lia|]. intros s Hs. destruct (H2 s Hs) as [Hb|Hb]; [|right; lia].
  destruct (H1 s Hb) as [Ha|Ha]; [now left|right; exact Ha].
Qed.
(* only the three fields matter *)
Lemma Ref_mono_eq st st' st'' : dm_devs st'' = dm_devs st' -> dm_clients st'' = dm_clients st' -> dm_store st'' = dm_store st' ->
  Ref_mono st st' -> Ref_mono st st''.
Proof. intros A B C [L H]. unfold Ref_mono, referenced in *. rewrite A, B, C. auto. Qed.

Lemma Ref_mono_clients st st' :
  dm_devs st' = dm_devs st -> dm_store st' = dm_store st ->
  (forall y, In y (dm_clients st') -> cmd_slot y = None \/ exists x, In x (dm_clients st) /\ cmd_slot x = cmd_slot y) ->
  Ref_mono st st'.
Proof.
  intros A C H. split; [rewrite C; lia|]. intros s [(y & Hy & Hs)|(c & Hc)]; left.
  - destruct (H y Hy) as [Hn|(x & Hx & E)]; [congruence|]. left. exists x. split; [exact Hx|congruence].
  - right. exists c. now rewrite <- A.
Qed.

Lemma Ref_mono_upd_client st i x y :
  nth_error (dm_clients st) i = Some x -> cmd_slot y = cmd_slot x ->
  Ref_mono st (mkDaemon (dm_nodes st) (dm_aliases st) (dm_specs st) (dm_pipe st) (dm_devs st) (upd_nth (dm_clients st) i (fun _ => y))
                        (dm_seq st) (dm_store st) (dm_version st) (dm_tel st)).
Proof.
  intros En Hs. apply Ref_mono_clients; try reflexivity. cbn [dm_clients]. intros z Hz. right.
  apply In_upd_nth in Hz as [->|Hz]; [exists x; split; [eapply nth_error_In; exact En|now symmetry]|exists z; auto].
Qed.
Lemma Ref_mono_remove st i :
  Ref_mono st (mkDaemon (dm_nodes st) (dm_aliases st) (dm_specs st) (dm_pipe st) (dm_devs st) (remove_nth (dm_clients st) i)
                        (dm_seq st) (dm_store st) (dm_version st) (dm_tel st)).
Proof.
  apply Ref_mono_clients; try reflexivity. cbn [dm_clients]. intros z Hz. right. exists z. split; [exact (incl_remove_nth_cli _ _ _ Hz)|reflexivity].
Qed.
Lemma Ref_mono_accept st y seq' : cmd_slot y = None ->
  Ref_mono st (mkDaemon (dm_nodes st) (dm_aliases st) (dm_specs st) (dm_pipe st) (dm_devs st) (dm_clients st ++ [y])
                        seq' (dm_store st) (dm_version st) (dm_tel st)).
Proof.
  intros Hn. apply Ref_mono_clients; try reflexivity. cbn [dm_clients]. intros z Hz.
  apply in_app_or in Hz as [Hz|[<-|[]]]; [right; exists z; auto|now left].
Qed.
Lemma Ref_mono_enqueue st i x y devs' al nodes seq :
  nth_error (dm_clients st) i = Some x -> cmd_slot y = Some (length (dm_store st)) ->
  incl (aslots devs') ((cid x, length (dm_store st)) :: aslots (dm_devs st)) ->
  Ref_mono st (mkDaemon nodes (dm_aliases st) (dm_specs st) (dm_pipe st) devs' (upd_nth (dm_clients st) i (fun _ => y))
                        seq (dm_store st ++ [al]) (dm_version st) (dm_tel st)).
Proof.
  intros En Hy Hin. split; [cbn [dm_store]; rewrite app_length; lia|].
  cbn [dm_store dm_clients dm_devs]. intros s [(z & Hz & Hs)|(c & Hc)].
  - apply In_upd_nth in Hz as [->|Hz]; [right; rewrite Hy in Hs; inversion Hs; lia|left; left; exists z; auto].
  - apply Hin in Hc. destruct Hc as [E|Hc]; [inversion E; right; lia|left; right; exists c; exact Hc].
Qed.
Lemma Ref_mono_dev_step st st' i d d' :
  nth_error (dm_devs st) i = Some d -> SlotRel d (dm_store st) d' (dm_store st') ->
  dm_devs st' = upd_nth (dm_devs st) i (fun _ => d') ->
  length (dm_clients st') = length (dm_clients st) ->
  (forall p x, nth_error (dm_clients st) p = Some x ->
     exists x', nth_error (dm_clients st') p = Some x' /\ cid x' = cid x /\ (cmd_slot x' = cmd_slot x \/ cmd_slot x' = None)) ->
  Ref_mono st st'.
Proof.
  intros En R Hd Hl Hc. split; [rewrite (sr_len _ _ _ _ R); lia|].
  intros s [(y & Hy & Hs)|(c & Hin)]; left.
  - apply In_nth_error in Hy as (p & Hp).
    assert (Hlt : (p < length (dm_clients st))%nat) by (rewrite <- Hl; apply nth_error_Some; congruence).
    destruct (nth_error (dm_clients st) p) as [x|] eqn:Ex; [|apply nth_error_None in Ex; lia].
    destruct (Hc p x Ex) as (x' & Hp' & _ & [E|E]); rewrite Hp in Hp'; inversion Hp'; subst x'; [|congruence].
    left. exists x. split; [eapply nth_error_In; exact Ex|congruence].
  - right. exists c. rewrite Hd in Hin. exact (aslots_upd _ _ _ _ En (sr_incl _ _ _ _ R) _ Hin).
Qed.

Section S.
  Variable expand_str : text -> option (list text).
  Variable ranged_sorted : list text -> text.
  Variable ranged_plain : list text -> text.
  Variable sorted : list text -> list text.
  Variable rmatch : text -> text -> option pmatch.
  Variable compress : list text -> text.
  Variable short_circuit : bool.

  (* dev_enqueue_actions: the only new references are to the list handed over, under the id handed over *)
  Lemma fold_append_slots client tele args : forall (qs : list qact) d d',
    fold_left (fun od a => match od with Ok x => append_client_action x a client tele args | e => e end) qs (Ok d) = Ok d' ->
    ArgsCb d -> ArgsCb d' /\ incl (dslots d') ((client, args) :: dslots d).
  Proof.
    induction qs as [|q r IH]; intros d d' H Hcb; cbn [fold_left] in H.
    - inversion H; subst. split; [exact Hcb|apply incl_tl, incl_refl].
    - unfold append_client_action at 2 in H. destruct (assoc_script (qa_com q) (dv_scripts d)) as [s|].
      + apply IH in H.
        * destruct H as [A B]. split; [exact A|]. intros p Hp. apply B in Hp. destruct Hp as [<-|Hp]; [now left|].
          unfold dslots in Hp. cbn [dv_acts set_acts] in Hp. rewrite slots_app in Hp. apply in_app_or in Hp as [Hp|Hp]; [now right|].
          cbn in Hp. destruct Hp as [<-|[]]. now left.
        * unfold ArgsCb. cbn [dv_acts set_acts]. apply Forall_app. split; [exact Hcb|]. constructor; [intros _; reflexivity|constructor].
      + exfalso. clear -H. induction r as [|q' r IHr]; cbn in H; [discriminate|auto].
  Qed.

  Lemma enq_all_slots client tele args : forall devs q devs',
    enq_all devs q client tele args = Ok devs' -> Forall ArgsCb devs ->
    Forall ArgsCb devs' /\ incl (aslots devs') ((client, args) :: aslots devs).
  Proof.
    induction devs as [|d r IH]; intros q devs' H Hcb; cbn [enq_all] in H.
    - inversion H; subst. split; [constructor|intros p []].
    - destruct q as [|[nm acts] qr]; [inversion H; subst; split; [exact Hcb|apply incl_tl, incl_refl]|].
      inversion Hcb as [|? ? Hd Hr]; subst.
      match type of H with match ?e with _ => _ end = _ => destruct e as [d1| | | |] eqn:E1; try discriminate end.
      destruct (enq_all r qr client tele args) as [r'| | | |] eqn:E2; try discriminate.
      inversion H; subst. destruct (fold_append_slots client tele args acts d d1 E1 Hd) as [A B].
      destruct (IH qr r' E2 Hr) as [C D].
      assert (A' : ArgsCb (match acts with [] => d1 | _ => expedite d1 end) /\ dslots (match acts with [] => d1 | _ => expedite d1 end) = dslots d1).
      { destruct acts; [split; [exact A|reflexivity]|]. unfold expedite. destruct (connected d1); split; auto. }
      destruct A' as [A1 A2]. split; [constructor; assumption|].
      unfold aslots in *. cbn [flat_map]. rewrite A2. intros p Hp. apply in_app_or in Hp as [Hp|Hp].
      + apply B in Hp. destruct Hp as [<-|Hp]; [now left|right; apply in_or_app; now left].
      + apply D in Hp. destruct Hp as [<-|Hp]; [now left|right; apply in_or_app; now right].
  Qed.

  (* the device layer's callbacks keep every client's list: a command either goes on with the same list or ends *)
  Lemma route_cmd st e st' : route ranged_sorted st e = Ok st' ->
    forall p x, nth_error (dm_clients st) p = Some x ->
    exists x', nth_error (dm_clients st') p = Some x' /\ cid x' = cid x /\ (cmd_slot x' = cmd_slot x \/ cmd_slot x' = None).
  Proof.
    intros H p x Hn. unfold route in H.
    destruct e; try solve [inversion H; subst; exists x; auto].
    all: destruct (find_cli (dm_clients st) client 0) as [[i y]|] eqn:Ef; [|solve [inversion H; subst; exists x; auto]].
    all: destruct (find_cli_spec _ _ _ _ _ Ef) as (j & -> & Hj & Hc); cbn [Nat.add] in *.
    all: destruct (Nat.eq_dec j p) as [->|Hne].
    all: try (rewrite Hn in Hj; inversion Hj; subst y).
    - inversion H; subst. cbn [dm_clients]. rewrite (nth_error_upd_nth_eq _ _ _ _ Hn). eexists; split; [reflexivity|]. split; [reflexivity|left; reflexivity].
    - inversion H; subst. cbn [dm_clients]. rewrite nth_error_upd_nth_ne by exact Hne. exists x; auto.
    - inversion H; subst. cbn [dm_clients]. rewrite (nth_error_upd_nth_eq _ _ _ _ Hn). eexists; split; [reflexivity|]. split; [reflexivity|left; reflexivity].
    - inversion H; subst. cbn [dm_clients]. rewrite nth_error_upd_nth_ne by exact Hne. exists x; auto.
    - destruct (act_finish _ _ _ _ _) as [c| | | |] eqn:Ea; try discriminate.
      inversion H; subst. cbn [dm_clients]. rewrite (nth_error_upd_nth_eq _ _ _ _ Hn). eexists; split; [reflexivity|].
      split; [unfold cid; cbn; exact (act_finish_id ranged_sorted _ _ _ _ _ Ea)|].
      unfold cmd_slot. cbn [set_dc dc]. destruct (cl_cmd (dc x)) as [k|] eqn:Ek.
      + destruct (act_finish_spec ranged_sorted (dc x) (dm_store st) err msg c k Ek Ea) as [H1 H2].
        destruct (Z.eq_dec (k_pending k - 1) 0) as [E0|E0].
        * destruct (H2 E0) as (reply & _ & ->). right. reflexivity.
        * rewrite (H1 E0). left. cbn. destruct (Z.eqb err ACT_ESUCCESS); reflexivity.
      + unfold act_finish in Ea. rewrite Ek in Ea. discriminate.
    - destruct (act_finish _ _ _ _ _) as [c| | | |] eqn:Ea; try discriminate.
      inversion H; subst. cbn [dm_clients]. rewrite nth_error_upd_nth_ne by exact Hne. exists x; auto.
  Qed.

  Lemma route_all_cmd evs : forall st st', route_all ranged_sorted st evs = Ok st' ->
    forall p x, nth_error (dm_clients st) p = Some x ->
    exists x', nth_error (dm_clients st') p = Some x' /\ cid x' = cid x /\ (cmd_slot x' = cmd_slot x \/ cmd_slot x' = None).
  Proof.
    induction evs as [|e r IH]; intros st st' H p x Hn; cbn in H; [inversion H; subst; exists x; auto|].
    destruct (route ranged_sorted st e) as [st1| | | |] eqn:E1; try discriminate.
    destruct (route_cmd _ _ _ E1 p x Hn) as (x1 & H1 & C1 & S1).
    destruct (IH _ _ H p x1 H1) as (x2 & H2 & C2 & S2). exists x2. split; [exact H2|]. split; [congruence|].
    destruct S2 as [S2|S2]; [rewrite S2; exact S1|now right].
  Qed.
End S.
