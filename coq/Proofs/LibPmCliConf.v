(* C16: the powerman CLI on a conforming session prints exactly the reply text and exits 0 iff the terminal code of
   the request is a success code *)
From Coq Require Import List NArith ZArith Bool Lia.
From PM Require Import Base.Bytes Base.Outcome Gen.GenConsts Gen.GenLibPm Model.LibPm Spec.ReplySpec
  Proofs.LibPmBase Proofs.LibPmRecv Proofs.LibPmReply Proofs.LibPmCli.
Import ListNotations.
Local Open Scope Z_scope.

Definition line_ok (l : rline) : Prop := wf_line l /\ rl_text l <> [].

(* what one displayed line adds to the CLI's output state *)
Definition add_line (o : couts) (l : rline) : couts :=
  if memz (rl_code l) cli_suppress then o
  else if memz (rl_code l) cli_stderr then put_err o (EDiag (rl_text l ++ [LF])) else put_out o (rl_text l ++ [LF]).

Lemma scan_int_dec3 k rest : 0 <= k <= 999 -> scan_int (dec3 k ++ SP :: rest) = Some (k, SP :: rest).
Proof.
  intros H. destruct (dec3_digits k H) as (a & b & c & -> & Ha & Hb & Hc & ->).
  destruct (digit_facts a Ha) as (A1 & A2 & A3 & A4 & A5 & _). destruct (digit_facts b Hb) as (B1 & _ & _ & _ & B5 & _).
  destruct (digit_facts c Hc) as (C1 & _ & _ & _ & C5 & _).
  unfold scan_int. cbn [app skip_ws]. rewrite A2, A3, A4, A1.
  cbn [digits_val]. rewrite A1, B1, C1, is_digit_SP, A5, B5, C5. f_equal. f_equal. lia.
Qed.

Lemma strtol10_render l : 0 <= rl_code l <= 999 -> strtol10 (render_line l) = rl_code l.
Proof.
  intros Hk. unfold strtol10, render_line. rewrite scan_int_dec3 by exact Hk.
  unfold clamp_long, LONG_MIN, LONG_MAX. rewrite Z.min_r, Z.max_r by lia. reflexivity.
Qed.

Lemma process_line_render o l : line_ok l -> process_line_text o (render_line l) = (add_line o l, CRet (rl_code l)).
Proof.
  intros [[Hk Hc] NE]. unfold process_line_text. cbv zeta.
  rewrite (cstr_no_nul (render_line l)) by (apply clean_no_nul, render_clean; split; auto).
  rewrite (strtol10_render l Hk).
  replace ((rl_code l =? LONG_MIN) || (rl_code l =? LONG_MAX)) with false.
  2:{ symmetry. apply orb_false_iff. unfold LONG_MIN, LONG_MAX. split; apply Z.eqb_neq; lia. }
  assert (T : to_int32 (rl_code l) = rl_code l).
  { unfold to_int32. rewrite Z.mod_small by lia. destruct (rl_code l <? 2147483648) eqn:E; [reflexivity|]. apply Z.ltb_ge in E. lia. }
  rewrite T.
  assert (L : zlen (render_line l) = 4 + zlen (rl_text l)).
  { unfold render_line, dec3. rewrite zlen_app, zlen_cons. cbn [zlen]. lia. }
  rewrite L. destruct (rl_text l) as [|t0 tx] eqn:ET; [congruence|].
  replace (4 <? 4 + zlen (t0 :: tx)) with true by (symmetry; apply Z.ltb_lt; rewrite zlen_cons; pose proof (zlen_nonneg tx); lia).
  unfold add_line, render_line, dec3. rewrite ET. cbn [app skipn]. reflexivity.
Qed.

(* ------------------------------------------------------------------ reading one CRLF-terminated line *)
Lemma xreadstr_line l : Forall (fun c => c <> LF) l -> forall size len prev acc rest, 0 <= len <= size ->
  xreadstr_go size len prev acc (l ++ CR :: LF :: rest) = CRet (rev acc ++ l, rest).
Proof.
  induction l as [|x l IH]; intros HL size len prev acc rest H.
  - cbn [app xreadstr_go].
    destruct (xread_arith size len H) as [E1 E2]. rewrite E1.
    set (size' := if size - len - 1 <=? 0 then size + XREAD_CHUNKSIZE else size) in *.
    replace (beq CR LF) with false by reflexivity. rewrite andb_false_r.
    destruct (xread_arith size' (len + 1) E2) as [E3 E4]. rewrite E3.
    replace (2 <=? len + 1 + 1) with true by (symmetry; apply Z.leb_le; lia).
    rewrite !beq_refl. cbn [andb tl]. rewrite frev_rev, app_nil_r. reflexivity.
  - cbn [app xreadstr_go]. inversion HL as [|? ? Hx HL']; subst.
    destruct (xread_arith size len H) as [E1 E2]. rewrite E1.
    replace (beq x LF) with false by (symmetry; apply beq_neq; exact Hx). rewrite andb_false_r.
    rewrite IH by auto. cbn [rev]. rewrite <- app_assoc. reflexivity.
Qed.

Lemma prg_line l : Forall (fun c => c <> LF) l -> forall o size len prev acc rest, 0 <= len <= size ->
  process_response_go o size len prev acc (l ++ CR :: LF :: rest) =
  match process_line_text o (rev acc ++ l) with
  | (o', CRet num) => if cp_alldone num then (put_term o' num, CRet ((if cp_failure num then num else 0), rest))
                      else process_response_go o' 0 0 NUL [] rest
  | (o', CFatal s) => (o', CFatal s)
  | (o', CMem s) => (o', CMem s)
  end.
Proof.
  induction l as [|x l IH]; intros HL o size len prev acc rest H.
  - cbn [app process_response_go].
    destruct (xread_arith size len H) as [E1 E2]. rewrite E1.
    set (size' := if size - len - 1 <=? 0 then size + XREAD_CHUNKSIZE else size) in *.
    replace (beq CR LF) with false by reflexivity. rewrite andb_false_r.
    destruct (xread_arith size' (len + 1) E2) as [E3 E4]. rewrite E3.
    replace (2 <=? len + 1 + 1) with true by (symmetry; apply Z.leb_le; lia).
    rewrite !beq_refl. cbn [andb tl]. rewrite frev_rev, app_nil_r. reflexivity.
  - cbn [app process_response_go]. inversion HL as [|? ? Hx HL']; subst.
    destruct (xread_arith size len H) as [E1 E2]. rewrite E1.
    replace (beq x LF) with false by (symmetry; apply beq_neq; exact Hx). rewrite andb_false_r.
    rewrite IH by auto. cbn [rev]. rewrite <- app_assoc. reflexivity.
Qed.

Lemma clean_no_lf l : clean l -> Forall (fun c => c <> LF) l.
Proof. intros H. eapply Forall_impl; [|exact H]. intros c (_ & Hc & _). exact Hc. Qed.

(* ------------------------------------------------------------------ one response *)
Definition lines_bytes (ls : list rline) : text := concat (map (fun l => render_line l ++ CP_EOL) ls).

Lemma prg_lines infos : forall o term rest,
  Forall line_ok infos -> Forall (fun l => cp_alldone (rl_code l) = false) infos ->
  line_ok term -> cp_alldone (rl_code term) = true ->
  process_response_go o 0 0 NUL [] (lines_bytes infos ++ render_line term ++ CP_EOL ++ rest) =
  (put_term (add_line (fold_left add_line infos o) term) (rl_code term),
   CRet ((if cp_failure (rl_code term) then rl_code term else 0), rest)).
Proof.
  induction infos as [|l infos IH]; intros o term rest HI HA HT AT.
  - cbn [lines_bytes map concat app fold_left]. rewrite eol_is_crlf. cbn [app].
    rewrite prg_line; [|apply clean_no_lf, render_clean, HT|lia]. cbn [rev app].
    rewrite (process_line_render o term HT), AT. reflexivity.
  - inversion HI as [|? ? HI1 HI2]; inversion HA as [|? ? HA1 HA2]; subst.
    unfold lines_bytes. cbn [map concat fold_left]. fold (lines_bytes infos).
    rewrite eol_is_crlf, <- !app_assoc. cbn [app].
    rewrite prg_line; [|apply clean_no_lf, render_clean, HI1|lia]. cbn [rev app].
    rewrite (process_line_render o l HI1), HA1.
    specialize (IH (add_line o l) term rest HI2 HA2 HT AT). rewrite eol_is_crlf in IH. cbn [app] in IH. exact IH.
Qed.

Lemma split_exact_app p rest : split_exact (length p) (p ++ rest) = Some (p, rest).
Proof. induction p as [|c p IH]; cbn [length split_exact app]; [reflexivity|]. rewrite IH. reflexivity. Qed.

Lemma expect_ok str rest : no_nul str -> expect str (str ++ rest) = CRet rest.
Proof. intros H. unfold expect. rewrite split_exact_app, (cstr_no_nul str H), text_eqb_refl. reflexivity. Qed.

(* the CLI's view of a conforming reply to a command: displayable lines, the last one (only) in 100..299 *)
Definition cmd_reply (r : reply) : Prop :=
  Forall (fun l => line_ok l /\ cp_alldone (rl_code l) = false) (rp_info r) /\ line_ok (rp_term r) /\ cp_alldone (rl_code (rp_term r)) = true.

Lemma info_not_alldone k : info_code k -> cp_alldone k = false.
Proof.
  unfold info_code, cp_alldone, cp_success_lo, cp_failure_hi. intros H. apply andb_false_iff. right. apply Z.leb_gt. lia.
Qed.

(* a reply that conforms to client_proto.h, with non-empty texts and a terminal code other than the banner's *)
Lemma conforming_cmd_reply r : conforming r -> Forall (fun l => rl_text l <> []) (rp_info r ++ [rp_term r]) ->
  rl_code (rp_term r) <> 1 -> cmd_reply r.
Proof.
  intros (HI & HT & TC) NE N1. apply Forall_app in NE as [NE1 NE2]. inversion NE2 as [|? ? NT _]; subst.
  unfold cmd_reply, line_ok. split; [|split; [split; [exact HT|exact NT]|]].
  - rewrite Forall_forall in *. intros l I. destruct (HI l I) as [W C].
    split; [split; [exact W|apply NE1, I]|apply info_not_alldone, C].
  - unfold cp_alldone. unfold terminal_code, success_code, failure_code in TC. destruct TC as [[TC|TC]|TC]; [congruence| |];
      unfold cp_success_lo, cp_success_hi, cp_failure_lo, cp_failure_hi in *; apply andb_true_iff; rewrite !Z.leb_le; lia.
Qed.

Definition after_reply (o : couts) (r : reply) : couts :=
  put_term (add_line (fold_left add_line (rp_info r) o) (rp_term r)) (rl_code (rp_term r)).
Definition reply_res (r : reply) : Z := if cp_failure (rl_code (rp_term r)) then rl_code (rp_term r) else 0.

Lemma reply_stream_bytes r : reply_stream r = lines_bytes (rp_info r) ++ (render_line (rp_term r) ++ CP_EOL) ++ CP_PROMPT.
Proof.
  unfold reply_stream, reply_bytes, reply_lines, lines_bytes. rewrite map_app, concat_app, map_map. cbn [map concat].
  rewrite app_nil_r, <- !app_assoc. reflexivity.
Qed.

Lemma request_reply o r rest : cmd_reply r -> request o (reply_stream r ++ rest) = (after_reply o r, CRet (reply_res r, rest)).
Proof.
  intros (HI & HT & AT).
  assert (HI1 : Forall line_ok (rp_info r)) by (eapply Forall_impl; [|exact HI]; intros l [A _]; exact A).
  assert (HI2 : Forall (fun l => cp_alldone (rl_code l) = false) (rp_info r)) by (eapply Forall_impl; [|exact HI]; intros l [_ A]; exact A).
  unfold request, process_response. rewrite reply_stream_bytes, <- !app_assoc.
  rewrite (prg_lines (rp_info r) o (rp_term r) (CP_PROMPT ++ rest) HI1 HI2 HT AT).
  cbn [cbind]. unfold clift. rewrite expect_ok by apply prompt_no_nul. reflexivity.
Qed.

(* ------------------------------------------------------------------ output accounting *)
Definition ev_diag (e : ev) : text := match e with EDiag t => t | EWarn _ => [] end.
Definition diag_of (evs : list ev) : text := concat (map ev_diag evs).
Definition out_of (o : couts) : text := concat (rev (o_out o)).
Definition err_of (o : couts) : text := diag_of (rev (o_err o)).

Lemma memz_existsb k l : memz k l = existsb (Z.eqb k) l.
Proof. induction l as [|a l IH]; cbn [memz existsb]; [reflexivity|]. rewrite IH, Z.eqb_sym. reflexivity. Qed.

Lemma add_line_out o l : out_of (add_line o l) = out_of o ++ shown cli_suppress cli_stderr false l.
Proof.
  unfold add_line, shown. rewrite <- !memz_existsb.
  destruct (memz (rl_code l) cli_suppress); [rewrite app_nil_r; reflexivity|].
  destruct (memz (rl_code l) cli_stderr); cbn [Bool.eqb]; unfold out_of; cbn [put_err put_out o_out rev].
  - rewrite app_nil_r. reflexivity.
  - rewrite concat_app. cbn [concat]. rewrite app_nil_r. reflexivity.
Qed.

Lemma add_line_err o l : err_of (add_line o l) = err_of o ++ shown cli_suppress cli_stderr true l.
Proof.
  unfold add_line, shown. rewrite <- !memz_existsb.
  destruct (memz (rl_code l) cli_suppress); [rewrite app_nil_r; reflexivity|].
  destruct (memz (rl_code l) cli_stderr); cbn [Bool.eqb]; unfold err_of, diag_of; cbn [put_err put_out o_err rev].
  - rewrite map_app, concat_app. cbn [map concat ev_diag]. rewrite app_nil_r. reflexivity.
  - rewrite app_nil_r. reflexivity.
Qed.

Lemma add_line_terms o l : o_terms (add_line o l) = o_terms o.
Proof. unfold add_line. destruct (memz _ cli_suppress); [reflexivity|]. destruct (memz _ cli_stderr); reflexivity. Qed.

Lemma add_lines_out ls : forall o, out_of (fold_left add_line ls o) = out_of o ++ concat (map (shown cli_suppress cli_stderr false) ls).
Proof.
  induction ls as [|l ls IH]; intros o; cbn [fold_left map concat]; [rewrite app_nil_r; reflexivity|].
  rewrite IH, add_line_out, <- app_assoc. reflexivity.
Qed.

Lemma add_lines_err ls : forall o, err_of (fold_left add_line ls o) = err_of o ++ concat (map (shown cli_suppress cli_stderr true) ls).
Proof.
  induction ls as [|l ls IH]; intros o; cbn [fold_left map concat]; [rewrite app_nil_r; reflexivity|].
  rewrite IH, add_line_err, <- app_assoc. reflexivity.
Qed.

Lemma add_lines_terms ls : forall o, o_terms (fold_left add_line ls o) = o_terms o.
Proof. induction ls as [|l ls IH]; intros o; cbn [fold_left]; [reflexivity|]. rewrite IH, add_line_terms. reflexivity. Qed.

Lemma after_reply_fold o r : after_reply o r = put_term (fold_left add_line (rp_info r ++ [rp_term r]) o) (rl_code (rp_term r)).
Proof. unfold after_reply. rewrite fold_left_app. reflexivity. Qed.

Definition term_code (r : reply) : Z := rl_code (rp_term r).

Lemma after_replies rs : forall o,
  out_of (fold_left after_reply rs o) = out_of o ++ spec_output cli_suppress cli_stderr false rs /\
  err_of (fold_left after_reply rs o) = err_of o ++ spec_output cli_suppress cli_stderr true rs /\
  o_terms (fold_left after_reply rs o) = rev (map term_code rs) ++ o_terms o.
Proof.
  unfold spec_output. induction rs as [|r rs IH]; intros o; cbn [fold_left map concat rev app].
  - rewrite !app_nil_r. auto.
  - destruct (IH (after_reply o r)) as (A & B & C). rewrite A, B, C, after_reply_fold.
    unfold out_of at 1, err_of at 1. cbn [put_term o_out o_err o_terms].
    fold (out_of (fold_left add_line (rp_info r ++ [rp_term r]) o)). fold (err_of (fold_left add_line (rp_info r ++ [rp_term r]) o)).
    rewrite add_lines_out, add_lines_err, add_lines_terms, <- !app_assoc. cbn [app]. auto.
Qed.

(* ------------------------------------------------------------------ the requests of a session *)
Lemma requests_replies pre : forall o main rest,
  Forall cmd_reply pre -> Forall (fun r => cp_success (term_code r) = true) pre -> cmd_reply main ->
  requests (length pre) o (concat (map reply_stream (pre ++ [main])) ++ rest) =
  (fold_left after_reply (pre ++ [main]) o, CRet (reply_res main, rest)).
Proof.
  induction pre as [|r pre IH]; intros o main rest HP HS HM; cbn [length requests app map concat fold_left].
  - rewrite app_nil_r. apply request_reply. exact HM.
  - inversion HP as [|? ? HP1 HP2]; inversion HS as [|? ? HS1 HS2]; subst. rewrite <- app_assoc. rewrite request_reply by auto. cbn [cbind].
    unfold reply_res at 1. fold (term_code r). rewrite (class_disjoint _ HS1). cbn [Z.eqb]. apply IH; auto.
Qed.

(* ------------------------------------------------------------------ the banner *)
Lemma scan_token_all n : Forall (fun c => is_space c = false /\ c <> NUL) n -> scan_token n = n.
Proof.
  induction n as [|c n IH]; intros H; cbn [scan_token]; [reflexivity|].
  inversion H as [|? ? [H1 _] H2]; subst. rewrite H1. f_equal. auto.
Qed.

Lemma nonspace_not_lf c : is_space c = false -> c <> LF.
Proof. intros H E. subst. discriminate. Qed.

Lemma sscanf_version version : wf_name version -> sscanf_s CP_VERSION (bs "001 "%string ++ version) = Some version.
Proof.
  intros [NE H]. destruct version as [|c v]; [congruence|].
  inversion H as [|? ? [H1 _] H2]; subst.
  change (sscanf_s CP_VERSION (bs "001 "%string ++ c :: v))
    with (match scan_token (skip_ws (skip_ws (c :: v))) with [] => None | tok => Some tok end).
  rewrite !skip_ws_nonspace by exact H1. rewrite scan_token_all by exact H. reflexivity.
Qed.

Lemma process_version_ok version rest : wf_name version ->
  process_version o_empty ((bs "001 "%string ++ version ++ CP_EOL) ++ rest) =
  ((if text_eqb version PACKAGE_VERSION then o_empty else put_err o_empty (EWarn version)), CRet rest).
Proof.
  intros W. unfold process_version, xreadstr.
  replace ((bs "001 "%string ++ version ++ CP_EOL) ++ rest) with ((bs "001 "%string ++ version) ++ CR :: LF :: rest)
    by (rewrite eol_is_crlf, <- !app_assoc; reflexivity).
  destruct W as [NE H].
  rewrite xreadstr_line; [|apply Forall_app; split; [repeat constructor; discriminate|]|lia].
  2:{ eapply Forall_impl; [|exact H]. intros c [Hc _]. apply nonspace_not_lf, Hc. }
  cbn [rev app].
  rewrite cstr_no_nul.
  2:{ apply no_nul_app; [unfold no_nul; cbv; intuition discriminate|]. unfold no_nul. intros I. rewrite Forall_forall in H. apply H in I. tauto. }
  rewrite sscanf_version by (split; auto). reflexivity.
Qed.

Lemma quit_no_nul : no_nul CP_RSP_QUIT.
Proof. unfold no_nul. cbv. intuition discriminate. Qed.

Lemma expect_ok_end str : no_nul str -> expect str str = CRet [].
Proof. intros H. rewrite <- (app_nil_r str) at 2. apply expect_ok. exact H. Qed.

Lemma alldone_success k : cp_alldone k = true -> (cp_success k = true <-> success_code k).
Proof.
  unfold cp_alldone, cp_success, success_code, cp_success_lo, cp_success_hi, cp_failure_hi.
  rewrite !andb_true_iff, !Z.leb_le. lia.
Qed.

(* ------------------------------------------------------------------ a whole conforming session *)
Lemma cli_conforming version pre main :
  wf_name version -> Forall cmd_reply pre -> Forall (fun r => cp_success (term_code r) = true) pre -> cmd_reply main ->
  exists r, cli (length pre) (session_stream version (pre ++ [main])) = Ok r /\
    c_fatal r = None /\
    c_stdout r = spec_output cli_suppress cli_stderr false (pre ++ [main]) /\
    diag_of (c_stderr r) = spec_output cli_suppress cli_stderr true (pre ++ [main]) /\
    c_terms r = map term_code (pre ++ [main]) /\
    (c_status r = 0 <-> success_code (term_code main)).
Proof.
  intros W HP HS HM. unfold cli, session_stream.
  rewrite process_version_ok by exact W. cbn [cbind]. unfold clift.
  rewrite expect_ok by apply prompt_no_nul. cbn [cbind].
  rewrite requests_replies by auto. cbn [cbind].
  rewrite expect_ok_end by apply quit_no_nul. cbn [cbind finish].
  eexists. split; [reflexivity|]. cbn [c_fatal c_stdout c_stderr c_terms c_status]. rewrite !frev_rev.
  set (o0 := if text_eqb version PACKAGE_VERSION then o_empty else put_err o_empty (EWarn version)).
  destruct (after_replies (pre ++ [main]) o0) as (A & B & C).
  assert (O0 : out_of o0 = [] /\ err_of o0 = [] /\ o_terms o0 = []).
  { unfold o0. destruct (text_eqb version PACKAGE_VERSION); repeat split; reflexivity. }
  destruct O0 as (O1 & O2 & O3).
  split; [reflexivity|]. split; [fold (out_of (fold_left after_reply (pre ++ [main]) o0)); rewrite A, O1; reflexivity|].
  split; [fold (err_of (fold_left after_reply (pre ++ [main]) o0)); rewrite B, O2; reflexivity|].
  split; [rewrite C, O3, app_nil_r, rev_involutive; reflexivity|].
  destruct HM as (_ & _ & AT). unfold reply_res. fold (term_code main) in *.
  rewrite (exit_status_zero _ AT). apply alldone_success. exact AT.
Qed.
