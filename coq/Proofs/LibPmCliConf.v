(* C16: the powerman CLI on a conforming session prints exactly the reply text and exits 0 iff the terminal code of
   the request is a success code *)
From Coq Require Import List NArith ZArith Bool Lia.
From PM Require Import Base.Bytes Base.Outcome Gen.GenConsts Gen.GenLibPm Model.LibPm Spec.ReplySpec
  Proofs.LibPmBase Proofs.LibPmRecv Proofs.LibPmReply Proofs.LibPmCli.
Import ListNotations.
Local Open Scope Z_scope.

Definition line_ok (l : rline) : Prop := wf_line l /\ rl_text l <> [].

(* what one displayed line adds to the CLI's output state *)
Definition add_line (o : couts) (l : rline) : couts :=
  if memz (rl_code l) cli_suppress then o
  else if memz (rl_code l) cli_stderr then put_err o (EDiag (rl_text l ++ [LF])) else put_out o (rl_text l ++ [LF]).

Lemma scan_int_dec3 k rest : 0 <= k <= 999 -> scan_int (dec3 k ++ SP :: rest) = Some (k, SP :: rest).
Proof.
  intros H. destruct (dec3_digits k H) as (a & b & c & -> & Ha & Hb & Hc & ->).
  destruct (digit_facts a Ha) as (A1 & A2 & A3 & A4 & A5 & _). destruct (digit_facts b Hb) as (B1 & _ & _ & _ & B5 & _).
  destruct (digit_facts c Hc) as (C1 & _ & _ & _ & C5 & _).
  unfold scan_int. cbn [app skip_ws]. rewrite A2, A3, A4, A1.
  cbn [digits_val]. rewrite A1, B1, C1, is_digit_SP, A5, B5, C5. f_equal. f_equal. lia.
Qed.

Lemma strtol10_render l : 0 <= rl_code l <= 999 -> strtol10 (render_line l) = rl_code l.
Proof.
  intros Hk. unfold strtol10, render_line. rewrite scan_int_dec3 by exact Hk.
  unfold clamp_long, LONG_MIN, LONG_MAX. rewrite Z.min_r, Z.max_r by lia. reflexivity.
Qed.

Lemma process_line_render o l : line_ok l -> process_line_text o (render_line l) = (add_line o l, CRet (rl_code l)).
Proof.
  intros [[Hk Hc] NE]. unfold process_line_text. cbv zeta.
  rewrite (cstr_no_nul (render_line l)) by (apply clean_no_nul, render_clean; split; auto).
  rewrite (strtol10_render l Hk).
  replace ((rl_code l =? LONG_MIN) || (rl_code l =? LONG_MAX)) with false.
  2:{ symmetry. apply orb_false_iff. unfold LONG_MIN, LONG_MAX. split; apply Z.eqb_neq; lia. }
  assert (T : to_int32 (rl_code l) = rl_code l).
  { unfold to_int32. rewrite Z.mod_small by lia. destruct (rl_code l <? 2147483648) eqn:E; [reflexivity|]. apply Z.ltb_ge in E. lia. }
  rewrite T.
  assert (L : zlen (render_line l) = 4 + zlen (rl_text l)).
  { unfold render_line, dec3. rewrite zlen_app, zlen_cons. cbn [zlen]. lia. }
  rewrite L. destruct (rl_text l) as [|t0 tx] eqn:ET; [congruence|].
  replace (4 <? 4 + zlen (t0 :: tx)) with true by (symmetry; apply Z.ltb_lt; rewrite zlen_cons; pose proof (zlen_nonneg tx); lia).
  unfold add_line, render_line, dec3. rewrite ET. cbn [app skipn]. reflexivity.
Qed.

(* ------------------------------------------------------------------ reading one CRLF-terminated line *)
Lemma xreadstr_line l : Forall (fun c => c <> LF) l -> forall size len prev acc rest, 0 <= len <= size ->
  xreadstr_go size len prev acc (l ++ CR :: LF :: rest) = CRet (rev acc ++ l, rest).
Proof.
  induction l as [|x l IH]; intros HL size len prev acc rest H.
  - cbn [app xreadstr_go].
    destruct (xread_arith size len H) as [E1 E2]. rewrite E1.
    set (size' := if size - len - 1 <=? 0 then size + XREAD_CHUNKSIZE else size) in *.
    replace (beq CR LF) with false by reflexivity. rewrite andb_false_r.
    destruct (xread_arith size' (len + 1) E2) as [E3 E4]. rewrite E3.
    replace (2 <=? len + 1 + 1) with true by (symmetry; apply Z.leb_le; lia).
    rewrite !beq_refl. cbn [andb tl]. rewrite frev_rev, app_nil_r. reflexivity.
  - cbn [app xreadstr_go]. inversion HL as [|? ? Hx HL']; subst.
    destruct (xread_arith size len H) as [E1 E2]. rewrite E1.
    replace (beq x LF) with false by (symmetry; apply beq_neq; exact Hx). rewrite andb_false_r.
    rewrite IH by auto. cbn [rev]. rewrite <- app_assoc. reflexivity.
Qed.

Lemma prg_line l : Forall (fun c => c <> LF) l -> forall o size len prev acc rest, 0 <= len <= size ->
  process_response_go o size len prev acc (l ++ CR :: LF :: rest) =
  match process_line_text o (rev acc ++ l) with
  | (o', CRet num) => if cp_alldone num then (put_term o' num, CRet ((if cp_failure num then num else 0), rest))
                      else process_response_go o' 0 0 NUL [] rest
  | (o', CFatal s) => (o', CFatal s)
  | (o', CMem s) => (o', CMem s)
  end.
Proof.
  induction l as [|x l IH]; intros HL o size len prev acc rest H.
  - cbn [app process_response_go].
    destruct (xread_arith size len H) as [E1 E2]. rewrite E1.
    set (size' := if size - len - 1 <=? 0 then size + XREAD_CHUNKSIZE else size) in *.
    replace (beq CR LF) with false by reflexivity. rewrite andb_false_r.
    destruct (xread_arith size' (len + 1) E2) as [E3 E4]. rewrite E3.
    replace (2 <=? len + 1 + 1) with true by (symmetry; apply Z.leb_le; lia).
    rewrite !beq_refl. cbn [andb tl]. rewrite frev_rev, app_nil_r. reflexivity.
  - cbn [app process_response_go]. inversion HL as [|? ? Hx HL']; subst.
    destruct (xread_arith size len H) as [E1 E2]. rewrite E1.
    replace (beq x LF) with false by (symmetry; apply beq_neq; exact Hx). rewrite andb_false_r.
    rewrite IH by auto. cbn [rev]. rewrite <- app_assoc. reflexivity.
Qed.

Lemma clean_no_lf l : clean l -> Forall (fun c => c <> LF) l.
Proof. intros H. eapply Forall_impl; [|exact H]. intros c (_ & Hc & _). exact Hc. Qed.

(* ------------------------------------------------------------------ one response *)
Definition lines_bytes (ls : list rline) : text := concat (map (fun l => render_line l ++ CP_EOL) ls).

Lemma prg_lines infos : forall o term rest,
  Forall line_ok infos -> Forall (fun l => cp_alldone (rl_code l) = false) infos ->
  line_ok term -> cp_alldone (rl_code term) = true ->
  process_response_go o 0 0 NUL [] (lines_bytes infos ++ (render_line term ++ CP_EOL) ++ rest) =
  (put_term (add_line (fold_left add_line infos o) term) (rl_code term),
   CRet ((if cp_failure (rl_code term) then rl_code term else 0), rest)).
Proof.
  induction infos as [|l infos IH]; intros o term rest HI HA HT AT.
  - cbn [lines_bytes map concat app fold_left]. rewrite eol_is_crlf, <- app_assoc. cbn [app].
    rewrite prg_line by (try lia; apply clean_no_lf, render_clean, HT). cbn [rev app].
    rewrite (process_line_render o term HT), AT. reflexivity.
  - inversion HI as [|? ? HI1 HI2]; inversion HA as [|? ? HA1 HA2]; subst.
    unfold lines_bytes. cbn [map concat fold_left]. fold (lines_bytes infos).
    rewrite eol_is_crlf, <- !app_assoc. cbn [app].
    rewrite prg_line by (try lia; apply clean_no_lf, render_clean, HI1). cbn [rev app].
    rewrite (process_line_render o l HI1), HA1. rewrite <- eol_is_crlf.
    rewrite <- (IH (add_line o l) term rest HI2 HA2 HT AT). rewrite <- !app_assoc. reflexivity.
Qed.

Lemma split_exact_app p rest : split_exact (length p) (p ++ rest) = Some (p, rest).
Proof. induction p as [|c p IH]; cbn [length split_exact app]; [reflexivity|]. rewrite IH. reflexivity. Qed.

Lemma expect_ok str rest : no_nul str -> expect str (str ++ rest) = CRet rest.
Proof. intros H. unfold expect. rewrite split_exact_app, (cstr_no_nul str H), text_eqb_refl. reflexivity. Qed.

(* the CLI's view of a conforming reply to a command: displayable lines, the last one (only) in 100..299 *)
Definition cmd_reply (r : reply) : Prop :=
  Forall (fun l => line_ok l /\ cp_alldone (rl_code l) = false) (rp_info r) /\ line_ok (rp_term r) /\ cp_alldone (rl_code (rp_term r)) = true.

Lemma info_not_alldone k : info_code k -> cp_alldone k = false.
Proof.
  unfold info_code, cp_alldone, cp_success_lo, cp_failure_hi. intros H. apply andb_false_iff. right. apply Z.leb_gt. lia.
Qed.

(* a reply that conforms to client_proto.h, with non-empty texts and a terminal code other than the banner's *)
Lemma conforming_cmd_reply r : conforming r -> Forall (fun l => rl_text l <> []) (rp_info r ++ [rp_term r]) ->
  rl_code (rp_term r) <> 1 -> cmd_reply r.
Proof.
  intros (HI & HT & TC) NE N1. apply Forall_app in NE as [NE1 NE2]. inversion NE2; subst. unfold cmd_reply, line_ok. repeat split; auto.
  - rewrite Forall_forall in *. intros l I. destruct (HI l I) as [W C]. repeat split; auto. apply info_not_alldone, C.
  - apply HT.
  - apply HT.
  - unfold cp_alldone, cp_success_lo, cp_failure_hi. destruct TC as [[TC|TC]|TC]; [congruence| |];
      unfold cp_success_lo, cp_success_hi, cp_failure_lo, cp_failure_hi in TC; apply andb_true_iff; rewrite !Z.leb_le; lia.
Qed.

Definition after_reply (o : couts) (r : reply) : couts :=
  put_term (add_line (fold_left add_line (rp_info r) o) (rp_term r)) (rl_code (rp_term r)).
Definition reply_res (r : reply) : Z := if cp_failure (rl_code (rp_term r)) then rl_code (rp_term r) else 0.

Lemma reply_stream_bytes r : reply_stream r = lines_bytes (rp_info r) ++ (render_line (rp_term r) ++ CP_EOL) ++ CP_PROMPT.
Proof.
  unfold reply_stream, reply_bytes, reply_lines, lines_bytes. rewrite map_app, concat_app, map_map. cbn [map concat].
  rewrite app_nil_r, <- !app_assoc. reflexivity.
Qed.

Lemma request_reply o r rest : cmd_reply r -> request o (reply_stream r ++ rest) = (after_reply o r, CRet (reply_res r, rest)).
Proof.
  intros (HI & HT & AT). unfold request, process_response. rewrite reply_stream_bytes, <- !app_assoc.
  rewrite prg_lines; auto.
  - cbn [cbind]. unfold clift. rewrite expect_ok by apply prompt_no_nul. reflexivity.
  - eapply Forall_impl; [|exact HI]. intros l [A _]. exact A.
  - eapply Forall_impl; [|exact HI]. intros l [_ A]. exact A.
Qed.
