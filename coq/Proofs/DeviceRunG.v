(* The operations the daemon performs on a device outside dev_post_poll (append client actions, expedite, the initial
   state), for the dev->to-free invariant DInvG of Proofs/DeviceInvG.v: the G counterparts of
   append_client_action_inv / fold_append_inv / expedite_inv / mk_device_inv of Proofs/DeviceRun.v, so that a layer
   built on DInvR can move to DInvRG (tcp transports with the telnet filter) lemma by lemma. *)
From Coq Require Import List NArith ZArith Bool Lia.
From PM Require Import Base.Bytes Base.Outcome Base.Dec Gen.GenConsts Gen.GenCbuf Model.ScriptAst Model.Enqueue Model.Script Model.Device
  Model.DevHarness Proofs.DeviceProofs Proofs.DeviceStmt Proofs.DeviceStmtG Proofs.DeviceInv Proofs.DeviceInvG Proofs.DeviceRun.
Import ListNotations.
Local Open Scope Z_scope.

Section RunG.
  Variable compress : list text -> text.

  Definition DInvRG (d : device) : Prop := DInvG compress d /\ 0 <= dv_retry_count d.

  Lemma DInvR_G d : DInvR compress d -> Flags d -> DInvRG d.
  Proof. intros [I H] F. split; [now apply DInv_G|exact H]. Qed.

  Lemma append_client_action_invG d q client tele args :
    DInvG compress d -> (exists s, assoc_script (qa_com q) (dv_scripts d) = Some s) -> Z.eqb (qa_com q) PM_LOG_IN = false ->
    opt_incl (qa_plugs q) (sd_plugs (dv d)) -> (is_ranged_com (qa_com q) = true -> qa_plugs q <> None) ->
    exists d', append_client_action d q client tele args = Ok d' /\ DInvG compress d' /\ same_cfg d d' /\
      queued d' = queued d ++ [client] /\ dv_cstate d' = dv_cstate d /\ dv_retry_count d' = dv_retry_count d /\ dv_last_retry d' = dv_last_retry d.
  Proof.
    intros I (s & Es) Hnl Hpl Hrg. unfold append_client_action. rewrite Es. eexists. split; [reflexivity|].
    set (a := create_action s (qa_com q) (qa_plugs q) client true tele true (Some args)).
    assert (Hwa : DeviceStmt.wf_action compress (sd_plugs (dv d)) a).
    { apply create_action_wf; auto. apply (proj2 (dg_cfg _ d I) _ _ Es). }
    split; [|split; [repeat split|]; split; [|repeat split]].
    - constructor; cbn [dv dv_scripts dv_timeout dv_ping_period dv_cstate dv_logged_in dv_has_fd dv_acts set_acts].
      + exact (dg_cfg _ d I). + exact (dg_state _ d I). + exact (dg_fd _ d I). + exact (dg_li _ d I).
      + apply Forall_app. split; [exact (dg_acts _ d I)|constructor; [exact Hwa|constructor]].
      + pose proof (dg_tail _ d I) as Ht. destruct (dv_acts d) as [|h r]; cbn [app tl]; [constructor|].
        apply Forall_app. split; [exact Ht|constructor; [exact Hnl|constructor]].
      + rewrite <- (dg_head _ d I). split; intros (l & r & El & Hl).
        * destruct (dv_acts d) as [|h r0]; cbn [app] in El.
          -- inversion El; subst. unfold is_login in Hl. cbn in Hl. congruence.
          -- inversion El; subst. eexists _, _. split; [reflexivity|exact Hl].
        * rewrite El. cbn [app]. eexists _, _. split; [reflexivity|exact Hl].
      + apply Forall_app. split; [exact (dg_cb _ d I)|constructor; [intros _; exact Hnl|constructor]].
      + unfold Flags. cbn [dv_acts set_acts]. apply Forall_app. split; [exact (dg_flags _ d I)|constructor; [intros _; reflexivity|constructor]].
    - unfold queued. cbn [dv_acts set_acts]. rewrite filter_app, map_app. reflexivity.
  Qed.

  Lemma fold_append_invG client tele args : forall (qs : list qact) d,
    DInvG compress d ->
    (forall q, In q qs -> (exists s, assoc_script (qa_com q) (dv_scripts d) = Some s) /\ Z.eqb (qa_com q) PM_LOG_IN = false /\
                          opt_incl (qa_plugs q) (sd_plugs (dv d)) /\ (is_ranged_com (qa_com q) = true -> qa_plugs q <> None)) ->
    exists d', fold_left (fun od a => match od with Ok x => append_client_action x a client tele args | e => e end) qs (Ok d) = Ok d' /\
      DInvG compress d' /\ same_cfg d d' /\ queued d' = queued d ++ repeat client (length qs) /\
      dv_cstate d' = dv_cstate d /\ dv_retry_count d' = dv_retry_count d /\ dv_last_retry d' = dv_last_retry d.
  Proof.
    induction qs as [|q r IH]; intros d I Hq; cbn [fold_left].
    - exists d. rewrite app_nil_r. split; [reflexivity|]. split; [exact I|]. split; [apply same_cfg_refl|]. repeat split.
    - destruct (Hq q (or_introl eq_refl)) as (H1 & H2 & H3 & H4).
      destruct (append_client_action_invG d q client tele args I H1 H2 H3 H4) as (d1 & E1 & I1 & S1 & Q1 & C1 & R1 & L1).
      rewrite E1. destruct (IH d1 I1) as (d2 & E2 & I2 & S2 & Q2 & C2 & R2 & L2).
      { intros q' Hin. destruct (Hq q' (or_intror Hin)) as (G1 & G2 & G3 & G4).
        destruct S1 as (Es & _ & _ & Ep & _). rewrite Es, Ep. auto. }
      exists d2. split; [exact E2|]. split; [exact I2|]. split; [eapply same_cfg_trans; eassumption|].
      split; [rewrite Q2, Q1, <- app_assoc; reflexivity|]. repeat split; congruence.
  Qed.

  Lemma expedite_invG d : DInvRG d -> DInvRG (expedite d) /\ same_cfg d (expedite d) /\ queued (expedite d) = queued d.
  Proof.
    intros [I Hrc]. unfold expedite. destruct (connected d); [split; [split; [exact I|exact Hrc]|split; [apply same_cfg_refl|reflexivity]]|].
    split; [|split; [repeat split|reflexivity]]. split; [|cbn; lia].
    destruct I. constructor; auto.
  Qed.

  Lemma mk_device_invG name plugs scripts timeout ping :
    cfg_ok compress (mk_device name plugs scripts timeout ping) -> DInvRG (mk_device name plugs scripts timeout ping) /\
    dv_cstate (mk_device name plugs scripts timeout ping) = DEV_NOT_CONNECTED.
  Proof.
    intros Hc. destruct (mk_device_inv compress name plugs scripts timeout ping Hc) as [H1 H2]. split; [|exact H2].
    apply DInvR_G; [exact H1|constructor].
  Qed.
End RunG.
