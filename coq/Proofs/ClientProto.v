(* Facts about the protocol recogniser Spec/Proto.v: the tokeniser and `render` are inverse to each other on
   well-formed tokens; composition lemmas for the automaton. *)
From Coq Require Import List NArith ZArith Bool Lia ZifyBool ZifyNat ZifyN.
From PM Require Import Base.Bytes Gen.GenConsts Gen.GenClient Spec.Proto.
Import ListNotations.
Local Open Scope N_scope.

Definition wf_tok (t : tok) : Prop :=
  match t with TLine c p => c < 1000 /\ eol_free p = true | TPrompt => True end.

(* ---------- eol_free ---------- *)
Lemma eol_free_app a b : eol_free (a ++ b) = eol_free a && eol_free b.
Proof. unfold eol_free. apply forallb_app. Qed.

Lemma eol_free_cons c r : eol_free (c :: r) = negb (eol_byte c) && eol_free r.
Proof. reflexivity. Qed.

Lemma eol_free_firstn n t : eol_free t = true -> eol_free (firstn n t) = true.
Proof.
  revert n; induction t as [|c r IH]; intros [|n] H; cbn [firstn]; auto.
  rewrite eol_free_cons in *. apply andb_true_iff in H as [H1 H2]. rewrite H1. cbn. auto.
Qed.

Lemma eol_free_skipn n t : eol_free t = true -> eol_free (skipn n t) = true.
Proof.
  revert n; induction t as [|c r IH]; intros [|n] H; cbn [skipn]; auto.
  rewrite eol_free_cons in H. apply andb_true_iff in H as [H1 H2]. auto.
Qed.

Lemma eol_free_ge t : Forall (fun c => 32 <= c) t -> eol_free t = true.
Proof.
  induction 1 as [|c r H _ IH]; [reflexivity|]. rewrite eol_free_cons, IH, andb_true_r.
  unfold eol_byte. destruct (N.eqb_spec c 13); [lia|]. destruct (N.eqb_spec c 10); [lia|]. reflexivity.
Qed.

(* ---------- split_eol ---------- *)
Lemma split_eol_app p r : eol_free p = true -> split_eol (p ++ 13 :: 10 :: r) = Some (p, r).
Proof.
  induction p as [|c p IH]; intros H.
  - reflexivity.
  - rewrite eol_free_cons in H. apply andb_true_iff in H as [H1 H2].
    unfold eol_byte in H1. apply negb_true_iff, orb_false_iff in H1 as [A B].
    cbn [app split_eol]. rewrite A, B, (IH H2). reflexivity.
Qed.

Lemma split_eol_sound s : forall l r, split_eol s = Some (l, r) -> s = l ++ 13 :: 10 :: r /\ eol_free l = true.
Proof.
  induction s as [|c s IH]; intros l r H; [discriminate|].
  cbn [split_eol] in H.
  destruct (N.eqb_spec c 13) as [E|E].
  - subst c. destruct s as [|d s']; [discriminate|].
    destruct (N.eqb_spec d 10) as [E2|E2]; [|discriminate]. subst d. inversion H; subst. split; reflexivity.
  - destruct (N.eqb_spec c 10) as [E2|E2]; [discriminate|].
    destruct (split_eol s) as [[l' r']|] eqn:Es; [|discriminate]. inversion H; subst.
    destruct (IH _ _ eq_refl) as [-> Hf]. split; [reflexivity|].
    rewrite eol_free_cons, Hf, andb_true_r. unfold eol_byte.
    destruct (N.eqb_spec c 13); [contradiction|]. destruct (N.eqb_spec c 10); [contradiction|]. reflexivity.
Qed.

(* ---------- three-digit codes ---------- *)
Ltac Zify.zify_post_hook ::= Z.div_mod_to_equations.

Lemma digit_eol d : is_digit d = true -> eol_byte d = false.
Proof.
  unfold is_digit, eol_byte. intros H. apply andb_true_iff in H as [H _]. apply N.leb_le in H.
  destruct (N.eqb_spec d 13); [lia|]. destruct (N.eqb_spec d 10); [lia|]. reflexivity.
Qed.

Lemma digits3_facts c : c < 1000 ->
  exists a b d, digits3 c = [a; b; d] /\ is_digit a = true /\ is_digit b = true /\ is_digit d = true
                /\ code3 a b d = c.
Proof.
  intros H. exists (48 + c / 100), (48 + (c / 10) mod 10), (48 + c mod 10).
  split; [reflexivity|].
  unfold is_digit, code3. repeat split; try (apply andb_true_iff; split; apply N.leb_le; lia). lia.
Qed.

Lemma parse_line_digits a b d p : is_digit a = true -> is_digit b = true -> is_digit d = true ->
  parse_line (a :: b :: d :: 32 :: p) = Some (code3 a b d, p).
Proof. intros A B D. cbn [parse_line]. rewrite A, B, D. reflexivity. Qed.

Lemma parse_line_render c p : c < 1000 -> parse_line (digits3 c ++ 32 :: p) = Some (c, p).
Proof.
  intros H. destruct (digits3_facts c H) as [a [b [d [E [A [B [D V]]]]]]]. rewrite E. cbn [app].
  rewrite (parse_line_digits a b d p A B D), V. reflexivity.
Qed.

Lemma parse_line_sound l c p : parse_line l = Some (c, p) -> l = digits3 c ++ 32 :: p /\ c < 1000.
Proof.
  destruct l as [|a [|b [|d [|s q]]]]; try discriminate. unfold parse_line.
  destruct (is_digit a && is_digit b && is_digit d && N.eqb s 32) eqn:E; [|discriminate].
  apply andb_true_iff in E as [E Es]. apply andb_true_iff in E as [E Dd]. apply andb_true_iff in E as [Da Db].
  apply N.eqb_eq in Es. subst s.
  intros H. injection H as Hc Hp. subst p c.
  unfold is_digit, code3 in *. apply andb_true_iff in Da as [A1 A2], Db as [B1 B2], Dd as [C1 C2].
  apply N.leb_le in A1, A2, B1, B2, C1, C2.
  set (x := a - 48) in *. set (y := b - 48) in *. set (z := d - 48) in *.
  assert (Ea : a = 48 + x) by lia. assert (Eb : b = 48 + y) by lia. assert (Ed : d = 48 + z) by lia.
  assert (x <= 9 /\ y <= 9 /\ z <= 9) as [Hx [Hy Hz]] by lia.
  assert (Q1 : (100 * x + 10 * y + z) / 100 = x) by lia.
  assert (Q2 : ((100 * x + 10 * y + z) / 10) mod 10 = y) by lia.
  assert (Q3 : (100 * x + 10 * y + z) mod 10 = z) by lia.
  split; [|lia]. unfold digits3. rewrite Q1, Q2, Q3. cbn [app]. rewrite <- Ea, <- Eb, <- Ed. reflexivity.
Qed.

(* ---------- one token ---------- *)
Lemma prompt_facts : exists x r, CP_PROMPT = x :: r /\ is_digit x = false.
Proof. vm_compute. eauto. Qed.

Lemma skipn_app_exact {A} (p r : list A) : skipn (length p) (p ++ r) = r.
Proof. induction p; cbn; auto. Qed.

Lemma next_tok_render t r : wf_tok t -> next_tok (render1 t ++ r) = Some (t, r).
Proof.
  destruct t as [c p|]; intros W.
  - destruct W as [Hc Hp]. unfold next_tok, render1.
    destruct prompt_facts as [x [pr [Ep Hx]]].
    destruct (digits3_facts c Hc) as [a [b [d [E [A [B [D V]]]]]]].
    assert (Hnp : is_prefix CP_PROMPT ((digits3 c ++ 32 :: p ++ [13; 10]) ++ r) = false).
    { rewrite Ep, E. cbn [app is_prefix].
      destruct (N.eqb_spec x a) as [E1|E1]; [|reflexivity]. rewrite E1 in Hx. congruence. }
    rewrite Hnp.
    replace ((digits3 c ++ 32 :: p ++ [13; 10]) ++ r) with ((digits3 c ++ 32 :: p) ++ 13 :: 10 :: r)
      by (rewrite <- !app_assoc; cbn [app]; rewrite <- app_assoc; reflexivity).
    rewrite split_eol_app.
    + rewrite (parse_line_render c p Hc). reflexivity.
    + rewrite E. cbn [app]. rewrite !eol_free_cons, (digit_eol _ A), (digit_eol _ B), (digit_eol _ D), Hp. reflexivity.
  - unfold next_tok, render1.
    assert (is_prefix CP_PROMPT (CP_PROMPT ++ r) = true) as -> by (apply is_prefix_spec; eauto).
    rewrite skipn_app_exact. reflexivity.
Qed.

Lemma render1_nonempty t : render1 t <> [].
Proof.
  destruct t as [c p|]; cbn [render1]; [unfold digits3; discriminate|].
  destruct prompt_facts as [x [pr [Ep _]]]. rewrite Ep. discriminate.
Qed.

Lemma next_tok_sound s t r : next_tok s = Some (t, r) -> s = render1 t ++ r /\ wf_tok t.
Proof.
  unfold next_tok. destruct (is_prefix CP_PROMPT s) eqn:Ep.
  - intros H. assert (t = TPrompt /\ r = skipn (length CP_PROMPT) s) as [-> ->] by (split; congruence). clear H.
    apply is_prefix_spec in Ep as [x ->]. rewrite skipn_app_exact. split; [reflexivity|exact I].
  - destruct (split_eol s) as [[l r']|] eqn:Es; [|discriminate].
    destruct (parse_line l) as [[c p]|] eqn:El; [|discriminate].
    intros H. injection H as <- <-.
    apply split_eol_sound in Es as [-> Hf]. apply parse_line_sound in El as [-> Hc].
    split.
    + cbn [render1]. rewrite <- !app_assoc. cbn [app]. rewrite <- app_assoc. reflexivity.
    + split; [exact Hc|]. rewrite eol_free_app, eol_free_cons in Hf. apply andb_true_iff in Hf as [_ Hf].
      apply andb_true_iff in Hf as [_ Hf]. exact Hf.
Qed.

(* ---------- whole streams ---------- *)
Lemma lex_render ts : Forall wf_tok ts -> forall fuel, (length ts < fuel)%nat -> lex fuel (render ts) = Some ts.
Proof.
  induction 1 as [|t ts W _ IH]; intros fuel Hf.
  - destruct fuel; [lia|]. reflexivity.
  - destruct fuel as [|fuel]; [cbn in Hf; lia|]. cbn [length] in Hf.
    cbn [render flat_map lex]. fold (render ts).
    destruct (render1 t ++ render ts) eqn:E.
    + exfalso. apply app_eq_nil in E as [E _]. exact (render1_nonempty _ E).
    + rewrite <- E. rewrite (next_tok_render t (render ts) W). rewrite IH by lia. reflexivity.
Qed.

Lemma render_length ts : (length ts <= length (render ts))%nat.
Proof.
  induction ts as [|t ts IH]; [cbn; lia|]. cbn [render flat_map length]. fold (render ts). rewrite app_length.
  pose proof (render1_nonempty t). destruct (render1 t); [contradiction|]. cbn [length]. lia.
Qed.

Theorem tokens_render ts : Forall wf_tok ts -> tokens (render ts) = Some ts.
Proof. intros W. unfold tokens. apply lex_render; [exact W|]. pose proof (render_length ts). lia. Qed.

Lemma lex_sound fuel : forall s ts, lex fuel s = Some ts -> s = render ts /\ Forall wf_tok ts.
Proof.
  induction fuel as [|fuel IH]; intros s ts H; [discriminate|].
  cbn [lex] in H. destruct s as [|x s']; [inversion H; split; [reflexivity|constructor]|].
  destruct (next_tok (x :: s')) as [[t r]|] eqn:En; [|discriminate].
  destruct (lex fuel r) as [ts'|] eqn:El; [|discriminate]. inversion H; subst.
  apply next_tok_sound in En as [-> W]. apply IH in El as [-> Ws]. split; [reflexivity|constructor; auto].
Qed.

Theorem tokens_sound s ts : tokens s = Some ts -> s = render ts /\ Forall wf_tok ts.
Proof. apply lex_sound. Qed.

Lemma render_app a b : render (a ++ b) = render a ++ render b.
Proof. unfold render. apply flat_map_app. Qed.

(* ---------- automaton ---------- *)
Lemma run_app s a b : run s (a ++ b) = match run s a with Some s' => run s' b | None => None end.
Proof.
  revert s; induction a as [|t a IH]; intros s; cbn [app run]; [reflexivity|].
  destruct (step s t); [apply IH|reflexivity].
Qed.

Lemma terminals_app a b : terminals (a ++ b) = (terminals a + terminals b)%nat.
Proof. unfold terminals. rewrite filter_app, app_length. reflexivity. Qed.

(* the code table of the current client_proto.h, spelled out (re-checked whenever the header changes) *)
Lemma documented_codes_now :
  documented_codes = [1; 101; 102; 103; 104; 105; 201; 202; 203; 204; 205; 208; 209; 210; 211; 213;
                      301; 301; 301; 301; 301; 301; 301; 301; 301; 301; 301; 301; 301; 301; 301;
                      302; 302; 302; 303; 304; 305; 306; 307; 308; 309].
Proof. vm_compute. reflexivity. Qed.

Lemma special_codes : code_banner = 1 /\ code_busy = 208 /\ code_quit = 101.
Proof. vm_compute. repeat split; reflexivity. Qed.
