(* C07, termination of _process_action's loop (the model's fuel).  The C loop `while ((act = list_peek(dev->acts)))` has no bound; it ends
   because every iteration that does not leave the loop FINISHES one statement, and a script is a finite tree walked over finite plug
   lists.  The model gives the loop a fuel (Hang 2 when it runs out) and the do-while round a fuel of 8 (Hang 1: nested blocks).
   Here: a potential [Phi] on exec stacks (remaining statements, a foreach weighted by the plugs it still has to visit) such that
     - a statement that pushes a context does not increase it ([process_stmt_shape]),
     - a finished statement followed by `advance` decreases it by at least 1 ([advance_decreases]),
   hence ([process_action_no_hang]) process_action with fuel f never returns Hang when the total potential of the queue is below f and
   the blocks are nested less than 8 deep.  P bounds the length of every plug list a foreach walks.
   The computable definitions (cost, costs, depth, depths, itr, hc, hcs, Phi, Psi_l) live in Model/DeviceFuel.v: the model's loop fuel is
   Model/Device.pa_fuel d = 2 + Psi_l (number of plugs of d) (queue of d), so ([post_poll_one_no_hang], section Pass) the pass never hangs;
   Proofs/DeviceHang.v turns the side conditions (DPL) into an invariant.  [nest_ok] = the static nesting hypothesis (end of file). *)
From Coq Require Import List NArith ZArith Bool Lia.
From PM Require Import Base.Bytes Base.Outcome Base.Dec Gen.GenConsts Gen.GenCbuf Model.ScriptAst Model.Enqueue Model.Script Model.DeviceFuel Model.Device
  Proofs.DeviceProofs Proofs.DeviceStmt Proofs.DeviceStmtG Proofs.DeviceInv Proofs.DeviceInvG Proofs.DeviceMask.
Import ListNotations.

Section Fuel.
  Variable rmatch : text -> text -> option pmatch.
  Variable compress : list text -> text.
  Variable sc : bool.
  Variable P : nat.

  Lemma go_costs b : (fix go (l : list stmt) : nat := match l with [] => O | x :: r => (cost P x + go r)%nat end) b = costs P b.
  Proof. induction b as [|x r IH]; [reflexivity|]. cbn [costs]. now rewrite <- IH. Qed.
  Lemma cost_foreach b : cost P (ForeachPlug b) = S (P * costs P b) /\ cost P (ForeachNode b) = S (P * costs P b).
  Proof. cbn [cost]. now rewrite go_costs. Qed.
  Lemma cost_if b : cost P (IfOn b) = S (costs P b) /\ cost P (IfOff b) = S (costs P b).
  Proof. cbn [cost]. now rewrite go_costs. Qed.
  Lemma cost_pos s : (1 <= cost P s)%nat.
  Proof. destruct s; cbn [cost]; lia. Qed.

  Lemma go_depths b : (fix go (l : list stmt) : nat := match l with [] => O | x :: r => Nat.max (depth x) (go r) end) b = depths b.
  Proof. induction b as [|x r IH]; [reflexivity|]. cbn [depths]. now rewrite <- IH. Qed.
  Lemma depth_body s b : (s = ForeachPlug b \/ s = ForeachNode b \/ s = IfOn b \/ s = IfOff b) -> depth s = S (depths b).
  Proof. intros [->|[->|[->| ->]]]; cbn [depth]; now rewrite go_depths. Qed.
  Lemma depths_nth b i s : nth_error b i = Some s -> (depth s <= depths b)%nat.
  Proof. revert i. induction b as [|x r IH]; intros [|i] H; cbn [nth_error] in H; try discriminate; cbn [depths]; [inversion H; subst; lia|]. specialize (IH i H). lia. Qed.


  Lemma skipn_nth_cons {A} : forall (l : list A) i x, nth_error l i = Some x -> skipn i l = x :: skipn (S i) l.
  Proof. induction l as [|y r IH]; intros [|i] x H; cbn [nth_error] in H; try discriminate; [inversion H; reflexivity|]. cbn [skipn]. now apply IH. Qed.
  Lemma skipn_nth_none {A} : forall (l : list A) i, nth_error l i = None -> skipn i l = [].
  Proof. induction l as [|y r IH]; intros [|i] H; cbn [nth_error] in H; try discriminate; try reflexivity. cbn [skipn]. now apply IH. Qed.

  (* whatever the flags, a context owes at most the plain cost of its remaining statements; a fresh context owes exactly that *)
  Lemma hc_le e : (hc P e <= costs P (skipn (c_pos e) (c_block e)))%nat.
  Proof.
    unfold hc, cur. destruct (nth_error (c_block e) (c_pos e)) as [s|] eqn:E; [|lia].
    rewrite (skipn_nth_cons _ _ _ E). cbn [costs].
    destruct s; try (cbn [cost]; lia).
    - rewrite (proj1 (cost_foreach _)). assert ((P - itr e) * costs P body <= P * costs P body)%nat by (apply Nat.mul_le_mono_r; lia). lia.
    - rewrite (proj2 (cost_foreach _)). assert ((P - itr e) * costs P body <= P * costs P body)%nat by (apply Nat.mul_le_mono_r; lia). lia.
    - rewrite (proj1 (cost_if _)). destruct (c_processing e); lia.
    - rewrite (proj2 (cost_if _)). destruct (c_processing e); lia.
  Qed.
  Lemma hc_ge e s : cur e = Some s -> (1 + costs P (skipn (S (c_pos e)) (c_block e)) <= hc P e)%nat.
  Proof.
    intros E. unfold hc. rewrite E. destruct s; try lia; try (destruct (c_processing e); lia);
      match goal with |- context [((?x - ?y) * ?z)%nat] => generalize ((x - y) * z)%nat; intros; lia end.
  Qed.

  Definition olen (o : option (list plug)) : nat := match o with Some l => length l | None => O end.
  Definition ctx_ok (e : ctx) : Prop := (olen (c_plugs e) <= P)%nat /\ (olen (c_pluglist e) <= P)%nat.

  Lemma next_plug_from_bound b : forall l i p i', next_plug_from b l i = Some (p, i') -> (i < i' <= i + length l)%nat.
  Proof.
    induction l as [|x r IH]; intros i p i' H; cbn [next_plug_from] in H; [discriminate|].
    destruct (b && unmapped x).
    - specialize (IH _ _ _ H). cbn [length]. lia.
    - inversion H; subst. cbn [length]. lia.
  Qed.
  Lemma next_plug_bound b l i p i' : next_plug b l i = Some (p, i') -> (i < i' <= length l)%nat.
  Proof.
    unfold next_plug. intros H. pose proof (next_plug_from_bound b _ _ _ _ H) as H1.
    assert (length (skipn i l) = length l - i)%nat by apply skipn_length.
    destruct (Nat.le_gt_cases (length l) i) as [Hle|Hgt]; [|lia].
    exfalso. rewrite skipn_all2 in H by exact Hle. discriminate H.
  Qed.

  (* ---------- the shape of what one statement does to the exec stack ---------- *)
  Definition no_push (e : ctx) (rest : list ctx) (a' : action) : Prop :=
    exists e', a_exec a' = e' :: rest /\ c_block e' = c_block e /\ c_pos e' = c_pos e /\ ctx_ok e'.
  Definition push (e : ctx) (rest : list ctx) (s : stmt) (a' : action) : Prop :=
    exists c e' body, a_exec a' = c :: e' :: rest /\ (hc P c + hc P e' <= hc P e)%nat /\ c_block e' = c_block e /\ c_pos e' = c_pos e /\ ctx_ok e' /\ ctx_ok c /\
      c_block c = body /\ c_pos c = O /\ (s = ForeachPlug body \/ s = ForeachNode body \/ s = IfOn body \/ s = IfOff body).

  Lemma hc_new b pl : hc P (new_ctx b pl) = costs P b.
  Proof.
    unfold hc, cur, new_ctx, itr. cbn [c_block c_pos c_plugitr c_processing]. destruct b as [|x r]; [reflexivity|]. cbn [nth_error skipn costs].
    destruct x; try reflexivity;
      try (rewrite (proj1 (cost_foreach _)), Nat.sub_0_r; reflexivity); try (rewrite (proj2 (cost_foreach _)), Nat.sub_0_r; reflexivity);
      try (rewrite (proj1 (cost_if _)); reflexivity); try (rewrite (proj2 (cost_if _)); reflexivity).
  Qed.

  Lemma foreach_case (onlynodes : bool) body sd (a : action) store e rest fin sd' a' st' evs (t : option Z) :
    cur e = Some (if onlynodes then ForeachNode body else ForeachPlug body) -> (length (sd_plugs sd) <= P)%nat -> ctx_ok e ->
    omap (fun r : sres => (r, @None Z)) (process_foreach sd a store e rest onlynodes body) = Ok ((fin, sd', a', st', evs), t) ->
    no_push e rest a' \/ push e rest (if onlynodes then ForeachNode body else ForeachPlug body) a'.
  Proof.
    intros Ec Hp [Hok1 Hok2]. unfold process_foreach.
    assert (G : forall e0, c_block e0 = c_block e -> c_pos e0 = c_pos e -> itr e0 = itr e -> ctx_ok e0 ->
              omap (fun r : sres => (r, @None Z))
                (let lst := if is_ranged_com (a_com a) then match c_pluglist e0 with Some l => l | None => [] end else sd_plugs sd in
                 let i := match c_plugitr e0 with Some i => i | None => O end in
                 match next_plug onlynodes lst i with
                 | Some (p, i') => Ok (true, sd, set_exec (new_ctx body (Some [p]) :: set_plugitr (Some i') e0 :: rest) a, store, @nil ev)
                 | None => Ok (true, sd, put_top (set_plugitr None e0) rest a, store, [])
                 end) = Ok ((fin, sd', a', st', evs), t) ->
              no_push e rest a' \/ push e rest (if onlynodes then ForeachNode body else ForeachPlug body) a').
    { intros e0 B1 B2 B3 [K1 K2]. cbv zeta.
      set (lst := if is_ranged_com (a_com a) then match c_pluglist e0 with Some l => l | None => [] end else sd_plugs sd).
      assert (Hl : (length lst <= P)%nat).
      { unfold lst. destruct (is_ranged_com (a_com a)); [|exact Hp]. destruct (c_pluglist e0); [exact K2|cbn; lia]. }
      change (match c_plugitr e0 with Some i => i | None => O end) with (itr e0).
      destruct (next_plug onlynodes lst (itr e0)) as [[p i']|] eqn:En; cbn [omap bind]; intros H; inversion H; subst.
      - right. apply next_plug_bound in En.
        exists (new_ctx body (Some [p])), (set_plugitr (Some i') e0), body.
        split; [reflexivity|]. split.
        + rewrite hc_new. unfold hc, cur. cbn [c_block c_pos set_plugitr]. rewrite B1, B2. unfold cur in Ec. rewrite Ec.
          change (itr (set_plugitr (Some i') e0)) with i'. rewrite <- B3.
          assert (((P - i') * costs P body + costs P body <= (P - itr e0) * costs P body)%nat).
          { replace ((P - i') * costs P body + costs P body)%nat with ((S (P - i')) * costs P body)%nat by (cbn; lia). apply Nat.mul_le_mono_r. lia. }
          destruct onlynodes; lia.
        + split; [exact B1|]. split; [exact B2|]. split; [split; [exact K1|exact K2]|]. split; [split; cbn; lia|].
          split; [reflexivity|]. split; [reflexivity|]. destruct onlynodes; auto.
      - left. exists (set_plugitr None e0). split; [reflexivity|]. split; [exact B1|]. split; [exact B2|split; [exact K1|exact K2]]. }
    assert (Fin : forall e0, c_block e0 = c_block e -> c_pos e0 = c_pos e -> c_plugitr e0 = Some (itr e) -> c_plugs e0 = c_plugs e ->
                  (c_pluglist e0 = c_pluglist e \/ c_pluglist e0 = c_plugs e) -> itr e0 = itr e /\ ctx_ok e0).
    { intros e0 _ _ H3 H4 H5. split; [unfold itr at 1; now rewrite H3|]. split; [now rewrite H4|]. destruct H5 as [-> | ->]; assumption. }
    destruct (c_plugitr e) as [it|] eqn:Eit.
    - apply G; auto. split; assumption.
    - assert (Hi0 : itr e = O) by (unfold itr; now rewrite Eit).
      assert (H30 : forall x, c_plugitr (set_plugitr (Some O) x) = Some (itr e)) by (intros x; cbn [c_plugitr set_plugitr]; now rewrite Hi0).
      destruct (is_ranged_com (a_com a)).
      + destruct (c_plugs e) as [ps|] eqn:Ecp; [|discriminate].
        destruct (c_pluglist e) as [pl0|] eqn:Ecl.
        * destruct (Fin (set_plugitr (Some O) e)) as [F1 F2]; [reflexivity|reflexivity|apply H30|cbn [c_plugs set_plugitr]; congruence|left; cbn [c_pluglist set_plugitr]; congruence|]. apply G; auto.
        * destruct (Fin (set_plugitr (Some O) (set_pluglist (Some ps) e))) as [F1 F2];
            [reflexivity|reflexivity|apply H30|cbn [c_plugs set_plugitr set_pluglist]; congruence|right; cbn [c_pluglist set_plugitr set_pluglist]; congruence|]. apply G; auto.
      + destruct (Fin (set_plugitr (Some O) e)) as [F1 F2]; [reflexivity|reflexivity|apply H30|cbn [c_plugs set_plugitr]; congruence|left; cbn [c_pluglist set_plugitr]; congruence|]. apply G; auto.
  Qed.

  Lemma if_case (want : bool) body sd (a : action) store e rest fin sd' a' st' evs (t : option Z) :
    a_exec a = e :: rest -> cur e = Some (if want then IfOn body else IfOff body) -> ctx_ok e ->
    omap (fun r : sres => (r, @None Z)) (process_ifonoff sd a store e rest want body) = Ok ((fin, sd', a', st', evs), t) ->
    no_push e rest a' \/ push e rest (if want then IfOn body else IfOff body) a'.
  Proof.
    intros Ex Ec [Hok1 Hok2]. unfold process_ifonoff. destruct (c_processing e) eqn:Ep.
    - cbn [omap bind]. intros H; inversion H; subst. left. exists (set_processing false e). repeat split; assumption.
    - destruct (match c_plugs e with Some (p :: _) => _ | _ => Ok ST_UNKNOWN end) as [st| | | |]; try discriminate.
      cbv zeta. destruct (_ || _).
      + cbn [omap bind]. intros H; inversion H; subst. right.
        exists (new_ctx body (match c_plugs e with Some ps => Some ps | None => Some [] end)), (set_processing true e), body.
        split; [destruct (_ && _); reflexivity|]. split.
        * rewrite hc_new. unfold hc, cur. cbn [c_block c_pos c_processing set_processing]. unfold cur in Ec. rewrite Ec.
          unfold itr. cbn [c_plugitr set_processing]. rewrite Ep. destruct want; lia.
        * split; [reflexivity|]. split; [reflexivity|]. split; [split; assumption|]. split.
          { split; [|cbn; lia]. cbn [c_plugs new_ctx]. destruct (c_plugs e); cbn [olen] in *; [exact Hok1|cbn; lia]. }
          split; [reflexivity|]. split; [reflexivity|]. destruct want; auto.
      + cbn [omap bind]. intros H; inversion H; subst. left. exists e. split; [match goal with |- a_exec (if ?c then _ else _) = _ => destruct c end; exact Ex|]. repeat split; assumption.
  Qed.

  Lemma process_stmt_shape now sd a store e rest s fin sd' a' st' evs t :
    a_exec a = e :: rest -> cur e = Some s -> (length (sd_plugs sd) <= P)%nat -> ctx_ok e ->
    process_stmt rmatch compress sc now sd a store = Ok ((fin, sd', a', st', evs), t) ->
    no_push e rest a' \/ push e rest s a'.
  Proof.
    intros Ex Ec Hp Hok. unfold process_stmt. rewrite Ex, Ec.
    assert (Same : forall x, a_exec x = e :: rest -> no_push e rest x) by (intros x Hx; exists e; auto).
    assert (Top : forall x e', a_exec x = e' :: rest -> c_block e' = c_block e -> c_pos e' = c_pos e -> c_plugs e' = c_plugs e -> c_pluglist e' = c_pluglist e -> no_push e rest x).
    { intros x e' Hx H1 H2 H3 H4. exists e'. repeat split; auto; unfold ctx_ok in *; rewrite ?H3, ?H4; apply Hok. }
    destruct s as [fmt|re|lit pmp smp ints|pmp smp ints|us|body|body|body|body].
    - (* send *)
      unfold process_send. destruct (if c_processing e then Ok (sd, []) else _) as [[d1 ev1]| | | |]; try discriminate.
      destruct (sd_to d1); cbn [omap bind]; intros H; inversion H; subst; left; eapply Top; try reflexivity.
    - unfold process_expect. cbn [sd_from set_xm]. destruct (sd_from sd); [cbn; intros H; inversion H; subst; left; now apply Same|].
      destruct (rmatch re _) as [pm|]; [|cbn; intros H; inversion H; subst; left; now apply Same].
      destruct (nth_error pm 0) as [[[so eo]|]|]; cbn; intros H; inversion H; subst; left; now apply Same.
    - (* setplugstate *)
      unfold process_setplugstate.
      destruct (match lit with Some l => Ok (Some l) | None => _ end) as [[pn|]| | | |]; try discriminate; [|cbn; intros H; inversion H; subst; left; now apply Same].
      destruct (sub_strdup sd smp) as [[str|]| | | |]; try discriminate.
      + destruct (find_plug sd pn) as [[p node]|]; [|cbn; intros H; inversion H; subst; left; now apply Same].
        cbv zeta. destruct (a_args a) as [i|]; [|cbn; intros H; inversion H; subst; left; now apply Same].
        destruct (get_args store a); cbn; intros H; inversion H; subst; left; now apply Same.
      + destruct (find_plug sd pn) as [[? ?]|]; cbn; intros H; inversion H; subst; left; now apply Same.
    - (* setresult *)
      unfold process_setresult.
      destruct (sub_strdup sd pmp) as [[pn|]| | | |]; try discriminate; [|cbn; intros H; inversion H; subst; left; now apply Same].
      destruct (sub_strdup sd smp) as [[str|]| | | |]; try discriminate.
      + destruct (find_plug sd pn) as [[p node]|]; [|cbn; intros H; inversion H; subst; left; now apply Same].
        cbv zeta. destruct (a_args a) as [i|]; [|cbn; intros H; inversion H; subst; left; now apply Same].
        destruct (get_args store a) as [al|]; [|cbn; intros H; inversion H; subst; left; now apply Same].
        destruct (arg_find al node); [|cbn; intros H; inversion H; subst; left; now apply Same].
        destruct (Z.eqb _ RT_SUCCESS); [cbn; intros H; inversion H; subst; left; now apply Same|].
        destruct (a_hasdiag a); [cbn; intros H; inversion H; subst; left; now apply Same|discriminate].
      + destruct (find_plug sd pn) as [[? ?]|]; cbn; intros H; inversion H; subst; left; now apply Same.
    - (* delay *)
      unfold process_delay. destruct (c_processing e); cbv beta iota zeta; destruct (_ || _); intros H; inversion H; subst; left; eapply Top; try reflexivity.
    - apply (foreach_case false body); auto.
    - apply (foreach_case true body); auto.
    - apply (if_case true body); auto.
    - apply (if_case false body); auto.
  Qed.

  (* ---------- the do-while round ---------- *)
  Variable D : nat.                                  (* nesting depth of the blocks *)
  Definition dep_ok (e : ctx) : Prop := (depths (c_block e) <= D)%nat.
  Definition PL (a : action) : Prop := Forall (fun e => ctx_ok e /\ dep_ok e) (a_exec a).

  Lemma hcs_app l1 l2 : hcs P (l1 ++ l2) = (hcs P l1 + hcs P l2)%nat.
  Proof. induction l1 as [|x r IH]; [reflexivity|]. cbn [app hcs]. rewrite IH. lia. Qed.

  (* after the round: the last statement executed was the current statement of a context [ep] (same block, same position as the new top),
     and what the action owed BEFORE that last statement is at most what it owed at the start of the round *)
  Definition round_post (a a' : action) : Prop :=
    PL a' /\ exists ep e' rest', a_exec a' = e' :: rest' /\ c_block e' = c_block ep /\ c_pos e' = c_pos ep /\ (exists s, cur ep = Some s) /\
      (hc P ep + hcs P rest' <= Phi P a)%nat.

  Lemma do_while_fuel : forall fuel now sd a store acc tmo,
    wf_action compress (sd_plugs sd) a -> PL a -> (length (sd_plugs sd) <= P)%nat ->
    (match a_exec a with e :: _ => match cur e with Some s => depth s | None => O end | [] => O end < fuel)%nat ->
    match do_while rmatch compress sc fuel now sd a store acc tmo with
    | Ok ((fin, sd', a', st', evs), t) => round_post a a'
    | Hang _ => False
    | _ => True
    end.
  Proof.
    induction fuel as [|f IH]; intros now sd a store acc tmo Hw Hpl Hp Hd; [lia|]. cbn [do_while].
    pose proof (process_stmt_propsG rmatch compress sc now sd a store Hw) as H1.
    destruct (process_stmt rmatch compress sc now sd a store) as [[[[[[fin sd1] a1] st1] evs1] t1]| | | |] eqn:E1; try contradiction.
    destruct Hw as (Hne & Hctx & _). unfold PL in Hpl. destruct (a_exec a) as [|e rest] eqn:Ex; [congruence|].
    inversion Hctx as [|? ? ((s & Hs) & _) _]; subst. rewrite Hs in Hd.
    inversion Hpl as [|? ? [Hok Hdep] Hplr]; subst.
    destruct (process_stmt_shape now sd a store e rest s fin sd1 a1 st1 evs1 t1 Ex Hs Hp Hok E1) as [(e' & Ex1 & B1 & B2 & K1)|(c & e' & body & Ex1 & Hle & B1 & B2 & K1 & Kc & Bc & Pc & Hsb)].
    - (* the statement did not push a context: the round ends *)
      rewrite Ex1. cbn [length]. rewrite Nat.ltb_irrefl.
      split.
      + unfold PL. rewrite Ex1. constructor; [split; [exact K1|unfold dep_ok; rewrite B1; exact Hdep]|exact Hplr].
      + exists e, e', rest. split; [exact Ex1|]. split; [exact B1|]. split; [exact B2|]. split; [eauto|]. unfold Phi. rewrite Ex. cbn [hcs]. lia.
    - (* a context was pushed: the round goes on with the first statement of the body *)
      rewrite Ex1. cbn [length]. replace (S (length rest) <? S (S (length rest)))%nat with true by (symmetry; apply Nat.ltb_lt; lia).
      assert (Hdb : (S (depths body) <= depths (c_block e))%nat).
      { rewrite <- (depth_body s body Hsb). eapply depths_nth. exact Hs. }
      assert (Hpl1 : PL a1).
      { unfold PL. rewrite Ex1. constructor; [split; [exact Kc|unfold dep_ok in *; rewrite Bc; lia]|]. constructor; [split; [exact K1|unfold dep_ok in *; rewrite B1; exact Hdep]|exact Hplr]. }
      assert (Hw1 : wf_action compress (sd_plugs sd1) a1) by (rewrite (sg_plugs _ _ _ _ _ _ _ _ _ _ H1); exact (sg_wf _ _ _ _ _ _ _ _ _ _ H1)).
      specialize (IH now sd1 a1 st1 (acc ++ evs1) (min_tmo tmo t1) Hw1 Hpl1).
      rewrite (sg_plugs _ _ _ _ _ _ _ _ _ _ H1) in IH. specialize (IH Hp).
      assert (Hd1 : (match a_exec a1 with e0 :: _ => match cur e0 with Some s0 => depth s0 | None => O end | [] => O end < f)%nat).
      { rewrite Ex1. unfold cur. rewrite Bc, Pc. rewrite (depth_body s body Hsb) in Hd. destruct (nth_error body 0) as [s0|] eqn:E0; [|lia].
        pose proof (depths_nth _ _ _ E0). lia. }
      specialize (IH Hd1).
      destruct (do_while rmatch compress sc f now sd1 a1 st1 (acc ++ evs1) (min_tmo tmo t1)) as [[[[[[fin2 sd2] a2] st2] evs2] t2]| | | |]; try exact IH; try exact I.
      destruct IH as (Q1 & ep & e2 & rest2 & Q2 & Q3 & Q4 & Q5 & Q6). split; [exact Q1|].
      exists ep, e2, rest2. split; [exact Q2|]. split; [exact Q3|]. split; [exact Q4|]. split; [exact Q5|].
      unfold Phi in *. rewrite Ex1 in Q6. rewrite Ex. cbn [hcs] in *. lia.
  Qed.

  (* a finished round followed by `advance` pays off at least one unit *)
  Lemma advance_decreases a a' : round_post a a' -> (Phi P (advance a') + 1 <= Phi P a)%nat /\ PL (advance a').
  Proof.
    intros (Hpl & ep & e' & rest' & Ex & B1 & B2 & (s & Hs) & Hle). unfold advance. rewrite Ex.
    pose proof (hc_ge ep s Hs) as Hge.
    unfold PL in Hpl. rewrite Ex in Hpl. inversion Hpl as [|? ? [Hok Hdep] Hrest]; subst.
    destruct (cur (set_pos (S (c_pos e')) e')) as [s'|] eqn:Ec.
    - split.
      + unfold Phi. cbn [a_exec set_exec hcs]. pose proof (hc_le (set_pos (S (c_pos e')) e')) as Hl. cbn [c_pos c_block set_pos] in Hl.
        rewrite B1, B2 in Hl. rewrite B2. unfold Phi in Hle. lia.
      + unfold PL. cbn [a_exec set_exec]. constructor; [split; [exact Hok|exact Hdep]|exact Hrest].
    - split; [unfold Phi in *; cbn [a_exec set_exec]; lia|]. unfold PL. cbn [a_exec set_exec]. exact Hrest.
  Qed.

  (* ---------- the queue ---------- *)
  Definition Psi (d : device) : nat := Psi_l P (dv_acts d).
  Definition DPL (d : device) : Prop := Forall PL (dv_acts d) /\ (length (sd_plugs (dv d)) <= P)%nat.

  Lemma fail_and_reconnect_done now d act rest store tmo plans pre r : fail_and_reconnect now d act rest store tmo plans pre = Ok r -> exists d' st' t' pl e, r = PaDone d' st' t' pl e.
  Proof.
    unfold fail_and_reconnect. destruct (connected (set_acts [] d)); [|intros H; inversion H; eauto 10].
    destruct (reconnect now (set_acts [] d) tmo plans) as [[[[d2 e2] t2] pl2]| | | |]; intros H; inversion H; eauto 10.
  Qed.

  Hypothesis D_lt : (D < 8)%nat.

  (* the connection machinery has no loop: it never runs out of fuel *)
  Lemma connect_nh now d plans s : connect now d plans <> Hang s.
  Proof.
    unfold connect. destruct (_ || _); [discriminate|]. destruct plans as [|[| |] r]; try discriminate.
    unfold enqueue_login. destruct (assoc_script _ _); discriminate.
  Qed.
  Lemma reconnect_nh now d tmo plans s : reconnect now d tmo plans <> Hang s.
  Proof.
    unfold reconnect. destruct (if Z.eqb _ _ then _ else _) as [d1 e1]. destruct (time_to_reconnect now d1 tmo) as [go t1]. destruct go; [|discriminate].
    destruct (connect now d1 plans) as [[[? ?] ?]| | | |] eqn:E; try discriminate. intros H. inversion H; subst. exact (connect_nh _ _ _ _ E).
  Qed.
  Lemma fail_and_reconnect_nh now d act rest store tmo plans pre s : fail_and_reconnect now d act rest store tmo plans pre <> Hang s.
  Proof.
    unfold fail_and_reconnect. destruct (connected _); [|discriminate].
    destruct (reconnect now (set_acts [] d) tmo plans) as [[[[? ?] ?] ?]| | | |] eqn:E; try discriminate. intros H. inversion H; subst. exact (reconnect_nh _ _ _ _ _ E).
  Qed.

  Lemma Phi_stamp a x : Phi P (set_stamp x a) = Phi P a.
  Proof. reflexivity. Qed.

  Lemma pa_step_measure now d store tmo plans : DInvG compress d -> DPL d ->
    match pa_step rmatch compress sc now d store tmo plans with
    | Ok (PaNext d' _ _ _) => (Psi d' < Psi d)%nat /\ DPL d'
    | Hang _ => False
    | _ => True
    end.
  Proof.
    intros I [Hpl Hp]. unfold pa_step. destruct (dv_acts d) as [|act0 rest] eqn:Ea; [exact Logic.I|].
    pose proof (dg_acts _ d I) as Hw. rewrite Ea in Hw. inversion Hw as [|? ? Hw0 Hwr]; subst.
    inversion Hpl as [|? ? Hpl0 Hplr]; subst.
    destruct (a_exec act0) as [|e0 er] eqn:Eex; [exact Logic.I|].
    set (stamp := match a_stamp act0 with Some t => t | None => now end).
    set (act := set_stamp (Some stamp) act0).
    assert (Fail : forall dd aa ss tt pre, match fail_and_reconnect now dd aa rest ss tt plans pre with
                     | Ok (PaNext d' _ _ _) => (Psi d' < Psi d)%nat /\ DPL d' | Hang _ => False | _ => True end).
    { intros dd aa ss tt pre. destruct (fail_and_reconnect now dd aa rest ss tt plans pre) as [r| | | |] eqn:E; try exact Logic.I.
      - apply fail_and_reconnect_done in E as (? & ? & ? & ? & ? & ->). exact Logic.I.
      - exact (fail_and_reconnect_nh _ _ _ _ _ _ _ _ _ E). }
    destruct (Z.leb _ now); [apply Fail|].
    destruct (negb (connected d)); [exact Logic.I|].
    assert (Hwa : wf_action compress (sd_plugs (dv d)) act) by exact Hw0.
    assert (Hpla : PL act) by exact Hpl0.
    assert (Hdep : (match a_exec act with e :: _ => match cur e with Some s => depth s | None => O end | [] => O end < 8)%nat).
    { change (a_exec act) with (a_exec act0). rewrite Eex. destruct (cur e0) as [s0|] eqn:Ec; [|lia].
      unfold PL in Hpl0. rewrite Eex in Hpl0. inversion Hpl0 as [|? ? [_ Hd0] _]; subst. unfold dep_ok in Hd0.
      pose proof (depths_nth _ _ _ Ec). lia. }
    pose proof (do_while_fuel 8 now (dv d) act store [] None Hwa Hpla Hp Hdep) as HF.
    pose proof (do_while_propsG rmatch compress sc 8 now (dv d) act store [] None Hwa) as HG.
    destruct (do_while rmatch compress sc 8 now (dv d) act store [] None) as [[[[[[fin sd'] act'] store'] evs] dt]| | | |]; try contradiction; try exact Logic.I.
    destruct HG as (evs1 & t1 & _ & _ & SP).
    destruct (negb fin); [exact Logic.I|].
    destruct (Z.eqb (a_err act') ACT_ESUCCESS); [|apply Fail].
    destruct (advance_decreases act act' HF) as [Hdec Hpl'].
    change (Phi P act) with (Phi P act0) in Hdec.
    assert (Hp' : (length (sd_plugs sd') <= P)%nat) by (rewrite (sg_plugs _ _ _ _ _ _ _ _ _ _ SP); exact Hp).
    destruct (a_exec (advance act')) as [|e2 r2] eqn:Eadv.
    - split.
      + unfold Psi. cbn [dv_acts set_stats set_acts]. rewrite Ea. cbn [Psi_l]. lia.
      + split; [|destruct (Z.eqb _ PM_LOG_IN); cbn; exact Hp'].
        cbn [dv_acts set_stats set_acts]. exact Hplr.
    - split.
      + unfold Psi. cbn [dv_acts set_acts]. rewrite Ea. cbn [Psi_l]. lia.
      + split; [cbn [dv_acts set_acts]; constructor; [exact Hpl'|exact Hplr]|cbn; exact Hp'].
  Qed.

  (* ---------- _process_action's loop never runs out of fuel that exceeds the potential of the queue ---------- *)
  Theorem process_action_no_hang : forall fuel now d store tmo plans acc,
    DInvG compress d -> DPL d -> tmo_pos tmo -> (0 <= dv_retry_count d)%Z -> (Psi d < fuel)%nat ->
    match process_action rmatch compress sc fuel now d store tmo plans acc with Hang _ => False | _ => True end.
  Proof.
    induction fuel as [|f IH]; intros now d store tmo plans acc I Hpl Hp Hrc Hlt; [lia|]. cbn [process_action].
    pose proof (pa_step_measure now d store tmo plans I Hpl) as HM.
    pose proof (pa_step_invG rmatch compress sc now d store tmo plans I Hp) as HI.
    destruct (pa_step rmatch compress sc now d store tmo plans) as [[d1 st1 t1 pl1 e1|d1 st1 t1 e1]| | | |]; try exact Logic.I; try contradiction.
    destruct HM as [Hlt1 Hpl1].
    apply IH; [exact (tg_inv _ _ _ _ _ _ _ _ _ HI)|exact Hpl1|exact (tg_pos _ _ _ _ _ _ _ _ _ HI)|exact (conn_rel_rc _ _ _ _ (tg_conn _ _ _ _ _ _ _ _ _ HI) Hrc)|lia].
  Qed.

End Fuel.

(* one device's share of dev_post_poll.  The model's fuel is pa_fuel d3 = 2 + psi d3 = 2 + Psi (number of plugs of d3) d3 for the queue d3
   handed to _process_action (after the descriptor, reconnect and ping steps: pp_front): it never runs out, provided that queue walks plug
   lists no longer than the device's own (DPL with P := the device's plug count) and blocks are nested less than 8 deep *)
Section Pass.
  Variable rmatch : text -> text -> option pmatch.
  Variable compress : list text -> text.
  Variable sc : bool.
  Variable D : nat.
  Hypothesis D_lt : (D < 8)%nat.

  Lemma psi_Psi d : psi d = Psi (length (sd_plugs (dv d))) d.
  Proof. reflexivity. Qed.

  Theorem post_poll_one_no_hang now d store tmo pin :
    DInvG compress d -> tmo_pos tmo -> (0 <= dv_retry_count d)%Z ->
    (forall d3 t3 pl e12, pp_front now d tmo pin = Ok (d3, t3, pl, e12) -> DPL (length (sd_plugs (dv d3))) D d3) ->
    match post_poll_one rmatch compress sc now d store tmo pin with Hang _ => False | _ => True end.
  Proof.
    intros I Hp Hrc Hb. rewrite pp_split.
    destruct (pp_front_inv compress now d tmo pin I Hp Hrc) as (d3 & t3 & pl & e12 & E & I3 & S3 & P3 & R3).
    rewrite E. pose proof (Hb _ _ _ _ E) as Hpl.
    pose proof (process_action_no_hang rmatch compress sc (length (sd_plugs (dv d3))) D D_lt (pa_fuel d3) now d3 store t3 pl e12 I3 Hpl P3 R3) as H.
    assert (Hf : (Psi (length (sd_plugs (dv d3))) d3 < pa_fuel d3)%nat) by (unfold pa_fuel; rewrite psi_Psi; lia).
    specialize (H Hf).
    destruct (process_action rmatch compress sc (pa_fuel d3) now d3 store t3 pl e12) as [[[[[? ?] ?] ?] ?]| | | |]; try exact Logic.I. exact H.
  Qed.
End Pass.

(* ---------- the static condition on a configuration: every script nests its blocks at most DMAX = 7 deep (the do..while round of
   _process_action in the model has fuel 8; Proofs/SpecBridge.v checks the condition for every shipped specification) ---------- *)
Definition DMAX : nat := 7.
Definition nest_ok (scripts : list (Z * list stmt)) : Prop := Forall (fun p => (depths (snd p) <= DMAX)%nat) scripts.
Definition nest_b (scripts : list (Z * list stmt)) : bool := forallb (fun p => Nat.leb (depths (snd p)) DMAX) scripts.
Lemma nest_b_ok scripts : nest_b scripts = true -> nest_ok scripts.
Proof. unfold nest_b, nest_ok. rewrite forallb_forall, Forall_forall. intros H p Hp. apply Nat.leb_le. exact (H p Hp). Qed.
Lemma nest_ok_b scripts : nest_ok scripts -> nest_b scripts = true.
Proof. unfold nest_b, nest_ok. rewrite forallb_forall, Forall_forall. intros H p Hp. apply Nat.leb_le. exact (H p Hp). Qed.
Lemma DMAX_lt : (DMAX < 8)%nat.
Proof. unfold DMAX. lia. Qed.
