(* C18, semantic layer: load_stream is total (Ok or Exit 1 -- never MemErr/Abort/Hang) whenever the lexer ended in
   EOF or in an exit of its own, and every configuration it accepts satisfies mandatory_ok.
   The parser-side facts (login script required, time values bounded, serial flags optional, $N before the first
   expect tolerated, NULL arglist tolerated) are taken from Gen/GenLex.v by computation. *)
From Coq Require Import List NArith ZArith Bool Lia.
From PM Require Import Base.Bytes Base.Outcome Gen.GenLex Model.Lexer.
Import ListNotations.

Lemma gen_login_required : login_required = true.
Proof. reflexivity. Qed.
Lemma gen_time_bounded : time_bounded = true.
Proof. reflexivity. Qed.
Lemma gen_serial_flags_optional : serial_flags_optional = true.
Proof. reflexivity. Qed.
Lemma gen_matchpos_unused_ok : matchpos_unused_ok = true.
Proof. reflexivity. Qed.
Lemma gen_arglist_null_ok : arglist_null_ok = true.
Proof. reflexivity. Qed.

(* "Ok with P, or Exit 1" *)
Definition sp {A} (P : A -> Prop) (o : outcome A) : Prop :=
  match o with
  | Ok a => P a
  | Exit c _ => c = 1%Z
  | _ => False
  end.

Lemma sp_bind {A B} (P : A -> Prop) (Q : B -> Prop) (x : outcome A) (f : A -> outcome B) :
  sp P x -> (forall a, P a -> sp Q (f a)) -> sp Q (bind x f).
Proof. destruct x; cbn [sp bind]; intros H K; try contradiction; [apply K; assumption | assumption]. Qed.

Lemma sp_weaken {A} (P Q : A -> Prop) (o : outcome A) : sp P o -> (forall a, P a -> Q a) -> sp Q o.
Proof. destruct o; cbn [sp]; intros H K; try contradiction; [apply K; assumption | assumption]. Qed.

Lemma sp_fail {A} (P : A -> Prop) c s : sp P (@fail A c s).
Proof. reflexivity. Qed.

Definition lend_ok (e : lex_end) : Prop := match e with EndEOF | EndExit _ => True | _ => False end.

Section LoadProofs.
  Variable hl_expand : text -> option (list text).
  Variable regcomp_ok : bool -> text -> bool.
  Variable resolves : text -> text -> bool.
  Variable is_chardev : text -> bool.
  Variable stale_erange : text -> bool.
  Variable lend : lex_end.
  Hypothesis Hlend : lend_ok lend.

  Notation next := (next lend).

  Lemma next_sp toks :
    sp (fun p => (length (snd p) <= length toks)%nat /\ (fst p <> None -> (length (snd p) < length toks)%nat)) (next toks).
  Proof.
    unfold Lexer.next. destruct toks as [|t r].
    - destruct lend; cbn [sp]; try contradiction; try reflexivity.
      cbn [fst snd length]. split; [apply le_n | intros H; congruence].
    - cbn [sp fst snd length]. split; [lia | intros _; lia].
  Qed.

  Lemma expect_str_sp c toks : sp (fun p => (length (snd p) < length toks)%nat) (expect_str lend c toks).
  Proof.
    unfold expect_str. pose proof (next_sp toks) as N. destruct (next toks) as [[t r]| | | |]; cbn [sp] in *; try contradiction; try assumption.
    destruct t as [[]|]; try reflexivity. cbn [sp snd fst] in *. apply N. discriminate.
  Qed.

  Lemma expect_num_sp c toks : sp (fun p => (length (snd p) < length toks)%nat) (expect_num lend c toks).
  Proof.
    unfold expect_num. pose proof (next_sp toks) as N. destruct (next toks) as [[t r]| | | |]; cbn [sp] in *; try contradiction; try assumption.
    destruct t as [[]|]; try reflexivity. cbn [sp snd fst] in *. apply N. discriminate.
  Qed.

  Lemma expect_tok_sp c want toks : sp (fun r => (length r < length toks)%nat) (expect_tok lend c want toks).
  Proof.
    unfold expect_tok. pose proof (next_sp toks) as N. destruct (next toks) as [[t r]| | | |]; cbn [sp] in *; try contradiction; try assumption.
    destruct t as [t|]; [|reflexivity]. destruct (want t); [|reflexivity]. cbn [sp snd fst] in *. apply N. discriminate.
  Qed.

  Lemma do_time_sp c tok : sp (fun _ => True) (do_time c tok).
  Proof.
    unfold do_time, time_check. destruct (num_rat tok) as [m k]. rewrite gen_time_bounded.
    destruct (Z.leb _ m); [reflexivity|]. destruct (Z.ltb _ _); [reflexivity | exact I].
  Qed.

  (* holds for BOTH answers of the stale-errno oracle: a spurious refusal is still an exit with a diagnostic *)
  Lemma do_strtolong_sp c s : sp (fun _ => True) (do_strtolong stale_erange c s).
  Proof.
    unfold do_strtolong. destruct (strtol0 s) as [| |v]; [apply sp_fail | apply sp_fail |].
    (* written so that it also checks when GenLex.errno_cleared_strtol = true (F30 applied): no reduction before the case split *)
    generalize (negb errno_cleared_strtol && stale_erange s && ((v =? 2 ^ 63 - 1) || (v =? - 2 ^ 63)))%Z.
    intros b; destruct b; [apply sp_fail | exact I].
  Qed.

  Lemma conv_mp_sp c o : sp (fun _ => True) (conv_mp stale_erange c o).
  Proof.
    unfold conv_mp. destruct o; [|exact I]. eapply sp_bind; [apply do_strtolong_sp|]. intros; exact I.
  Qed.

  Ltac bind_with L := eapply sp_bind; [apply L|]; cbn beta.

  Lemma parse_state_interps_sp : forall n c toks acc, (length toks < n)%nat ->
    sp (fun p => (length (snd p) <= length toks)%nat) (parse_state_interps lend n c toks acc).
  Proof.
    induction n as [|n IH]; intros c toks acc L; [lia|].
    cbn [parse_state_interps]. bind_with next_sp. intros [t r] [H1 H2]; cbn [fst snd] in *.
    assert (D : sp (fun p => (length (snd p) <= length toks)%nat) (Ok (acc, toks))) by (cbn [sp snd]; apply le_n).
    destruct t as [[k| | | | | | | |]|]; try exact D.
    assert (R : (length r < length toks)%nat) by (apply H2; discriminate).
    destruct k; try exact D.
    - bind_with expect_tok_sp. intros r1 L1. bind_with expect_str_sp. intros [s r2] L2; cbn [snd] in L2.
      eapply sp_weaken; [apply IH; lia|]. intros p Hp; cbn beta in Hp. lia.
    - bind_with expect_tok_sp. intros r1 L1. bind_with expect_str_sp. intros [s r2] L2; cbn [snd] in L2.
      eapply sp_weaken; [apply IH; lia|]. intros p Hp; cbn beta in Hp. lia.
  Qed.

  Lemma parse_result_interps_sp : forall n c toks acc, (length toks < n)%nat ->
    sp (fun p => (length (snd p) <= length toks)%nat) (parse_result_interps lend n c toks acc).
  Proof.
    induction n as [|n IH]; intros c toks acc L; [lia|].
    cbn [parse_result_interps]. bind_with next_sp. intros [t r] [H1 H2]; cbn [fst snd] in *.
    assert (D : sp (fun p => (length (snd p) <= length toks)%nat) (Ok (acc, toks))) by (cbn [sp snd]; apply le_n).
    destruct t as [[k| | | | | | | |]|]; try exact D.
    assert (R : (length r < length toks)%nat) by (apply H2; discriminate).
    destruct k; try exact D.
    bind_with expect_tok_sp. intros r1 L1. bind_with expect_str_sp. intros [s r2] L2; cbn [snd] in L2.
    eapply sp_weaken; [apply IH; lia|]. intros p Hp; cbn beta in Hp. lia.
  Qed.

  Lemma parse_simple_sp n c k r : (length r < n)%nat ->
    sp (fun p => (length (snd p) < length r)%nat) (parse_simple stale_erange lend n c k r).
  Proof.
    intros L. unfold parse_simple. destruct k; try apply sp_fail.
    - (* delay *)
      bind_with expect_num_sp. intros [s r1] L1; cbn [snd] in L1. bind_with do_time_sp. intros _ _. cbn [sp snd]. assumption.
    - (* expect *)
      bind_with expect_str_sp. intros [s r1] L1; cbn [snd] in L1. cbn [sp snd]. assumption.
    - (* send *)
      bind_with expect_str_sp. intros [s r1] L1; cbn [snd] in L1. cbn [sp snd]. assumption.
    - (* setplugstate *)
      bind_with next_sp. intros [t1 r1] [H1 H2]; cbn [fst snd] in *.
      destruct t1 as [[k| |lit| | | | | |]|]; try apply sp_fail.
      + bind_with expect_tok_sp. intros r2 L2. bind_with expect_num_sp. intros [m2 r3] L3; cbn [snd] in L3.
        bind_with parse_state_interps_sp; [lia|]. intros [il r4] L4; cbn [snd] in L4.
        bind_with conv_mp_sp. intros mp2 _. cbn [sp snd]. lia.
      + bind_with expect_num_sp. intros [ma r2] L2; cbn [snd] in L2.
        bind_with next_sp. intros [t2 r3] [H3 H4]; cbn [fst snd] in *.
        destruct t2 as [[]|];
          try (bind_with parse_state_interps_sp; [lia|]; intros [il r4] L4; cbn [snd] in L4;
               bind_with conv_mp_sp; intros mp2 _; cbn [sp snd]; lia).
        bind_with expect_num_sp. intros [mb r4] L4; cbn [snd] in L4.
        assert (length r3 < length r2)%nat by (apply H4; discriminate).
        bind_with parse_state_interps_sp; [lia|]. intros [il r5] L5; cbn [snd] in L5.
        bind_with conv_mp_sp. intros mp1 _. bind_with conv_mp_sp. intros mp2 _. cbn [sp snd]. lia.
    - (* setresult *)
      bind_with expect_tok_sp. intros r1 L1. bind_with expect_num_sp. intros [ma r2] L2; cbn [snd] in L2.
      bind_with expect_tok_sp. intros r3 L3. bind_with expect_num_sp. intros [mb r4] L4; cbn [snd] in L4.
      bind_with parse_result_interps_sp; [lia|]. intros [il r5] L5; cbn [snd] in L5.
      destruct il; [apply sp_fail|].
      bind_with conv_mp_sp. intros mp1 _. bind_with conv_mp_sp. intros mp2 _. cbn [sp snd]. lia.
  Qed.

  Lemma parse_stmts_sp : forall n c toks acc, (length toks < n)%nat ->
    sp (fun p => (length (snd p) < length toks)%nat) (parse_stmts stale_erange lend n c toks acc).
  Proof.
    induction n as [|n IH]; intros c toks acc L; [lia|].
    cbn [parse_stmts]. bind_with next_sp. intros [t r] [H1 H2]; cbn [fst snd] in *.
    destruct t as [t|]; [|apply sp_fail].
    assert (R : (length r < length toks)%nat) by (apply H2; discriminate).
    destruct t; try apply sp_fail.
    - destruct (is_block_kw k).
      + bind_with expect_tok_sp. intros r1 L1.
        eapply sp_bind; [apply IH; lia|]. intros [b r2] L2; cbn [snd] in L2.
        eapply sp_weaken; [apply IH; lia|]. intros p Hp; cbn beta in Hp. lia.
      + eapply sp_bind; [apply parse_simple_sp; lia|]. intros [s r1] L1; cbn [snd] in L1.
        eapply sp_weaken; [apply IH; lia|]. intros p Hp; cbn beta in Hp. lia.
    - destruct acc; [apply sp_fail|]. cbn [sp snd]. assumption.
  Qed.

  Lemma parse_strings_sp : forall n c toks acc, (length toks < n)%nat ->
    sp (fun p => (length (snd p) < length toks)%nat) (parse_strings lend n c toks acc).
  Proof.
    induction n as [|n IH]; intros c toks acc L; [lia|].
    cbn [parse_strings]. bind_with next_sp. intros [t r] [H1 H2]; cbn [fst snd] in *.
    destruct t as [t|]; [|apply sp_fail].
    assert (R : (length r < length toks)%nat) by (apply H2; discriminate).
    destruct t; try apply sp_fail.
    - destruct (plugnames_checked && mem_text s acc); [apply sp_fail|].
      eapply sp_weaken; [apply IH; lia|]. intros p Hp; cbn beta in Hp. lia.
    - destruct acc; [apply sp_fail|]. cbn [sp snd]. assumption.
  Qed.

  Lemma parse_spec_items_sp : forall n c toks sp0 k, (length toks < n)%nat ->
    sp (fun p => (length (snd p) < length toks)%nat) (parse_spec_items stale_erange lend n c toks sp0 k).
  Proof.
    induction n as [|n IH]; intros c toks sp0 k L; [lia|].
    cbn [parse_spec_items]. bind_with next_sp. intros [t r] [H1 H2]; cbn [fst snd] in *.
    destruct t as [t|]; [|apply sp_fail].
    assert (R : (length r < length toks)%nat) by (apply H2; discriminate).
    destruct t as [kw0| | | | | | | |]; try apply sp_fail.
    - destruct kw0; try apply sp_fail.
      + (* timeout *)
        bind_with expect_num_sp. intros [s r1] L1; cbn [snd] in L1. bind_with do_time_sp. intros _ _.
        eapply sp_weaken; [apply IH; lia|]. intros p Hp; cbn beta in Hp. lia.
      + (* pingperiod *)
        bind_with expect_num_sp. intros [s r1] L1; cbn [snd] in L1. bind_with do_time_sp. intros _ _.
        eapply sp_weaken; [apply IH; lia|]. intros p Hp; cbn beta in Hp. lia.
      + (* script *)
        bind_with next_sp. intros [t1 r1] [H3 H4]; cbn [fst snd] in *.
        destruct t1 as [[k1| | | | | | | |]|]; try apply sp_fail.
        destruct (assoc_kw k1 script_table); [|apply sp_fail].
        bind_with expect_tok_sp. intros r2 L2.
        eapply sp_bind; [apply parse_stmts_sp; lia|]. intros [b r3] L3; cbn [snd] in L3.
        destruct (has_script z (ss_scripts sp0)); [apply sp_fail|].
        eapply sp_weaken; [apply IH; lia|]. intros p Hp; cbn beta in Hp. lia.
    - (* plug name *)
      bind_with expect_tok_sp. intros r1 L1.
      eapply sp_bind; [apply parse_strings_sp; lia|]. intros [l r2] L2; cbn [snd] in L2.
      destruct (ss_plugs sp0); [apply sp_fail|].
      eapply sp_weaken; [apply IH; lia|]. intros p Hp; cbn beta in Hp. lia.
    - destruct k; [apply sp_fail|]. cbn [sp snd]. assumption.
  Qed.

  (* ---------------------------------------------------------------- the configuration invariant *)
  Definition login_ok (s : spec_s) : Prop := has_script pm_log_in (ss_scripts s) = true.

  Definition cinv (c : cfg) : Prop :=
    (forall s, In s (c_specs c) -> login_ok s) /\ forallb dev_mandatory_ok (c_devs c) = true.

  Lemma cinv_empty : cinv cfg_empty.
  Proof. split; [intros s []|reflexivity]. Qed.

  Lemma dev_ok_of_login d : d_login d = true -> dev_mandatory_ok d = true.
  Proof.
    intros H. unfold dev_mandatory_ok. rewrite H, gen_matchpos_unused_ok, gen_arglist_null_ok, gen_serial_flags_optional.
    destruct (d_transport d) as [|[f|]|]; reflexivity.
  Qed.

  Lemma find_spec_in name : forall l s, find_spec name l = Some s -> In s l.
  Proof.
    induction l as [|x r IH]; intros s H; cbn [find_spec] in H; [discriminate|].
    destruct (text_eqb (ss_name x) name).
    - inversion H; subst. left; reflexivity.
    - right. apply IH; assumption.
  Qed.

  Lemma parse_hoststr_sp c host flags : sp (fun _ => True) (parse_hoststr resolves is_chardev stale_erange c host flags).
  Proof.
    unfold parse_hoststr.
    destruct (contains_pipe host).
    { destruct (pipe_empty_refused && _); [apply sp_fail | exact I]. }
    destruct (match host with sl :: _ => N.eqb sl 47 | [] => false end).
    { destruct (is_chardev host); [|apply sp_fail]. destruct flags; [exact I|]. rewrite gen_serial_flags_optional. exact I. }
    destruct (span _ host) as [h rest]. destruct rest as [|colon port]; [apply sp_fail|].
    eapply sp_bind; [apply do_strtolong_sp|]. intros v _.
    destruct (_ || _)%bool; [apply sp_fail|]. destruct (negb _); [apply sp_fail|]. destruct (resolves h port); [exact I | apply sp_fail].
  Qed.

  Lemma make_device_sp c name spec host flags :
    cinv c -> sp cinv (make_device regcomp_ok resolves is_chardev stale_erange c name spec host flags).
  Proof.
    intros [C1 C2]. unfold make_device. destruct (find_spec spec (c_specs c)) as [s|] eqn:F; [|apply sp_fail].
    eapply sp_bind; [apply parse_hoststr_sp|]. intros tr _.
    destruct (forallb (regex_ok regcomp_ok) _); [|apply sp_fail].
    cbn [sp]. split; cbn [c_specs c_devs]; [assumption|].
    rewrite forallb_app, C2. cbn [forallb andb]. rewrite andb_true_r.
    apply dev_ok_of_login. cbn [d_login]. apply C1. eapply find_spec_in; eassumption.
  Qed.

  Lemma update_dev_forallb (P : dev_s -> bool) name (f : dev_s -> nat + dev_s) :
    (forall d d', f d = inr d' -> P d = true -> P d' = true) ->
    forall l l', forallb P l = true -> update_dev name f l = Some (inr l') -> forallb P l' = true.
  Proof.
    intros Hf. induction l as [|d r IH]; intros l' H U; cbn [update_dev] in U; [discriminate|].
    cbn [forallb] in H. apply andb_true_iff in H as [H1 H2].
    destruct (text_eqb (d_name d) name).
    - destruct (f d) as [e|d'] eqn:E; inversion U; subst. cbn [forallb]. rewrite H2, (Hf _ _ E H1). reflexivity.
    - destruct (update_dev name f r) as [[e|r']|]; inversion U; subst.
      cbn [forallb]. rewrite H1. cbn [andb]. apply IH; [assumption | reflexivity].
  Qed.

  Lemma make_node_sp c nodestr devstr plugstr :
    cinv c -> sp cinv (make_node hl_expand c nodestr devstr plugstr).
  Proof.
    intros [C1 C2]. unfold make_node.
    destruct (update_dev devstr (fun d => inr d) (c_devs c)); [|apply sp_fail].
    destruct (hl_expand nodestr) as [nodes|]; [|apply sp_fail].
    destruct (match plugstr with None => Some None | Some p => match hl_expand p with None => None | Some l => Some (Some l) end end) as [plugs|]; [|apply sp_fail].
    match goal with |- context [update_dev devstr ?f (c_devs c)] => destruct (update_dev devstr f (c_devs c)) as [[e|devs]|] eqn:U end;
      try apply sp_fail.
    destruct (add_nodes (c_nodes c) nodes); [|apply sp_fail].
    cbn [sp]. split; cbn [c_specs c_devs]; [assumption|].
    eapply update_dev_forallb; [|exact C2|exact U].
    intros d d' E Hd. cbn beta in E.
    destruct (match plugs with None => _ | Some ps => _ end) as [e|pl]; inversion E; subst.
    unfold dev_mandatory_ok in *. cbn [d_login d_transport d_internal_args]. exact Hd.
  Qed.

  Lemma make_alias_sp c name hosts : cinv c -> sp cinv (make_alias hl_expand c name hosts).
  Proof.
    intros C. unfold make_alias. destruct (alias_find name (c_aliases c)); [apply sp_fail|].
    destruct (hl_expand hosts); [|apply sp_fail]. cbn [sp]. destruct C; split; assumption.
  Qed.

  Lemma set_tcpwrap_sp c v : cinv c -> sp cinv (set_tcpwrap c v).
  Proof. intros C. unfold set_tcpwrap. destruct (v && negb have_tcp_wrappers); [apply sp_fail | exact C]. Qed.

  Lemma validate_sp c : cinv c -> sp cinv (validate c).
  Proof. intros C. unfold validate. destruct (_ && _); [exact C | apply sp_fail]. Qed.

  Lemma parse_items_sp : forall n c toks, cinv c -> (length toks < n)%nat ->
    sp cinv (parse_items hl_expand regcomp_ok resolves is_chardev stale_erange lend n c toks).
  Proof.
    induction n as [|n IH]; intros c toks C L; [lia|].
    cbn [parse_items]. bind_with next_sp. intros [t r] [H1 H2]; cbn [fst snd] in *.
    destruct t as [t|]; [|apply validate_sp; assumption].
    assert (R : (length r < length toks)%nat) by (apply H2; discriminate).
    destruct t as [k| | | | | | | |]; try apply sp_fail.
    destruct k; try apply sp_fail.
    - (* alias *)
      bind_with expect_str_sp. intros [s1 r1] L1; cbn [snd] in L1. bind_with expect_str_sp. intros [s2 r2] L2; cbn [snd] in L2.
      eapply sp_bind; [apply make_alias_sp; assumption|]. intros c' C'. apply IH; [assumption | lia].
    - (* device *)
      bind_with expect_str_sp. intros [s1 r1] L1; cbn [snd] in L1. bind_with expect_str_sp. intros [s2 r2] L2; cbn [snd] in L2.
      bind_with expect_str_sp. intros [s3 r3] L3; cbn [snd] in L3.
      bind_with next_sp. intros [t4 r4] [H3 H4]; cbn [fst snd] in *.
      assert (D : sp cinv (bind (make_device regcomp_ok resolves is_chardev stale_erange c s1 s2 s3 None)
                             (fun c' => parse_items hl_expand regcomp_ok resolves is_chardev stale_erange lend n c' r3))).
      { eapply sp_bind; [apply make_device_sp; assumption|]. intros c' C'. apply IH; [assumption | lia]. }
      destruct t4 as [[]|]; try exact D.
      eapply sp_bind; [apply make_device_sp; assumption|]. intros c' C'. apply IH; [assumption | lia].
    - (* listen *)
      bind_with expect_str_sp. intros [s1 r1] L1; cbn [snd] in L1. apply IH; [destruct C; split; assumption | lia].
    - (* node *)
      bind_with expect_str_sp. intros [s1 r1] L1; cbn [snd] in L1. bind_with expect_str_sp. intros [s2 r2] L2; cbn [snd] in L2.
      bind_with next_sp. intros [t3 r3] [H3 H4]; cbn [fst snd] in *.
      assert (D : sp cinv (bind (make_node hl_expand c s1 s2 None)
                             (fun c' => parse_items hl_expand regcomp_ok resolves is_chardev stale_erange lend n c' r2))).
      { eapply sp_bind; [apply make_node_sp; assumption|]. intros c' C'. apply IH; [assumption | lia]. }
      destruct t3 as [[]|]; try exact D.
      eapply sp_bind; [apply make_node_sp; assumption|]. intros c' C'. apply IH; [assumption | lia].
    - (* plug_log_level *)
      bind_with expect_str_sp. intros [s1 r1] L1; cbn [snd] in L1.
      destruct (mem_text s1 level_names); [apply IH; [assumption | lia] | apply sp_fail].
    - (* specification *)
      bind_with expect_str_sp. intros [name r1] L1; cbn [snd] in L1.
      bind_with expect_tok_sp. intros r2 L2.
      eapply sp_bind; [apply parse_spec_items_sp; lia|]. intros [s r3] L3; cbn [snd] in L3.
      rewrite gen_login_required. cbn [andb].
      destruct (has_script pm_log_in (ss_scripts s)) eqn:HL; cbn [negb]; [|apply sp_fail].
      apply IH; [|lia]. destruct C as [C1 C2]. split; cbn [c_specs c_devs]; [|assumption].
      intros s' Hin. apply in_app_or in Hin as [Hin|[<-|[]]]; [apply C1; assumption | exact HL].
    - (* tcpwrappers *)
      bind_with next_sp. intros [t1 r1] [H3 H4]; cbn [fst snd] in *.
      assert (D : sp cinv (bind (set_tcpwrap (mkCfg (c_specs c) (c_devs c) (c_nodes c) (c_aliases c) (c_listen c) true) true)
                             (fun c' => parse_items hl_expand regcomp_ok resolves is_chardev stale_erange lend n c' r))).
      { eapply sp_bind; [apply set_tcpwrap_sp; destruct C; split; assumption|]. intros c' C'. apply IH; [assumption | lia]. }
      destruct t1 as [[k1| | | | | | | |]|]; try exact D.
      destruct k1; try exact D.
      all: eapply sp_bind; [apply set_tcpwrap_sp; assumption|]; intros c' C'; apply IH; [assumption|];
        assert (length r1 < length r)%nat by (apply H4; discriminate); lia.
  Qed.

  Lemma load_stream_sp toks : sp cinv (load_stream hl_expand regcomp_ok resolves is_chardev stale_erange lend toks).
  Proof. unfold load_stream. apply parse_items_sp; [apply cinv_empty | lia]. Qed.

End LoadProofs.

(* ------------------------------------------------------------------ exported statements *)
Theorem load_stream_total : forall hl_expand regcomp_ok resolves is_chardev stale_erange lend toks,
  lend_ok lend ->
  (exists c, load_stream hl_expand regcomp_ok resolves is_chardev stale_erange lend toks = Ok c) \/
  (exists s, load_stream hl_expand regcomp_ok resolves is_chardev stale_erange lend toks = Exit 1 s).
Proof.
  intros hl re gai chr stale lend toks H. pose proof (load_stream_sp hl re gai chr stale lend H toks) as S.
  destruct (load_stream hl re gai chr stale lend toks); cbn [sp] in S; try contradiction.
  - left; eexists; reflexivity.
  - subst. right; eexists; reflexivity.
Qed.

Theorem load_stream_accepted : forall hl_expand regcomp_ok resolves is_chardev stale_erange lend toks c,
  lend_ok lend ->
  load_stream hl_expand regcomp_ok resolves is_chardev stale_erange lend toks = Ok c -> mandatory_ok c = true.
Proof.
  intros hl re gai chr stale lend toks c H E. pose proof (load_stream_sp hl re gai chr stale lend H toks) as S.
  rewrite E in S. cbn [sp] in S. destruct S as [_ S]. exact S.
Qed.
