(* Totality and frame properties of one statement / one do-while round of the script interpreter, as the
   device state machine (Model/Device.v) uses it.  Everything C07 / C10 / C12 / C04 / C05 need to know about
   [process_stmt] and [do_while] is collected in ONE post-condition record [stmt_post], proved by one case
   analysis over the nine statement handlers. *)
From Coq Require Import List NArith ZArith Bool Lia.
From PM Require Import Base.Bytes Base.Outcome Base.Dec Gen.GenConsts Model.ScriptAst Model.Enqueue Model.Script.
Import ListNotations.
Local Open Scope Z_scope.

Definition no_crash {A} (o : outcome A) : Prop := match o with Ok _ | Hang _ => True | _ => False end.

Definition opt_incl (o : option (list plug)) (plugs : list plug) : Prop :=
  match o with Some l => incl l plugs | None => True end.

Definition same_id (a a' : action) : Prop :=
  a_com a' = a_com a /\ a_client a' = a_client a /\ a_hascb a' = a_hascb a /\ a_tele a' = a_tele a /\
  a_hasdiag a' = a_hasdiag a /\ a_stamp a' = a_stamp a /\ a_args a' = a_args a.

Lemma same_id_refl a : same_id a a.
Proof. repeat split. Qed.
Lemma same_id_trans a b c : same_id a b -> same_id b c -> same_id a c.
Proof. unfold same_id. intuition congruence. Qed.

(* events a script statement can produce (never a completion, a connect, a disconnect, descriptor I/O) *)
Definition ev_script (e : ev) : bool :=
  match e with EvSent _ | EvTele _ _ | EvDiag _ _ | EvMatched _ => true | _ => false end.
Definition sent_bytes (evs : list ev) : text := flat_map (fun e => match e with EvSent b => b | _ => [] end) evs.

Lemma sent_bytes_cons_sent b l : sent_bytes (EvSent b :: l) = b ++ sent_bytes l.
Proof. reflexivity. Qed.
Lemma sent_bytes_app a b : sent_bytes (a ++ b) = sent_bytes a ++ sent_bytes b.
Proof. unfold sent_bytes. apply flat_map_app. Qed.

Lemma min_tmo_assoc a b c : min_tmo (min_tmo a b) c = min_tmo a (min_tmo b c).
Proof. destruct a, b, c; cbn [min_tmo]; try reflexivity. now rewrite Z.min_assoc. Qed.
Lemma min_tmo_pos a b : (forall v, a = Some v -> 0 < v) -> (forall v, b = Some v -> 0 < v) -> forall v, min_tmo a b = Some v -> 0 < v.
Proof.
  destruct a as [x|], b as [y|]; cbn [min_tmo]; intros Ha Hb v E; inversion E; subst; auto.
  specialize (Ha x eq_refl). specialize (Hb y eq_refl). lia.
Qed.

Section Stmt.
  Variable rmatch : text -> text -> option pmatch.
  Variable compress : list text -> text.
  Variable sc : bool.

  (* ---------- what the parser / the configuration guarantee about a device's scripts ----------
     a format has at most one %s and otherwise only %% (C17 checks the shipped files, C18 the parser): hsprintf is defined on it
     for whatever argument the plug list gives.  NO bound on the length of the formatted string: since the repair of F38 a string
     that does not fit dev->to overwrites the oldest unsent bytes instead of tripping an assert (and a bound quantified over all
     plug lists `incl`uded in the device's plugs - arbitrarily long with repetitions - would be unsatisfiable for a format with %s
     under any host-range compression whose output grows with its input) *)
  Definition fmt_ok (plugs : list plug) (fmt : text) : Prop :=
    forall ps, opt_incl ps plugs ->
      exists str, hsprintf1 fmt (send_arg compress (new_ctx [] ps)) = Some str.

  Fixpoint wf_stmt (plugs : list plug) (s : stmt) : Prop :=
    match s with
    | Send fmt => fmt_ok plugs fmt
    | ForeachPlug b | ForeachNode b | IfOn b | IfOff b =>
        b <> [] /\ (fix go (l : list stmt) : Prop := match l with [] => True | x :: r => wf_stmt plugs x /\ go r end) b
    | _ => True
    end.
  (* blocks are never empty: `stmt_list : stmt_list stmt | stmt` in parse_tab.y *)
  Definition wf_block (plugs : list plug) (b : list stmt) : Prop := b <> [] /\ Forall (wf_stmt plugs) b.

  Lemma wf_go_forall plugs b :
    (fix go (l : list stmt) : Prop := match l with [] => True | x :: r => wf_stmt plugs x /\ go r end) b <-> Forall (wf_stmt plugs) b.
  Proof.
    induction b as [|x r IH].
    - split; intros _; [constructor|exact I].
    - split; intros H.
      + destruct H as [H1 H2]. constructor; [exact H1|now apply IH].
      + inversion H; subst. split; [assumption|now apply IH].
  Qed.
  Lemma wf_body plugs s b : (s = ForeachPlug b \/ s = ForeachNode b \/ s = IfOn b \/ s = IfOff b) -> wf_stmt plugs s -> wf_block plugs b.
  Proof. intros [->|[->|[->| ->]]] H; cbn [wf_stmt] in H; destruct H as [H1 H2]; (split; [exact H1|now apply wf_go_forall]). Qed.

  Definition wf_ctx (plugs : list plug) (com : Z) (e : ctx) : Prop :=
    (exists s, cur e = Some s) /\ wf_block plugs (c_block e) /\ opt_incl (c_plugs e) plugs /\ opt_incl (c_pluglist e) plugs
    /\ (is_ranged_com com = true -> c_plugs e <> None).

  Definition wf_action (plugs : list plug) (a : action) : Prop :=
    a_exec a <> [] /\ Forall (wf_ctx plugs (a_com a)) (a_exec a) /\ (a_args a <> None -> a_hasdiag a = true).

  (* dev->to is empty unless the statement in progress is a send that has queued its string *)
  Definition inv_to (sd : sdev) (a : action) : Prop :=
    sd_to sd = [] \/ exists e rest fmt, a_exec a = e :: rest /\ cur e = Some (Send fmt) /\ c_processing e = true.

  Record stmt_post (sd : sdev) (a : action) (store : list arglist) (fin : bool) (sd' : sdev) (a' : action) (store' : list arglist)
         (evs : list ev) (t : option Z) : Prop := {
    sp_wf : wf_action (sd_plugs sd) a';
    sp_plugs : sd_plugs sd' = sd_plugs sd;
    sp_name : sd_name sd' = sd_name sd;
    sp_fin : fin = true -> sd_to sd' = [];
    sp_stall : fin = false -> inv_to sd' a';
    sp_id : same_id a a';
    sp_evs : forallb ev_script evs = true;
    sp_tmo : forall v, t = Some v -> 0 < v;
    (* the bytes queued are exactly the strings of the send statements, as long as they fit the buffer *)
    sp_sent : (length (sd_to sd ++ sent_bytes evs) <= Z.to_nat MAX_DEV_BUF)%nat -> sd_to sd' = sd_to sd ++ sent_bytes evs;
    sp_store : length store' = length store /\ forall j, a_args a <> Some j -> nth_error store' j = nth_error store j
  }.

  Lemma stmt_post_trans sd a st f1 sd1 a1 st1 e1 t1 f2 sd2 a2 st2 e2 t2 :
    stmt_post sd a st f1 sd1 a1 st1 e1 t1 -> stmt_post sd1 a1 st1 f2 sd2 a2 st2 e2 t2 ->
    stmt_post sd a st f2 sd2 a2 st2 (e1 ++ e2) (min_tmo t1 t2).
  Proof.
    intros [w1 p1 n1 _ _ i1 v1 m1 s1 [l1 q1]] [w2 p2 n2 fi2 stl2 i2 v2 m2 s2 [l2 q2]].
    constructor; try assumption.
    - now rewrite p1 in w2.
    - congruence. - congruence.
    - eapply same_id_trans; eassumption.
    - rewrite forallb_app, v1, v2. reflexivity.
    - apply min_tmo_pos; assumption.
    - rewrite sent_bytes_app, app_assoc. intros Hfit. pose proof Hfit as Hfit'. rewrite app_length in Hfit'. rewrite s2, s1; [reflexivity|lia|rewrite s1; [exact Hfit|lia]].
    - split; [congruence|]. intros j Hj. rewrite q2, q1; auto.
      destruct i1 as (_ & _ & _ & _ & _ & _ & Ea). rewrite Ea. exact Hj.
  Qed.

  (* ---------- small facts ---------- *)
  Lemma wf_ctx_proc plugs com e p : wf_ctx plugs com e -> wf_ctx plugs com (set_processing p e).
  Proof. intros H. exact H. Qed.
  Lemma wf_ctx_itr plugs com e i : wf_ctx plugs com e -> wf_ctx plugs com (set_plugitr i e).
  Proof. intros H. exact H. Qed.

  Lemma tele_script a m : forallb ev_script (tele a m) = true /\ sent_bytes (tele a m) = [].
  Proof. unfold tele. destruct (a_tele a); split; reflexivity. Qed.

  Lemma next_plug_from_in b : forall l i p i', next_plug_from b l i = Some (p, i') -> In p l.
  Proof.
    induction l as [|x r IH]; intros i p i' H; cbn [next_plug_from] in H; [discriminate|].
    destruct (b && unmapped x).
    - right. eapply IH; eassumption.
    - inversion H; subst. left. reflexivity.
  Qed.
  Lemma skipn_incl {A} : forall n (l : list A), incl (skipn n l) l.
  Proof. induction n as [|n IH]; intros [|x l]; cbn [skipn]; try apply incl_refl. apply incl_tl, IH. Qed.
  Lemma next_plug_in b l i p i' : next_plug b l i = Some (p, i') -> In p l.
  Proof. unfold next_plug. intros H. apply next_plug_from_in in H. eapply skipn_incl; eassumption. Qed.

  Lemma send_arg_new e : send_arg compress e = send_arg compress (new_ctx [] (c_plugs e)).
  Proof. reflexivity. Qed.

  Lemma wf_cur_stmt plugs com e s : wf_ctx plugs com e -> cur e = Some s -> wf_stmt plugs s.
  Proof.
    intros (_ & (_ & Hb) & _) Hc. unfold cur in Hc. apply nth_error_In in Hc.
    rewrite Forall_forall in Hb. now apply Hb.
  Qed.

  Lemma new_ctx_wf plugs com body ps :
    wf_block plugs body -> incl ps plugs -> wf_ctx plugs com (new_ctx body (Some ps)).
  Proof.
    intros [Hne Hb] Hi. unfold wf_ctx, new_ctx, cur. cbn.
    repeat split; auto; try discriminate.
    destruct body as [|s r]; [congruence|]. exists s. reflexivity.
  Qed.

  (* ---------- the post-condition of one statement, handler by handler ---------- *)
  Section Handlers.
    Variable now : Z.
    Variable sd : sdev.
    Variable a : action.
    Variable store : list arglist.
    Variable e : ctx.
    Variable rest : list ctx.
    Hypothesis Ex : a_exec a = e :: rest.
    Hypothesis Hwfe : wf_ctx (sd_plugs sd) (a_com a) e.
    Hypothesis Hrest : Forall (wf_ctx (sd_plugs sd) (a_com a)) rest.
    Hypothesis Hdiag : a_args a <> None -> a_hasdiag a = true.

    Definition post1 (r : outcome sres) (t : option Z) : Prop :=
      match r with Ok (fin, sd', a', store', evs) => stmt_post sd a store fin sd' a' store' evs t | _ => False end.

    Lemma Hwa : forall e' a0, same_id a a0 -> wf_ctx (sd_plugs sd) (a_com a) e' -> wf_action (sd_plugs sd) (put_top e' rest a0).
    Proof.
      intros e' a0 (Ec & _ & _ & _ & Ed & _ & Ea) He'. unfold put_top, wf_action. cbn.
      split; [discriminate|]. rewrite Ec, Ed, Ea. split; [constructor; assumption|exact Hdiag].
    Qed.
    Lemma Hwa0 : wf_action (sd_plugs sd) a.
    Proof. unfold wf_action. rewrite Ex. split; [discriminate|]. split; [constructor; assumption|exact Hdiag]. Qed.
    Lemma Hwpush : forall c e' a0, same_id a a0 -> wf_ctx (sd_plugs sd) (a_com a) c -> wf_ctx (sd_plugs sd) (a_com a) e' ->
      wf_action (sd_plugs sd) (set_exec (c :: e' :: rest) a0).
    Proof.
      intros c e' a0 (Ec & _ & _ & _ & Ed & _ & Ea) Hc He'. unfold wf_action. cbn.
      split; [discriminate|]. rewrite Ec, Ed, Ea. split; [constructor; [assumption|constructor; assumption]|exact Hdiag].
    Qed.
    Lemma store_same : length store = length store /\ forall j, a_args a <> Some j -> nth_error store j = nth_error store j.
    Proof. split; reflexivity. Qed.
    Lemma store_set_frame i al' : a_args a = Some i ->
      length (store_set store i al') = length store /\ forall j, a_args a <> Some j -> nth_error (store_set store i al') j = nth_error store j.
    Proof.
      intros Hi. split.
      - clear. revert i. induction store as [|x r IH]; intros [|i]; cbn [store_set length]; auto.
      - intros j Hj. assert (H : i <> j) by congruence. clear - H. revert i j H.
        induction store as [|x r IH]; intros [|i] [|j] H; cbn [store_set nth_error]; auto; try congruence.
    Qed.

    Lemma send_props fmt : cur e = Some (Send fmt) -> inv_to sd a ->
      post1 (process_send compress now sd a store e rest fmt) None.
    Proof.
      intros Hs Hto. pose proof (wf_cur_stmt _ _ _ _ Hwfe Hs) as Hws. cbn [wf_stmt] in Hws.
      destruct Hwfe as (_ & _ & Hpl & _).
      unfold process_send, post1. destruct (c_processing e) eqn:Ep.
      - destruct (sd_to sd) as [|b0 r0] eqn:Et.
        + constructor; [apply Hwa; [apply same_id_refl|apply wf_ctx_proc, Hwfe] | reflexivity | reflexivity | intros _; exact Et | discriminate
                       | repeat split | reflexivity | discriminate | intros _; rewrite Et; reflexivity | apply store_same].
        + constructor; [apply Hwa; [apply same_id_refl|apply wf_ctx_proc, Hwfe] | reflexivity | reflexivity | discriminate
                       | intros _; right; exists (set_processing true e), rest, fmt; cbn; repeat split; auto
                       | repeat split | reflexivity | discriminate | intros _; rewrite Et; cbn; now rewrite app_nil_r | apply store_same].
      - assert (Et : sd_to sd = []).
        { destruct Hto as [H|(e0 & r0 & f0 & E1 & _ & E3)]; [exact H|]. rewrite Ex in E1. injection E1 as E1a E1b. subst e0 r0. congruence. }
        destruct (Hws (c_plugs e) Hpl) as (str & Hstr). rewrite send_arg_new, Hstr, Et.
        cbn [length]. rewrite Nat.sub_0_r.
        destruct (Nat.ltb (Z.to_nat MAX_DEV_BUF) (length str)) eqn:El.
        { (* the string does not fit even the empty buffer: since the repair of F38 its oldest bytes are overwritten (source fact) *)
          assert (Hfix : SEND_OVERRUN_ASSERT = false) by reflexivity. rewrite Hfix. apply Nat.ltb_lt in El.
          cbn [sd_to set_to app].
          destruct (lastn (Z.to_nat MAX_DEV_BUF) str) as [|c0 str0] eqn:Ela.
          - constructor; [apply Hwa; [apply same_id_refl|apply wf_ctx_proc, Hwfe] | reflexivity | reflexivity | intros _; reflexivity | discriminate
                         | repeat split | reflexivity | discriminate
                         | cbn [sent_bytes flat_map]; rewrite Et, app_nil_r; cbn [app]; intros Hfit; lia | apply store_same].
          - constructor; [apply Hwa; [apply same_id_refl|apply wf_ctx_proc, Hwfe] | reflexivity | reflexivity | discriminate
                         | intros _; right; exists (set_processing true e), rest, fmt; cbn; repeat split; auto
                         | repeat split | reflexivity | discriminate
                         | cbn [sent_bytes flat_map]; rewrite Et, app_nil_r; cbn [app]; intros Hfit; lia | apply store_same]. }
        cbn [sd_to set_to app]. pose proof (tele_script a (msg_send sd (memstr str))) as [Ht1 Ht2].
        destruct str as [|c0 str0].
        + constructor; [apply Hwa; [apply same_id_refl|apply wf_ctx_proc, Hwfe] | reflexivity | reflexivity | intros _; reflexivity | discriminate
                       | repeat split | cbn [forallb ev_script andb]; exact Ht1 | discriminate
                       | intros _; cbn [sd_to set_to]; rewrite Et, sent_bytes_cons_sent, Ht2; reflexivity | apply store_same].
        + constructor; [apply Hwa; [apply same_id_refl|apply wf_ctx_proc, Hwfe] | reflexivity | reflexivity | discriminate
                       | intros _; right; exists (set_processing true e), rest, fmt; cbn; repeat split; auto
                       | repeat split | cbn [forallb ev_script andb]; exact Ht1 | discriminate
                       | intros _; cbn [sd_to set_to]; rewrite Et, sent_bytes_cons_sent, Ht2, app_nil_r; reflexivity | apply store_same].
    Qed.

    Lemma expect_props re : sd_to sd = [] -> post1 (process_expect rmatch now sd a store re) None.
    Proof.
      intros Et. unfold process_expect, post1. cbn [sd_from set_xm].
      assert (G : forall x u f, stmt_post sd a store f (set_xm x u sd) a store [] None).
      { intros x u f. constructor; [apply Hwa0 | reflexivity | reflexivity | intros _; exact Et | intros _; left; exact Et
                        | apply same_id_refl | reflexivity | discriminate | intros _; cbn; now rewrite app_nil_r | apply store_same]. }
      destruct (sd_from sd) as [|b0 r0] eqn:Ef; [apply G|].
      destruct (rmatch re (nul_to_ff (b0 :: r0))) as [pm|]; [|apply G].
      destruct (nth_error pm 0) as [[[so eo]|]|]; try apply G.
      pose proof (tele_script a (msg_recv (set_xm None false sd) (memstr (firstn eo (nul_to_ff (b0 :: r0)))))) as [Ht1 Ht2]. unfold sent_bytes in Ht2.
      constructor; [apply Hwa0 | reflexivity | reflexivity | intros _; exact Et | discriminate
                   | apply same_id_refl | exact Ht1 | discriminate | intros _; cbn [sd_to set_xm set_from]; rewrite Et; unfold sent_bytes; cbn [flat_map app]; rewrite Ht2; reflexivity | apply store_same].
    Qed.

    Lemma delay_props us : sd_to sd = [] ->
      match process_delay sc now sd a store e rest us with Ok ((fin, sd', a', store', evs), t) => stmt_post sd a store fin sd' a' store' evs t | _ => False end.
    Proof.
      intros Et. unfold process_delay.
      pose proof (tele_script a ((bslit "delay(") ++ sd_name sd ++ (bslit "): ") ++ dec_z (us / 1000000) ++ [46%N] ++ dec_pad 6 (Z.to_N (us mod 1000000)))) as [Ht1 Ht2].
      destruct (c_processing e) eqn:Ep.
      - destruct (sc || (a_delay_start a + us <=? now)) eqn:C.
        + constructor; [apply Hwa; [apply same_id_refl|apply wf_ctx_proc, Hwfe] | reflexivity | reflexivity | intros _; exact Et | discriminate
                       | repeat split | reflexivity | discriminate | intros _; cbn; now rewrite app_nil_r | apply store_same].
        + apply orb_false_iff in C as [_ C]. apply Z.leb_gt in C.
          constructor; [apply Hwa; [apply same_id_refl|exact Hwfe] | reflexivity | reflexivity | discriminate | intros _; left; exact Et
                       | repeat split | reflexivity | intros v E; inversion E; subst; lia | intros _; cbn; now rewrite app_nil_r | apply store_same].
      - cbn [a_delay_start set_delay_start].
        assert (Hid : same_id a (set_delay_start now a)) by (repeat split).
        destruct (sc || (now + us <=? now)) eqn:C.
        + constructor; [apply Hwa; [exact Hid|apply wf_ctx_proc, Hwfe] | reflexivity | reflexivity | intros _; exact Et | discriminate
                       | repeat split | exact Ht1 | discriminate | intros _; rewrite Ht2, app_nil_r; reflexivity | apply store_same].
        + apply orb_false_iff in C as [_ C]. apply Z.leb_gt in C.
          constructor; [apply Hwa; [exact Hid|apply wf_ctx_proc, Hwfe] | reflexivity | reflexivity | discriminate | intros _; left; exact Et
                       | repeat split | exact Ht1 | intros v E; inversion E; subst; lia | intros _; rewrite Ht2, app_nil_r; reflexivity | apply store_same].
    Qed.

    Lemma same_state_post st' evs :
      sd_to sd = [] -> forallb ev_script evs = true -> sent_bytes evs = [] ->
      (length st' = length store /\ forall j, a_args a <> Some j -> nth_error st' j = nth_error store j) ->
      stmt_post sd a store true sd a st' evs None.
    Proof.
      intros Et He1 He2 Hst.
      constructor; [apply Hwa0 | reflexivity | reflexivity | intros _; exact Et | discriminate
                   | apply same_id_refl | exact He1 | discriminate | intros _; now rewrite He2, app_nil_r | exact Hst].
    Qed.

    Lemma sub_strdup_ok d i : exists o, sub_strdup d i = Ok o.
    Proof.
      unfold sub_strdup. destruct (negb _); [eauto|]. destruct (sd_xm d) as [[s pm]|]; [|eauto].
      destruct (_ || _); [eauto|]. destruct (nth_error pm _) as [[[so eo]|]|]; eauto.
    Qed.

    Ltac fin_same Et :=
      cbv beta iota;
      first [ apply same_state_post; [exact Et|reflexivity|reflexivity|apply store_same]
            | apply same_state_post; [exact Et|reflexivity|reflexivity|eapply store_set_frame; eassumption] ].

    Lemma setplugstate_props lit pmp smp ints : sd_to sd = [] ->
      post1 (process_setplugstate rmatch sd a store e lit pmp smp ints) None.
    Proof.
      intros Et. unfold process_setplugstate, post1.
      destruct (sub_strdup_ok sd pmp) as [o1 E1]. destruct (sub_strdup_ok sd smp) as [o2 E2].
      assert (G : forall pn,
        match (match sub_strdup sd smp with
               | Ok ostr =>
                 match ostr, find_plug sd pn with
                 | Some str, Some (_, node) =>
                     let st := first_interp rmatch ints str ST_UNKNOWN in
                     match a_args a, get_args store a with
                     | Some i, Some al =>
                         let al' := arg_update al node (fun x => mkArg (ar_node x) st (ar_result x) (Some str)) in
                         Ok (true, sd, a, store_set store i al', @nil ev)
                     | _, _ => Ok (true, sd, a, store, [])
                     end
                 | _, _ => Ok (true, sd, a, store, [])
                 end
               | Exit c s => Exit c s | Abort s => Abort s | MemErr s => MemErr s | Hang s => Hang s
               end) with
        | Ok (fin, sd', a', store', evs) => stmt_post sd a store fin sd' a' store' evs None
        | _ => False end).
      { intros pn. rewrite E2. destruct o2 as [str|]; [|fin_same Et].
        destruct (find_plug sd pn) as [[p node]|]; [|fin_same Et]. cbv zeta.
        destruct (a_args a) as [i|] eqn:Ea in |- *; [|fin_same Et].
        destruct (get_args store a) as [al|]; fin_same Et. }
      destruct lit as [l|]; [apply G|].
      rewrite E1. destruct o1 as [n|]; [apply G|].
      destruct (ctx_first_plug e) as [p|]; [apply G|fin_same Et].
    Qed.

    Lemma setresult_props pmp smp ints : sd_to sd = [] ->
      post1 (process_setresult rmatch sd a store e pmp smp ints) None.
    Proof.
      intros Et. unfold process_setresult, post1.
      destruct (sub_strdup_ok sd pmp) as [o1 E1]. destruct (sub_strdup_ok sd smp) as [o2 E2].
      rewrite E1. destruct o1 as [pn|]; [|fin_same Et].
      rewrite E2. destruct o2 as [str|]; [|fin_same Et].
      destruct (find_plug sd pn) as [[p node]|]; [|fin_same Et]. cbv zeta.
      destruct (a_args a) as [i|] eqn:Ea in |- *; [|fin_same Et].
      destruct (get_args store a) as [al|]; [|fin_same Et].
      destruct (arg_find al node); [|fin_same Et].
      destruct (Z.eqb _ RT_SUCCESS); [fin_same Et|].
      assert (Hd : a_hasdiag a = true) by (apply Hdiag; congruence). rewrite Hd. cbv beta iota.
      apply same_state_post; [exact Et|reflexivity|reflexivity|eapply store_set_frame; eassumption].
    Qed.

    Lemma foreach_props onlynodes body : sd_to sd = [] -> wf_block (sd_plugs sd) body ->
      post1 (process_foreach sd a store e rest onlynodes body) None.
    Proof.
      intros Et Hbody. unfold process_foreach, post1.
      destruct Hwfe as (Hcur & Hblk & Hpl & Hpll & Hrng).
      (* after initialisation: a context e0 that is well formed *)
      assert (G : forall e0, wf_ctx (sd_plugs sd) (a_com a) e0 ->
                 match (let lst := if is_ranged_com (a_com a) then match c_pluglist e0 with Some l => l | None => [] end else sd_plugs sd in
                        let i := match c_plugitr e0 with Some i => i | None => O end in
                        match next_plug onlynodes lst i with
                        | Some (p, i') => Ok (true, sd, set_exec (new_ctx body (Some [p]) :: set_plugitr (Some i') e0 :: rest) a, store, @nil ev)
                        | None => Ok (true, sd, put_top (set_plugitr None e0) rest a, store, [])
                        end) with
                 | Ok (fin, sd', a', store', evs) => stmt_post sd a store fin sd' a' store' evs None
                 | _ => False end).
      { intros e0 He0. cbv zeta.
        set (lst := if is_ranged_com (a_com a) then match c_pluglist e0 with Some l => l | None => [] end else sd_plugs sd).
        assert (Hl : incl lst (sd_plugs sd)).
        { unfold lst. destruct (is_ranged_com (a_com a)); [|apply incl_refl].
          destruct He0 as (_ & _ & _ & Hq & _). destruct (c_pluglist e0); [exact Hq|intros x []]. }
        destruct (next_plug onlynodes lst _) as [[p i']|] eqn:En.
        - apply next_plug_in in En.
          constructor; [apply Hwpush; [apply same_id_refl| apply new_ctx_wf; [exact Hbody|intros x [<-|[]]; now apply Hl] | apply wf_ctx_itr, He0]
                       | reflexivity | reflexivity | intros _; exact Et | discriminate
                       | repeat split | reflexivity | discriminate | intros _; cbn; now rewrite app_nil_r | apply store_same].
        - constructor; [apply Hwa; [apply same_id_refl|apply wf_ctx_itr, He0] | reflexivity | reflexivity | intros _; exact Et | discriminate
                       | repeat split | reflexivity | discriminate | intros _; cbn; now rewrite app_nil_r | apply store_same]. }
      destruct (c_plugitr e) as [it|] eqn:Eit.
      - apply G. exact Hwfe.
      - destruct (is_ranged_com (a_com a)) eqn:Er.
        + destruct (c_plugs e) as [ps|] eqn:Ecp; [|exfalso; now apply Hrng].
          apply G. destruct (c_pluglist e) eqn:Ecl.
          * apply wf_ctx_itr; exact Hwfe.
          * unfold wf_ctx, set_plugitr, set_pluglist, cur. cbn. rewrite Ecp. repeat split; auto; try discriminate; try apply Hblk.
        + apply G. apply wf_ctx_itr; exact Hwfe.
    Qed.

    Lemma ifonoff_props want body : sd_to sd = [] -> wf_block (sd_plugs sd) body ->
      post1 (process_ifonoff sd a store e rest want body) None.
    Proof.
      intros Et Hbody. unfold process_ifonoff, post1.
      destruct Hwfe as (Hcur & Hblk & Hpl & Hpll & Hrng).
      destruct (c_processing e) eqn:Ep.
      - constructor; [apply Hwa; [apply same_id_refl|apply wf_ctx_proc, Hwfe] | reflexivity | reflexivity | intros _; exact Et | discriminate
                     | repeat split | reflexivity | discriminate | intros _; cbn; now rewrite app_nil_r | apply store_same].
      - assert (G : forall st : Z,
                 match (let cond := (want && Z.eqb st ST_ON) || (negb want && Z.eqb st ST_OFF) in
                        let a1 := if negb cond && Z.eqb st ST_UNKNOWN then set_err ACT_EEXPFAIL a else a in
                        if cond then Ok (true, sd, set_exec (new_ctx body (match c_plugs e with Some ps => Some ps | None => Some [] end)
                                                  :: set_processing true e :: rest) a1, store, @nil ev)
                        else Ok (true, sd, a1, store, [])) with
                 | Ok (fin, sd', a', store', evs) => stmt_post sd a store fin sd' a' store' evs None
                 | _ => False end).
        { intros st. cbv zeta.
          set (a1 := if _ && _ then set_err ACT_EEXPFAIL a else a).
          assert (Hid : same_id a a1) by (unfold a1; destruct (_ && _); repeat split).
          assert (Hw1 : wf_action (sd_plugs sd) a1).
          { unfold a1. destruct (_ && _); [|apply Hwa0]. pose proof Hwa0 as (H1 & H2 & H3). unfold wf_action. cbn. auto. }
          destruct (_ || _).
          - constructor; [apply Hwpush; [exact Hid| | apply wf_ctx_proc, Hwfe]
                         | reflexivity | reflexivity | intros _; exact Et | discriminate
                         | destruct Hid as (?&?&?&?&?&?&?); repeat split; assumption | reflexivity | discriminate | intros _; cbn; now rewrite app_nil_r | apply store_same].
            destruct (c_plugs e) as [ps|] eqn:Ecp.
            + apply new_ctx_wf; [exact Hbody|exact Hpl].
            + apply new_ctx_wf; [exact Hbody|intros x []].
          - constructor; [exact Hw1 | reflexivity | reflexivity | intros _; exact Et | discriminate
                         | exact Hid | reflexivity | discriminate | intros _; cbn; now rewrite app_nil_r | apply store_same]. }
        destruct (c_plugs e) as [[|p ps]|]; try apply G.
        destruct (pl_node p); apply G.
    Qed.
  End Handlers.

  Lemma process_stmt_props now sd a store :
    wf_action (sd_plugs sd) a -> inv_to sd a ->
    match process_stmt rmatch compress sc now sd a store with
    | Ok ((fin, sd', a', store', evs), t) => stmt_post sd a store fin sd' a' store' evs t
    | _ => False
    end.
  Proof.
    intros (Hne & Hctx & Hdiag) Hto. unfold process_stmt.
    destruct (a_exec a) as [|e rest] eqn:Ex; [congruence|]. clear Hne.
    inversion Hctx as [|? ? Hwfe Hrest]; subst.
    pose proof Hwfe as He. destruct He as ((s & Hs) & _). rewrite Hs.
    pose proof (wf_cur_stmt _ _ _ _ Hwfe Hs) as Hws.
    assert (Hto0 : (forall fmt, s <> Send fmt) -> sd_to sd = []).
    { intros Hn. destruct Hto as [H|(e0 & r0 & fmt & E1 & E2 & _)]; [exact H|].
      rewrite Ex in E1. injection E1 as E1a E1b. subst e0 r0. rewrite Hs in E2. inversion E2; subst. exfalso. now apply (Hn fmt). }
    destruct s as [fmt|re|lit pmp smp ints|pmp smp ints|us|body|body|body|body].
    - assert (H : post1 sd a store (process_send compress now sd a store e rest fmt) None) by (apply send_props; auto).
      unfold post1 in H. destruct (process_send _ _ _ _ _ _ _ _) as [[[[[? ?] ?] ?] ?]| | | |]; cbn [omap bind]; exact H.
    - assert (H : post1 sd a store (process_expect rmatch now sd a store re) None) by (apply (expect_props now sd a store e rest); auto; apply Hto0; discriminate).
      unfold post1 in H. destruct (process_expect _ _ _ _ _ _) as [[[[[? ?] ?] ?] ?]| | | |]; cbn [omap bind]; exact H.
    - assert (H : post1 sd a store (process_setplugstate rmatch sd a store e lit pmp smp ints) None) by (apply (setplugstate_props sd a store e rest); auto; apply Hto0; discriminate).
      unfold post1 in H. destruct (process_setplugstate _ _ _ _ _ _ _ _ _) as [[[[[? ?] ?] ?] ?]| | | |]; cbn [omap bind]; exact H.
    - assert (H : post1 sd a store (process_setresult rmatch sd a store e pmp smp ints) None) by (apply (setresult_props sd a store e rest); auto; apply Hto0; discriminate).
      unfold post1 in H. destruct (process_setresult _ _ _ _ _ _ _ _) as [[[[[? ?] ?] ?] ?]| | | |]; cbn [omap bind]; exact H.
    - apply delay_props; auto. apply Hto0; discriminate.
    - assert (H : post1 sd a store (process_foreach sd a store e rest false body) None).
      { apply foreach_props; auto; [apply Hto0; discriminate|eapply wf_body; [|exact Hws]; auto]. }
      unfold post1 in H. destruct (process_foreach _ _ _ _ _ _ _) as [[[[[? ?] ?] ?] ?]| | | |]; cbn [omap bind]; exact H.
    - assert (H : post1 sd a store (process_foreach sd a store e rest true body) None).
      { apply foreach_props; auto; [apply Hto0; discriminate|eapply wf_body; [|exact Hws]; auto]. }
      unfold post1 in H. destruct (process_foreach _ _ _ _ _ _ _) as [[[[[? ?] ?] ?] ?]| | | |]; cbn [omap bind]; exact H.
    - assert (H : post1 sd a store (process_ifonoff sd a store e rest true body) None).
      { apply ifonoff_props; auto; [apply Hto0; discriminate|eapply wf_body; [|exact Hws]; auto]. }
      unfold post1 in H. destruct (process_ifonoff _ _ _ _ _ _ _) as [[[[[? ?] ?] ?] ?]| | | |]; cbn [omap bind]; exact H.
    - assert (H : post1 sd a store (process_ifonoff sd a store e rest false body) None).
      { apply ifonoff_props; auto; [apply Hto0; discriminate|eapply wf_body; [|exact Hws]; auto 6]. }
      unfold post1 in H. destruct (process_ifonoff _ _ _ _ _ _ _) as [[[[[? ?] ?] ?] ?]| | | |]; cbn [omap bind]; exact H.
  Qed.

  (* ---------- the do-while round: statements until one does not push a context ---------- *)
  Lemma do_while_props : forall fuel now sd a store acc tmo,
    wf_action (sd_plugs sd) a -> inv_to sd a ->
    match do_while rmatch compress sc fuel now sd a store acc tmo with
    | Ok ((fin, sd', a', store', evs), t) =>
        exists evs1 t1, evs = acc ++ evs1 /\ t = min_tmo tmo t1 /\ stmt_post sd a store fin sd' a' store' evs1 t1
    | Hang _ => True
    | _ => False
    end.
  Proof.
    induction fuel as [|f IH]; intros now sd a store acc tmo Hwf Hto; cbn [do_while]; [exact I|].
    pose proof (process_stmt_props now sd a store Hwf Hto) as H1.
    destruct (process_stmt rmatch compress sc now sd a store) as [[[[[[fin sd1] a1] st1] evs1] t1]| | | |]; try contradiction.
    destruct (Nat.ltb (length (a_exec a)) (length (a_exec a1))).
    - assert (Hwf1 : wf_action (sd_plugs sd1) a1) by (rewrite (sp_plugs _ _ _ _ _ _ _ _ _ H1); apply (sp_wf _ _ _ _ _ _ _ _ _ H1)).
      assert (Hto1 : inv_to sd1 a1).
      { destruct fin; [left; now apply (sp_fin _ _ _ _ _ _ _ _ _ H1)|now apply (sp_stall _ _ _ _ _ _ _ _ _ H1)]. }
      specialize (IH now sd1 a1 st1 (acc ++ evs1) (min_tmo tmo t1) Hwf1 Hto1).
      destruct (do_while rmatch compress sc f now sd1 a1 st1 (acc ++ evs1) (min_tmo tmo t1)) as [[[[[[fin2 sd2] a2] st2] evs2] t2]| | | |]; try contradiction; [|exact I].
      destruct IH as (e2 & t2' & -> & -> & P2).
      exists (evs1 ++ e2), (min_tmo t1 t2'). split; [now rewrite app_assoc|]. split; [apply min_tmo_assoc|].
      eapply stmt_post_trans; eassumption.
    - exists evs1, t1. auto.
  Qed.
End Stmt.
